//! C16 / C15, spec -> impl and impl -> spec: CharacterData / Text operations on real nodes.
//!
//! `dom-chardata --in <TLC dump of MC_CharData> --out <trace>`: for every state (a data string) and every
//! call of the dumped transition relation, build a real node holding that data in every *variant* that fits
//! the specification kind, fire the call, and record what happened: outcome, returned value, data and length
//! afterwards, the sibling pair after split_text, and - after every call that reports success - whether the
//! document still serializes to text that parses back to the same content.  Then seeded random walks over
//! the graph (several calls on one node).  Everything is judged by Trace_CharData.tla; the fast path here
//! only decides which events need not be written (`--all` writes every event).

use crate::util::*;
use rand::rngs::StdRng;
use rand::{Rng, SeedableRng};
use serde_json::{json, Value as J};
use std::collections::HashMap;
use std::io::Write;
use xml_dom::{
    AsNode, Attr, NamedNodeMap, AttrMut, CharacterData, CharacterDataMut, Document, DocumentMut, Element, ElementMut, Node,
    NodeMut, ProcessingInstruction, ProcessingInstructionMut, TextMut, XmlDocument, XmlNode,
};

pub fn main(sub: &str, args: &[String]) -> i32 {
    match sub {
        "dom-chardata" => chardata(args),
        "dom-factory" => factory(args),
        "dom-attrs" => elem_attrs(args),
        "dom-attrmove" => attr_move(args),
        "dom-attrq" => attr_qname(args),
        "dom-chardata-rerun" => rerun(args),
        _ => {
            eprintln!("unknown subcommand {}", sub);
            2
        }
    }
}

const MAXC: u64 = 2147483647;

fn us(v: &J) -> usize {
    let x = v.as_u64().unwrap_or(0);
    if x >= MAXC {
        usize::MAX
    } else {
        x as usize
    }
}

fn err_name(e: &xml_dom::error::Error) -> String {
    match e {
        xml_dom::error::Error::Dom(d) => format!("{:?}", d),
        xml_dom::error::Error::Info(i) => format!("Info:{:?}", i).chars().take(40).collect(),
        xml_dom::error::Error::Parse(_) => "Parse".to_string(),
    }
}

/// A real node under test.
struct Subject {
    doc: XmlDocument,
    node: XmlNode,          // the character-data node (or the attribute / PI)
    attr: Option<xml_dom::XmlAttr>, // for variant attrtext / attr: the owning attribute
    variant: &'static str,
}

fn parse(text: &str, expanded: bool) -> Option<XmlDocument> {
    let t = text.to_string();
    match guarded(move || {
        let ctx = xml_dom::Context::from_text_expanded(expanded);
        match XmlDocument::from_raw_with_context(&t, ctx) {
            Ok((rest, d)) if rest.is_empty() => Some(d),
            _ => None,
        }
    }) {
        Ok(d) => d,
        Err(_) => None,
    }
}

fn root(doc: &XmlDocument) -> Option<xml_dom::XmlElement> {
    doc.document_element().ok()
}

/// Variants that can hold data of a specification kind.  "any" (C16) = every character-data kind.
fn variants(kind: &str) -> Vec<&'static str> {
    match kind {
        "any" => vec![
            "text/parsed", "text/created", "attrtext/parsed", "comment/parsed", "comment/created",
            "cdata/parsed", "cdata/created", "merged/parsed", "text/detached", "cdata/detached", "comment/detached",
            "text/twins",
        ],
        "text" => vec!["text/created"],
        "attr" => vec!["attr/set", "attrtext/second"],
        "comment" => vec!["comment/created"],
        "cdata" => vec!["cdata/created"],
        "pi" => vec!["pi/created"],
        _ => vec![],
    }
}

/// Build a subject holding `s`.  Err(reason) when this variant cannot hold `s` ("skip": not applicable,
/// e.g. an empty parsed text node; "refused:<..>" / "panic:<..>": the implementation would not take it).
fn build(variant: &'static str, s: &str) -> Result<Subject, String> {
    let s_owned = s.to_string();
    let r = guarded(move || -> Result<Subject, String> {
        let s = s_owned.as_str();
        match variant {
            "text/parsed" | "merged/parsed" => {
                if s.is_empty() {
                    return Err("skip".into());
                }
                let doc = parse(&format!("<r>{}</r>", s), variant == "merged/parsed").ok_or("skip")?;
                let e = root(&doc).ok_or("skip")?;
                let node = e.first_child().ok_or("skip")?;
                Ok(Subject { doc, node, attr: None, variant })
            }
            "attrtext/parsed" => {
                if s.is_empty() {
                    return Err("skip".into());
                }
                let doc = parse(&format!("<r x=\"{}\"/>", s), false).ok_or("skip")?;
                let e = root(&doc).ok_or("skip")?;
                let a = e.get_attribute_node("x").ok_or("skip")?;
                let node = a.first_child().ok_or("skip")?;
                Ok(Subject { doc, node, attr: Some(a), variant })
            }
            "comment/parsed" => {
                let doc = parse(&format!("<r><!--{}--></r>", s), false).ok_or("skip")?;
                let node = root(&doc).ok_or("skip")?.first_child().ok_or("skip")?;
                Ok(Subject { doc, node, attr: None, variant })
            }
            "cdata/parsed" => {
                let doc = parse(&format!("<r><![CDATA[{}]]></r>", s), false).ok_or("skip")?;
                let node = root(&doc).ok_or("skip")?.first_child().ok_or("skip")?;
                Ok(Subject { doc, node, attr: None, variant })
            }
            "text/created" | "comment/created" | "cdata/created" | "pi/created" => {
                let doc = parse("<r/>", false).ok_or("skip")?;
                let e = root(&doc).ok_or("skip")?;
                let node = match variant {
                    "text/created" => doc.create_text_node(s).as_node(),
                    "comment/created" => doc.create_comment(s).as_node(),
                    "cdata/created" => doc.create_cdata_section(s).as_node(),
                    _ => doc
                        .create_processing_instruction("t", s)
                        .map_err(|e| format!("refused:{}", err_name(&e)))?
                        .as_node(),
                };
                e.append_child(node.clone()).map_err(|e| format!("refused:{}", err_name(&e)))?;
                Ok(Subject { doc, node, attr: None, variant })
            }
            "text/twins" => {
                // the subject is the LAST text child; before it, separated by elements, text nodes holding every non-empty
                // prefix of its data and the data itself: look-alikes of whatever a split leaves in the subject
                let doc = parse("<r/>", false).ok_or("skip")?;
                let e = root(&doc).ok_or("skip")?;
                let chars: Vec<char> = s.chars().collect();
                if chars.is_empty() {
                    return Err("skip".into());
                }
                for k in 1..=chars.len() {
                    let pre: String = chars[..k].iter().collect();
                    e.append_child(doc.create_text_node(&pre).as_node()).map_err(|e| format!("refused:{}", err_name(&e)))?;
                    e.append_child(doc.create_element("x").map_err(|e| format!("refused:{}", err_name(&e)))?.as_node())
                        .map_err(|e| format!("refused:{}", err_name(&e)))?;
                }
                let node = doc.create_text_node(s).as_node();
                e.append_child(node.clone()).map_err(|e| format!("refused:{}", err_name(&e)))?;
                Ok(Subject { doc, node, attr: None, variant })
            }
            "text/detached" | "cdata/detached" | "comment/detached" => {
                // a node that was created and never inserted: it has no parent
                let doc = parse("<r/>", false).ok_or("skip")?;
                let node = match variant {
                    "text/detached" => doc.create_text_node(s).as_node(),
                    "cdata/detached" => doc.create_cdata_section(s).as_node(),
                    _ => doc.create_comment(s).as_node(),
                };
                Ok(Subject { doc, node, attr: None, variant })
            }
            "attrtext/second" => {
                // the SECOND text child of an attribute whose first child holds a double quote: what the value as a
                // whole needs (both quote characters, say) only shows when the children are put together
                if s.contains('<') || s.contains('&') {
                    return Err("skip".into()); // not storable in a text node made by the factory (see attr/set)
                }
                let doc = parse("<r x='\"'/>", false).ok_or("skip")?;
                let e = root(&doc).ok_or("skip")?;
                let a = e.get_attribute_node("x").ok_or("skip")?;
                let node = doc.create_text_node(s).as_node();
                a.append_child(node.clone()).map_err(|e| format!("refused:{}", err_name(&e)))?;
                Ok(Subject { doc, node, attr: Some(a), variant })
            }
            "attr/set" => {
                let doc = parse("<r/>", false).ok_or("skip")?;
                let e = root(&doc).ok_or("skip")?;
                e.set_attribute("x", s).map_err(|e| format!("refused:{}", err_name(&e)))?;
                let a = e.get_attribute_node("x").ok_or("refused:lost")?;
                Ok(Subject { doc, node: a.as_node(), attr: Some(a), variant })
            }
            _ => Err("skip".into()),
        }
    });
    match r {
        Ok(x) => x,
        Err(p) => Err(format!("panic:{}", p.chars().take(60).collect::<String>())),
    }
}

fn data_of(n: &XmlNode) -> Result<String, String> {
    let n = n.clone();
    guarded(move || match &n {
        XmlNode::Text(t) => t.data().map_err(|e| err_name(&e)),
        XmlNode::Comment(t) => t.data().map_err(|e| err_name(&e)),
        XmlNode::CData(t) => t.data().map_err(|e| err_name(&e)),
        XmlNode::ExpandedText(t) => t.data().map_err(|e| err_name(&e)),
        XmlNode::PI(p) => Ok(p.data()),
        XmlNode::Attribute(a) => a.value().map_err(|e| err_name(&e)),
        _ => Err("kind".into()),
    })
    .unwrap_or_else(|p| Err(format!("panic:{}", p)))
}

fn len_of(n: &XmlNode) -> i64 {
    let n = n.clone();
    guarded(move || match &n {
        XmlNode::Text(t) => t.length() as i64,
        XmlNode::Comment(t) => t.length() as i64,
        XmlNode::CData(t) => t.length() as i64,
        XmlNode::ExpandedText(t) => t.length() as i64,
        XmlNode::PI(p) => p.data().chars().count() as i64,
        XmlNode::Attribute(a) => a.value().map(|v| v.chars().count() as i64).unwrap_or(-1),
        _ => -1,
    })
    .unwrap_or(-2)
}

/// Content signature of the document element: attributes (sorted) and children with maximal runs of
/// character data (text, CDATA, references) merged - comparable between a live raw-view document and a
/// re-parsed one.
fn signature(doc: &XmlDocument) -> Result<J, String> {
    let doc = doc.clone();
    guarded(move || -> Result<J, String> {
        let e = root(&doc).ok_or("no root")?;
        let mut attrs: Vec<(String, String)> = vec![];
        if let Some(m) = e.as_node().attributes() {
            for a in m.iter() {
                attrs.push((a.name(), a.value().map_err(|e| err_name(&e))?));
            }
        }
        attrs.sort();
        let mut kids: Vec<J> = vec![];
        let mut run: Option<String> = None;
        for c in e.child_nodes().iter() {
            let chars = match &c {
                XmlNode::Text(t) => Some(t.data().map_err(|e| err_name(&e))?),
                XmlNode::CData(t) => Some(t.data().map_err(|e| err_name(&e))?),
                XmlNode::ExpandedText(t) => Some(t.data().map_err(|e| err_name(&e))?),
                XmlNode::EntityReference(r) => Some(r.node_value().map_err(|e| err_name(&e))?.unwrap_or_default()),
                _ => None,
            };
            match chars {
                Some(s) => {
                    run = Some(run.unwrap_or_default() + &s);
                }
                None => {
                    if let Some(r) = run.take() {
                        if !r.is_empty() {
                            kids.push(json!(["chars", string_to_cps(&r)]));
                        }
                    }
                    match &c {
                        XmlNode::Comment(t) => kids.push(json!(["comment", string_to_cps(&t.data().map_err(|e| err_name(&e))?)])),
                        XmlNode::PI(p) => kids.push(json!(["pi", string_to_cps(&p.target()), string_to_cps(&p.data())])),
                        XmlNode::Element(x) => kids.push(json!(["elem", string_to_cps(&x.tag_name())])),
                        other => kids.push(json!(["other", format!("{:?}", other.node_type())])),
                    }
                }
            }
        }
        if let Some(r) = run.take() {
            if !r.is_empty() {
                kids.push(json!(["chars", string_to_cps(&r)]));
            }
        }
        Ok(json!({"attrs": attrs.iter().map(|(n, v)| json!([string_to_cps(n), string_to_cps(v)])).collect::<Vec<_>>(), "kids": kids}))
    })
    .unwrap_or_else(|p| Err(format!("panic:{}", p)))
}

/// print -> parse -> signature
fn reparse(doc: &XmlDocument) -> J {
    let d = doc.clone();
    let text = match guarded(move || d.to_string()) {
        Ok(t) => t,
        Err(p) => return json!({"ok": false, "why": format!("print panicked: {}", p)}),
    };
    match parse(&text, true) {
        None => json!({"ok": false, "why": "serialization does not parse", "text": text}),
        Some(d2) => match signature(&d2) {
            Ok(s) => json!({"ok": true, "sig": s, "text": text}),
            Err(e) => json!({"ok": false, "why": e, "text": text}),
        },
    }
}

fn exec(sub: &Subject, c: &J) -> (J, Option<XmlNode>) {
    let op = c["op"].as_str().unwrap_or("").to_string();
    let o = us(&c["o"]);
    let cnt = us(&c["c"]);
    let a = cps_to_string(&c["a"]);
    let node = sub.node.clone();
    let attr = sub.attr.clone();
    let variant = sub.variant;
    let r = guarded(move || -> Result<(J, Option<XmlNode>), xml_dom::error::Error> {
        macro_rules! cd_read {
            ($t:expr) => {
                match op.as_str() {
                    "length" => return Ok((json!({"ok": 1, "n": $t.length(), "ret": []}), None)),
                    "data" => return Ok((json!({"ok": 1, "n": 0, "ret": string_to_cps(&$t.data()?)}), None)),
                    "substring" => {
                        return Ok((json!({"ok": 1, "n": 0, "ret": string_to_cps(&$t.substring_data(o, cnt)?)}), None))
                    }
                    _ => {}
                }
            };
        }
        macro_rules! cd_mut {
            ($t:expr) => {
                match op.as_str() {
                    "append" => { $t.append_data(&a)?; return Ok((json!({"ok": 1, "n": 0, "ret": []}), None)); }
                    "insert" => { $t.insert_data(o, &a)?; return Ok((json!({"ok": 1, "n": 0, "ret": []}), None)); }
                    "delete" => { $t.delete_data(o, cnt)?; return Ok((json!({"ok": 1, "n": 0, "ret": []}), None)); }
                    "replace" => { $t.replace_data(o, cnt, &a)?; return Ok((json!({"ok": 1, "n": 0, "ret": []}), None)); }
                    "set" => { $t.set_data(&a)?; return Ok((json!({"ok": 1, "n": 0, "ret": []}), None)); }
                    _ => {}
                }
            };
        }
        match &node {
            XmlNode::Text(t) => {
                cd_read!(t);
                cd_mut!(t);
                if op == "split" {
                    let n2 = t.split_text(o)?;
                    let d2 = n2.data()?;
                    return Ok((json!({"ok": 1, "n": 0, "ret": string_to_cps(&d2)}), Some(n2.as_node())));
                }
            }
            XmlNode::CData(t) => {
                cd_read!(t);
                cd_mut!(t);
                if op == "split" {
                    let n2 = t.split_text(o)?;
                    let d2 = n2.data()?;
                    return Ok((json!({"ok": 1, "n": 0, "ret": string_to_cps(&d2)}), Some(n2.as_node())));
                }
            }
            XmlNode::Comment(t) => {
                cd_read!(t);
                cd_mut!(t);
            }
            XmlNode::ExpandedText(t) => {
                cd_read!(t);
            }
            XmlNode::PI(p) => {
                if op == "set" {
                    p.set_data(&a)?;
                    return Ok((json!({"ok": 1, "n": 0, "ret": []}), None));
                }
            }
            XmlNode::Attribute(at) => {
                if op == "set" {
                    at.set_value(&a)?;
                    return Ok((json!({"ok": 1, "n": 0, "ret": []}), None));
                }
                // the other operations act on the attribute's first text child
                if let Some(XmlNode::Text(t)) = at.first_child() {
                    cd_mut!(t);
                }
            }
            _ => {}
        }
        let _ = (&attr, variant);
        Ok((json!({"na": 1}), None))
    });
    match r {
        Ok(Ok(x)) => x,
        Ok(Err(e)) => (json!({"err": err_name(&e)}), None),
        Err(p) => (json!({"panic": p.chars().take(80).collect::<String>()}), None),
    }
}

/// Does the operation exist for this variant (the others are not part of that node's interface)?
fn applicable(variant: &str, op: &str, first_child_is_text: bool) -> bool {
    match variant {
        "merged/parsed" => matches!(op, "length" | "data" | "substring"),
        "comment/parsed" | "comment/created" | "comment/detached" => op != "split",
        "pi/created" => op == "set",
        "attr/set" => op == "set" || (first_child_is_text && op != "split" && !matches!(op, "length" | "data" | "substring")),
        _ => true,
    }
}

struct Graph {
    kind: String,
    states: Vec<(String, Vec<J>)>, // data string, edges
    index: HashMap<String, usize>,
}

fn load(path: &str) -> Graph {
    let mut g = Graph { kind: String::new(), states: vec![], index: HashMap::new() };
    for_each_case(path, |v| {
        if v.get("edges").is_some() {
            g.kind = v["kind"].as_str().unwrap_or("any").to_string();
            let s = cps_to_string(&v["s"]);
            let mut edges = v["edges"].as_array().cloned().unwrap_or_default();
            // TLC prints a set in its own order; make it deterministic
            edges.sort_by_key(|e| e["call"].to_string());
            g.index.insert(s.clone(), g.states.len());
            g.states.push((s, edges));
        }
    });
    g
}

struct Rec<'a> {
    out: Box<dyn Write + 'a>,
    all: bool,
    events: usize,
    written: usize,
    reparses: usize,
}

impl<'a> Rec<'a> {
    /// one call on a subject; returns the data afterwards (None: unobservable)
    fn step(&mut self, kind: &str, sub: &Subject, edge: &J, hist: &[J], reparse_on: bool) -> Option<String> {
        let call = &edge["call"];
        let pre = data_of(&sub.node);
        let (outc, newnode) = exec(sub, call);
        if outc.get("na").is_some() {
            return pre.ok();
        }
        self.events += 1;
        let post = data_of(&sub.node);
        let len = len_of(&sub.node);
        let is_mut = !matches!(call["op"].as_str().unwrap_or(""), "length" | "data" | "substring");
        // after split: the two siblings as the parent lists them
        let mut sib = json!(0);
        if let Some(n2) = &newnode {
            let me = sub.node.id();
            let parent_kids: Vec<XmlNode> = match (&sub.attr, sub.variant) {
                (Some(a), "attrtext/parsed") | (Some(a), "attrtext/second") => a.child_nodes().iter().collect(),
                _ => root(&sub.doc).map(|e| e.child_nodes().iter().collect()).unwrap_or_default(),
            };
            let pos = parent_kids.iter().position(|k| k.id() == me);
            let next_is_new = pos.and_then(|p| parent_kids.get(p + 1)).map(|k| k.id() == n2.id()).unwrap_or(false);
            let n2parent = guarded(|| n2.parent_node().map(|p| p.id())).unwrap_or(None);
            let myparent = guarded(|| sub.node.parent_node().map(|p| p.id())).unwrap_or(None);
            sib = json!({"adjacent": next_is_new, "listed": pos.is_some(),
                         "same_parent": n2parent.is_some() && n2parent == myparent,
                         "count": parent_kids.len()});
        }
        let mut ev = json!({"event": "cd", "kind": kind, "variant": sub.variant,
            "pre": pre.as_ref().map(|s| string_to_cps(s)).unwrap_or(json!([])),
            "readable": pre.is_ok() && post.is_ok(),
            "call": call, "out": outc,
            "post": post.as_ref().map(|s| string_to_cps(s)).unwrap_or(json!([])),
            "len": len, "sib": sib, "hist": hist});
        let mut ideal = false;
        // fast path: the DOM result exactly, nothing else to look at
        let dom = &edge["dom"];
        if let (Ok(p0), Ok(p1)) = (&pre, &post) {
            if dom.get("err").is_some() {
                ideal = outc.get("err").and_then(|e| e.as_str()) == Some("IndexSizeErr") && p0 == p1;
            } else if outc.get("ok").is_some() {
                let exp_data = cps_to_string(&dom["data"]);
                let op = call["op"].as_str().unwrap_or("");
                let ret_ok = match op {
                    "length" => outc["n"] == dom["n"],
                    "data" | "substring" | "split" => outc["ret"] == dom["ret"],
                    _ => true,
                };
                ideal = *p1 == exp_data && ret_ok && len == exp_data.chars().count() as i64
                    && (op != "split" || (sib["adjacent"] == true && sib["same_parent"] == true))
                    && !sub.variant.ends_with("/detached");
            }
        }
        if is_mut && outc.get("ok").is_some() && reparse_on {
            self.reparses += 1;
            let live = signature(&sub.doc);
            let re = reparse(&sub.doc);
            let same = match (&live, re.get("sig")) {
                (Ok(l), Some(r)) => l == r,
                _ => false,
            };
            if !same {
                ideal = false;
            }
            ev["live_sig"] = live.unwrap_or_else(|e| json!({"panic": e}));
            ev["re"] = re;
        }
        if !ideal || self.all {
            self.written += 1;
            writeln!(self.out, "{}", ev).unwrap();
        }
        post.ok()
    }
}

pub fn chardata(args: &[String]) -> i32 {
    let inp = arg_value(args, "--in").unwrap_or("-");
    let outp = arg_value(args, "--out").unwrap_or("-");
    let walks: usize = arg_value(args, "--walks").and_then(|v| v.parse().ok()).unwrap_or(0);
    let walk_len: usize = arg_value(args, "--len").and_then(|v| v.parse().ok()).unwrap_or(6);
    let seed: u64 = arg_value(args, "--seed").and_then(|v| v.parse().ok()).unwrap_or(1);
    let sample: usize = arg_value(args, "--sample").and_then(|v| v.parse().ok()).unwrap_or(0);
    let g = load(inp);
    let mut rec = Rec { out: open_out(outp), all: arg_flag(args, "--all"), events: 0, written: 0, reparses: 0 };
    let mut unbuildable = 0usize;
    let mut edges = 0usize;
    let mut rng = StdRng::seed_from_u64(seed);
    let vars = variants(&g.kind);
    for (s, es) in &g.states {
        for v in &vars {
            // is this state buildable at all?
            match build(v, s) {
                Ok(_) => {}
                Err(why) => {
                    if why != "skip" {
                        unbuildable += 1;
                        writeln!(rec.out, "{}", json!({"event": "build", "kind": g.kind, "variant": v,
                            "s": string_to_cps(s), "why": why})).unwrap();
                        rec.written += 1;
                    }
                    continue;
                }
            }
            for e in es {
                let sub = match build(v, s) {
                    Ok(x) => x,
                    Err(_) => break,
                };
                let fct = matches!(sub.attr.as_ref().and_then(|a| a.first_child()), Some(XmlNode::Text(_)));
                if !applicable(v, e["call"]["op"].as_str().unwrap_or(""), fct) {
                    continue;
                }
                // every k-th event is written even if ideal, so that the judge sees ideal behaviour too
                let force = sample > 0 && rng.gen_range(0..sample) == 0;
                let was = rec.all;
                rec.all = was || force;
                rec.step(&g.kind, &sub, e, &[], true);
                rec.all = was;
                edges += 1;
            }
        }
    }
    // walks: several calls on one node
    let mut walk_steps = 0usize;
    for _ in 0..walks {
        if g.states.is_empty() || vars.is_empty() {
            break;
        }
        let v = vars[rng.gen_range(0..vars.len())];
        let mut cur = rng.gen_range(0..g.states.len());
        let sub = match build(v, &g.states[cur].0) {
            Ok(x) => x,
            Err(_) => continue,
        };
        let mut hist: Vec<J> = vec![json!({"build": v, "s": string_to_cps(&g.states[cur].0)})];
        for _ in 0..walk_len {
            let es = &g.states[cur].1;
            let e = &es[rng.gen_range(0..es.len())];
            let op = e["call"]["op"].as_str().unwrap_or("");
            let fct = matches!(sub.attr.as_ref().and_then(|a| a.first_child()), Some(XmlNode::Text(_)));
            if !applicable(v, op, fct) || op == "split" {
                continue;
            }
            let after = rec.step(&g.kind, &sub, e, &hist, true);
            hist.push(e["call"].clone());
            walk_steps += 1;
            match after.and_then(|d| g.index.get(&d).cloned()) {
                Some(n) => cur = n,
                None => break,
            }
        }
    }
    rec.out.flush().unwrap();
    println!("{}", json!({"states": g.states.len(), "variants": vars.len(), "edges": edges, "events": rec.events,
        "written": rec.written, "reparses": rec.reparses, "unbuildable": unbuildable, "walk_steps": walk_steps}));
    0
}

// -------------------------------------------------------------------------------------------------
// factories and name-taking setters (C13 / C15): names from MC_Name's REPLAY lines

fn outcome<T>(r: Result<Result<T, xml_dom::error::Error>, String>) -> (J, Option<T>) {
    match r {
        Ok(Ok(v)) => (json!({"ok": 1}), Some(v)),
        Ok(Err(e)) => (json!({"err": err_name(&e)}), None),
        Err(p) => (json!({"panic": p.chars().take(80).collect::<String>()}), None),
    }
}

pub fn factory(args: &[String]) -> i32 {
    let inp = arg_value(args, "--in").unwrap_or("-");
    let outp = arg_value(args, "--out").unwrap_or("-");
    let mut out = open_out(outp);
    let mut n = 0usize;
    for_each_case(inp, |v| {
        let s = cps_to_string(&v["s"]);
        let mut ev = json!({"event": "factory", "s": v["s"]});
        // create_element + append, then the document must still round-trip
        for role in ["elem", "attr", "pi", "setattr"] {
            let doc = match parse("<r/>", false) {
                Some(d) => d,
                None => return,
            };
            let e = root(&doc).unwrap();
            let (d2, e2, s2) = (doc.clone(), e.clone(), s.clone());
            let (o, attached) = match role {
                "elem" => {
                    let (o, x) = outcome(guarded(move || d2.create_element(&s2)));
                    let att = x.map(|x| guarded(move || e2.append_child(x.as_node()).is_ok()).unwrap_or(false)).unwrap_or(false);
                    (o, att)
                }
                "attr" => {
                    let (o, x) = outcome(guarded(move || d2.create_attribute(&s2)));
                    let att = x.map(|x| guarded(move || e2.set_attribute_node(x).is_ok()).unwrap_or(false)).unwrap_or(false);
                    (o, att)
                }
                "pi" => {
                    let (o, x) = outcome(guarded(move || d2.create_processing_instruction(&s2, "d")));
                    let att = x.map(|x| guarded(move || e2.append_child(x.as_node()).is_ok()).unwrap_or(false)).unwrap_or(false);
                    (o, att)
                }
                _ => {
                    let (o, x) = outcome(guarded(move || e2.set_attribute(&s2, "v")));
                    (o, x.is_some())
                }
            };
            let mut r = json!({"out": o});
            if attached {
                r["live_sig"] = signature(&doc).unwrap_or_else(|e| json!({"panic": e}));
                r["re"] = reparse(&doc);
            }
            ev[role] = r;
        }
        writeln!(out, "{}", ev).unwrap();
        n += 1;
    });
    out.flush().unwrap();
    println!("{}", json!({"names": n}));
    0
}

fn static_variant(v: &str) -> &'static str {
    for k in ["any", "text", "attr", "comment", "cdata", "pi"] {
        for x in variants(k) {
            if x == v {
                return x;
            }
        }
    }
    "text/created"
}

/// Re-run one stored event (replay of a violation) and log it again.
pub fn rerun(args: &[String]) -> i32 {
    let inp = arg_value(args, "--in").unwrap_or("-");
    let outp = arg_value(args, "--out").unwrap_or("-");
    let text = std::fs::read_to_string(inp).unwrap_or_default();
    let case: J = serde_json::from_str(&text).unwrap_or(J::Null);
    match case["event"].as_str().unwrap_or("") {
        "factory" => {
            let tmp = format!("{}.in", outp);
            std::fs::write(&tmp, format!("{}\n", json!({"s": case["s"]}))).unwrap();
            let r = factory(&["--in".to_string(), tmp.clone(), "--out".to_string(), outp.to_string()]);
            let _ = std::fs::remove_file(tmp);
            r
        }
        "build" => {
            let mut out = open_out(outp);
            let v = static_variant(case["variant"].as_str().unwrap_or(""));
            let s = cps_to_string(&case["s"]);
            if let Err(why) = build(v, &s) {
                if why != "skip" {
                    writeln!(out, "{}", json!({"event": "build", "kind": case["kind"], "variant": v, "s": case["s"], "why": why})).unwrap();
                }
            }
            0
        }
        _ => {
            let mut rec = Rec { out: open_out(outp), all: true, events: 0, written: 0, reparses: 0 };
            let v = static_variant(case["variant"].as_str().unwrap_or(""));
            let hist = case["hist"].as_array().cloned().unwrap_or_default();
            let kind = case["kind"].as_str().unwrap_or("any").to_string();
            let start = if hist.is_empty() { cps_to_string(&case["pre"]) } else { cps_to_string(&hist[0]["s"]) };
            let sub = match build(v, &start) {
                Ok(x) => x,
                Err(why) => {
                    writeln!(rec.out, "{}", json!({"event": "build", "kind": kind, "variant": v, "s": string_to_cps(&start), "why": why})).unwrap();
                    return 0;
                }
            };
            for c in hist.iter().skip(1) {
                let _ = exec(&sub, c);
            }
            // the expectation is recomputed by the trace specification; the fast path is not used here
            let edge = json!({"call": case["call"], "dom": {"err": "recompute"}});
            rec.step(&kind, &sub, &edge, &hist, true);
            rec.out.flush().unwrap();
            0
        }
    }
}

// -------------------------------------------------------------------------------------------------
// the attributes of one element as a state machine (MC_ElemAttrs.tla): every edge, reached through real calls

const ATTR_DOC: &str = "<!DOCTYPE r [<!ATTLIST r y CDATA \"dv\" z CDATA #IMPLIED>]><r x=\"a\"/>";
const ATTR_NAMES: [&str; 3] = ["x", "y", "z"];

fn observe_attrs(e: &xml_dom::XmlElement) -> J {
    let e = e.clone();
    guarded(move || {
        let mut m = serde_json::Map::new();
        for n in ATTR_NAMES {
            let node = e.get_attribute_node(n);
            m.insert(
                n.to_string(),
                json!({"present": node.is_some(), "v": e.get_attribute(n),
                       "spec": node.as_ref().map(|a| a.specified()).unwrap_or(false),
                       "nodev": node.as_ref().map(|a| a.value().unwrap_or_else(|_| "#err".into())).unwrap_or_default()}),
            );
        }
        let mut listed: Vec<String> = vec![];
        let mut len = 0usize;
        if let Some(map) = e.as_node().attributes() {
            use xml_dom::NamedNodeMap;
            len = map.length();
            for a in map.iter() {
                listed.push(a.name());
            }
        }
        listed.sort();
        json!({"am": m, "listed": listed, "len": len})
    })
    .unwrap_or_else(|p| json!({"panic": p}))
}

fn exec_attr(e: &xml_dom::XmlElement, c: &J) -> J {
    let op = c["op"].as_str().unwrap_or("").to_string();
    let n = c["n"].as_str().unwrap_or("").to_string();
    let v = c["v"].as_str().unwrap_or("").to_string();
    let e = e.clone();
    let r = guarded(move || -> Result<J, xml_dom::error::Error> {
        use xml_dom::NamedNodeMapMut;
        Ok(match op.as_str() {
            "set_attribute" => {
                e.set_attribute(&n, &v)?;
                json!({"ok": true, "ret": ""})
            }
            "remove_attribute" => {
                e.remove_attribute(&n)?;
                json!({"ok": true, "ret": ""})
            }
            "get_attribute" => json!({"ok": true, "ret": e.get_attribute(&n)}),
            "set_value" => match e.get_attribute_node(&n) {
                Some(a) => {
                    a.set_value(&v)?;
                    json!({"ok": true, "ret": ""})
                }
                None => json!({"ok": true, "ret": "absent"}),
            },
            "remove_named_item" => {
                e.as_node().attributes().unwrap().remove_named_item(&n)?;
                json!({"ok": true, "ret": ""})
            }
            _ => json!({"panic": "harness: unknown op"}),
        })
    });
    match r {
        Ok(Ok(j)) => j,
        Ok(Err(e)) => json!({"err": err_name(&e)}),
        Err(p) => json!({"panic": p.chars().take(80).collect::<String>()}),
    }
}

fn am_key(am: &J) -> String {
    let mut s = String::new();
    for n in ATTR_NAMES {
        s.push_str(&format!("{}:{}:{}:{};", n, am[n]["present"], am[n]["v"], am[n]["spec"]));
    }
    s
}

pub fn elem_attrs(args: &[String]) -> i32 {
    let inp = arg_value(args, "--in").unwrap_or("-");
    let outp = arg_value(args, "--out").unwrap_or("-");
    let walks: usize = arg_value(args, "--walks").and_then(|v| v.parse().ok()).unwrap_or(50);
    let seed: u64 = arg_value(args, "--seed").and_then(|v| v.parse().ok()).unwrap_or(1);
    let mut states: Vec<(J, Vec<J>)> = vec![];
    let mut index: HashMap<String, usize> = HashMap::new();
    for_each_case(inp, |v| {
        if v.get("edges").is_some() {
            let mut edges = v["edges"].as_array().cloned().unwrap_or_default();
            edges.sort_by_key(|e| e["call"].to_string());
            index.insert(am_key(&v["s"]), states.len());
            states.push((v["s"].clone(), edges));
        }
    });
    let mut out = open_out(outp);
    let fresh = || -> Option<(XmlDocument, xml_dom::XmlElement)> {
        let d = parse(ATTR_DOC, false)?;
        let e = root(&d)?;
        Some((d, e))
    };
    let (_d0, e0) = match fresh() {
        Some(x) => x,
        None => {
            eprintln!("cannot parse the attribute document");
            return 2;
        }
    };
    let init = match index.get(&am_key(&observe_attrs(&e0)["am"])) {
        Some(i) => *i,
        None => {
            // the parsed document is not the initial state of the model: report it as an event
            writeln!(out, "{}", json!({"event": "attrs", "hist": [], "pre": observe_attrs(&e0), "call": {"op": "parse", "n": "", "v": ""},
                "out": {"ok": true, "ret": ""}, "post": observe_attrs(&e0), "init": true})).unwrap();
            0
        }
    };
    // BFS tree over the specification's graph
    let mut parent: Vec<Option<(usize, usize)>> = vec![None; states.len()];
    let mut seen = vec![false; states.len()];
    let mut order = vec![init];
    seen[init] = true;
    let mut qi = 0;
    while qi < order.len() {
        let s = order[qi];
        qi += 1;
        for (ci, e) in states[s].1.iter().enumerate() {
            if let Some(t) = e["out"].get("am").and_then(|am| index.get(&am_key(am))) {
                if !seen[*t] {
                    seen[*t] = true;
                    parent[*t] = Some((s, ci));
                    order.push(*t);
                }
            }
        }
    }
    let mut events = 0usize;
    let mut written = 0usize;
    let mut step = |out: &mut Box<dyn Write>, e: &xml_dom::XmlElement, doc: &XmlDocument, edge: &J, hist: &[J], force: bool| -> J {
        let pre = observe_attrs(e);
        let outc = exec_attr(e, &edge["call"]);
        let post = observe_attrs(e);
        events += 1;
        let exp = &edge["out"];
        let mut ideal = false;
        if exp.get("err").is_some() {
            ideal = outc.get("err") == exp.get("err") && pre == post;
        } else if outc.get("ok").is_some() && outc["ret"] == exp["ret"] {
            ideal = am_key(&post["am"]) == am_key(&exp["am"])
                && ATTR_NAMES.iter().all(|n| !post["am"][*n]["present"].as_bool().unwrap_or(false) || post["am"][*n]["nodev"] == post["am"][*n]["v"])
                && post["len"].as_u64() == Some(ATTR_NAMES.iter().filter(|n| exp["am"][**n]["present"] == true).count() as u64);
        }
        let mut ev = json!({"event": "attrs", "hist": hist, "pre": pre, "call": edge["call"], "out": outc, "post": post});
        if outc.get("ok").is_some() && edge["call"]["op"] != "get_attribute" {
            let live = signature(doc);
            let re = reparse(doc);
            let same = match (&live, re.get("sig")) {
                (Ok(l), Some(r)) => l == r,
                _ => false,
            };
            if !same {
                ideal = false;
            }
            ev["live_sig"] = live.unwrap_or_else(|e| json!({"panic": e}));
            ev["re"] = re;
        }
        if !ideal || force {
            written += 1;
            writeln!(out, "{}", ev).unwrap();
        }
        post
    };
    let mut rng = StdRng::seed_from_u64(seed);
    for &s in &order {
        // path of calls from the initial state
        let mut path = vec![];
        let mut cur = s;
        while let Some((f, ci)) = parent[cur] {
            path.push(states[f].1[ci]["call"].clone());
            cur = f;
        }
        path.reverse();
        for edge in &states[s].1 {
            let (d, e) = match fresh() {
                Some(x) => x,
                None => return 2,
            };
            for c in &path {
                let _ = exec_attr(&e, c);
            }
            let force = rng.gen_range(0..20) == 0;
            step(&mut out, &e, &d, edge, &path, force);
        }
    }
    // walks
    for _ in 0..walks {
        let (d, e) = match fresh() {
            Some(x) => x,
            None => return 2,
        };
        let mut cur = init;
        let mut hist: Vec<J> = vec![];
        for _ in 0..12 {
            let es = &states[cur].1;
            let edge = &es[rng.gen_range(0..es.len())];
            let post = step(&mut out, &e, &d, edge, &hist, true);
            hist.push(edge["call"].clone());
            match index.get(&am_key(&post["am"])) {
                Some(n) => cur = *n,
                None => break,
            }
        }
    }
    out.flush().unwrap();
    println!("{}", json!({"states": states.len(), "events": events, "written": written}));
    0
}

// -------------------------------------------------------------------------------------------------
// C11: one attribute node moved between elements with different declared types (AttrMove.tla)

const MOVE_DOC: &str = "<!DOCTYPE r [<!ATTLIST a x NMTOKENS #IMPLIED><!ATTLIST b x CDATA #IMPLIED>]><r><a x=\" p  q \"/><b/><c/></r>";

pub fn attr_move(args: &[String]) -> i32 {
    let inp = arg_value(args, "--in").unwrap_or("-");
    let outp = arg_value(args, "--out").unwrap_or("-");
    let mut out = open_out(outp);
    let mut n = 0usize;
    for_each_case(inp, |c| {
        let hist = c["hist"].as_array().cloned().unwrap_or_default();
        let h2 = hist.clone();
        let obs = guarded(move || -> Vec<J> {
            let mut obs = vec![];
            let doc = match parse(MOVE_DOC, false) {
                Some(d) => d,
                None => return obs,
            };
            let r = match root(&doc) {
                Some(r) => r,
                None => return obs,
            };
            let mut els: HashMap<String, xml_dom::XmlElement> = HashMap::new();
            for c in r.child_nodes().iter() {
                if let XmlNode::Element(e) = c {
                    els.insert(e.tag_name(), e);
                }
            }
            let attr = match els.get("a").and_then(|a| a.get_attribute_node("x")) {
                Some(a) => a,
                None => return obs,
            };
            let mut owner = "a".to_string();
            // the value is read once before anything moves (an implementation may remember what it found)
            let _ = attr.value();
            for step in h2.iter() {
                let op = step["op"].as_str().unwrap_or("");
                let mut ok = true;
                match op {
                    "read" => {}
                    "detach" | "move" => {
                        if owner != "none" {
                            ok &= els[&owner].remove_attribute_node(attr.clone()).is_ok();
                        }
                        owner = "none".into();
                        if op == "move" {
                            let to = step["to"].as_str().unwrap_or("").to_string();
                            ok &= els[&to].set_attribute_node(attr.clone()).is_ok();
                            owner = to;
                        }
                    }
                    _ => ok = false,
                }
                let node = attr.value().map(|v| string_to_cps(&v)).unwrap_or_else(|_| json!([0]));
                obs.push(json!({"ok": ok, "node": node,
                    "a": string_to_cps(&els["a"].get_attribute("x")),
                    "b": string_to_cps(&els["b"].get_attribute("x")),
                    "c": string_to_cps(&els["c"].get_attribute("x"))}));
            }
            obs
        });
        let obs = match obs {
            Ok(o) if o.len() == hist.len() => o,
            Ok(_) => hist.iter().map(|_| json!({"ok": false, "node": [], "a": [], "b": [], "c": []})).collect(),
            Err(p) => hist.iter().map(|_| json!({"ok": false, "node": string_to_cps(&p), "a": [], "b": [], "c": []})).collect(),
        };
        writeln!(out, "{}", json!({"event": "attrmove", "hist": hist, "obs": obs})).unwrap();
        n += 1;
    });
    out.flush().unwrap();
    println!("{}", json!({"sessions": n}));
    0
}

/// C11, AttrQName.tla: one element, one declared attribute name, a subset of {a, p:a, q:a} written.  Observed
/// without names: the number of attributes and the (value, specified) pair of each, in both views.
pub fn attr_qname(args: &[String]) -> i32 {
    let inp = arg_value(args, "--in").unwrap_or("-");
    let outp = arg_value(args, "--out").unwrap_or("-");
    let mut out = open_out(outp);
    let mut n = 0usize;
    for_each_case(inp, |c| {
        let text = cps_to_string(&c["text"]);
        if c["kind"] == "shared" {
            // one entity referenced in an attribute value and in content: read in either order, in both views
            for expanded in [false, true] {
                for order in ["content-first", "attr-first"] {
                    let mut ev = json!({"event": "shared", "ty": c["ty"], "order": order, "expanded": expanded, "parsed": false,
                                        "attr": [], "content": []});
                    let t2 = text.clone();
                    let got = guarded(move || -> Option<(String, String)> {
                        use xml_dom::AsStringValue;
                        let doc = parse(&t2, expanded)?;
                        let r = root(&doc)?;
                        let content = |r: &xml_dom::XmlElement| -> Option<String> {
                            let mut s = String::new();
                            for k in r.child_nodes().iter() {
                                match &k {
                                    // raw view: the reference node's value is the replacement text
                                    XmlNode::EntityReference(e) => s.push_str(&e.value().ok()?),
                                    other => s.push_str(&other.as_string_value().ok()?),
                                }
                            }
                            Some(s)
                        };
                        if order == "content-first" {
                            let cstr = content(&r)?;
                            Some((r.get_attribute("x"), cstr))
                        } else {
                            let a = r.get_attribute("x");
                            Some((a, content(&r)?))
                        }
                    });
                    if let Ok(Some((a, cstr))) = got {
                        ev["parsed"] = json!(true);
                        ev["attr"] = string_to_cps(&a);
                        ev["content"] = string_to_cps(&cstr);
                    }
                    writeln!(out, "{}", ev).unwrap();
                    n += 1;
                }
            }
            return;
        }
        if c["kind"] == "elem" {
            for expanded in [false, true] {
                let mut ev = json!({"event": "elemq", "decl": c["decl"], "expanded": expanded, "parsed": false, "kids": []});
                let t2 = text.clone();
                let got = guarded(move || -> Option<Vec<J>> {
                    let doc = parse(&t2, expanded)?;
                    let r = root(&doc)?;
                    let mut kids = vec![];
                    for k in r.child_nodes().iter() {
                        let m = k.attributes()?;
                        let mut pairs = vec![];
                        for a in m.iter() {
                            pairs.push(json!([string_to_cps(&a.value().ok()?), a.specified()]));
                        }
                        kids.push(json!({"len": m.length(), "pairs": pairs}));
                    }
                    Some(kids)
                });
                if let Ok(Some(kids)) = got {
                    ev["parsed"] = json!(true);
                    ev["kids"] = json!(kids);
                }
                writeln!(out, "{}", ev).unwrap();
                n += 1;
            }
            return;
        }
        for expanded in [false, true] {
            let mut ev = json!({"event": "attrq", "d": c["d"], "dk": c["dk"], "w": c["w"], "expanded": expanded,
                                "parsed": false, "len": 0, "pairs": []});
            let t2 = text.clone();
            let got = guarded(move || -> Option<(usize, Vec<J>)> {
                let doc = parse(&t2, expanded)?;
                let r = root(&doc)?;
                let m = xml_dom::AsNode::as_node(&r).attributes()?;
                let mut pairs = vec![];
                for a in m.iter() {
                    let v = a.value().ok()?;
                    pairs.push(json!([string_to_cps(&v), a.specified()]));
                }
                Some((m.length(), pairs))
            });
            if let Ok(Some((len, pairs))) = got {
                ev["parsed"] = json!(true);
                ev["len"] = json!(len);
                ev["pairs"] = json!(pairs);
            }
            writeln!(out, "{}", ev).unwrap();
            n += 1;
        }
    });
    out.flush().unwrap();
    println!("{}", json!({"events": n}));
    0
}
