//! C12/C13/C14, spec -> impl: replay of the labelled transition relation dumped by MC_Dom.tla.
//!
//! Input: the TLC output with one POOL line and one NODE line per distinct state.  The harness
//!  (a) covers every edge of the relation: it reaches each state through its BFS-tree path of real
//!      calls and fires every call there;
//!  (b) runs seeded random walks over the graph (long histories).
//! After every call the observation (outcome, projection) is compared with the specification's
//! expectation; everything that is not trivially ideal is written as an event for Trace_Dom.tla,
//! which is the judge.

use crate::util::*;
use crate::world::*;
use rand::rngs::StdRng;
use rand::{Rng, SeedableRng};
use serde_json::{json, Value as J};
use std::collections::{HashMap, VecDeque};
use std::io::Write;

/// One (state, call) edge of the dumped transition relation, compact: the dump of a 34 k-state pool is
/// hundreds of megabytes of JSON, which must not be kept as serde values (eight shards run in parallel).
#[derive(Clone, Copy)]
enum Edge {
    Any,                                  // DOM Level 1 prescribes no answer (-1 in the dump)
    Fail(i64),                            // must fail; mask of the acceptable exception classes
    Ok { t: usize, r: i64, e: i64 },      // may succeed: target state, returned node, mask of acceptable errors
}

impl Edge {
    fn is_ok(&self) -> bool {
        matches!(self, Edge::Ok { .. })
    }
}

struct Graph {
    pool: J,
    calls: Vec<J>,
    keys: Vec<String>,         // canonical key of every state
    edges: Vec<Vec<Edge>>,     // per state, per call
    index: HashMap<String, usize>,
    init: usize,
}

fn key(s: &J) -> String {
    // attribute lists are sets
    let mut attrs: Vec<Vec<i64>> = s["attrs"]
        .as_array()
        .map(|a| {
            a.iter()
                .map(|l| l.as_array().map(|x| x.iter().filter_map(|v| v.as_i64()).collect()).unwrap_or_default())
                .collect()
        })
        .unwrap_or_default();
    for a in attrs.iter_mut() {
        a.sort();
    }
    format!("{}|{:?}", s["kids"], attrs)
}

fn load(path: &str) -> Graph {
    let mut g = Graph {
        pool: J::Null,
        calls: vec![],
        keys: vec![],
        edges: vec![],
        index: HashMap::new(),
        init: 0,
    };
    let mut init_state = J::Null;
    // pass 1: the states
    for_each_case(path, |v| {
        if v.get("pool").is_some() {
            g.pool = v["pool"].clone();
            g.calls = v["calls"].as_array().cloned().unwrap_or_default();
            init_state = v["init"].clone();
        } else if v.get("edges").is_some() {
            let k = key(&v["s"]);
            g.index.insert(k.clone(), g.keys.len());
            g.keys.push(k);
        }
    });
    // pass 2: the edges, with target states resolved to indices
    let mut edges: Vec<Vec<Edge>> = vec![vec![]; g.keys.len()];
    for_each_case(path, |v| {
        if v.get("edges").is_some() {
            let si = g.index[&key(&v["s"])];
            edges[si] = v["edges"]
                .as_array()
                .map(|a| {
                    a.iter()
                        .map(|e| {
                            if e.is_object() {
                                Edge::Ok {
                                    t: g.index.get(&key(&e["t"])).cloned().unwrap_or(usize::MAX),
                                    r: e["r"].as_i64().unwrap_or(0),
                                    e: e["e"].as_i64().unwrap_or(0),
                                }
                            } else if e.as_i64() == Some(-1) {
                                Edge::Any
                            } else {
                                Edge::Fail(e.as_i64().unwrap_or(0))
                            }
                        })
                        .collect()
                })
                .unwrap_or_default();
        }
    });
    g.edges = edges;
    g.init = *g.index.get(&key(&init_state)).expect("initial state not in dump");
    g
}

fn mask_of(err: &str) -> i64 {
    match err {
        "HierarchyRequestErr" => 1,
        "WrongDocumentErr" => 2,
        "NotFoundErr" => 4,
        "InuseAttributeErr" => 8,
        _ => 0,
    }
}

/// Expected navigational views derived from child lists (fast path only; Trace_Dom.tla is the judge).
fn views_ok(w: &World, abs: &J) -> bool {
    let n = w.n();
    let kids: Vec<Vec<i64>> = (0..n)
        .map(|i| abs["kids"][i].as_array().unwrap().iter().map(|v| v.as_i64().unwrap()).collect())
        .collect();
    let mut parent = vec![0i64; n + 1];
    for p in 1..=n {
        for c in &kids[p - 1] {
            if *c < 1 || *c as usize > n {
                return false;
            }
            if parent[*c as usize] != 0 {
                return false;
            }
            parent[*c as usize] = p as i64;
        }
    }
    for i in 1..=n {
        if w.kind[i] == "doc" && i != 1 {
            continue;
        }
        if w.kind[i] != "doc" && w.owner[i] != 1 {
            continue;
        }
        let ks = &kids[i - 1];
        let is_attr = w.kind[i] == "attr";
        let exp_par = if is_attr { 0 } else { parent[i] };
        if abs["par"][i - 1].as_i64() != Some(exp_par) {
            return false;
        }
        let f = ks.first().cloned().unwrap_or(0);
        let l = ks.last().cloned().unwrap_or(0);
        if abs["first"][i - 1].as_i64() != Some(f) || abs["last"][i - 1].as_i64() != Some(l) {
            return false;
        }
        if abs["has"][i - 1].as_i64() != Some(if ks.is_empty() { 0 } else { 1 }) {
            return false;
        }
        let (mut ep, mut en) = (0, 0);
        if parent[i] != 0 && !is_attr {
            let sib = &kids[parent[i] as usize - 1];
            let k = sib.iter().position(|x| *x == i as i64).unwrap();
            if k > 0 {
                ep = sib[k - 1];
            }
            if k + 1 < sib.len() {
                en = sib[k + 1];
            }
        }
        if abs["prev"][i - 1].as_i64() != Some(ep) || abs["next"][i - 1].as_i64() != Some(en) {
            return false;
        }
    }
    true
}

fn order_ok(w: &World, abs: &J) -> bool {
    fn walk(w: &World, abs: &J, n: usize, last: &mut i64) -> bool {
        let o = abs["ord"][n - 1].as_i64().unwrap_or(0);
        if o <= *last || o <= 0 {
            return false;
        }
        *last = o;
        let mut amax = o;
        let mut seen = vec![];
        for a in abs["attrs"][n - 1].as_array().unwrap() {
            let a = a.as_i64().unwrap() as usize;
            let ao = abs["ord"][a - 1].as_i64().unwrap_or(0);
            if ao <= o || seen.contains(&ao) {
                return false;
            }
            seen.push(ao);
            amax = amax.max(ao);
            for k in abs["kids"][a - 1].as_array().unwrap() {
                let k = k.as_i64().unwrap() as usize;
                let ko = abs["ord"][k - 1].as_i64().unwrap_or(0);
                if ko <= ao {
                    return false;
                }
                amax = amax.max(ko);
            }
        }
        *last = amax;
        for c in abs["kids"][n - 1].as_array().unwrap() {
            if !walk(w, abs, c.as_i64().unwrap() as usize, last) {
                return false;
            }
        }
        true
    }
    let mut last = 0;
    walk(w, abs, 1, &mut last)
}

fn state_of(abs: &J) -> J {
    json!({"kids": abs["kids"], "attrs": abs["attrs"]})
}

struct Judge<'a> {
    out: Box<dyn Write + 'a>,
    residual: usize,
    steps: usize,
    seen: HashMap<String, ()>,
    /// write every event (not only the residual ones) - used for the first walks, so that the
    /// trace specification is exercised on ideal behaviour too
    all: bool,
    /// calls executed since the world was built (replay information for a stored case)
    hist: Vec<J>,
}

impl<'a> Judge<'a> {
    /// fast path; returns the graph index of the observed post state (if it is a state of the graph)
    fn step(&mut self, g: &Graph, w: &World, from: usize, ci: usize, pre: &J, outc: &J, post: &J) -> Option<usize> {
        self.steps += 1;
        let e = g.edges[from][ci];
        let mut ideal = false;
        let mut next = None;
        if let Some(err) = outc.get("err").and_then(|v| v.as_str()) {
            let m = match e {
                Edge::Ok { e, .. } => e,
                Edge::Fail(m) => m,
                Edge::Any => -1,
            };
            if m >= 0 && (m & mask_of(err)) != 0 && post == pre {
                ideal = true;
            }
            if post == pre {
                next = Some(from);
            }
        } else if let (true, Edge::Ok { t, r, .. }) = (outc.get("ok").is_some(), e) {
            if t != usize::MAX
                && key(&state_of(post)) == g.keys[t]
                && outc["ok"].as_i64() == Some(r)
                && views_ok(w, post)
                && order_ok(w, post)
            {
                ideal = true;
            }
        }
        if next.is_none() {
            next = g.index.get(&key(&state_of(post))).cloned();
        }
        if !ideal || self.all {
            let ev = json!({"event": "call", "call": g.calls[ci], "out": outc, "pre": pre, "post": post});
            let k = ev.to_string();
            if !self.seen.contains_key(&k) {
                self.seen.insert(k, ());
                if !ideal {
                    self.residual += 1;
                }
                let mut ev = ev;
                ev["hist"] = J::Array(self.hist.clone());
                writeln!(self.out, "{}", ev).unwrap();
            }
        }
        self.hist.push(g.calls[ci].clone());
        next
    }
}

pub fn replay(args: &[String]) -> i32 {
    let inp = arg_value(args, "--in").unwrap_or("-");
    let outp = arg_value(args, "--out").unwrap_or("-");
    let walks: usize = arg_value(args, "--walks").and_then(|v| v.parse().ok()).unwrap_or(0);
    let walk_len: usize = arg_value(args, "--len").and_then(|v| v.parse().ok()).unwrap_or(100);
    let seed: u64 = arg_value(args, "--seed").and_then(|v| v.parse().ok()).unwrap_or(1);
    let edges_on = !arg_flag(args, "--no-edges");
    let trace_walks: usize = arg_value(args, "--trace-walks").and_then(|v| v.parse().ok()).unwrap_or(0);
    let (shard, nshard): (usize, usize) = arg_value(args, "--shard")
        .and_then(|v| {
            let mut it = v.split('/');
            Some((it.next()?.parse().ok()?, it.next()?.parse().ok()?))
        })
        .unwrap_or((0, 1));
    let g = load(inp);
    if let Some(wd) = arg_value(args, "--watch") {
        watchdog_start(wd, 20, arg_flag(args, "--sync"));
    }
    let mut out = open_out(outp);
    writeln!(out, "{}", json!({"event": "pool", "pool": g.pool})).unwrap();
    let mut j = Judge { out, residual: 0, steps: 0, seen: HashMap::new(), all: false, hist: vec![] };

    // BFS tree over successful edges
    let ns = g.keys.len();
    let mut parent: Vec<Option<(usize, usize)>> = vec![None; ns];
    let mut seen = vec![false; ns];
    let mut order = vec![];
    let mut q = VecDeque::new();
    seen[g.init] = true;
    q.push_back(g.init);
    // first along edges that must succeed; states that can only be reached through a call that the
    // implementation may legitimately refuse are tried afterwards
    for pass in 0..2 {
        if pass == 1 {
            for s in order.clone() {
                q.push_back(s);
            }
            order.clear();
        }
        let mut visited_now = vec![];
        while let Some(s) = q.pop_front() {
            visited_now.push(s);
            for (ci, e) in g.edges[s].iter().enumerate() {
                if let Edge::Ok { t, e, .. } = *e {
                    if t != usize::MAX && (pass == 1 || e == 0) && !seen[t] {
                        seen[t] = true;
                        parent[t] = Some((s, ci));
                        q.push_back(t);
                    }
                }
            }
        }
        order = visited_now;
    }
    let path_to = |s: usize| -> Vec<(usize, usize)> {
        let mut p = vec![];
        let mut cur = s;
        while let Some((f, ci)) = parent[cur] {
            p.push((f, ci));
            cur = f;
        }
        p.reverse();
        p
    };

    let mut unreached = 0usize;
    let mut edges_done = 0usize;
    let mut ok_edges = 0usize;
    // anti-vacuity: how often each operation was fired with each kind of prescribed outcome
    let mut by_op: std::collections::BTreeMap<String, [usize; 2]> = Default::default();
    if edges_on {
        for (oi, &s) in order.iter().enumerate() {
            if oi % nshard != shard {
                continue;
            }
            let path = path_to(s);
            let path_calls: Vec<J> = path.iter().map(|(_, ci)| g.calls[*ci].clone()).collect();
            j.hist = path_calls.clone();
            // reach s in a fresh world; None if the implementation diverges on the way (the
            // diverging edge is reported where it is tested itself)
            let reach = |g: &Graph| -> Option<World> {
                let w = World::build(&g.pool, false).ok()?;
                for (f, ci) in &path {
                    let o = w.exec(&g.calls[*ci]);
                    if o.get("ok").is_none() {
                        return None;
                    }
                    let post = w.project();
                    let ok = match g.edges[*f][*ci] {
                        Edge::Ok { t, .. } => t != usize::MAX && key(&state_of(&post)) == g.keys[t],
                        _ => false,
                    };
                    if !ok {
                        return None;
                    }
                }
                Some(w)
            };
            let mut w = match reach(&g) {
                Some(w) => w,
                None => {
                    unreached += 1;
                    continue;
                }
            };
            let mut pre = w.project();
            for ci in 0..g.calls.len() {
                let e = g.edges[s][ci];
                if matches!(e, Edge::Any) {
                    continue;
                }
                heartbeat(|| json!({"event": "crash", "call": g.calls[ci], "calls": j.hist}).to_string());
            let outc = w.exec(&g.calls[ci]);
                let post = w.project();
                j.step(&g, &w, s, ci, &pre, &outc, &post);
                edges_done += 1;
                let slot = by_op.entry(g.calls[ci]["op"].as_str().unwrap_or("?").to_string()).or_insert([0, 0]);
                if e.is_ok() {
                    ok_edges += 1;
                    slot[0] += 1;
                } else {
                    slot[1] += 1;
                }
                if post != pre {
                    // state changed (legitimately or not): start again from a fresh copy of s
                    w = match reach(&g) {
                        Some(w) => w,
                        None => break,
                    };
                    pre = w.project();
                    j.hist = path_calls.clone();
                }
            }
        }
    }

    // random walks over the graph
    let mut rng = StdRng::seed_from_u64(seed.wrapping_mul(1000003).wrapping_add(shard as u64));
    let mut walk_steps = 0usize;
    for wi in 0..walks {
        j.all = wi < trace_walks;
        j.hist = vec![];
        let w = match World::build(&g.pool, false) {
            Ok(w) => w,
            Err(_) => break,
        };
        let mut cur = g.init;
        let mut pre = w.project();
        for _ in 0..walk_len {
            // prefer calls that may succeed half of the time (most calls fail)
            let oks: Vec<usize> = (0..g.calls.len()).filter(|c| g.edges[cur][*c].is_ok()).collect();
            let ci = if !oks.is_empty() && rng.gen_bool(0.6) {
                oks[rng.gen_range(0..oks.len())]
            } else {
                rng.gen_range(0..g.calls.len())
            };
            if matches!(g.edges[cur][ci], Edge::Any) {
                continue;
            }
            heartbeat(|| json!({"event": "crash", "call": g.calls[ci], "calls": j.hist}).to_string());
            let outc = w.exec(&g.calls[ci]);
            let post = w.project();
            let nx = j.step(&g, &w, cur, ci, &pre, &outc, &post);
            walk_steps += 1;
            match nx {
                Some(n) => {
                    cur = n;
                    pre = post;
                }
                None => break,
            }
        }
    }
    j.out.flush().unwrap();
    let stats = json!({"states": ns, "calls": g.calls.len(), "edges_replayed": edges_done,
        "ok_edges": ok_edges, "unreached_states": unreached, "walks": walks, "walk_steps": walk_steps,
        "residual": j.residual, "steps": j.steps,
        "by_op": by_op.iter().map(|(k, v)| (k.clone(), json!({"may_succeed": v[0], "must_fail": v[1]}))).collect::<serde_json::Map<String, J>>()});
    eprintln!("{}", stats);
    println!("{}", stats);
    0
}
