//! (to be filled)
pub fn main(_args: &[String]) -> i32 {
    eprintln!("not implemented");
    2
}
pub fn worker(_args: &[String]) -> i32 {
    2
}
