//! xp-total / xp-worker (C06): every expression is run through `xml_xpath::query` in a CHILD PROCESS
//! (this binary re-executed with the sub-command `xp-worker`), so that a panic, an abort (stack overflow,
//! signal) or a hang of the code under test is observed as data:
//!     outcome = ok | err | panic | abort | timeout      (+ CPU milliseconds of the call)
//!
//!   xp-total --in CASES --trace OUT --stats OUT [--garbage N --seed S] [--sample K] [--workers W]
//!       CASES: `call` lines printed by MC_XPathCost (hostile families, named constructs) and, optionally,
//!       DOC/REPLAY lines of MC_XPath (every spelling is run too).  `--garbage N`: N seeded random strings
//!       over the XPath token alphabet and single-character mutations of the valid expressions seen.
//!   xp-worker      reads {"doc":..,"expr":..} lines on stdin, answers one JSON line each.
//!
//! Trace_XPathCost.tla judges the events (the specification has no Panic/Abort/Timeout action).

use super::parse_merged;
use crate::util::*;
use rand::rngs::StdRng;
use rand::{Rng, SeedableRng};
use serde_json::{json, Value as J};
use std::io::{BufRead, BufReader, Write};
use std::process::{Child, Command, Stdio};
use std::sync::mpsc::{channel, Receiver, RecvTimeoutError};
use std::time::{Duration, Instant};
use xml_xpath::eval::model::{Context, Value};

/// wall-clock limit of one call (a hang or runaway computation); the polynomial bound of the hostile
/// families is applied to the CPU time of the call, which does not depend on the load of the machine
const LIMIT: Duration = Duration::from_secs(15);

/// CPU time (user + system) of this process in milliseconds (/proc/self/stat, 100 Hz ticks)
fn cpu_ms() -> u64 {
    std::fs::read_to_string("/proc/self/stat")
        .ok()
        .and_then(|s| {
            let rest = s.rsplit_once(") ")?.1.to_string();
            let f: Vec<&str> = rest.split(' ').collect();
            let ut: u64 = f.get(11)?.parse().ok()?;
            let st: u64 = f.get(12)?.parse().ok()?;
            Some((ut + st) * 10)
        })
        .unwrap_or(0)
}

// ------------------------------------------------------------------------------------------------
// worker (child process)

pub fn worker(_args: &[String]) -> i32 {
    let stdin = std::io::stdin();
    let stdout = std::io::stdout();
    let mut cached: Option<(String, Result<xml_dom::XmlDocument, String>)> = None;
    for line in stdin.lock().lines() {
        let line = match line {
            Ok(l) => l,
            Err(_) => break,
        };
        let req: J = match serde_json::from_str(&line) {
            Ok(v) => v,
            Err(_) => continue,
        };
        let doc_text = req["doc"].as_str().unwrap_or("").to_string();
        let expr = req["expr"].as_str().unwrap_or("").to_string();
        if cached.as_ref().map(|c| c.0 != doc_text).unwrap_or(true) {
            cached = Some((doc_text.clone(), parse_merged(&doc_text)));
        }
        let resp = match &cached.as_ref().unwrap().1 {
            Err(e) => json!({"o": "doc", "detail": e}),
            Ok(dom) => {
                let t0 = Instant::now();
                let c0 = cpu_ms();
                let r = guarded(|| {
                    let mut ctx = Context::default();
                    match xml_xpath::query(dom.clone(), &expr, &mut ctx) {
                        Ok(Value::Node(ns)) => ("ok", ns.is_empty(), format!("nodes[{}]", ns.len())),
                        Ok(Value::Boolean(b)) => ("ok", false, format!("{}", b)),
                        Ok(Value::Number(n)) => ("ok", false, format!("{}", n)),
                        Ok(Value::Text(s)) => ("ok", false, format!("'{}'", s.chars().take(40).collect::<String>())),
                        Err(e) => ("err", false, e.to_string().chars().take(80).collect()),
                    }
                });
                let wall = t0.elapsed().as_millis() as u64;
                // CPU time has a 10 ms resolution; never report more than the wall-clock time
                let ms = (cpu_ms() - c0).min(wall);
                match r {
                    Ok((o, empty, detail)) => json!({"o": o, "empty": empty, "detail": detail, "ms": ms}),
                    Err(p) => json!({"o": "panic", "empty": false, "detail": p.chars().take(120).collect::<String>(), "ms": ms}),
                }
            }
        };
        let mut out = stdout.lock();
        if writeln!(out, "{}", resp).is_err() || out.flush().is_err() {
            break;
        }
    }
    0
}

// ------------------------------------------------------------------------------------------------
// parent

struct Proc {
    child: Child,
    rx: Receiver<String>,
}

fn spawn() -> Proc {
    let exe = std::env::current_exe().expect("current_exe");
    let mut child = Command::new(exe)
        .arg("xp-worker")
        .stdin(Stdio::piped())
        .stdout(Stdio::piped())
        .stderr(Stdio::null())
        .spawn()
        .expect("spawn worker");
    let out = child.stdout.take().unwrap();
    let (tx, rx) = channel();
    std::thread::spawn(move || {
        for line in BufReader::new(out).lines() {
            match line {
                Ok(l) => {
                    if tx.send(l).is_err() {
                        break;
                    }
                }
                Err(_) => break,
            }
        }
    });
    Proc { child, rx }
}

/// one call in the child process; the child is replaced when it died or hung
fn call(p: &mut Proc, doc: &str, expr: &str) -> J {
    let r = call_limit(p, doc, expr, LIMIT);
    if r["o"] == "timeout" {
        // a starved machine is not a hang: once more, alone in a fresh child, with four times the limit
        return call_limit(p, doc, expr, LIMIT * 4);
    }
    r
}

fn call_limit(p: &mut Proc, doc: &str, expr: &str, limit: Duration) -> J {
    let req = json!({"doc": doc, "expr": expr}).to_string();
    let t0 = Instant::now();
    let sent = {
        let stdin = p.child.stdin.as_mut().unwrap();
        writeln!(stdin, "{}", req).and_then(|_| stdin.flush())
    };
    let res = if sent.is_err() { Err(RecvTimeoutError::Disconnected) } else { p.rx.recv_timeout(limit) };
    match res {
        Ok(line) => serde_json::from_str(&line).unwrap_or(json!({"o": "abort", "detail": "garbled answer"})),
        Err(RecvTimeoutError::Timeout) => {
            let _ = p.child.kill();
            let _ = p.child.wait();
            *p = spawn();
            json!({"o": "timeout", "empty": false, "detail": format!("no answer within {} s", limit.as_secs()), "ms": t0.elapsed().as_millis() as u64})
        }
        Err(RecvTimeoutError::Disconnected) => {
            let status = p.child.wait().ok();
            let detail = match status {
                Some(s) => {
                    #[cfg(unix)]
                    {
                        use std::os::unix::process::ExitStatusExt;
                        match s.signal() {
                            Some(sig) => format!("signal {}", sig),
                            None => format!("exit {:?}", s.code()),
                        }
                    }
                    #[cfg(not(unix))]
                    {
                        format!("{:?}", s)
                    }
                }
                None => "child vanished".to_string(),
            };
            *p = spawn();
            json!({"o": "abort", "empty": false, "detail": detail, "ms": t0.elapsed().as_millis() as u64})
        }
    }
}

const TOKENS: [&str; 66] = [
    "/", "//", "*", "a", "b", "@", "x", "[", "]", "(", ")", "1", "0", ".", "..", "::", "child", "ancestor", "following",
    "text", "node", "comment", "processing-instruction", "'", "\"", "s", "|", "+", "-", "=", "!=", "<", ">", "<=", "and",
    "or", "div", "mod", ",", " ", "$", "v", ":", "p", "count", "string", "substring", "last", "position", "id", "lang",
    "not", "sum", "namespace", "attribute", "self", "parent", "9", "e", "#", "日", "\t", "\n", "preceding-sibling", "]]", "((",
];

pub fn garbage(rng: &mut StdRng, valid: &[String]) -> String {
    if !valid.is_empty() && rng.gen_bool(0.4) {
        // one edit of a valid expression
        let base: Vec<char> = valid[rng.gen_range(0..valid.len())].chars().collect();
        let mut v = base.clone();
        if v.is_empty() {
            return String::new();
        }
        let i = rng.gen_range(0..v.len());
        match rng.gen_range(0..4) {
            0 => {
                v.remove(i);
            }
            1 => {
                let t: Vec<char> = TOKENS[rng.gen_range(0..TOKENS.len())].chars().collect();
                for (k, c) in t.into_iter().enumerate() {
                    v.insert(i + k, c);
                }
            }
            2 => v.truncate(i),
            _ => v.swap(i, (i + 1) % base.len()),
        }
        v.into_iter().collect()
    } else {
        let n = rng.gen_range(1..13);
        (0..n).map(|_| TOKENS[rng.gen_range(0..TOKENS.len())]).collect::<Vec<_>>().join("")
    }
}

pub fn main(args: &[String]) -> i32 {
    let inp = arg_value(args, "--in").unwrap_or("-");
    let trace = arg_value(args, "--trace").unwrap_or("-");
    let stats_path = arg_value(args, "--stats");
    let n_garbage: usize = arg_value(args, "--garbage").and_then(|s| s.parse().ok()).unwrap_or(0);
    let seed: u64 = arg_value(args, "--seed").and_then(|s| s.parse().ok()).unwrap_or(1);
    let sample: usize = arg_value(args, "--sample").and_then(|s| s.parse().ok()).unwrap_or(100);
    let workers: usize = arg_value(args, "--workers").and_then(|s| s.parse().ok()).unwrap_or(4);

    // the work list: (event skeleton, doc text, expr text, always_trace)
    let mut work: Vec<(J, String, String, bool)> = vec![];
    let mut docs: Vec<String> = vec![];
    let mut mc_docs: std::collections::HashMap<i64, String> = Default::default();
    let mut valid: Vec<String> = vec![];
    for_each_case(inp, |case| match case["k"].as_str().unwrap_or("") {
        "call" => {
            let doc = cps_to_string(&case["doc"]);
            let expr = cps_to_string(&case["expr"]);
            if !docs.contains(&doc) {
                docs.push(doc.clone());
            }
            let ev = json!({"k": "call", "fam": case["fam"], "n": case["n"], "allow": case["allow"], "maxms": case["maxms"],
                            "expr": case["expr"]});
            work.push((ev, doc, expr, true));
        }
        "doc" => {
            mc_docs.insert(case["doc"].as_i64().unwrap_or(0), cps_to_string(&case["text"]));
        }
        "xp" => {
            if let Some(doc) = mc_docs.get(&case["doc"].as_i64().unwrap_or(0)) {
                for sp in case["sp"].as_array().unwrap_or(&vec![]) {
                    let expr = cps_to_string(sp);
                    if valid.len() < 5000 {
                        valid.push(expr.clone());
                    }
                    let ev = json!({"k": "call", "fam": "spelling", "n": 0, "allow": "any", "maxms": 2000, "expr": sp});
                    work.push((ev, doc.clone(), expr, false));
                }
            }
        }
        _ => {}
    });
    if docs.is_empty() {
        docs.push("<a x=\"1\"><b/><b>1</b></a>".to_string());
    }
    let mut rng = StdRng::seed_from_u64(seed ^ 0xc06);
    for i in 0..n_garbage {
        let expr = garbage(&mut rng, &valid);
        let doc = docs[i % docs.len()].clone();
        let ev = json!({"k": "call", "fam": "garbage", "n": 0, "allow": "any", "maxms": 2000, "expr": string_to_cps(&expr)});
        work.push((ev, doc, expr, false));
    }

    // run: W threads, each with its own child process; results merged in input order
    let total = work.len();
    let work = std::sync::Arc::new(work);
    let mut handles = vec![];
    for wi in 0..workers {
        let work = work.clone();
        handles.push(std::thread::spawn(move || {
            let mut p = spawn();
            let mut res: Vec<(usize, J)> = vec![];
            let mut i = wi;
            while i < work.len() {
                let (_, doc, expr, _) = &work[i];
                res.push((i, call(&mut p, doc, expr)));
                i += workers;
            }
            let _ = p.child.kill();
            let _ = p.child.wait();
            res
        }));
    }
    let mut results: Vec<Option<J>> = vec![None; total];
    for h in handles {
        match h.join() {
            Ok(rs) => {
                for (i, r) in rs {
                    results[i] = Some(r);
                }
            }
            Err(_) => {
                // the harness itself failed (e.g. its executable could not be re-executed): a tool error,
                // never an observation about the code under test
                eprintln!("xp-total: a worker thread of the harness died");
                return 2;
            }
        }
    }
    if results.iter().any(|r| r.is_none()) {
        eprintln!("xp-total: missing results");
        return 2;
    }

    let mut w = open_out(trace);
    let mut counts: std::collections::BTreeMap<String, u64> = Default::default();
    let mut fams: std::collections::BTreeMap<String, u64> = Default::default();
    let mut traced = 0u64;
    let mut fast_ok = 0u64;
    let mut samples: Vec<J> = vec![];
    let mut max_ms = 0u64;
    for (i, (ev, doc, expr, always)) in work.iter().enumerate() {
        let r = results[i].clone().unwrap_or(json!({"o": "abort", "detail": "no result"}));
        let o = r["o"].as_str().unwrap_or("abort").to_string();
        *counts.entry(o.clone()).or_insert(0) += 1;
        *fams.entry(ev["fam"].as_str().unwrap_or("").to_string()).or_insert(0) += 1;
        let ms = r["ms"].as_u64().unwrap_or(0);
        max_ms = max_ms.max(ms);
        let fine = (o == "ok" || o == "err") && ms <= 1000;
        if fine {
            fast_ok += 1;
        }
        if *always || !fine || (sample > 0 && i % sample == 0) {
            let mut e = ev.clone();
            e["doc"] = string_to_cps(doc);
            e["outcome"] = json!(o);
            e["empty"] = json!(r["empty"].as_bool().unwrap_or(false));
            e["ms"] = json!(ms);
            e["detail"] = r["detail"].clone();
            writeln!(w, "{}", e).unwrap();
            traced += 1;
            if samples.len() < 5 && (i % 37 == 0) {
                samples.push(json!({"expr": expr, "outcome": o, "detail": r["detail"], "ms": ms}));
            }
        }
    }
    w.flush().unwrap();
    let stats = json!({"calls": total, "outcomes": counts, "families": fams, "traced": traced, "fast_ok": fast_ok,
                       "max_ms": max_ms, "samples": samples});
    if let Some(p) = stats_path {
        let mut f = open_out(p);
        writeln!(f, "{}", stats).unwrap();
    } else {
        eprintln!("{}", stats);
    }
    0
}
