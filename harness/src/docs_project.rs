//! Projection of a parsed document through the PUBLIC API = the Rust twin of the `tree` of
//! spec/XmlDoc.tla:
//!   {"xmldecl": {"present","ver","enc","sa"},
//!    "doctype": {"present","n","ext","pub","sys","pos","uents":[..],"nots":[..],"pis":[..]},
//!    "nodes":   [{"k":"elem"|"chars"|"comment"|"pi","p":parent index (0 = document),"n":name cps,
//!                 "v":data cps,"a":[{"n","v","spec"}]}]}   (document order; 1-based indices)
//! Character data: maximal runs of sibling Text / CDATA / character-reference / entity-reference
//! (or merged-text) nodes are collapsed into one "chars" node holding the expanded characters, so
//! that the raw and the merged (text_expanded) DOM views are comparable; empty runs are dropped.
//! Namespace declarations (xmlns, xmlns:p) are not part of "a" on either side.
//! Structure, names, attributes and character data come from xml_dom; the XML declaration and the
//! DOCTYPE identifiers / DTD processing instructions, which DOM Level 1 does not expose, come from
//! the xml_info accessors of the same parse.

use crate::util::*;
use serde_json::{json, Value as J};
use xml_dom::{
    AsExpandedName, Attr, CharacterData, Document, DocumentType, Entity, Node, Notation,
    ProcessingInstruction, XmlNode,
};

fn cps(s: &str) -> J {
    string_to_cps(s)
}

fn qualified(prefix: Option<String>, local: String) -> String {
    // as_expanded_name reports the pseudo prefix "xmlns" for unprefixed names
    match prefix {
        Some(p) if p != "xmlns" => format!("{}:{}", p, local),
        _ => local,
    }
}

fn name_of<T: AsExpandedName + Node>(n: &T, errs: &mut Vec<String>) -> String {
    match n.as_expanded_name() {
        Ok(Some((l, p, _))) => qualified(p, l),
        Ok(None) => n.node_name(),
        Err(e) => {
            errs.push(format!("name: {}", e));
            n.node_name()
        }
    }
}

struct Walk {
    nodes: Vec<J>,
    errs: Vec<String>,
}

impl Walk {
    fn chars_of(&mut self, n: &XmlNode) -> Option<String> {
        let r = match n {
            XmlNode::Text(t) => t.data().map_err(|e| e.to_string()),
            XmlNode::CData(t) => t.data().map_err(|e| e.to_string()),
            XmlNode::ExpandedText(t) => t.data().map_err(|e| e.to_string()),
            XmlNode::EntityReference(r) => r.value().map_err(|e| e.to_string()),
            _ => return None,
        };
        match r {
            Ok(s) => Some(s),
            Err(e) => {
                self.errs.push(format!("chars: {}", e));
                Some(String::new())
            }
        }
    }

    fn children(&mut self, kids: Vec<XmlNode>, parent: usize) {
        let mut run: Option<String> = None;
        for kid in kids {
            if let Some(s) = self.chars_of(&kid) {
                match run.as_mut() {
                    Some(r) => r.push_str(&s),
                    None => run = Some(s),
                }
                continue;
            }
            self.flush(&mut run, parent);
            match &kid {
                XmlNode::Element(e) => {
                    let name = name_of(e, &mut self.errs);
                    let mut attrs = vec![];
                    if let Some(map) = e.attributes() {
                        for a in map.iter() {
                            let an = name_of(&a, &mut self.errs);
                            if an == "xmlns" || an.starts_with("xmlns:") {
                                continue;
                            }
                            match a.value() {
                                Ok(v) => attrs.push(json!({"n": cps(&an), "v": cps(&v), "spec": a.specified()})),
                                Err(err) => {
                                    self.errs.push(format!("attr value: {}", err));
                                    attrs.push(json!({"n": cps(&an), "v": [], "spec": a.specified(), "err": true}))
                                }
                            }
                        }
                    }
                    self.nodes
                        .push(json!({"k": "elem", "p": parent, "n": cps(&name), "v": [], "a": attrs}));
                    let me = self.nodes.len();
                    let kids: Vec<XmlNode> = e.child_nodes().iter().collect();
                    self.children(kids, me);
                }
                XmlNode::Comment(c) => {
                    let d = c.data().unwrap_or_else(|e| {
                        self.errs.push(format!("comment: {}", e));
                        String::new()
                    });
                    self.nodes
                        .push(json!({"k": "comment", "p": parent, "n": [], "v": cps(&d), "a": []}));
                }
                XmlNode::PI(p) => {
                    self.nodes.push(
                        json!({"k": "pi", "p": parent, "n": cps(&p.target()), "v": cps(&p.data()), "a": []}),
                    );
                }
                XmlNode::DocumentType(_) => {}
                other => {
                    self.errs.push(format!("unexpected node {:?}", other.node_type()));
                }
            }
        }
        self.flush(&mut run, parent);
    }

    fn flush(&mut self, run: &mut Option<String>, parent: usize) {
        if let Some(s) = run.take() {
            if !s.is_empty() {
                self.nodes
                    .push(json!({"k": "chars", "p": parent, "n": [], "v": cps(&s), "a": []}));
            }
        }
    }
}

fn opt(s: Option<String>) -> (bool, J) {
    match s {
        Some(v) => (true, cps(&v)),
        None => (false, json!([])),
    }
}

/// `info`: the xml_info document of the same text (for what DOM Level 1 does not expose).
pub fn project(dom: &xml_dom::XmlDocument, text: &str) -> J {
    let mut w = Walk { nodes: vec![], errs: vec![] };
    let top: Vec<XmlNode> = dom.child_nodes().iter().collect();
    let mut pos = 0usize;
    let mut seen = 0usize;
    for k in &top {
        match k {
            XmlNode::DocumentType(_) => pos = seen,
            _ => seen += 1,
        }
    }
    w.children(top, 0);

    // DOCTYPE: entities / notations through DOM, identifiers and PIs through xml_info
    let mut doctype = json!({"present": false, "n": [], "ext": "none", "pub": [], "sys": [], "pos": 0,
                             "uents": [], "nots": [], "pis": []});
    let mut xmldecl = json!({"present": false, "ver": [], "enc": [], "sa": "none"});
    if let Some(dt) = dom.doc_type() {
        let mut uents = vec![];
        for e in dt.entities().iter() {
            if let Some(nd) = e.notation_name() {
                let (haspub, p) = opt(e.public_id());
                let (_, s) = opt(e.system_id());
                uents.push(json!({"n": cps(&e.node_name()), "pub": p, "haspub": haspub, "sys": s,
                                  "ndata": cps(&nd)}));
            }
        }
        let mut nots = vec![];
        for n in dt.notations().iter() {
            let (haspub, p) = opt(n.public_id());
            let (hassys, s) = opt(n.system_id());
            nots.push(json!({"n": cps(&n.node_name()), "pub": p, "haspub": haspub, "sys": s, "hassys": hassys}));
        }
        doctype["present"] = json!(true);
        doctype["pos"] = json!(pos);
        doctype["uents"] = J::Array(uents);
        doctype["nots"] = J::Array(nots);
        doctype["n"] = cps(&dt.name());
    }
    match xml_parser::document(text) {
        Ok((_, tree)) => match xml_info::XmlDocument::new(&tree) {
            Ok(doc) => {
                use xml_info::{Document as D, DocumentTypeDeclaration as T, HasQName, ProcessingInstruction as P};
                let d = doc.borrow();
                if let Some(v) = d.version() {
                    xmldecl["present"] = json!(true);
                    xmldecl["ver"] = cps(v);
                    xmldecl["enc"] = cps(d.character_encoding_scheme());
                    xmldecl["sa"] = json!(match d.standalone() {
                        Some(true) => "yes",
                        Some(false) => "no",
                        None => "none",
                    });
                }
                if let Some(decl) = d.document_declaration() {
                    let decl = decl.borrow();
                    let name = match decl.prefix() {
                        Some(p) => format!("{}:{}", p, decl.local_name()),
                        None => decl.local_name().to_string(),
                    };
                    doctype["n"] = cps(&name);
                    let p = decl.public_identifier();
                    let s = decl.system_identifier();
                    doctype["ext"] = json!(if p.is_some() { "public" } else if s.is_some() { "system" } else { "none" });
                    doctype["pub"] = cps(p.unwrap_or_default());
                    doctype["sys"] = cps(s.unwrap_or_default());
                    let mut pis = vec![];
                    for pi in decl.children().iter() {
                        let pi = pi.borrow();
                        pis.push(json!({"n": cps(pi.target()), "v": cps(pi.content())}));
                    }
                    doctype["pis"] = J::Array(pis);
                }
            }
            Err(e) => w.errs.push(format!("info: {}", e)),
        },
        Err(e) => w.errs.push(format!("info parse: {}", e)),
    }
    let mut out = json!({"xmldecl": xmldecl, "doctype": doctype, "nodes": w.nodes});
    if !w.errs.is_empty() {
        out["errs"] = json!(w.errs);
    }
    out
}

/// Order-insensitive form for the fast path: attribute / entity / notation arrays sorted.
pub fn canonical(t: &J) -> J {
    let mut t = t.clone();
    fn sort(a: &mut J) {
        if let Some(arr) = a.as_array_mut() {
            arr.sort_by_key(|x| x.to_string());
        }
    }
    if let Some(nodes) = t.get_mut("nodes").and_then(|n| n.as_array_mut()) {
        for n in nodes {
            if let Some(a) = n.get_mut("a") {
                sort(a);
            }
        }
    }
    if let Some(d) = t.get_mut("doctype") {
        if let Some(a) = d.get_mut("uents") {
            sort(a);
        }
        if let Some(a) = d.get_mut("nots") {
            sort(a);
        }
    }
    t
}

// -------------------------------------------------------------------------------------------------
// The same tree through the INFORMATION SET accessors of xml_info (the third view: C01 names the
// xml_info trait accessors as observation points).  Names come from HasQName (prefix + local name),
// attributes from Element::attributes() (namespace attributes are a separate property there),
// character data from Character::character_code / UnexpandedEntityReference::value, notations and
// unparsed entities from Document::notations() / unparsed_entities().

fn qn<T: xml_info::HasQName>(v: &T) -> String {
    match v.prefix() {
        Some(p) => format!("{}:{}", p, v.local_name()),
        None => v.local_name().to_string(),
    }
}

struct InfoWalk {
    nodes: Vec<J>,
    errs: Vec<String>,
}

impl InfoWalk {
    fn children(&mut self, kids: Vec<std::rc::Rc<xml_info::XmlItem>>, parent: usize) {
        use xml_info::{Attribute as A, Character as C, Comment as Cm, Element as E, ProcessingInstruction as P};
        let mut run: Option<String> = None;
        for kid in kids {
            let chars: Option<String> = if let Some(t) = kid.as_text() {
                Some(t.borrow().character_code().to_string())
            } else if let Some(t) = kid.as_cdata() {
                Some(t.borrow().character_code().to_string())
            } else if let Some(t) = kid.as_char_reference() {
                Some(t.borrow().character_code().to_string())
            } else if let Some(t) = kid.as_unexpanded() {
                match t.borrow().value() {
                    Ok(v) => Some(v),
                    Err(e) => {
                        self.errs.push(format!("entity value: {}", e));
                        Some(String::new())
                    }
                }
            } else {
                None
            };
            if let Some(c) = chars {
                match run.as_mut() {
                    Some(r) => r.push_str(&c),
                    None => run = Some(c),
                }
                continue;
            }
            self.flush(&mut run, parent);
            if let Some(e) = kid.as_element() {
                let e = e.borrow();
                let mut attrs = vec![];
                for a in e.attributes().iter() {
                    let a = a.borrow();
                    match a.normalized_value() {
                        Ok(v) => attrs.push(json!({"n": cps(&qn(&*a)), "v": cps(&v), "spec": a.specified()})),
                        Err(err) => {
                            self.errs.push(format!("attr value: {}", err));
                            attrs.push(json!({"n": cps(&qn(&*a)), "v": [], "spec": a.specified(), "err": true}))
                        }
                    }
                }
                self.nodes
                    .push(json!({"k": "elem", "p": parent, "n": cps(&qn(&*e)), "v": [], "a": attrs}));
                let me = self.nodes.len();
                let kids: Vec<_> = e.children().iter().collect();
                drop(e);
                self.children(kids, me);
            } else if let Some(c) = kid.as_comment() {
                self.nodes
                    .push(json!({"k": "comment", "p": parent, "n": [], "v": cps(c.borrow().comment()), "a": []}));
            } else if let Some(p) = kid.as_pi() {
                let p = p.borrow();
                self.nodes
                    .push(json!({"k": "pi", "p": parent, "n": cps(p.target()), "v": cps(p.content()), "a": []}));
            } else if kid.as_document_type().is_some() {
            } else {
                self.errs.push("unexpected item".to_string());
            }
        }
        self.flush(&mut run, parent);
    }

    fn flush(&mut self, run: &mut Option<String>, parent: usize) {
        if let Some(s) = run.take() {
            if !s.is_empty() {
                self.nodes
                    .push(json!({"k": "chars", "p": parent, "n": [], "v": cps(&s), "a": []}));
            }
        }
    }
}

pub fn project_info(doc: &xml_info::XmlNode<xml_info::XmlDocument>) -> J {
    use xml_info::{Document as D, DocumentTypeDeclaration as T, Notation as N, ProcessingInstruction as P, UnparsedEntity as U};
    let d = doc.borrow();
    let mut w = InfoWalk { nodes: vec![], errs: vec![] };
    let top: Vec<_> = d.children().iter().collect();
    let mut pos = 0usize;
    let mut seen = 0usize;
    for k in &top {
        if k.as_document_type().is_some() {
            pos = seen;
        } else {
            seen += 1;
        }
    }
    w.children(top, 0);
    let mut xmldecl = json!({"present": false, "ver": [], "enc": [], "sa": "none"});
    if let Some(v) = d.version() {
        xmldecl = json!({"present": true, "ver": cps(v), "enc": cps(d.character_encoding_scheme()),
                         "sa": match d.standalone() { Some(true) => "yes", Some(false) => "no", None => "none" }});
    }
    let mut doctype = json!({"present": false, "n": [], "ext": "none", "pub": [], "sys": [], "pos": 0,
                             "uents": [], "nots": [], "pis": []});
    if let Some(decl) = d.document_declaration() {
        let decl = decl.borrow();
        let p = decl.public_identifier();
        let s = decl.system_identifier();
        let mut pis = vec![];
        for pi in decl.children().iter() {
            let pi = pi.borrow();
            pis.push(json!({"n": cps(pi.target()), "v": cps(pi.content())}));
        }
        let mut uents = vec![];
        for u in d.unparsed_entities().iter() {
            let u = u.borrow();
            let (haspub, pu) = opt(u.public_identifier().map(|v| v.to_string()));
            uents.push(json!({"n": cps(u.name()), "pub": pu, "haspub": haspub, "sys": cps(u.system_identifier()),
                              "ndata": cps(u.notation_name())}));
        }
        let mut nots = vec![];
        if let Some(ns) = d.notations() {
            for n in ns.iter() {
                let n = n.borrow();
                let (haspub, pu) = opt(n.public_identifier().map(|v| v.to_string()));
                let (hassys, sy) = opt(n.system_identifier().map(|v| v.to_string()));
                nots.push(json!({"n": cps(n.name()), "pub": pu, "haspub": haspub, "sys": sy, "hassys": hassys}));
            }
        }
        doctype = json!({"present": true, "n": cps(&qn(&*decl)),
                         "ext": if p.is_some() { "public" } else if s.is_some() { "system" } else { "none" },
                         "pub": cps(p.unwrap_or_default()), "sys": cps(s.unwrap_or_default()), "pos": pos,
                         "uents": uents, "nots": nots, "pis": pis});
    }
    let mut out = json!({"xmldecl": xmldecl, "doctype": doctype, "nodes": w.nodes});
    if !w.errs.is_empty() {
        out["errs"] = json!(w.errs);
    }
    out
}
