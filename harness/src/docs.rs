//! Documents engine (C01 C02 C04: doc-replay / doc-record; C11: doc-attr-*; C03: doc-cost-*).
//!
//! The harness never judges: every sub-command writes ndjson observations that `spec/Trace_*.tla`
//! judges.  Sub-modules: docs_project.rs (projection of a DOM through the public API = Rust twin of the
//! specification's tree), docs_attr.rs (C11), docs_cost.rs (C03).
#[allow(unused_imports)]
use crate::util::*;

#[path = "docs_attr.rs"]
mod attr;
#[path = "docs_cost.rs"]
mod cost;
#[path = "docs_gen.rs"]
mod gen;
#[path = "docs_project.rs"]
pub mod project;

use serde_json::{json, Value as J};
use std::io::Write;

pub fn main(sub: &str, args: &[String]) -> i32 {
    match sub {
        s if s.starts_with("doc-attr-") => attr::main(s, args),
        s if s.starts_with("doc-cost-") => cost::main(s, args),
        "doc-replay" => {
            // deep recursion of the code under test must not take the harness down
            let owned: Vec<String> = args.to_vec();
            std::thread::Builder::new()
                .stack_size(1 << 29)
                .spawn(move || replay(&owned))
                .map(|h| h.join().unwrap_or(2))
                .unwrap_or(2)
        }
        "doc-record" => gen::record(args),
        "doc-textedit" => gen::textedit(args),
        _ => {
            eprintln!("unknown subcommand {}", sub);
            2
        }
    }
}

fn nchars(s: &str) -> usize {
    s.chars().count()
}

/// Parse `text` in one DOM view and project it.  Everything the implementation does is data.
fn view(text: &str, merged: bool) -> J {
    let r = guarded(|| {
        let parsed = if merged {
            xml_dom::XmlDocument::from_raw_with_context(text, xml_dom::Context::from_text_expanded(true))
        } else {
            xml_dom::XmlDocument::from_raw(text)
        };
        match parsed {
            Ok((rest, dom)) => {
                json!({"parse": "ok", "rest": nchars(rest), "proj": project::project(&dom, text)})
            }
            Err(_) => json!({"parse": "err", "rest": 0}),
        }
    });
    match r {
        Ok(v) => v,
        Err(msg) => json!({"parse": "panic", "rest": 0, "msg": msg}),
    }
}

/// The information-set view: xml_parser::document + xml_info::XmlDocument::new, projected through the
/// xml_info trait accessors.
fn info_view(text: &str) -> J {
    let r = guarded(|| match xml_parser::document(text) {
        Ok((rest, tree)) => match xml_info::XmlDocument::new(&tree) {
            Ok(doc) => json!({"parse": "ok", "rest": nchars(rest), "proj": project::project_info(&doc)}),
            Err(_) => json!({"parse": "err", "rest": 0}),
        },
        Err(_) => json!({"parse": "err", "rest": 0}),
    });
    match r {
        Ok(v) => v,
        Err(msg) => json!({"parse": "panic", "rest": 0, "msg": msg}),
    }
}

/// C04: print, re-parse, compare (library == and projection), re-print.
fn round_trip(text: &str, proj1: &J) -> J {
    let r = guarded(|| {
        let (_, d1) = match xml_dom::XmlDocument::from_raw(text) {
            Ok(v) => v,
            Err(_) => return json!({"print": "none"}),
        };
        let s1 = format!("{}", d1);
        match xml_dom::XmlDocument::from_raw(&s1) {
            Ok((rest2, d2)) => {
                let eq = d2 == d1;
                let p2 = project::project(&d2, &s1);
                let same = project::canonical(&p2) == project::canonical(proj1);
                let s2 = format!("{}", d2);
                let fix = s2 == s1;
                let mut o = json!({"print": "ok", "reparse": "ok", "rest": nchars(rest2), "eq": eq,
                                   "projsame": same, "fix": fix});
                if !same {
                    o["proj2"] = p2;
                }
                if !(eq && same && fix) || !rest2.is_empty() {
                    o["s1"] = string_to_cps(&s1);
                    if !fix {
                        o["s2"] = string_to_cps(&s2);
                    }
                }
                o
            }
            Err(_) => json!({"print": "ok", "reparse": "err", "rest": 0, "eq": false, "projsame": false,
                             "fix": false, "s1": string_to_cps(&s1)}),
        }
    });
    match r {
        Ok(v) => v,
        Err(msg) => json!({"print": "panic", "reparse": "none", "rest": 0, "eq": false, "projsame": false,
                           "fix": false, "msg": msg}),
    }
}

fn accepted(v: &J) -> bool {
    v["parse"] == "ok" && v["rest"] == 0
}

/// doc-replay --in <REPLAY lines or ndjson cases {toks, style, text, wf, viol, inprofile, tree}> --out <ndjson>
/// One observation event per case.  `fast` = the observation equals the expectation carried by the
/// case (fast path for "ok" only; the verdict of every event that is judged is computed by
/// spec/Trace_Doc.tla from `toks`).
fn replay(args: &[String]) -> i32 {
    let inp = arg_value(args, "--in").unwrap_or("-");
    let out = arg_value(args, "--out").unwrap_or("-");
    let skip: usize = arg_value(args, "--skip").and_then(|s| s.parse().ok()).unwrap_or(0);
    if let Some(wd) = arg_value(args, "--watch") {
        // a hang or a crash of the code under test becomes an event (util::watchdog_start)
        watchdog_start(wd, 30, arg_flag(args, "--sync"));
    }
    let mut w = open_out(out);
    let mut i = 0usize;
    for_each_case(inp, |case| {
        i += 1;
        if i <= skip {
            return;
        }
        heartbeat(|| {
            let gone = json!({"parse": "crash", "rest": 0});
            let mut ev = json!({"i": i, "toks": case["toks"], "style": case["style"], "text": case["text"],
                                "wf": case["wf"], "viol": case["viol"], "raw": gone, "merged": gone, "info": gone,
                                "rt": {"print": "none"}, "fast": false, "crash": true});
            if let Some(src) = case.get("src") {
                ev["src"] = src.clone();
            }
            ev.to_string()
        });
        let text = cps_to_string(&case["text"]);
        if let Some(needle) = arg_value(args, "--selftest-abort-on") {
            // self-test of the crash handling of the driver (never used by a check)
            if text.contains(needle) {
                std::process::abort();
            }
        }
        let raw = view(&text, false);
        let merged = view(&text, true);
        let info = info_view(&text);
        let rt = if raw["parse"] == "ok" {
            round_trip(&text, &raw["proj"])
        } else {
            json!({"print": "none"})
        };
        let wf = case["wf"].as_bool().unwrap_or(false);
        let inprofile = case["inprofile"].as_bool().unwrap_or(true);
        let rt_ok = rt["print"] == "ok"
            && rt["reparse"] == "ok"
            && rt["rest"] == 0
            && rt["eq"] == true
            && rt["projsame"] == true
            && rt["fix"] == true;
        let fast = if wf && inprofile {
            let exp = project::canonical(&case["tree"]);
            accepted(&raw)
                && accepted(&merged)
                && project::canonical(&raw["proj"]) == exp
                && project::canonical(&merged["proj"]) == exp
                && accepted(&info)
                && project::canonical(&info["proj"]) == exp
                && rt_ok
        } else if !wf {
            !accepted(&raw) && !accepted(&merged) && !accepted(&info)
                && raw["parse"] != "panic" && merged["parse"] != "panic" && info["parse"] != "panic"
        } else {
            raw["parse"] != "panic" && merged["parse"] != "panic" && (!accepted(&raw) || rt_ok)
        };
        let mut ev = json!({"i": i, "toks": case["toks"], "style": case["style"], "text": case["text"],
                            "wf": case["wf"], "viol": case["viol"],
                            "raw": raw, "merged": merged, "info": info, "rt": rt, "fast": fast});
        if let Some(src) = case.get("src") {
            ev["src"] = src.clone();
        }
        writeln!(w, "{}", ev).unwrap();
        if arg_flag(args, "--sync") {
            w.flush().unwrap();
        }
    });
    0
}
