//! Documents engine (C01 C02 C04: doc-replay / doc-record; C11: doc-attr-*; C03: doc-cost-*).
//!
//! The harness never judges: every sub-command writes ndjson observations that `spec/Trace_*.tla`
//! judges.  Sub-modules: docs_project.rs (projection of a DOM through the public API = Rust twin of the
//! specification's tree), docs_attr.rs (C11), docs_cost.rs (C03).
#[allow(unused_imports)]
use crate::util::*;

#[path = "docs_attr.rs"]
mod attr;
#[path = "docs_cost.rs"]
mod cost;

pub fn main(sub: &str, args: &[String]) -> i32 {
    match sub {
        s if s.starts_with("doc-attr-") => attr::main(s, args),
        s if s.starts_with("doc-cost-") => cost::main(s, args),
        _ => {
            eprintln!("unknown subcommand {}", sub);
            2
        }
    }
}
