//! Conformance harness binding the TLA+ specification under /verif/spec to the crates of /repo.
//!
//! Every sub-command reads ndjson cases (usually REPLAY lines produced by TLC) and writes ndjson
//! observations.  The harness never decides a property: it only reports what the implementation did.
//! A panic of the code under test is data (`"panic"` outcome), never a harness failure.
//!
//! Sub-commands are namespaced per engine so that the engines can grow independently:
//!   classes, names            C18            (chars.rs)
//!   dom-*, replay-dom         C12..C16       (dom*.rs, world.rs)
//!   doc-*                     C01 C02 C03 C04 C10 C11   (docs.rs and docs_*.rs)
//!   xp-*                      C05 C06 C07 C08 C09 C19   (xp.rs and xp_*.rs)
//!   cli-*                     C17            (cli.rs)

mod chars;
mod cli;
mod docs;
mod domrec;
mod domreplay;
mod domtext;
mod ns;
mod parsehist;
mod util;
mod world;
mod xp;

use std::env;
use std::process::exit;

fn main() {
    // Panics of the code under test are caught and reported as data; keep stderr quiet.
    // panics of the code under test are data (caught and logged); VERIF_PANIC_VERBOSE keeps the default hook (development aid)
    if std::env::var_os("VERIF_PANIC_VERBOSE").is_none() {
        std::panic::set_hook(Box::new(|_| {}));
    }

    let args: Vec<String> = env::args().collect();
    if args.len() < 2 {
        eprintln!("usage: harness <subcommand> [args]");
        exit(2);
    }
    let rest = &args[2..];
    let sub = args[1].as_str();
    let code = match sub {
        "classes" => chars::classes(rest),
        "names" => chars::names(rest),
        "charroles" => chars::charroles(rest),
        "replay-dom" => domreplay::replay(rest),
        "dom-record" => domrec::record(rest),
        "dom-rerun" => domrec::rerun(rest),
        s if s.starts_with("dom-") => domtext::main(s, rest),
        s if s.starts_with("doc-") => docs::main(s, rest),
        s if s.starts_with("xp-") => xp::main(s, rest),
        s if s.starts_with("cli-") => cli::main(s, rest),
        s if s.starts_with("ns-") => ns::main(s, rest),
        s if s.starts_with("ps-") || s.starts_with("qs-") => parsehist::main(s, rest),
        other => {
            eprintln!("unknown subcommand {}", other);
            2
        }
    };
    exit(code);
}
