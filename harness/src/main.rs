//! Conformance harness binding the TLA+ specification under /verif/spec to the crates of /repo.
//!
//! Every sub-command reads ndjson cases (usually REPLAY lines produced by TLC) and writes ndjson
//! observations.  The harness never decides a property: it only reports what the implementation did.
//! A panic of the code under test is data (`"panic"` outcome), never a harness failure.

mod chars;
mod domreplay;
mod util;
mod world;

use std::env;
use std::process::exit;

fn main() {
    // Panics of the code under test are caught and reported as data; keep stderr quiet.
    std::panic::set_hook(Box::new(|_| {}));

    let args: Vec<String> = env::args().collect();
    if args.len() < 2 {
        eprintln!("usage: harness <subcommand> [args]");
        exit(2);
    }
    let rest = &args[2..];
    let code = match args[1].as_str() {
        "classes" => chars::classes(rest),
        "names" => chars::names(rest),
        "replay-dom" => domreplay::replay(rest),
        other => {
            eprintln!("unknown subcommand {}", other);
            2
        }
    };
    exit(code);
}
