//! C11: attribute value normalization and defaulting.
//!
//!   doc-attr-replay --in <REPLAY file> --out <ndjson>
//!       every REPLAY case of MC_Attr.tla (document text as code points + expected effective
//!       attributes) is parsed in both views and what the public DOM API reports is recorded.
//!   doc-attr-record --seed N --count K --out <ndjson>
//!       seeded random abstract documents (longer literals, wider alphabet, nested entities, several
//!       elements / ATTLISTs / attributes), rendered by the twin of AttrNormSurface.Render, observed the
//!       same way.
//!   doc-attr-observe --in <ndjson of events or cases> --out <ndjson>
//!       re-observe stored events (replay of a stored case).
//!
//! The harness never judges.  `fast: true` only says that the observation is literally the REPLAY
//! expectation (fast path for "ok"); everything else is judged by spec/Trace_Attr.tla.
use crate::util::*;
use rand::rngs::StdRng;
use rand::{Rng, SeedableRng};
use serde_json::{json, Value as J};
use std::io::Write;
use xml_dom::{Attr, Document, Element, NamedNodeMap, Node};

// ------------------------------------------------------------------------------------------------
// observation through the public DOM API

fn observe_element(e: &xml_dom::XmlElement, ask: &[String]) -> J {
    let attrs = guarded(|| {
        let mut out = vec![];
        let mut len = -1i64;
        if let Some(map) = e.attributes() {
            len = map.length() as i64;
            for a in map.iter() {
                let name = guarded(|| a.name());
                let spec = guarded(|| a.specified());
                let val = guarded(|| a.value());
                let (v, st) = match val {
                    Ok(Ok(s)) => (string_to_cps(&s), "ok"),
                    Ok(Err(_)) => (json!([]), "err"),
                    Err(_) => (json!([]), "panic"),
                };
                out.push(json!({
                    "n": string_to_cps(&name.unwrap_or_else(|_| "?panic".to_string())),
                    "v": v,
                    "st": st,
                    // a string, so that the field has one type in TLA+ ("T" / "F" / "panic")
                    "spec": match spec { Ok(true) => "T", Ok(false) => "F", Err(_) => "panic" },
                }));
            }
        }
        (len, out)
    });
    let (len, attrs, st) = match attrs {
        Ok((len, out)) => (len, out, if len < 0 { "noattrs" } else { "ok" }),
        Err(_) => (-1, vec![], "panic"),
    };
    let get: Vec<J> = ask
        .iter()
        .map(|n| match guarded(|| e.get_attribute(n)) {
            Ok(s) => json!({"n": string_to_cps(n), "v": string_to_cps(&s), "st": "ok"}),
            Err(_) => json!({"n": string_to_cps(n), "v": [], "st": "panic"}),
        })
        .collect();
    json!({"st": st, "len": len, "attrs": attrs, "get": get})
}

/// XPath view of the attributes of one element (`path` selects it): count(path/@*) and
/// string(path/@name) for every asked name, through xml_xpath::query (the way xq calls it).
fn observe_xpath(doc: &xml_dom::XmlDocument, path: &str, ask: &[String]) -> J {
    let run = |expr: String| {
        guarded(|| {
            let mut ctx = xml_xpath::eval::model::Context::default();
            match xml_xpath::query(doc.clone(), expr.as_str(), &mut ctx) {
                Ok(xml_xpath::eval::model::Value::Number(n)) => ("num", format!("{}", n)),
                Ok(xml_xpath::eval::model::Value::Text(t)) => ("str", t),
                Ok(_) => ("other", String::new()),
                Err(_) => ("err", String::new()),
            }
        })
        .unwrap_or(("panic", String::new()))
    };
    let (st, n) = run(format!("count({}/@*)", path));
    let count: i64 = if st == "num" { n.parse::<i64>().unwrap_or(-1) } else { -1 };
    let strs: Vec<J> = ask
        .iter()
        .map(|name| {
            let (st, v) = run(format!("string({}/@{})", path, name));
            json!({"n": string_to_cps(name), "v": string_to_cps(&v), "st": if st == "str" { "ok" } else { st }})
        })
        .collect();
    json!({"st": if st == "num" { "ok" } else { st }, "count": count, "str": strs})
}

fn observe_doc(doc: &xml_dom::XmlDocument, ask: &[Vec<String>], xpath: bool) -> (String, Vec<J>) {
    let root = match guarded(|| doc.document_element()) {
        Ok(Ok(r)) => r,
        Ok(Err(_)) => return ("noroot".to_string(), vec![]),
        Err(_) => return ("panic".to_string(), vec![]),
    };
    let empty: Vec<String> = vec![];
    let mut els = vec![observe_element(&root, ask.first().unwrap_or(&empty))];
    if xpath {
        els[0]["xp"] = observe_xpath(doc, "/*", ask.first().unwrap_or(&empty));
    }
    let kids = guarded(|| {
        let mut v = vec![];
        for k in root.child_nodes().iter() {
            if let Some(e) = k.as_element() {
                v.push(e);
            }
        }
        v
    });
    match kids {
        Ok(kids) => {
            for (i, k) in kids.iter().enumerate() {
                let mut o = observe_element(k, ask.get(i + 1).unwrap_or(&empty));
                if xpath {
                    let path = format!("/*/*[{}]", i + 1);
                    o["xp"] = observe_xpath(doc, &path, ask.get(i + 1).unwrap_or(&empty));
                }
                els.push(o);
            }
            ("ok".to_string(), els)
        }
        Err(_) => ("panic".to_string(), els),
    }
}

fn observe_view(text: &str, expanded: bool, ask: &[Vec<String>]) -> J {
    let r = guarded(|| {
        let parsed = if expanded {
            xml_dom::XmlDocument::from_raw_with_context(
                text,
                xml_dom::Context::from_text_expanded(true),
            )
        } else {
            xml_dom::XmlDocument::from_raw(text)
        };
        match parsed {
            Ok((rest, doc)) => {
                if !rest.is_empty() {
                    ("rest".to_string(), vec![])
                } else {
                    // XPath is evaluated on the text-expanded document, as xq does
                    observe_doc(&doc, ask, expanded)
                }
            }
            Err(_) => ("err".to_string(), vec![]),
        }
    });
    let (parse, els) = r.unwrap_or_else(|_| ("panic".to_string(), vec![]));
    json!({"view": if expanded { "exp" } else { "raw" }, "parse": parse, "els": els})
}

fn observe(text: &str, ask: &[Vec<String>]) -> J {
    json!([observe_view(text, false, ask), observe_view(text, true, ask)])
}

fn ask_of(case: &J) -> Vec<Vec<String>> {
    case["ask"]
        .as_array()
        .map(|els| {
            els.iter()
                .map(|names| {
                    names
                        .as_array()
                        .map(|ns| ns.iter().map(cps_to_string).collect())
                        .unwrap_or_default()
                })
                .collect()
        })
        .unwrap_or_default()
}

/// exact equality of an observation with the REPLAY expectation (fast path for "ok" only)
fn is_fast(views: &J, expect: &J, ask: &[Vec<String>]) -> bool {
    let exp_els = match expect.as_array() {
        Some(a) => a,
        None => return false,
    };
    for view in views.as_array().unwrap() {
        if view["parse"] != "ok" {
            return false;
        }
        let els = view["els"].as_array().unwrap();
        if els.len() != exp_els.len() {
            return false;
        }
        for (i, (o, x)) in els.iter().zip(exp_els.iter()).enumerate() {
            let x = x.as_array().unwrap();
            if o["st"] != "ok" || o["len"].as_i64() != Some(x.len() as i64) {
                return false;
            }
            let mut got: Vec<(String, String, bool)> = vec![];
            for a in o["attrs"].as_array().unwrap() {
                if a["st"] != "ok" || a["spec"] == "panic" {
                    return false;
                }
                got.push((cps_to_string(&a["n"]), cps_to_string(&a["v"]), a["spec"] == "T"));
            }
            let mut want: Vec<(String, String, bool)> = x
                .iter()
                .map(|a| (cps_to_string(&a["n"]), cps_to_string(&a["v"]), a["spec"].as_bool().unwrap_or(false)))
                .collect();
            got.sort();
            want.sort();
            if got != want {
                return false;
            }
            if view["view"] == "exp" {
                let xp = &o["xp"];
                if xp["st"] != "ok" || xp["count"].as_i64() != Some(x.len() as i64) {
                    return false;
                }
                let strs = xp["str"].as_array().unwrap();
                if strs.len() != ask.get(i).map(|a| a.len()).unwrap_or(0) {
                    return false;
                }
                for g in strs {
                    if g["st"] != "ok" {
                        return false;
                    }
                    let n = cps_to_string(&g["n"]);
                    let w = want.iter().find(|w| w.0 == n).map(|w| w.1.clone()).unwrap_or_default();
                    if cps_to_string(&g["v"]) != w {
                        return false;
                    }
                }
            }
            let gets = o["get"].as_array().unwrap();
            if gets.len() != ask.get(i).map(|a| a.len()).unwrap_or(0) {
                return false;
            }
            for g in gets {
                if g["st"] != "ok" {
                    return false;
                }
                let n = cps_to_string(&g["n"]);
                let v = cps_to_string(&g["v"]);
                let w = want.iter().find(|w| w.0 == n).map(|w| w.1.clone()).unwrap_or_default();
                if v != w {
                    return false;
                }
            }
        }
    }
    true
}

fn replay(args: &[String]) -> i32 {
    let inp = arg_value(args, "--in").unwrap_or("-");
    let out = arg_value(args, "--out").unwrap_or("-");
    let skip: u64 = arg_value(args, "--skip").and_then(|s| s.parse().ok()).unwrap_or(0);
    if let Some(wd) = arg_value(args, "--watch") {
        // a hang or a crash of the code under test becomes an event (util::watchdog_start)
        watchdog_start(wd, 30, arg_flag(args, "--sync"));
    }
    let mut w = open_out(out);
    let mut n = 0u64;
    for_each_case(inp, |case| {
        n += 1;
        if n <= skip {
            return;
        }
        heartbeat(|| {
            let mut rec = json!({"k": case["k"], "id": n, "fast": false, "crash": true,
                                 "text": case["text"], "ask": case["ask"],
                                 "views": [{"view": "raw", "parse": "crash"}, {"view": "exp", "parse": "crash"}]});
            if case["k"] == "mc" {
                rec["abs"] = case["abs"].clone();
            } else {
                rec["doc"] = case["doc"].clone();
            }
            rec.to_string()
        });
        let text = cps_to_string(&case["text"]);
        let ask = ask_of(&case);
        let views = observe(&text, &ask);
        let fast = is_fast(&views, &case["expect"], &ask);
        let mut rec = json!({"k": case["k"], "id": n, "views": views, "fast": fast});
        if case["k"] == "mc" {
            rec["abs"] = case["abs"].clone();
        } else {
            rec["doc"] = case["doc"].clone();
        }
        if !fast || case["k"] != "mc" {
            // kept so that the stored event can be re-observed (--replay); Trace_Attr.tla checks
            // that it is the specification's rendering of the abstract case
            rec["text"] = case["text"].clone();
            rec["ask"] = case["ask"].clone();
        }
        writeln!(w, "{}", rec).unwrap();
        if arg_flag(args, "--sync") {
            w.flush().unwrap();
        }
    });
    0
}

// ------------------------------------------------------------------------------------------------
// twin of AttrNormSurface.Render (only used by the random driver; Trace_Attr.tla re-renders the
// recorded abstract document with the specification's operator and compares the texts)

fn name_of(v: &J) -> String {
    cps_to_string(v)
}

fn render_items(items: &J, out: &mut String) {
    for it in items.as_array().unwrap() {
        let c = it["c"].as_u64().unwrap_or(0) as u32;
        match it["t"].as_str().unwrap() {
            "c" => out.push(char::from_u32(c).unwrap()),
            "r" => {
                if c >= 64 {
                    out.push_str(&format!("&#x{:X};", c));
                } else {
                    out.push_str(&format!("&#{};", c));
                }
            }
            _ => {
                out.push('&');
                out.push_str(&name_of(&it["n"]));
                out.push(';');
            }
        }
    }
}

fn quoted(items: &J, out: &mut String) {
    out.push('"');
    render_items(items, out);
    out.push('"');
}

fn type_text(ty: &str) -> &str {
    match ty {
        "ENUM" => "(a|b|d)",
        "NOTATION" => "NOTATION (a|b)",
        other => other,
    }
}

fn render_tag(e: &J, out: &mut String) {
    out.push_str(&name_of(&e["el"]));
    for w in e["written"].as_array().unwrap() {
        out.push(' ');
        out.push_str(&name_of(&w["n"]));
        out.push('=');
        quoted(&w["v"], out);
    }
}

fn render(doc: &J) -> String {
    let mut s = String::new();
    let els = doc["els"].as_array().unwrap();
    s.push_str("<!DOCTYPE ");
    s.push_str(&name_of(&els[0]["el"]));
    s.push_str(" [\n");
    for e in doc["ents"].as_array().unwrap() {
        s.push_str("<!ENTITY ");
        s.push_str(&name_of(&e["n"]));
        s.push(' ');
        quoted(&e["v"], &mut s);
        s.push_str(">\n");
    }
    for a in doc["attlists"].as_array().unwrap() {
        s.push_str("<!ATTLIST ");
        s.push_str(&name_of(&a["el"]));
        for d in a["defs"].as_array().unwrap() {
            s.push(' ');
            s.push_str(&name_of(&d["n"]));
            s.push(' ');
            s.push_str(type_text(d["ty"].as_str().unwrap()));
            s.push(' ');
            match d["dk"].as_str().unwrap() {
                "IMPLIED" => s.push_str("#IMPLIED"),
                "REQUIRED" => s.push_str("#REQUIRED"),
                "VALUE" => quoted(&d["dv"], &mut s),
                _ => {
                    s.push_str("#FIXED ");
                    quoted(&d["dv"], &mut s);
                }
            }
        }
        s.push_str(">\n");
    }
    s.push_str("]>");
    if els.len() == 1 {
        s.push('<');
        render_tag(&els[0], &mut s);
        s.push_str("/>");
    } else {
        s.push('<');
        render_tag(&els[0], &mut s);
        s.push('>');
        for e in &els[1..] {
            s.push('<');
            render_tag(e, &mut s);
            s.push_str("/>");
        }
        s.push_str("</");
        s.push_str(&name_of(&els[0]["el"]));
        s.push('>');
    }
    s
}

// ------------------------------------------------------------------------------------------------
// random abstract documents

const LIT_CHARS: [u32; 14] = [97, 98, 122, 32, 32, 9, 10, 13, 233, 26085, 128512, 62, 39, 93];
const REF_CHARS: [u32; 9] = [32, 9, 10, 13, 65, 233, 128512, 39, 62];
const TYPES: [&str; 10] = [
    "CDATA", "ID", "IDREF", "IDREFS", "ENTITY", "ENTITIES", "NMTOKEN", "NMTOKENS", "ENUM", "NOTATION",
];
const KINDS: [&str; 4] = ["IMPLIED", "REQUIRED", "VALUE", "FIXED"];

fn cps(s: &str) -> J {
    string_to_cps(s)
}

fn rand_items(rng: &mut StdRng, max: usize, ents: &[String], in_entity: bool) -> J {
    let n = rng.gen_range(0..=max);
    let mut v = vec![];
    for _ in 0..n {
        let r = rng.gen_range(0..100);
        if r < 50 {
            let c = LIT_CHARS[rng.gen_range(0..LIT_CHARS.len())];
            v.push(json!({"t": "c", "c": c}));
        } else if r < 72 {
            let c = REF_CHARS[rng.gen_range(0..REF_CHARS.len())];
            v.push(json!({"t": "r", "c": c}));
        } else if r < 90 && !ents.is_empty() {
            let e = &ents[rng.gen_range(0..ents.len())];
            v.push(json!({"t": "e", "n": cps(e)}));
        } else {
            let pre = if in_entity {
                ["amp", "gt", "apos", "quot", "lt"][rng.gen_range(0..5)]
            } else {
                ["amp", "lt", "gt", "apos", "quot"][rng.gen_range(0..5)]
            };
            v.push(json!({"t": "e", "n": cps(pre)}));
        }
    }
    J::Array(v)
}

fn rand_doc(rng: &mut StdRng) -> J {
    // entities e1..ek; entity i may only refer to lower-numbered ones (declared before use, acyclic,
    // chains of depth up to k)
    let k = rng.gen_range(0..=5);
    let mut names: Vec<String> = vec![];
    let mut ents = vec![];
    for i in 1..=k {
        let v = rand_items(rng, 6, &names, true);
        let n = format!("e{}", i);
        ents.push(json!({"n": cps(&n), "v": v}));
        names.push(n);
    }
    // elements
    let child_types = ["c", "d"];
    let nch = rng.gen_range(0..=2);
    let mut el_names = vec!["r".to_string()];
    for _ in 0..nch {
        el_names.push(child_types[rng.gen_range(0..2)].to_string());
    }
    // attlists
    let att_names = ["a", "b", "c", "id"];
    let decl_els = ["r", "c", "d", "q"];
    let nal = rng.gen_range(0..=4);
    let mut attlists = vec![];
    for _ in 0..nal {
        let el = decl_els[rng.gen_range(0..decl_els.len())];
        let nd = rng.gen_range(1..=3);
        let mut defs = vec![];
        for _ in 0..nd {
            let n = att_names[rng.gen_range(0..att_names.len())];
            let ty = TYPES[rng.gen_range(0..TYPES.len())];
            let dk = KINDS[rng.gen_range(0..KINDS.len())];
            let dv = if dk == "VALUE" || dk == "FIXED" {
                rand_items(rng, 6, &names, false)
            } else {
                json!([])
            };
            defs.push(json!({"n": cps(n), "ty": ty, "dk": dk, "dv": dv}));
        }
        attlists.push(json!({"el": cps(el), "defs": defs}));
    }
    let wr_names = ["a", "b", "c", "x"];
    let mut els = vec![];
    for el in &el_names {
        let mut written = vec![];
        for n in wr_names {
            if rng.gen_range(0..100) < 45 {
                written.push(json!({"n": cps(n), "v": rand_items(rng, 12, &names, false)}));
            }
        }
        els.push(json!({"el": cps(el), "written": written}));
    }
    json!({"ents": ents, "attlists": attlists, "els": els})
}

/// names to ask get_attribute for: written or declared for the element type, plus one absent name
fn ask_for_doc(doc: &J) -> Vec<Vec<String>> {
    let mut out = vec![];
    for e in doc["els"].as_array().unwrap() {
        let mut names: Vec<String> = vec![];
        for w in e["written"].as_array().unwrap() {
            names.push(name_of(&w["n"]));
        }
        for a in doc["attlists"].as_array().unwrap() {
            if a["el"] == e["el"] {
                for d in a["defs"].as_array().unwrap() {
                    names.push(name_of(&d["n"]));
                }
            }
        }
        names.push("absent".to_string());
        names.sort();
        names.dedup();
        out.push(names);
    }
    out
}

fn record(args: &[String]) -> i32 {
    let seed: u64 = arg_value(args, "--seed").and_then(|s| s.parse().ok()).unwrap_or(1);
    let count: u64 = arg_value(args, "--count").and_then(|s| s.parse().ok()).unwrap_or(1000);
    let out = arg_value(args, "--out").unwrap_or("-");
    let mut w = open_out(out);
    let mut rng = StdRng::seed_from_u64(seed.wrapping_mul(0x9E37_79B9_7F4A_7C15) ^ 0xC11);
    let skip: u64 = arg_value(args, "--skip").and_then(|s| s.parse().ok()).unwrap_or(0);
    if let Some(wd) = arg_value(args, "--watch") {
        watchdog_start(wd, 30, arg_flag(args, "--sync"));
    }
    for i in 1..=count {
        let doc = rand_doc(&mut rng);
        if i <= skip {
            continue;
        }
        let text = render(&doc);
        let ask = ask_for_doc(&doc);
        heartbeat(|| {
            json!({"k": "rnd", "id": i, "doc": doc, "text": string_to_cps(&text), "fast": false, "crash": true,
                   "views": [{"view": "raw", "parse": "crash"}, {"view": "exp", "parse": "crash"}]})
            .to_string()
        });
        let views = observe(&text, &ask);
        let rec = json!({"k": "rnd", "id": i, "doc": doc, "text": string_to_cps(&text), "views": views,
                         "fast": false});
        writeln!(w, "{}", rec).unwrap();
        if arg_flag(args, "--sync") {
            w.flush().unwrap();
        }
    }
    0
}

/// re-observe stored events / cases (used by `./check C11 --replay`)
fn reobserve(args: &[String]) -> i32 {
    let inp = arg_value(args, "--in").unwrap_or("-");
    let out = arg_value(args, "--out").unwrap_or("-");
    let mut w = open_out(out);
    let mut n = 0u64;
    for_each_case(inp, |case| {
        n += 1;
        let mut rec = json!({"k": case["k"], "id": n, "fast": false});
        let text = cps_to_string(&case["text"]);
        let ask = if case["k"] == "mc" {
            rec["abs"] = case["abs"].clone();
            ask_of(&case)
        } else {
            rec["doc"] = case["doc"].clone();
            ask_for_doc(&case["doc"])
        };
        rec["text"] = case["text"].clone();
        rec["ask"] = case["ask"].clone();
        rec["views"] = observe(&text, &ask);
        writeln!(w, "{}", rec).unwrap();
    });
    0
}

/// development aid: print what the DOM reports for one document given on the command line
fn probe(args: &[String]) -> i32 {
    let text = arg_value(args, "--text").unwrap_or("<r/>");
    for expanded in [false, true] {
        let r = guarded(|| {
            let parsed = xml_dom::XmlDocument::from_raw_with_context(
                text,
                xml_dom::Context::from_text_expanded(expanded),
            );
            match parsed {
                Ok((rest, doc)) => {
                    let root = doc.document_element().unwrap();
                    let mut out = format!("rest={:?}", rest);
                    if let Some(m) = root.attributes() {
                        for a in m.iter() {
                            out.push_str(&format!(" @{}={:?}/{}", a.name(), a.value(), a.specified()));
                        }
                    }
                    for k in root.child_nodes().iter() {
                        out.push_str(&format!(" [{:?} {:?}]", k.node_type(), k.node_value()));
                    }
                    out
                }
                Err(e) => format!("error {}", e),
            }
        });
        println!("expanded={} {:?}", expanded, r);
    }
    0
}

pub fn main(sub: &str, args: &[String]) -> i32 {
    match sub {
        "doc-attr-probe" => probe(args),
        "doc-attr-replay" => replay(args),
        "doc-attr-record" => record(args),
        "doc-attr-observe" => reobserve(args),
        _ => {
            eprintln!("unknown subcommand {}", sub);
            2
        }
    }
}
