//! C11 (stub)
pub fn main(sub: &str, _args: &[String]) -> i32 {
    eprintln!("unknown subcommand {}", sub);
    2
}
