//! doc-record: seeded random WRITER of token sequences (the token format of spec/XmlDoc.tla) with larger
//! alphabets and longer documents than the exhaustive model, plus 1-2 random token edits (delete,
//! duplicate, swap, substitute, truncate) of well-formed sequences.
//!
//! The generator decides nothing: whether a (mutated) token sequence is well-formed, what it denotes and
//! how it is written as text is computed by the specification (Trace_Doc.tla in render mode:
//! Recognize + Render); the generator only has to produce tokens the surface syntax can write
//! (XmlDoc!TokenSane - sequences that are not are reported and skipped by the specification).

use crate::util::*;
use rand::rngs::StdRng;
use rand::seq::SliceRandom;
use rand::{Rng, SeedableRng};
use serde_json::{json, Value as J};
use std::io::Write;

const NAME_START: &[u32] = &[
    97, 98, 99, 120, 121, 122, 65, 90, 95, 0xE9, 0xC0, 0xD8, 0xF8, 0x2FF, 0x370, 0x3A9, 0x37F, 0x1FFF,
    0x200C, 0x2070, 0x218F, 0x2C00, 0x2FEF, 0x3001, 0x3042, 0x4E2D, 0xD7FF, 0xF900, 0xFDCF, 0xFDF0,
    0xFFFD, 0x10000, 0x1F600, 0xEFFFF,
];
const NAME_MORE: &[u32] = &[45, 46, 48, 57, 0xB7, 0x300, 0x36F, 0x203F, 0x2040];
const TEXT: &[u32] = &[
    97, 98, 120, 121, 48, 32, 32, 10, 9, 60, 38, 62, 93, 34, 39, 45, 63, 37, 59, 35, 0xE9, 0x4E2D, 0x1F600,
    0xFFFD, 0x10FFFF, 0x7F, 0x85, 0x2028, 0xD7FF, 0xE000,
];

struct Gen {
    r: StdRng,
    ents: Vec<Vec<u32>>,      // declared internal entities (names)
    elems: Vec<Vec<u32>>,     // element names in use
    attrs: Vec<Vec<u32>>,     // attribute names in use
    cr: bool,                 // allow literal CR
    ascii: bool,              // ASCII names only (for the expat spec-sanity aid)
}

fn cp(v: &[u32]) -> J {
    J::Array(v.iter().map(|c| J::from(*c)).collect())
}

impl Gen {
    fn ncname(&mut self) -> Vec<u32> {
        let (ns, nm) = if self.ascii { (&NAME_START[..9], &NAME_MORE[..4]) } else { (NAME_START, NAME_MORE) };
        let mut n = vec![*ns.choose(&mut self.r).unwrap()];
        let len = self.r.gen_range(0..4);
        for _ in 0..len {
            if self.r.gen_bool(0.6) {
                n.push(*ns.choose(&mut self.r).unwrap());
            } else {
                n.push(*nm.choose(&mut self.r).unwrap());
            }
        }
        // never a reserved PI target / xmlns by accident
        if n.len() >= 3 && (n[0] | 32) == 120 && (n[1] | 32) == 109 && (n[2] | 32) == 108 {
            n[0] = 97;
        }
        n
    }

    fn qname(&mut self) -> Vec<u32> {
        if self.r.gen_bool(0.2) {
            let mut p = self.ncname();
            p.push(58);
            p.extend(self.ncname());
            p
        } else {
            self.ncname()
        }
    }

    fn chars(&mut self, max: usize, exclude: &[u32]) -> Vec<u32> {
        let len = self.r.gen_range(1..=max);
        let mut v = vec![];
        for _ in 0..len {
            let c = if self.cr && self.r.gen_bool(0.05) { 13 } else { *TEXT.choose(&mut self.r).unwrap() };
            if !exclude.contains(&c) {
                v.push(c);
            }
        }
        if v.is_empty() {
            v.push(120);
        }
        v
    }

    fn items(&mut self, max: usize, entity_value: bool) -> Vec<J> {
        let len = self.r.gen_range(0..=max);
        let mut v = vec![];
        for _ in 0..len {
            let k = self.r.gen_range(0..10);
            if k < 6 {
                let mut c = *TEXT.choose(&mut self.r).unwrap();
                if self.cr && self.r.gen_bool(0.05) {
                    c = 13;
                }
                if entity_value && [60, 38, 37].contains(&c) {
                    c = 120;
                }
                if self.cr && self.r.gen_bool(0.04) {
                    // runs of line-end characters: CR CR LF, CR LF LF, LF CR LF (2.11 is not idempotent on them when done wrongly)
                    for x in *[[13u32, 13, 10], [13, 10, 10], [10, 13, 10]].choose(&mut self.r).unwrap() {
                        v.push(json!({"t": "c", "c": x}));
                    }
                    continue;
                }
                v.push(json!({"t": "c", "c": c}));
            } else if k < 8 {
                let mut c = *[65u32, 9, 10, 13, 32, 60, 38, 0xE9, 0x1F600, 0x10FFFF, 34, 39]
                    .choose(&mut self.r)
                    .unwrap();
                if entity_value && [60, 38, 37].contains(&c) {
                    c = 65;
                }
                v.push(json!({"t": "r", "c": c}));
            } else if !self.ents.is_empty() && self.r.gen_bool(0.7) {
                let n = self.ents.choose(&mut self.r).unwrap().clone();
                v.push(json!({"t": "e", "n": cp(&n)}));
            } else if !entity_value {
                let n: &[u32] = *[&[108u32, 116][..], &[103, 116], &[97, 109, 112], &[97, 112, 111, 115], &[113, 117, 111, 116]]
                    .choose(&mut self.r)
                    .unwrap();
                v.push(json!({"t": "e", "n": cp(n)}));
            }
        }
        v
    }

    fn text_items(&mut self) -> Vec<J> {
        let mut v = self.items(8, false);
        if v.is_empty() {
            v.push(json!({"t": "c", "c": 120}));
        }
        // a text token never ends with a literal CR (XmlDoc!TokenSane)
        if v.last().map(|x| x["t"] == "c" && x["c"] == 13).unwrap_or(false) {
            v.push(json!({"t": "c", "c": 121}));
        }
        v
    }

    fn comment(&mut self) -> J {
        let mut v = self.chars(6, &[]);
        // keep it a sane token: no "--" (would be the DashDash bad action, left to the edits) and no "-->"
        let mut out = vec![];
        for c in v.drain(..) {
            if c == 45 && out.last() == Some(&45) {
                continue;
            }
            out.push(c);
        }
        if out.last() == Some(&45) {
            out.push(32);
        }
        json!({"k": "comment", "v": cp(&out)})
    }

    fn pi(&mut self) -> J {
        let n = self.ncname();
        let mut v = if self.r.gen_bool(0.3) { vec![] } else { self.chars(6, &[]) };
        while v.first().map(|c| [32, 9, 10, 13].contains(c)).unwrap_or(false) {
            v.remove(0);
        }
        let mut out = vec![];
        for c in v {
            if c == 62 && out.last() == Some(&63) {
                continue;
            }
            out.push(c);
        }
        json!({"k": "pi", "n": cp(&n), "v": cp(&out)})
    }

    fn ws(&mut self) -> J {
        let mut v = vec![];
        for _ in 0..self.r.gen_range(1..4) {
            v.push(*[32u32, 10, 9].choose(&mut self.r).unwrap());
        }
        json!({"k": "ws", "v": cp(&v)})
    }

    fn misc(&mut self, toks: &mut Vec<J>) {
        for _ in 0..self.r.gen_range(0..3) {
            let t = match self.r.gen_range(0..3) {
                0 => self.comment(),
                1 => self.pi(),
                _ => self.ws(),
            };
            toks.push(t);
        }
    }

    fn literal(&mut self, pubid: bool) -> Vec<u32> {
        let pool: &[u32] = if pubid {
            &[97, 65, 48, 32, 45, 47, 58, 61, 63, 59, 33, 42, 35, 64, 36, 95, 37, 39, 40, 41, 43, 44, 46]
        } else {
            &[97, 46, 47, 58, 32, 38, 60, 62, 0xE9, 0x1F600, 34, 35]
        };
        let mut v = vec![];
        for _ in 0..self.r.gen_range(0..6) {
            v.push(*pool.choose(&mut self.r).unwrap());
        }
        if !pubid && self.r.gen_bool(0.2) {
            v.push(39);
            v.retain(|c| *c != 34);
        }
        v
    }

    fn dtd(&mut self, toks: &mut Vec<J>, root: &[u32]) {
        let ext = if self.r.gen_bool(0.15) { *["system", "public"].choose(&mut self.r).unwrap() } else { "none" };
        let subset = self.r.gen_bool(0.8);
        toks.push(json!({"k": "doctype", "n": cp(root), "ext": ext, "pub": cp(&self.literal(true)),
                         "sys": cp(&self.literal(false)), "subset": subset}));
        if !subset {
            return;
        }
        let n = self.r.gen_range(0..7);
        let mut notations: Vec<Vec<u32>> = vec![];
        for _ in 0..n {
            match self.r.gen_range(0..10) {
                0..=2 => {
                    let name = self.ncname();
                    // now and then an entity whose replacement text holds markup (`&#60;b/>` = `<b/>`): fine when it is
                    // referenced in content, a violation of "No < in Attribute Values" when it is referenced -
                    // possibly after a content reference to the same entity - in an attribute value
                    let v = if self.r.gen_bool(0.15) {
                        vec![json!({"t": "r", "c": 60}), json!({"t": "c", "c": 98}), json!({"t": "c", "c": 47}), json!({"t": "c", "c": 62})]
                    } else {
                        self.items(6, true)
                    };
                    toks.push(json!({"k": "entity", "n": cp(&name), "v": v}));
                    if !self.ents.contains(&name) {
                        self.ents.push(name);
                    }
                }
                3 => {
                    let nn = self.ncname();
                    let ext = *["system", "public", "pubonly"].choose(&mut self.r).unwrap();
                    toks.push(json!({"k": "notation", "n": cp(&nn), "ext": ext, "pub": cp(&self.literal(true)),
                                     "sys": cp(&self.literal(false))}));
                    notations.push(nn);
                }
                4 => {
                    let name = self.ncname();
                    if self.ents.contains(&name) {
                        continue;
                    }
                    let nd = notations.choose(&mut self.r).cloned().unwrap_or_else(|| vec![110]);
                    let ext = *["system", "public"].choose(&mut self.r).unwrap();
                    toks.push(json!({"k": "uentity", "n": cp(&name), "ext": ext, "pub": cp(&self.literal(true)),
                                     "sys": cp(&self.literal(false)), "ndata": cp(&nd)}));
                }
                5..=6 => {
                    let el = self.elems.choose(&mut self.r).unwrap().clone();
                    let mut defs = vec![];
                    for _ in 0..self.r.gen_range(1..3) {
                        let an = if self.r.gen_bool(0.7) { self.attrs.choose(&mut self.r).unwrap().clone() } else { self.ncname() };
                        let ty = *["CDATA", "ID", "IDREF", "IDREFS", "NMTOKEN", "NMTOKENS", "ENUM", "ENTITY", "NOTATION"]
                            .choose(&mut self.r)
                            .unwrap();
                        let dk = *["IMPLIED", "REQUIRED", "VALUE", "VALUE", "FIXED"].choose(&mut self.r).unwrap();
                        let en: Vec<J> = if ty == "ENUM" { vec![cp(&[112]), cp(&[113, 49])] }
                            else if ty == "NOTATION" { vec![cp(&[103]), cp(&[112, 110])] } else { vec![] };
                        let dv: Vec<J> = if dk == "VALUE" || dk == "FIXED" {
                            self.items(5, false).into_iter().filter(|x| !(x["t"] == "c" && x["c"] == 60)).collect()
                        } else {
                            vec![]
                        };
                        defs.push(json!({"n": cp(&an), "ty": ty, "en": en, "dk": dk, "dv": dv}));
                    }
                    toks.push(json!({"k": "attlist", "el": cp(&el), "defs": defs}));
                }
                7 => {
                    let el = self.elems.choose(&mut self.r).unwrap().clone();
                    let specs: [&[u32]; 4] = [
                        &[69, 77, 80, 84, 89],
                        &[65, 78, 89],
                        &[40, 35, 80, 67, 68, 65, 84, 65, 41],
                        &[40, 40, 97, 124, 98, 41, 42, 44, 99, 43, 41],
                    ];
                    toks.push(json!({"k": "elemdecl", "n": cp(&el), "v": cp(specs.choose(&mut self.r).unwrap())}));
                }
                8 => toks.push(self.comment()),
                _ => toks.push(self.pi()),
            }
            if self.r.gen_bool(0.2) {
                toks.push(self.ws());
            }
        }
        toks.push(json!({"k": "dtdend"}));
    }

    fn stag(&mut self, name: &[u32]) -> J {
        let mut attrs = vec![];
        let mut used: Vec<Vec<u32>> = vec![];
        for _ in 0..self.r.gen_range(0..4) {
            let an = if self.r.gen_bool(0.6) { self.attrs.choose(&mut self.r).unwrap().clone() } else { self.qname() };
            if used.contains(&an) {
                continue;
            }
            used.push(an.clone());
            let v: Vec<J> = self.items(6, false);
            attrs.push(json!({"n": cp(&an), "v": v}));
        }
        json!({"k": "stag", "n": cp(name), "attrs": attrs, "lex": "ok"})
    }

    fn element(&mut self, toks: &mut Vec<J>, name: &[u32], depth: usize, budget: &mut i32) {
        toks.push(self.stag(name));
        let kids = if depth >= 4 { 0 } else { self.r.gen_range(0..5) };
        for _ in 0..kids {
            if *budget <= 0 {
                break;
            }
            *budget -= 1;
            match self.r.gen_range(0..10) {
                0..=2 => {
                    let n = self.elems.choose(&mut self.r).unwrap().clone();
                    self.element(toks, &n, depth + 1, budget);
                }
                3..=5 => toks.push(json!({"k": "text", "items": self.text_items()})),
                6 => {
                    let mut v = self.chars(6, &[]);
                    // no "]]>" inside
                    let mut out: Vec<u32> = vec![];
                    for c in v.drain(..) {
                        if c == 62 && out.len() >= 2 && out[out.len() - 1] == 93 && out[out.len() - 2] == 93 {
                            continue;
                        }
                        out.push(c);
                    }
                    if self.r.gen_bool(0.1) {
                        out.clear();
                    }
                    toks.push(json!({"k": "cdata", "v": cp(&out)}));
                }
                7 => toks.push(self.comment()),
                8 => toks.push(self.pi()),
                _ => toks.push(self.ws()),
            }
        }
        toks.push(json!({"k": "etag", "n": cp(name)}));
    }

    fn document(&mut self) -> Vec<J> {
        self.ents.clear();
        self.elems = (0..3).map(|_| self.qname()).collect();
        self.attrs = (0..3).map(|_| self.ncname()).collect();
        let mut toks = vec![];
        if self.r.gen_bool(0.4) {
            let ver: &[u32] = if self.r.gen_bool(0.8) { &[49, 46, 48] } else { &[49, 46, 49, 55] };
            let enc: Vec<u32> = if self.r.gen_bool(0.5) { vec![85, 84, 70, 45, 56] } else { vec![] };
            let sa = *["yes", "no", "none"].choose(&mut self.r).unwrap();
            toks.push(json!({"k": "xmldecl", "ver": cp(ver), "enc": cp(&enc), "sa": sa}));
        }
        self.misc(&mut toks);
        let root = self.elems[0].clone();
        if self.r.gen_bool(0.6) {
            self.dtd(&mut toks, &root);
            self.misc(&mut toks);
        }
        let mut budget = 24;
        self.element(&mut toks, &root, 1, &mut budget);
        self.misc(&mut toks);
        toks.push(json!({"k": "end"}));
        toks
    }

    fn random_token(&mut self) -> J {
        match self.r.gen_range(0..12) {
            0 => self.comment(),
            1 => self.pi(),
            2 => json!({"k": "text", "items": self.text_items()}),
            3 => {
                let n = self.qname();
                self.stag(&n)
            }
            4 => json!({"k": "etag", "n": cp(&self.qname())}),
            5 => json!({"k": "xmldecl", "ver": cp(&[49, 46, 48]), "enc": cp(&[]), "sa": "none"}),
            6 => json!({"k": "cdata", "v": cp(&[120, 60])}),
            7 => json!({"k": "dtdend"}),
            8 => json!({"k": "doctype", "n": cp(&[97]), "ext": "none", "pub": cp(&[]), "sys": cp(&[]), "subset": false}),
            9 => json!({"k": "text", "items": [{"t": "r", "c": *[0u32, 1, 8, 11, 0xFFFE, 0xFFFF, 0xD800, 0x110000].choose(&mut self.r).unwrap()}]}),
            10 => json!({"k": "text", "items": [{"t": "e", "n": cp(&self.ncname())}]}),
            _ => json!({"k": "comment", "v": cp(&[97, 45, 45, 98])}),
        }
    }

    fn edit(&mut self, toks: &mut Vec<J>) -> String {
        let n = toks.len() - 1; // never touch "end"
        if n == 0 {
            return "none".into();
        }
        let i = self.r.gen_range(0..n);
        match self.r.gen_range(0..5) {
            0 => {
                toks.remove(i);
                "delete".into()
            }
            1 => {
                let t = toks[i].clone();
                toks.insert(i, t);
                "duplicate".into()
            }
            2 => {
                let j = self.r.gen_range(0..n);
                toks.swap(i, j);
                "swap".into()
            }
            3 => {
                toks[i] = self.random_token();
                "substitute".into()
            }
            _ => {
                toks.drain(i..n);
                "truncate".into()
            }
        }
    }
}

fn style(r: &mut StdRng) -> J {
    let modes = ["lit", "dec", "hex", "ent", "cdata", "decz", "hexz"];
    let n = r.gen_range(1..4);
    let chars: Vec<&str> = (0..n).map(|_| *modes.choose(r).unwrap()).collect();
    json!({"quote": *["dq", "sq", "mixed"].choose(r).unwrap(), "tagws": r.gen_range(0..3),
           "eqws": r.gen_bool(0.5), "empty": *["tag", "pair"].choose(r).unwrap(), "chars": chars,
           "order": *["fwd", "rev"].choose(r).unwrap(), "declws": r.gen_range(0..2)})
}

/// doc-record --seed N --count K [--edits 0|1|2|mixed] [--cr] --out <ndjson of {toks, style, edits}>
pub fn record(args: &[String]) -> i32 {
    let seed: u64 = arg_value(args, "--seed").and_then(|s| s.parse().ok()).unwrap_or(1);
    let count: usize = arg_value(args, "--count").and_then(|s| s.parse().ok()).unwrap_or(100);
    let out = arg_value(args, "--out").unwrap_or("-");
    let edits = arg_value(args, "--edits").unwrap_or("mixed");
    let mut w = open_out(out);
    let mut g = Gen {
        r: StdRng::seed_from_u64(seed),
        ents: vec![],
        elems: vec![],
        attrs: vec![],
        cr: arg_flag(args, "--cr"),
        ascii: arg_flag(args, "--ascii"),
    };
    if arg_flag(args, "--deep") {
        // chains of general entities around the implementation's limit on nested references (every second document),
        // used in content or in an attribute value
        for i in 0..count {
            if i % 2 == 0 {
                continue;
            }
            let depth = 120 + (g.r.gen_range(0..20) as usize) + if i % 4 == 3 { 40 } else { 0 };
            let root = g.ncname();
            let base = g.ncname();
            let ename = |k: usize| -> Vec<u32> {
                let mut v = base.clone();
                v.extend(k.to_string().chars().map(|c| c as u32));
                v
            };
            let mut toks = vec![json!({"k": "doctype", "n": cp(&root), "ext": "none", "pub": [], "sys": [], "subset": true})];
            // declared from the outermost to the innermost: e<depth> -> ... -> e1 = "x"
            for k in (1..=depth).rev() {
                let v = if k == 1 { json!([{"t": "c", "c": 120}]) } else { json!([{"t": "c", "c": 121}, {"t": "e", "n": cp(&ename(k - 1))}]) };
                toks.push(json!({"k": "entity", "n": cp(&ename(k)), "v": v}));
            }
            toks.push(json!({"k": "dtdend"}));
            let eref = json!({"t": "e", "n": cp(&ename(depth))});
            if g.r.gen_bool(0.5) {
                toks.push(json!({"k": "stag", "n": cp(&root), "attrs": [], "lex": "ok"}));
                toks.push(json!({"k": "text", "items": [{"t": "c", "c": 120}, eref]}));
            } else {
                let an = g.ncname();
                toks.push(json!({"k": "stag", "n": cp(&root), "lex": "ok", "attrs": [{"n": cp(&an), "v": [{"t": "c", "c": 121}, eref]}]}));
            }
            toks.push(json!({"k": "etag", "n": cp(&root)}));
            toks.push(json!({"k": "end"}));
            let st = style(&mut g.r);
            writeln!(w, "{}", json!({"toks": toks, "style": st, "edits": ["deep-entities"]})).unwrap();
        }
        // plain chains of nested elements around the implementation's nesting limit
        for i in 0..count {
            let depth = 120 + (g.r.gen_range(0..20) as usize) + if i % 4 == 3 { 40 } else { 0 };
            let name = g.ncname();
            let mut toks = vec![];
            for _ in 0..depth {
                toks.push(json!({"k": "stag", "n": cp(&name), "attrs": [], "lex": "ok"}));
            }
            toks.push(json!({"k": "text", "items": [{"t": "c", "c": 120}]}));
            for _ in 0..depth {
                toks.push(json!({"k": "etag", "n": cp(&name)}));
            }
            toks.push(json!({"k": "end"}));
            let st = style(&mut g.r);
            writeln!(w, "{}", json!({"toks": toks, "style": st, "edits": ["deep"]})).unwrap();
        }
        return 0;
    }
    for i in 0..count {
        if i % 12 == 5 {
            // targeted families that a random writer meets too rarely (one of four, in turn)
            let fam = (i / 12) % 8;
            let root = g.ncname();
            let e = g.ncname();
            let an = g.ncname();
            let st = style(&mut g.r);
            let mut toks: Vec<J> = vec![];
            let name;
            match fam {
                0 => {
                    // the same general entity declared twice: the FIRST declaration binds (4.2) - its value, and the
                    // well-formedness constraints of a reference to it, are those of the first
                    name = "dup-entity";
                    let plain = |c: u32| json!([{"t": "c", "c": c}]);
                    let markup = json!([{"t": "r", "c": 60}, {"t": "c", "c": 98}, {"t": "c", "c": 47}, {"t": "c", "c": 62}]);
                    let nn = g.ncname();
                    toks.push(json!({"k": "doctype", "n": cp(&root), "ext": "none", "pub": [], "sys": [], "subset": true}));
                    let kind = g.r.gen_range(0..5);
                    let un = |g: &mut Gen| json!({"k": "uentity", "n": cp(&e), "ext": "system", "pub": [], "sys": cp(&g.literal(false)), "ndata": cp(&nn)});
                    match kind {
                        0 => { toks.push(json!({"k": "entity", "n": cp(&e), "v": plain(118)})); toks.push(json!({"k": "entity", "n": cp(&e), "v": plain(119)})); }
                        1 => { toks.push(json!({"k": "notation", "n": cp(&nn), "ext": "system", "pub": [], "sys": cp(&g.literal(false))}));
                               let u = un(&mut g); toks.push(u); toks.push(json!({"k": "entity", "n": cp(&e), "v": plain(120)})); }
                        2 => { toks.push(json!({"k": "notation", "n": cp(&nn), "ext": "system", "pub": [], "sys": cp(&g.literal(false))}));
                               toks.push(json!({"k": "entity", "n": cp(&e), "v": plain(120)})); let u = un(&mut g); toks.push(u); }
                        3 => { toks.push(json!({"k": "entity", "n": cp(&e), "v": markup})); toks.push(json!({"k": "entity", "n": cp(&e), "v": plain(120)})); }
                        _ => { toks.push(json!({"k": "entity", "n": cp(&e), "v": plain(120)})); toks.push(json!({"k": "entity", "n": cp(&e), "v": markup})); }
                    }
                    toks.push(json!({"k": "dtdend"}));
                    let eref = json!({"t": "e", "n": cp(&e)});
                    if g.r.gen_bool(0.5) {
                        toks.push(json!({"k": "stag", "n": cp(&root), "attrs": [], "lex": "ok"}));
                        toks.push(json!({"k": "text", "items": [{"t": "c", "c": 120}, eref]}));
                    } else {
                        toks.push(json!({"k": "stag", "n": cp(&root), "lex": "ok", "attrs": [{"n": cp(&an), "v": [{"t": "c", "c": 121}, eref]}]}));
                    }
                    toks.push(json!({"k": "etag", "n": cp(&root)}));
                }
                1 => {
                    // "]]>" in character data, with more brackets in front of it
                    name = "cdata-end";
                    let k = g.r.gen_range(1..5);
                    let mut items = vec![];
                    if g.r.gen_bool(0.5) { items.push(json!({"t": "c", "c": 97})); items.push(json!({"t": "c", "c": 91})); }
                    // (written as characters the run is escaped by the renderer where it has to be; the raw fragment
                    // "]]>" of XmlDoc!RawTable is the ill-formed one - with zero to three brackets in front of it)
                    for _ in 0..(k - 1) { items.push(json!({"t": "c", "c": 93})); }
                    if g.r.gen_bool(0.7) {
                        items.push(json!({"t": "x", "s": [93, 93, 62], "why": "CDEndInText"}));
                    } else {
                        items.push(json!({"t": "c", "c": 93}));
                        items.push(json!({"t": "c", "c": 62}));
                    }
                    if g.r.gen_bool(0.5) { items.push(json!({"t": "c", "c": 100})); }
                    toks.push(json!({"k": "stag", "n": cp(&root), "attrs": [], "lex": "ok"}));
                    toks.push(json!({"k": "text", "items": items}));
                    toks.push(json!({"k": "etag", "n": cp(&root)}));
                }
                2 => {
                    // element type declarations: content specs of the grammar and near misses
                    name = "content-spec";
                    let specs: [&str; 13] = ["EMPTY", "ANY", "(#PCDATA)", "(#PCDATA|a|b)*", "(a,b?)", "((a|b)*,c+)", "(a|b)*",
                                             "(#PCDATA|a)", "(#PCDATA|a|b)", "(#PCDATA|a)+", "(a,b|c)", "(a|b)*?", "()"];
                    let v: Vec<u32> = specs[g.r.gen_range(0..specs.len())].chars().map(|c| c as u32).collect();
                    toks.push(json!({"k": "doctype", "n": cp(&root), "ext": "none", "pub": [], "sys": [], "subset": true}));
                    toks.push(json!({"k": "elemdecl", "n": cp(&root), "v": cp(&v)}));
                    toks.push(json!({"k": "dtdend"}));
                    toks.push(json!({"k": "stag", "n": cp(&root), "attrs": [], "lex": "ok"}));
                    toks.push(json!({"k": "etag", "n": cp(&root)}));
                }
                4 => {
                    // an XML declaration whose version literal closes with the other quotation mark (and the sound one)
                    name = "xmldecl-quotes";
                    let lex = if g.r.gen_bool(0.7) { "mismatch" } else { "ok" };
                    toks.push(json!({"k": "xmldecl", "ver": cp(&[49, 46, 48]), "enc": cp(&[]), "sa": "none", "lex": lex}));
                    toks.push(json!({"k": "stag", "n": cp(&root), "attrs": [], "lex": "ok"}));
                    toks.push(json!({"k": "etag", "n": cp(&root)}));
                }
                7 => {
                    // the same attribute name twice in one tag, next to each other or with another attribute in between
                    name = "dup-attr";
                    let other = g.ncname();
                    let a1 = json!({"n": cp(&an), "v": [{"t": "c", "c": 49}]});
                    let a2 = json!({"n": cp(&an), "v": [{"t": "c", "c": 51}]});
                    let mid = json!({"n": cp(&other), "v": [{"t": "c", "c": 50}]});
                    let attrs = match (i / 96 + 1) % 4 {      // every variant in turn (the family comes round every 96 documents)
                        0 => json!([a1, a2]),
                        1 => json!([a1, mid, a2]),
                        2 => json!([mid, a1, a2]),
                        _ => json!([a1, mid]),
                    };
                    if other == an {
                        toks.push(json!({"k": "stag", "n": cp(&root), "attrs": [], "lex": "ok"}));
                    } else {
                        toks.push(json!({"k": "stag", "n": cp(&root), "attrs": attrs, "lex": "ok"}));
                    }
                    toks.push(json!({"k": "etag", "n": cp(&root)}));
                }
                6 => {
                    // an entity whose replacement text is markup: well-formed content (<b/>) or not (<b>, </b>, <b, a<b>c),
                    // referenced in content
                    name = "entity-not-content";
                    let vals: [&str; 6] = ["<b/>", "<b>", "</b>", "<b", "a<b>c", "<b></b>"];
                    let v = vals[g.r.gen_range(0..vals.len())];
                    let items: Vec<J> = v.chars().map(|c| if c == '<' { json!({"t": "r", "c": 60}) } else { json!({"t": "c", "c": c as u32}) }).collect();
                    toks.push(json!({"k": "doctype", "n": cp(&root), "ext": "none", "pub": [], "sys": [], "subset": true}));
                    toks.push(json!({"k": "entity", "n": cp(&e), "v": items}));
                    toks.push(json!({"k": "dtdend"}));
                    toks.push(json!({"k": "stag", "n": cp(&root), "attrs": [], "lex": "ok"}));
                    toks.push(json!({"k": "text", "items": [{"t": "c", "c": 120}, {"t": "e", "n": cp(&e)}]}));
                    toks.push(json!({"k": "etag", "n": cp(&root)}));
                }
                5 => {
                    // the same attribute defined twice for one element type (in one ATTLIST or in two): the second
                    // definition binds nothing, but its default value is still text of the document - a reference
                    // to an entity that is not declared (or declared later) makes the document ill-formed
                    name = "dup-attdef";
                    let und = g.ncname();
                    let bad = g.r.gen_bool(0.7);
                    let dv2 = if bad { json!([{"t": "c", "c": 120}, {"t": "e", "n": cp(&und)}]) } else { json!([{"t": "c", "c": 121}]) };
                    let d1 = json!({"n": cp(&an), "ty": "CDATA", "en": [], "dk": "VALUE", "dv": [{"t": "c", "c": 118}]});
                    let d2 = json!({"n": cp(&an), "ty": "CDATA", "en": [], "dk": "VALUE", "dv": dv2});
                    toks.push(json!({"k": "doctype", "n": cp(&root), "ext": "none", "pub": [], "sys": [], "subset": true}));
                    if g.r.gen_bool(0.5) {
                        toks.push(json!({"k": "attlist", "el": cp(&root), "defs": [d1, d2]}));
                    } else {
                        toks.push(json!({"k": "attlist", "el": cp(&root), "defs": [d1]}));
                        toks.push(json!({"k": "attlist", "el": cp(&root), "defs": [d2]}));
                    }
                    toks.push(json!({"k": "dtdend"}));
                    toks.push(json!({"k": "stag", "n": cp(&root), "attrs": [], "lex": "ok"}));
                    toks.push(json!({"k": "etag", "n": cp(&root)}));
                }
                _ => {
                    // attribute types that carry a name list: NOTATION (keyword + list) next to a plain enumeration
                    name = "notation-type";
                    let dk = *["IMPLIED", "REQUIRED", "VALUE", "FIXED"].choose(&mut g.r).unwrap();
                    let dv = if dk == "VALUE" || dk == "FIXED" { json!([{"t": "c", "c": 103}]) } else { json!([]) };
                    toks.push(json!({"k": "doctype", "n": cp(&root), "ext": "none", "pub": [], "sys": [], "subset": true}));
                    toks.push(json!({"k": "notation", "n": cp(&[103]), "ext": "system", "pub": [], "sys": cp(&g.literal(false))}));
                    toks.push(json!({"k": "attlist", "el": cp(&root), "defs": [
                        {"n": cp(&an), "ty": "NOTATION", "en": [cp(&[103]), cp(&[112, 110])], "dk": dk, "dv": dv},
                        {"n": cp(&e), "ty": "ENUM", "en": [cp(&[103]), cp(&[112, 110])], "dk": "IMPLIED", "dv": []}]}));
                    toks.push(json!({"k": "dtdend"}));
                    toks.push(json!({"k": "stag", "n": cp(&root), "attrs": [], "lex": "ok"}));
                    toks.push(json!({"k": "etag", "n": cp(&root)}));
                }
            }
            toks.push(json!({"k": "end"}));
            writeln!(w, "{}", json!({"toks": toks, "style": st, "edits": [name]})).unwrap();
            continue;
        }
        if i % 12 == 11 {
            // an entity whose replacement text holds markup (declared as `&#60;b/>`), possibly reached through a
            // second entity, referenced in content and in an attribute value of one document - in either order
            // (WFC "No < in Attribute Values" must hold however often the entity was accepted elsewhere)
            let e = g.ncname();
            let f = loop {
                let f = g.ncname();
                if f != e {
                    break f;
                }
            };
            let root = g.ncname();
            let an = g.ncname();
            let nested = g.r.gen_bool(0.4);
            let used = if nested { f.clone() } else { e.clone() };
            let eref = json!({"t": "e", "n": cp(&used)});
            let mut toks = vec![json!({"k": "doctype", "n": cp(&root), "ext": "none", "pub": [], "sys": [], "subset": true}),
                json!({"k": "entity", "n": cp(&e), "v": [{"t": "r", "c": 60}, {"t": "c", "c": 98}, {"t": "c", "c": 47}, {"t": "c", "c": 62}]})];
            if nested {
                toks.push(json!({"k": "entity", "n": cp(&f), "v": [{"t": "c", "c": 120}, {"t": "e", "n": cp(&e)}]}));
            }
            toks.push(json!({"k": "dtdend"}));
            toks.push(json!({"k": "stag", "n": cp(&root), "attrs": [], "lex": "ok"}));
            let content = json!({"k": "text", "items": [{"t": "c", "c": 120}, eref.clone()]});
            let attr_first = g.r.gen_bool(0.3);
            let in_attr = g.r.gen_bool(0.8);
            let child = json!({"k": "stag", "n": cp(&root), "lex": "ok",
                "attrs": [{"n": cp(&an), "v": if in_attr { json!([{"t": "c", "c": 121}, eref]) } else { json!([{"t": "c", "c": 121}]) }}]});
            if !attr_first {
                toks.push(content.clone());
            }
            toks.push(child);
            toks.push(json!({"k": "etag", "n": cp(&root)}));
            if attr_first {
                toks.push(content);
            }
            toks.push(json!({"k": "etag", "n": cp(&root)}));
            toks.push(json!({"k": "end"}));
            let st = style(&mut g.r);
            writeln!(w, "{}", json!({"toks": toks, "style": st, "edits": ["lt-entity"]})).unwrap();
            continue;
        }
        let mut toks = g.document();
        let ne = match edits {
            "0" => 0,
            "1" => 1,
            "2" => 2,
            _ => i % 3,
        };
        let mut done = vec![];
        for _ in 0..ne {
            done.push(g.edit(&mut toks));
        }
        let st = style(&mut g.r);
        writeln!(w, "{}", json!({"toks": toks, "style": st, "edits": done})).unwrap();
    }
    0
}

/// doc-textedit --in <REPLAY file> --seed N --count K --out <ndjson of {"text":[cps], "edits":[..]}>
/// 1-2 random CHARACTER-level edits (delete, insert, replace, transpose, duplicate, cut a span) of
/// well-formed renderings.  Whether the result is well-formed is decided by the specification's own
/// scanner and machine (Trace_Doc.tla in text mode), never here.
pub fn textedit(args: &[String]) -> i32 {
    let inp = arg_value(args, "--in").unwrap_or("-");
    let out = arg_value(args, "--out").unwrap_or("-");
    let seed: u64 = arg_value(args, "--seed").and_then(|s| s.parse().ok()).unwrap_or(1);
    let count: usize = arg_value(args, "--count").and_then(|s| s.parse().ok()).unwrap_or(100);
    let mut r = StdRng::seed_from_u64(seed);
    let mut bases: Vec<Vec<u32>> = vec![];
    for_each_case(inp, |case| {
        if case["wf"] == true && case.get("src").is_none() {
            let t: Vec<u32> = case["text"].as_array().map(|a| a.iter().filter_map(|c| c.as_u64()).map(|c| c as u32).collect()).unwrap_or_default();
            if !t.is_empty() && t.len() <= 400 {
                bases.push(t);
            }
        }
    });
    let mut w = open_out(out);
    if bases.is_empty() {
        return 0;
    }
    const INS: &[u32] = &[60, 62, 47, 63, 33, 91, 93, 45, 38, 59, 35, 34, 39, 61, 32, 10, 120, 97, 58, 49, 46,
                          1, 0xFFFE, 0xE9, 0x1F600, 124, 40, 41, 42];
    for _ in 0..count {
        let mut t = bases.choose(&mut r).unwrap().clone();
        let mut edits = vec![];
        for _ in 0..r.gen_range(1..3) {
            if t.is_empty() {
                break;
            }
            let i = r.gen_range(0..t.len());
            match r.gen_range(0..6) {
                0 => {
                    t.remove(i);
                    edits.push("delete");
                }
                1 => {
                    t.insert(i, *INS.choose(&mut r).unwrap());
                    edits.push("insert");
                }
                2 => {
                    t[i] = *INS.choose(&mut r).unwrap();
                    edits.push("replace");
                }
                3 => {
                    if i + 1 < t.len() {
                        t.swap(i, i + 1);
                    }
                    edits.push("transpose");
                }
                4 => {
                    let c = t[i];
                    t.insert(i, c);
                    edits.push("duplicate");
                }
                _ => {
                    let j = (i + r.gen_range(1..8)).min(t.len());
                    t.drain(i..j);
                    edits.push("cut");
                }
            }
        }
        // parameter entities are outside what the specification models
        writeln!(w, "{}", json!({"text": cp(&t), "edits": edits})).unwrap();
    }
    0
}
