use serde_json::Value as J;
use std::fs::File;
use std::io::{self, BufRead, BufReader, BufWriter, Write};
use std::panic::{catch_unwind, AssertUnwindSafe};

/// Outcome of running code under test: value, or "panic".
pub fn guarded<T, F: FnOnce() -> T>(f: F) -> Result<T, String> {
    catch_unwind(AssertUnwindSafe(f)).map_err(|e| {
        if let Some(s) = e.downcast_ref::<&str>() {
            s.to_string()
        } else if let Some(s) = e.downcast_ref::<String>() {
            s.clone()
        } else {
            "panic".to_string()
        }
    })
}

pub fn cps_to_string(v: &J) -> String {
    v.as_array()
        .map(|a| {
            a.iter()
                .filter_map(|c| c.as_u64().and_then(|c| char::from_u32(c as u32)))
                .collect()
        })
        .unwrap_or_default()
}

pub fn string_to_cps(s: &str) -> J {
    J::Array(s.chars().map(|c| J::from(c as u32)).collect())
}

pub fn open_in(path: &str) -> Box<dyn BufRead> {
    if path == "-" {
        Box::new(BufReader::new(io::stdin()))
    } else {
        Box::new(BufReader::with_capacity(
            1 << 20,
            File::open(path).unwrap_or_else(|e| {
                eprintln!("cannot open {}: {}", path, e);
                std::process::exit(2)
            }),
        ))
    }
}

pub fn open_out(path: &str) -> Box<dyn Write> {
    if path == "-" {
        Box::new(BufWriter::new(io::stdout()))
    } else {
        Box::new(BufWriter::with_capacity(
            1 << 20,
            File::create(path).unwrap_or_else(|e| {
                eprintln!("cannot create {}: {}", path, e);
                std::process::exit(2)
            }),
        ))
    }
}

/// Iterate over the JSON objects of an ndjson file.  Lines produced by TLC's PrintT look like
/// `<<"REPLAY", "{...json...}">>`; those are unwrapped (the JSON is a TLA+ string literal).
pub fn for_each_case<F: FnMut(J)>(path: &str, mut f: F) {
    let rd = open_in(path);
    for line in rd.lines() {
        let line = match line {
            Ok(l) => l,
            Err(_) => continue,
        };
        let t = line.trim();
        if t.is_empty() {
            continue;
        }
        if t.starts_with('{') {
            if let Ok(v) = serde_json::from_str::<J>(t) {
                f(v);
            }
        } else if t.starts_with("<<\"") {
            if let Some(v) = unwrap_printt(t) {
                f(v);
            }
        }
    }
}

/// `<<"TAG", "escaped json">>` -> json
pub fn unwrap_printt(t: &str) -> Option<J> {
    let start = t.find(", \"")? + 2;
    let end = t.rfind("\">>")? + 1;
    let lit = &t[start..end];
    // TLA+ string escapes are a subset of JSON string escapes
    let inner: String = serde_json::from_str(lit).ok()?;
    serde_json::from_str(&inner).ok()
}

pub fn arg_value<'a>(args: &'a [String], name: &str) -> Option<&'a str> {
    args.iter()
        .position(|a| a == name)
        .and_then(|i| args.get(i + 1))
        .map(|s| s.as_str())
}

pub fn arg_flag(args: &[String], name: &str) -> bool {
    args.iter().any(|a| a == name)
}
