use serde_json::Value as J;
use std::fs::File;
use std::io::{self, BufRead, BufReader, BufWriter, Write};
use std::panic::{catch_unwind, AssertUnwindSafe};

/// Outcome of running code under test: value, or "panic".
pub fn guarded<T, F: FnOnce() -> T>(f: F) -> Result<T, String> {
    catch_unwind(AssertUnwindSafe(f)).map_err(|e| {
        if let Some(s) = e.downcast_ref::<&str>() {
            s.to_string()
        } else if let Some(s) = e.downcast_ref::<String>() {
            s.clone()
        } else {
            "panic".to_string()
        }
    })
}

pub fn cps_to_string(v: &J) -> String {
    v.as_array()
        .map(|a| {
            a.iter()
                .filter_map(|c| c.as_u64().and_then(|c| char::from_u32(c as u32)))
                .collect()
        })
        .unwrap_or_default()
}

pub fn string_to_cps(s: &str) -> J {
    J::Array(s.chars().map(|c| J::from(c as u32)).collect())
}

pub fn open_in(path: &str) -> Box<dyn BufRead> {
    if path == "-" {
        Box::new(BufReader::new(io::stdin()))
    } else {
        Box::new(BufReader::with_capacity(
            1 << 20,
            File::open(path).unwrap_or_else(|e| {
                eprintln!("cannot open {}: {}", path, e);
                std::process::exit(2)
            }),
        ))
    }
}

pub fn open_out(path: &str) -> Box<dyn Write> {
    if path == "-" {
        Box::new(BufWriter::new(io::stdout()))
    } else {
        Box::new(BufWriter::with_capacity(
            1 << 20,
            File::create(path).unwrap_or_else(|e| {
                eprintln!("cannot create {}: {}", path, e);
                std::process::exit(2)
            }),
        ))
    }
}

/// Iterate over the JSON objects of an ndjson file.  Lines produced by TLC's PrintT look like
/// `<<"REPLAY", "{...json...}">>`; those are unwrapped (the JSON is a TLA+ string literal).
pub fn for_each_case<F: FnMut(J)>(path: &str, mut f: F) {
    let rd = open_in(path);
    for line in rd.lines() {
        let line = match line {
            Ok(l) => l,
            Err(_) => continue,
        };
        let t = line.trim();
        if t.is_empty() {
            continue;
        }
        if t.starts_with('{') {
            if let Ok(v) = serde_json::from_str::<J>(t) {
                f(v);
            }
        } else if t.starts_with("<<\"") {
            if let Some(v) = unwrap_printt(t) {
                f(v);
            }
        }
    }
}

/// `<<"TAG", "escaped json">>` -> json
pub fn unwrap_printt(t: &str) -> Option<J> {
    let start = t.find(", \"")? + 2;
    let end = t.rfind("\">>")? + 1;
    let lit = &t[start..end];
    // TLA+ string escapes are a subset of JSON string escapes
    let inner: String = serde_json::from_str(lit).ok()?;
    serde_json::from_str(&inner).ok()
}

pub fn arg_value<'a>(args: &'a [String], name: &str) -> Option<&'a str> {
    args.iter()
        .position(|a| a == name)
        .and_then(|i| args.get(i + 1))
        .map(|s| s.as_str())
}

pub fn arg_flag(args: &[String], name: &str) -> bool {
    args.iter().any(|a| a == name)
}

// -------------------------------------------------------------------------------------------------
// Watchdog: code under test that never returns (or overflows the stack) must become data, too.
//
// `watchdog_start(path, secs, sync)` starts a monitor thread.  Drivers call `heartbeat(|| description)` before
// every call of the code under test.  If no heartbeat arrives for `secs` seconds the monitor writes the last
// description (one JSON line: what was being executed) to `path` and exits the process with status 3.
// With `sync` every heartbeat writes its description to `path` immediately, so that after a crash of the
// whole process (stack overflow, abort) the file names the call that was running; the python driver re-runs a
// crashed harness in this mode.
use std::sync::atomic::{AtomicBool, AtomicU64, Ordering};
use std::sync::Mutex;

static WD_BEAT: AtomicU64 = AtomicU64::new(0);
static WD_ON: AtomicBool = AtomicBool::new(false);
static WD_SYNC: AtomicBool = AtomicBool::new(false);
static WD_DESC: Mutex<String> = Mutex::new(String::new());
static WD_PATH: Mutex<String> = Mutex::new(String::new());

fn now_ms() -> u64 {
    std::time::SystemTime::now().duration_since(std::time::UNIX_EPOCH).map(|d| d.as_millis() as u64).unwrap_or(0)
}

pub fn watchdog_start(path: &str, secs: u64, sync: bool) {
    *WD_PATH.lock().unwrap() = path.to_string();
    let _ = std::fs::remove_file(path);
    WD_BEAT.store(now_ms(), Ordering::SeqCst);
    WD_SYNC.store(sync, Ordering::SeqCst);
    WD_ON.store(true, Ordering::SeqCst);
    std::thread::spawn(move || loop {
        std::thread::sleep(std::time::Duration::from_millis(200));
        let last = WD_BEAT.load(Ordering::SeqCst);
        if now_ms().saturating_sub(last) > secs * 1000 {
            let desc = WD_DESC.lock().map(|d| d.clone()).unwrap_or_default();
            let path = WD_PATH.lock().map(|d| d.clone()).unwrap_or_default();
            if !desc.is_empty() {
                let _ = std::fs::write(&path, format!("{}\n", desc));
            }
            std::process::exit(3);
        }
    });
}

pub fn heartbeat<F: FnOnce() -> String>(desc: F) {
    if !WD_ON.load(Ordering::Relaxed) {
        return;
    }
    WD_BEAT.store(now_ms(), Ordering::SeqCst);
    // the description is only built in --sync mode (it can be long: the whole history); after a hang or crash in
    // the normal mode the driver is re-run with --sync to learn which call it was
    if WD_SYNC.load(Ordering::Relaxed) {
        let d = desc();
        let path = WD_PATH.lock().map(|d| d.clone()).unwrap_or_default();
        let _ = std::fs::write(&path, format!("{}\n", d));
        if let Ok(mut g) = WD_DESC.lock() {
            *g = d;
        }
    }
}
