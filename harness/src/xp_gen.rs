//! xp-record: seeded random documents and expressions (larger than the exhaustive bounds of MC_XPath).
//!
//! The generator produces a document TREE and an abstract expression (the record formats of
//! spec/XPathSem.tla), renders both to text with its own serializer/unparser, evaluates the text on the
//! real crates and logs {tree, text, ast, styles, spellings, observations}.  Trace_XPath.tla re-renders
//! tree and expression with the specification's Ser/Unparse (a difference is reported as a tool error) and
//! re-computes the value: the harness never judges.

use super::{eval_fresh, load_doc, Doc};
use crate::util::*;
use rand::rngs::StdRng;
use rand::{Rng, SeedableRng};
use serde_json::{json, Value as J};
use std::io::Write;

fn cp(s: &str) -> J {
    string_to_cps(s)
}

// ------------------------------------------------------------------------------------------------
// documents

struct TreeGen<'a> {
    rng: &'a mut StdRng,
    nodes: Vec<J>,
    budget: usize,
}

const ENAMES: [&str; 3] = ["a", "b", "c"];
const ANAMES: [&str; 3] = ["x", "y", "z"];
const TEXTS: [&str; 9] = ["1", "2", "12", "ab", "s", " 12 ", "a b", "-1", "1.5"];

fn node(k: &str, p: usize, loc: &str, v: &str) -> J {
    json!({"k": k, "p": p, "pre": [], "loc": cp(loc), "uri": [], "v": cp(v), "raw": []})
}

impl<'a> TreeGen<'a> {
    fn elem(&mut self, parent: usize, depth: usize) {
        let name = ENAMES[self.rng.gen_range(0..ENAMES.len())];
        self.nodes.push(node("elem", parent, name, ""));
        let me = self.nodes.len();
        if self.rng.gen_range(0..6) == 0 {
            let v = ["en", "en-US", "fr", "EN-gb"][self.rng.gen_range(0..4)];
            self.nodes.push(json!({"k": "attr", "p": me, "pre": cp("xml"), "loc": cp("lang"),
                                   "uri": cp("http://www.w3.org/XML/1998/namespace"), "v": cp(v), "raw": []}));
        }
        for a in ANAMES.iter() {
            if self.rng.gen_range(0..4) == 0 {
                let v = TEXTS[self.rng.gen_range(0..5)];
                self.nodes.push(node("attr", me, a, v));
            }
        }
        let nkids = if depth >= 4 { 0 } else { self.rng.gen_range(0..5) };
        let mut last_text = false;
        for _ in 0..nkids {
            if self.budget == 0 {
                break;
            }
            self.budget -= 1;
            match self.rng.gen_range(0..10) {
                0..=4 => {
                    self.elem(me, depth + 1);
                    last_text = false;
                }
                5..=7 => {
                    if !last_text {
                        let v = TEXTS[self.rng.gen_range(0..TEXTS.len())];
                        self.nodes.push(node("text", me, "", v));
                        last_text = true;
                    }
                }
                8 => {
                    self.nodes.push(node("comment", me, "", TEXTS[self.rng.gen_range(0..5)]));
                    last_text = false;
                }
                _ => {
                    let v = if self.rng.gen_bool(0.5) { "s" } else { "" };
                    self.nodes.push(node("pi", me, "p", v));
                    last_text = false;
                }
            }
        }
    }
}

fn gen_tree(rng: &mut StdRng) -> J {
    let budget = rng.gen_range(3..28);
    let mut g = TreeGen { rng, nodes: vec![], budget };
    g.nodes.push(json!({"k": "root", "p": 0, "pre": [], "loc": [], "uri": [], "v": [], "raw": []}));
    if g.rng.gen_range(0..5) == 0 {
        g.nodes.push(node("comment", 1, "", "c"));
    }
    g.elem(1, 1);
    if g.rng.gen_range(0..5) == 0 {
        g.nodes.push(node("pi", 1, "p", ""));
    }
    json!({"prolog": [], "nodes": g.nodes})
}

fn esc(s: &str, attr: bool) -> String {
    let mut o = String::new();
    for c in s.chars() {
        match c {
            '<' => o.push_str("&lt;"),
            '&' => o.push_str("&amp;"),
            '>' if !attr => o.push_str("&gt;"),
            '"' if attr => o.push_str("&quot;"),
            '\t' if attr => o.push_str("&#9;"),
            '\n' if attr => o.push_str("&#10;"),
            '\r' if attr => o.push_str("&#13;"),
            c => o.push(c),
        }
    }
    o
}

/// the same serialization as spec/XPathDoc.tla (without namespace nodes)
pub fn ser(tree: &J) -> String {
    let nodes = tree["nodes"].as_array().unwrap();
    fn qn(n: &J) -> String {
        let p = cps_to_string(&n["pre"]);
        let l = cps_to_string(&n["loc"]);
        if p.is_empty() {
            l
        } else {
            format!("{}:{}", p, l)
        }
    }
    fn go(nodes: &[J], i: usize, out: &mut String) {
        let n = &nodes[i - 1];
        let kids: Vec<usize> = (i + 1..=nodes.len())
            .filter(|&j| nodes[j - 1]["p"].as_u64() == Some(i as u64) && !matches!(nodes[j - 1]["k"].as_str(), Some("attr") | Some("ns")))
            .collect();
        match n["k"].as_str().unwrap() {
            "root" => {
                for k in kids {
                    go(nodes, k, out);
                }
            }
            "text" => {
                let raw = cps_to_string(&n["raw"]);
                if raw.is_empty() {
                    out.push_str(&esc(&cps_to_string(&n["v"]), false));
                } else {
                    out.push_str(&raw);
                }
            }
            "comment" => {
                out.push_str("<!--");
                out.push_str(&cps_to_string(&n["v"]));
                out.push_str("-->");
            }
            "pi" => {
                out.push_str("<?");
                out.push_str(&cps_to_string(&n["loc"]));
                let v = cps_to_string(&n["v"]);
                if !v.is_empty() {
                    out.push(' ');
                    out.push_str(&v);
                }
                out.push_str("?>");
            }
            "elem" => {
                out.push('<');
                out.push_str(&qn(n));
                for j in i + 1..=nodes.len() {
                    let a = &nodes[j - 1];
                    if a["p"].as_u64() == Some(i as u64) && a["k"] == "attr" {
                        out.push(' ');
                        out.push_str(&qn(a));
                        out.push_str("=\"");
                        out.push_str(&esc(&cps_to_string(&a["v"]), true));
                        out.push('"');
                    }
                }
                if kids.is_empty() {
                    out.push_str("/>");
                } else {
                    out.push('>');
                    for k in kids {
                        go(nodes, k, out);
                    }
                    out.push_str("</");
                    out.push_str(&qn(n));
                    out.push('>');
                }
            }
            _ => {}
        }
    }
    let mut out = cps_to_string(&tree["prolog"]);
    go(nodes, 1, &mut out);
    out
}

// ------------------------------------------------------------------------------------------------
// expressions

fn num(v1024: i64) -> J {
    json!({"t": "num", "n": {"cls": "fin", "v": v1024}})
}
fn lit(s: &str) -> J {
    json!({"t": "str", "v": cp(s)})
}
fn func(name: &str, args: Vec<J>) -> J {
    json!({"t": "fn", "name": name, "args": args})
}
fn bin(op: &str, l: J, r: J) -> J {
    json!({"t": "bin", "op": op, "l": l, "r": r})
}

const AXES: [&str; 12] = [
    "ancestor", "ancestor-or-self", "attribute", "child", "descendant", "descendant-or-self", "following",
    "following-sibling", "parent", "preceding", "preceding-sibling", "self",
];

struct ExprGen<'a> {
    rng: &'a mut StdRng,
    /// scalar-only expressions over a richer value pool (C09)
    scalar: bool,
}

const SC_STRINGS: [&str; 16] = ["", " ", "a", "ab", "日本", "é😀", " 12 ", "-0.5", "1e3", "+1", ".5", "5.", "Infinity", "NaN", "12345", " a  b "];

impl<'a> ExprGen<'a> {
    fn pick<'b>(&mut self, xs: &[&'b str]) -> &'b str {
        xs[self.rng.gen_range(0..xs.len())]
    }

    fn test(&mut self, axis: &str) -> J {
        match self.rng.gen_range(0..10) {
            0..=3 => {
                let n = if axis == "attribute" { self.pick(&ANAMES) } else { self.pick(&ENAMES) };
                json!({"k": "name", "pre": [], "loc": cp(n)})
            }
            4..=5 => json!({"k": "any"}),
            6..=7 => json!({"k": "type", "ty": "node"}),
            8 => json!({"k": "type", "ty": "text"}),
            9 if self.rng.gen_bool(0.3) => json!({"k": "pilit", "target": cp(self.pick(&["p", "x"]))}),
            _ => {
                let t = self.pick(&["comment", "pi", "text", "node"]);
                json!({"k": "type", "ty": t})
            }
        }
    }

    fn pred(&mut self, depth: usize) -> J {
        match self.rng.gen_range(0..10) {
            0..=2 => num(1024 * self.rng.gen_range(1..4)),
            3 => func("last", vec![]),
            4 => bin(self.pick(&["=", "<", ">", "!=", "<=", ">="]), func("position", vec![]), self.num_expr(depth)),
            5..=6 => self.nodeset(depth, false),
            _ => self.bool_expr(depth),
        }
    }

    fn step(&mut self, depth: usize) -> J {
        let axis = match self.rng.gen_range(0..10) {
            0..=3 => "child",
            4 => "attribute",
            _ => AXES[self.rng.gen_range(0..AXES.len())],
        };
        let test = self.test(axis);
        let mut preds = vec![];
        if depth > 0 {
            while self.rng.gen_range(0..3) == 0 && preds.len() < 2 {
                preds.push(self.pred(depth - 1));
            }
        }
        json!({"axis": axis, "test": test, "preds": preds})
    }

    fn steps(&mut self, depth: usize, max: usize) -> Vec<J> {
        let n = self.rng.gen_range(1..=max);
        let mut v = vec![];
        for _ in 0..n {
            if self.rng.gen_range(0..4) == 0 {
                v.push(json!({"axis": "descendant-or-self", "test": {"k": "type", "ty": "node"}, "preds": []}));
            }
            v.push(self.step(depth));
        }
        v
    }

    /// a node-set valued expression; `top`: may be absolute or relative (inside predicates mostly relative)
    fn nodeset(&mut self, depth: usize, top: bool) -> J {
        let r = self.rng.gen_range(0..10);
        if depth == 0 || r < 6 {
            let abs = if top { self.rng.gen_bool(0.7) } else { self.rng.gen_range(0..5) == 0 };
            let steps = self.steps(depth.saturating_sub(1), 3);
            json!({"t": "path", "abs": abs, "steps": steps})
        } else if r < 8 {
            bin("|", self.nodeset(depth - 1, top), self.nodeset(depth - 1, top))
        } else {
            let e = self.nodeset(depth - 1, top);
            let mut preds = vec![];
            if self.rng.gen_bool(0.8) {
                preds.push(self.pred(depth - 1));
            }
            let steps = if self.rng.gen_bool(0.4) { self.steps(depth - 1, 2) } else { vec![] };
            json!({"t": "filt", "e": e, "preds": preds, "steps": steps})
        }
    }

    fn num_expr(&mut self, depth: usize) -> J {
        let mut r = self.rng.gen_range(0..12);
        if self.scalar && (depth == 0 || r < 4) && self.rng.gen_bool(0.5) {
            let n = match self.rng.gen_range(0..8) {
                0 => json!({"cls": "nan", "v": 0}),
                1 => json!({"cls": "pinf", "v": 0}),
                2 => json!({"cls": "ninf", "v": 0}),
                3 => json!({"cls": "nzero", "v": 0}),
                4 => json!({"cls": "fin", "v": -512 * self.rng.gen_range(1..8)}),
                5 => json!({"cls": "fin", "v": 256 * self.rng.gen_range(1..40)}),
                6 => json!({"cls": "fin", "v": 1024 * self.rng.gen_range(5..2000)}),
                _ => json!({"cls": "fin", "v": self.rng.gen_range(1..1024)}),
            };
            return json!({"t": "num", "n": n});
        }
        if self.scalar && (r == 4 || r == 5) {
            r = 7;
        }
        if depth == 0 || r < 4 {
            return match self.rng.gen_range(0..6) {
                0 => num(512 * self.rng.gen_range(0..7)),
                _ => num(1024 * self.rng.gen_range(0..5)),
            };
        }
        match r {
            4 => func("count", vec![self.nodeset(depth - 1, true)]),
            5 => func("sum", vec![self.nodeset(depth - 1, true)]),
            6 => func("number", vec![self.any_expr(depth - 1)]),
            7 => func("string-length", vec![self.str_expr(depth - 1)]),
            8 => {
                let f = self.pick(&["floor", "ceiling", "round"]);
                func(f, vec![self.num_expr(depth - 1)])
            }
            9 => json!({"t": "neg", "e": self.num_expr(depth - 1)}),
            _ => {
                let op = self.pick(&["+", "-", "*", "div", "mod"]);
                bin(op, self.num_expr(depth - 1), self.num_expr(depth - 1))
            }
        }
    }

    fn str_expr(&mut self, depth: usize) -> J {
        let mut r = self.rng.gen_range(0..12);
        if self.scalar && (depth == 0 || r < 3) {
            return lit(SC_STRINGS[self.rng.gen_range(0..SC_STRINGS.len())]);
        }
        if self.scalar && (r == 5 || r == 6) {
            r = 3;
        }
        if depth == 0 || r < 3 {
            return lit(self.pick(&["", "1", "12", "ab", "a", "b", " ", "s", "2"]));
        }
        match r {
            3 => func("string", vec![self.any_expr(depth - 1)]),
            4 => func("concat", vec![self.str_expr(depth - 1), self.any_expr(depth - 1)]),
            5 => func("name", vec![self.nodeset(depth - 1, true)]),
            6 => func("local-name", vec![self.nodeset(depth - 1, true)]),
            7 => func("normalize-space", vec![self.str_expr(depth - 1)]),
            8 => func("substring", vec![self.str_expr(depth - 1), self.num_expr(depth - 1)]),
            9 => func("substring", vec![self.str_expr(depth - 1), self.num_expr(depth - 1), self.num_expr(depth - 1)]),
            10 => {
                let f = self.pick(&["substring-before", "substring-after"]);
                func(f, vec![self.str_expr(depth - 1), self.str_expr(depth - 1)])
            }
            _ => func("translate", vec![self.str_expr(depth - 1), lit("12a"), lit("xy")]),
        }
    }

    fn bool_expr(&mut self, depth: usize) -> J {
        let r = self.rng.gen_range(0..12);
        if depth == 0 {
            return func(self.pick(&["true", "false"]), vec![]);
        }
        match r {
            0..=3 => {
                let op = self.pick(&["=", "!=", "<", "<=", ">", ">="]);
                bin(op, self.any_expr(depth - 1), self.any_expr(depth - 1))
            }
            4 => func("not", vec![self.any_expr(depth - 1)]),
            5 if !self.scalar && self.rng.gen_bool(0.5) => func("lang", vec![lit(self.pick(&["en", "fr", "EN", "en-us", "e"]))]),
            5 => func("boolean", vec![self.any_expr(depth - 1)]),
            6 => bin(self.pick(&["and", "or"]), self.bool_expr(depth - 1), self.bool_expr(depth - 1)),
            7 => {
                let f = self.pick(&["contains", "starts-with"]);
                func(f, vec![self.str_expr(depth - 1), self.str_expr(depth - 1)])
            }
            8 => bin(self.pick(&["and", "or"]), self.any_expr(depth - 1), self.any_expr(depth - 1)),
            _ if self.scalar => bin(self.pick(&["=", "!=", "<", ">="]), self.num_expr(depth - 1), self.str_expr(depth - 1)),
            _ => bin(self.pick(&["=", "!="]), self.nodeset(depth - 1, true), self.any_expr(depth - 1)),
        }
    }

    fn any_expr(&mut self, depth: usize) -> J {
        let lo = if self.scalar { 3 } else { 0 };
        match self.rng.gen_range(lo..7) {
            0..=2 => self.nodeset(depth, true),
            3 => self.num_expr(depth),
            4 => self.str_expr(depth),
            _ => self.bool_expr(depth),
        }
    }
}

// ------------------------------------------------------------------------------------------------
// unparser: the Rust twin of spec/XPathSyntax.tla (Trace_XPath.tla checks that the two agree)

#[derive(Clone, PartialEq)]
enum TK {
    Word,
    Minus,
    Sym,
}
#[derive(Clone)]
struct Tok {
    s: String,
    k: TK,
}
fn w(s: &str) -> Tok {
    Tok { s: s.to_string(), k: TK::Word }
}
fn sy(s: &str) -> Tok {
    Tok { s: s.to_string(), k: TK::Sym }
}
fn minus() -> Tok {
    Tok { s: "-".into(), k: TK::Minus }
}
fn wrap(mut t: Vec<Tok>) -> Vec<Tok> {
    let mut v = vec![sy("(")];
    v.append(&mut t);
    v.push(sy(")"));
    v
}

pub struct Style {
    pub abbrev: bool,
    pub ws: u8,
    pub parens: bool,
}

impl Style {
    pub fn json(&self) -> J {
        json!({"abbrev": self.abbrev, "ws": self.ws, "parens": self.parens})
    }
}

fn prec(e: &J) -> u8 {
    match e["t"].as_str().unwrap() {
        "bin" => match e["op"].as_str().unwrap() {
            "or" => 1,
            "and" => 2,
            "=" | "!=" => 3,
            "<" | "<=" | ">" | ">=" => 4,
            "+" | "-" => 5,
            "*" | "div" | "mod" => 6,
            _ => 8,
        },
        "neg" => 7,
        _ => 9,
    }
}

fn num_to_str(v: i64) -> String {
    // exact decimal expansion of v/1024, v >= 0
    let ip = v / 1024;
    let mut r = v % 1024;
    let mut s = ip.to_string();
    if r != 0 {
        s.push('.');
        while r != 0 {
            s.push(char::from(b'0' + ((r * 10) / 1024) as u8));
            r = (r * 10) % 1024;
        }
    }
    s
}

fn num_toks(n: &J) -> Vec<Tok> {
    let v = n["v"].as_i64().unwrap_or(0);
    match n["cls"].as_str().unwrap() {
        "fin" if v >= 0 => vec![w(&num_to_str(v))],
        "fin" => wrap(vec![minus(), w(&num_to_str(-v))]),
        "nzero" => wrap(vec![minus(), w("0")]),
        "nan" => wrap(vec![w("0"), w("div"), w("0")]),
        "pinf" => wrap(vec![w("1"), w("div"), w("0")]),
        _ => wrap(vec![minus(), w("1"), w("div"), w("0")]),
    }
}

fn lit_tok(v: &J) -> Tok {
    let s = cps_to_string(v);
    let q = if s.contains('\'') { '"' } else { '\'' };
    sy(&format!("{}{}{}", q, s, q))
}

fn is_node_test(step: &J) -> bool {
    step["test"]["k"] == "type" && step["test"]["ty"] == "node" && step["preds"].as_array().map(|a| a.is_empty()).unwrap_or(true)
}

fn test_toks(t: &J) -> Vec<Tok> {
    match t["k"].as_str().unwrap() {
        "name" => {
            let p = cps_to_string(&t["pre"]);
            let l = cps_to_string(&t["loc"]);
            vec![w(&if p.is_empty() { l } else { format!("{}:{}", p, l) })]
        }
        "any" => vec![sy("*")],
        "nsany" => vec![w(&format!("{}:*", cps_to_string(&t["pre"])))],
        "type" => {
            let n = match t["ty"].as_str().unwrap() {
                "pi" => "processing-instruction",
                o => o,
            };
            vec![w(n), sy("("), sy(")")]
        }
        _ => vec![w("processing-instruction"), sy("("), lit_tok(&t["target"]), sy(")")],
    }
}

fn operand(e: &J, st: &Style, min: u8) -> Vec<Tok> {
    let t = et(e, st);
    let bare_root = e["t"] == "path" && e["abs"] == true && e["steps"].as_array().map(|a| a.is_empty()).unwrap_or(false);
    let u = if prec(e) < min || (bare_root && min > 1) { wrap(t) } else { t };
    if st.parens {
        wrap(u)
    } else {
        u
    }
}

fn preds_toks(preds: &J, st: &Style) -> Vec<Tok> {
    let mut v = vec![];
    for p in preds.as_array().unwrap() {
        v.push(sy("["));
        if !st.abbrev && p["t"] == "num" {
            v.extend(vec![w("position"), sy("("), sy(")"), sy("=")]);
            v.extend(num_toks(&p["n"]));
        } else {
            v.extend(operand(p, st, 1));
        }
        v.push(sy("]"));
    }
    v
}

fn step_toks(s: &J, st: &Style) -> Vec<Tok> {
    let axis = s["axis"].as_str().unwrap();
    if st.abbrev && axis == "self" && is_node_test(s) {
        return vec![sy(".")];
    }
    if st.abbrev && axis == "parent" && is_node_test(s) {
        return vec![sy("..")];
    }
    let mut v = if st.abbrev && axis == "child" {
        vec![]
    } else if st.abbrev && axis == "attribute" {
        vec![sy("@")]
    } else {
        vec![w(axis), sy("::")]
    };
    v.extend(test_toks(&s["test"]));
    v.extend(preds_toks(&s["preds"], st));
    v
}

fn steps_toks(steps: &J, lead0: &str, st: &Style) -> Vec<Tok> {
    let steps = steps.as_array().unwrap();
    let mut v = vec![];
    let mut lead = lead0.to_string();
    for (k, s) in steps.iter().enumerate() {
        let is_dos = s["axis"] == "descendant-or-self" && is_node_test(s);
        if st.abbrev && lead == "slash" && is_dos && k + 1 < steps.len() {
            v.push(sy("//"));
            lead = "done".into();
        } else {
            if lead == "slash" {
                v.push(sy("/"));
            }
            v.extend(step_toks(s, st));
            lead = "slash".into();
        }
    }
    v
}

fn et(e: &J, st: &Style) -> Vec<Tok> {
    match e["t"].as_str().unwrap() {
        "num" => num_toks(&e["n"]),
        "str" => vec![lit_tok(&e["v"])],
        "neg" => {
            let mut v = vec![minus()];
            v.extend(operand(&e["e"], st, 7));
            v
        }
        "bin" => {
            let op = e["op"].as_str().unwrap();
            let mut v = operand(&e["l"], st, prec(e));
            v.push(match op {
                "or" | "and" | "div" | "mod" => w(op),
                "-" => minus(),
                o => sy(o),
            });
            v.extend(operand(&e["r"], st, prec(e) + 1));
            v
        }
        "fn" => {
            let mut v = vec![w(e["name"].as_str().unwrap()), sy("(")];
            for (k, a) in e["args"].as_array().unwrap().iter().enumerate() {
                if k > 0 {
                    v.push(sy(","));
                }
                v.extend(operand(a, st, 1));
            }
            v.push(sy(")"));
            v
        }
        "path" => {
            let abs = e["abs"].as_bool().unwrap();
            if abs && e["steps"].as_array().unwrap().is_empty() {
                vec![sy("/")]
            } else {
                steps_toks(&e["steps"], if abs { "slash" } else { "none" }, st)
            }
        }
        _ => {
            let mut v = wrap(et(&e["e"], st));
            v.extend(preds_toks(&e["preds"], st));
            v.extend(steps_toks(&e["steps"], "slash", st));
            v
        }
    }
}

pub fn unparse(e: &J, st: &Style) -> String {
    let toks = et(e, st);
    let mut out = String::new();
    for (i, t) in toks.iter().enumerate() {
        if i > 0 {
            let k = i + 1; // 1-based index of the token, as in XPathSyntax!Sep
            let x = &toks[i - 1];
            match st.ws {
                0 => {
                    if x.k == TK::Word && (t.k == TK::Word || t.k == TK::Minus) {
                        out.push(' ');
                    }
                }
                1 => out.push(' '),
                _ => match k % 3 {
                    0 => out.push('\n'),
                    1 => out.push('\t'),
                    _ => out.push_str(" \r\n"),
                },
            }
        }
        out.push_str(&t.s);
    }
    out
}

const CANON: Style = Style { abbrev: false, ws: 0, parens: false };

// ------------------------------------------------------------------------------------------------

fn group_event(doc: &Doc, tree: &J, a: &str, b: &str, c: &str) -> J {
    let exprs: Vec<String> = vec![
        a.to_string(),
        b.to_string(),
        c.to_string(),
        format!("({})|({})", a, b),
        format!("({})|({})", b, a),
        format!("({})|({})", a, a),
        format!("(({})|({}))|({})", a, b, c),
        format!("({})|(({})|({}))", a, b, c),
        format!("(({})|({}))[1]", a, b),
        format!("(({})|({}))[last()]", b, a),
        format!("count(({})|({}))", a, b),
        format!("count({})", a),
        format!("count({})", b),
    ];
    let obs: Vec<J> = exprs.iter().map(|e| eval_fresh(doc, e, &json!([]))).collect();
    json!({"k": "grp", "tree": tree, "text": string_to_cps(&doc.text),
           "exprs": exprs.iter().map(|e| string_to_cps(e)).collect::<Vec<_>>(), "obs": obs})
}

pub fn record(args: &[String]) -> i32 {
    let out = arg_value(args, "--out").unwrap_or("-");
    let mut wtr = open_out(out);
    if let Some(path) = arg_value(args, "--regroup") {
        // replay of a stored metamorphic group
        for_each_case(path, |case| {
            let text = cps_to_string(&case["text"]);
            // a single expression string (struct / tab / crash events): evaluate it again
            if case.get("expr").is_some() && case.get("exprs").is_none() {
                let tree = case.get("tree").cloned().unwrap_or(json!({"prolog": [], "nodes": []}));
                let text = if case.get("text").is_some() { text } else { "<r/>".to_string() };
                if let Ok(doc) = load_doc(&text, &tree) {
                    let mut ev = case.clone();
                    if ev["k"] == "crash" {
                        ev["k"] = json!("struct");
                    }
                    ev["obs"] = eval_fresh(&doc, &cps_to_string(&case["expr"]), &json!([]));
                    writeln!(wtr, "{}", ev).unwrap();
                }
                return;
            }
            if let Ok(doc) = load_doc(&text, &case["tree"]) {
                let exprs: Vec<String> = case["exprs"].as_array().unwrap().iter().map(cps_to_string).collect();
                let obs: Vec<J> = exprs.iter().map(|e| eval_fresh(&doc, e, &json!([]))).collect();
                let ev = json!({"k": "grp", "tree": case["tree"], "text": case["text"], "exprs": case["exprs"], "obs": obs});
                writeln!(wtr, "{}", ev).unwrap();
            }
        });
        return 0;
    }
    let seed: u64 = arg_value(args, "--seed").and_then(|s| s.parse().ok()).unwrap_or(1);
    let n: usize = arg_value(args, "--n").and_then(|s| s.parse().ok()).unwrap_or(1000);
    if arg_flag(args, "--scalar") {
        // C09: random scalar applications on the document <r/>
        let mut rng = StdRng::seed_from_u64(seed);
        let tree = json!({"prolog": [], "nodes": [
            {"k": "root", "p": 0, "pre": [], "loc": [], "uri": [], "v": [], "raw": []},
            {"k": "elem", "p": 1, "pre": [], "loc": [114], "uri": [], "v": [], "raw": []}]});
        let text = ser(&tree);
        let doc = match load_doc(&text, &tree) {
            Ok(d) => d,
            Err(_) => return 2,
        };
        for _ in 0..n {
            let depth = rng.gen_range(1..4);
            let ast = {
                let mut g = ExprGen { rng: &mut rng, scalar: true };
                g.any_expr(depth)
            };
            let st = Style { abbrev: true, ws: rng.gen_range(0..3), parens: rng.gen_bool(0.5) };
            let styles = vec![CANON.json(), st.json()];
            let sp = vec![unparse(&ast, &CANON), unparse(&ast, &st)];
            let obs: Vec<J> = sp.iter().map(|e| eval_fresh(&doc, e, &json!([]))).collect();
            let ev = json!({"k": "xp", "fam": "rnd", "tree": tree, "text": string_to_cps(&text), "binds": [],
                            "ast": ast, "styles": styles, "sp": sp.iter().map(|s| string_to_cps(s)).collect::<Vec<_>>(),
                            "obs": obs, "mismatch": doc.mismatch.clone().unwrap_or_default()});
            writeln!(wtr, "{}", ev).unwrap();
        }
        wtr.flush().unwrap();
        return 0;
    }
    let groups: usize = arg_value(args, "--groups").and_then(|s| s.parse().ok()).unwrap_or(0);
    let mut rng = StdRng::seed_from_u64(seed);
    let mut made = 0;
    let mut made_groups = 0;
    // extra operands for groups that lie outside the specification's subset (only structure is judged)
    let outside = ["//*[lang('en')]", "//node()[string-length() > 1]", "id('x')", "//@*/..", "//*/@*"];
    while made < n || made_groups < groups {
        let tree = gen_tree(&mut rng);
        let text = ser(&tree);
        let doc = match load_doc(&text, &tree) {
            Ok(d) => d,
            Err(e) => {
                let ev = json!({"k": "doc", "text": string_to_cps(&text), "error": e});
                writeln!(wtr, "{}", ev).unwrap();
                made += 1;
                continue;
            }
        };
        let per_doc = 6;
        for _ in 0..per_doc {
            if made >= n {
                break;
            }
            let depth = rng.gen_range(1..5);
            let ast = {
                let mut g = ExprGen { rng: &mut rng, scalar: false };
                g.any_expr(depth)
            };
            let st = Style { abbrev: rng.gen_bool(0.6), ws: rng.gen_range(0..3), parens: rng.gen_bool(0.3) };
            let st2 = Style { abbrev: true, ws: 0, parens: false };
            let styles = vec![CANON.json(), st2.json(), st.json()];
            let sp = vec![unparse(&ast, &CANON), unparse(&ast, &st2), unparse(&ast, &st)];
            let obs: Vec<J> = sp.iter().map(|e| eval_fresh(&doc, e, &json!([]))).collect();
            let ev = json!({"k": "xp", "fam": "rnd", "tree": tree, "text": string_to_cps(&text), "binds": [],
                            "ast": ast, "styles": styles, "sp": sp.iter().map(|s| string_to_cps(s)).collect::<Vec<_>>(),
                            "obs": obs, "mismatch": doc.mismatch.clone().unwrap_or_default()});
            writeln!(wtr, "{}", ev).unwrap();
            made += 1;
        }
        for _ in 0..2 {
            if made_groups >= groups {
                break;
            }
            let mut ops = vec![];
            for _ in 0..3 {
                if rng.gen_range(0..6) == 0 {
                    ops.push(outside[rng.gen_range(0..outside.len())].to_string());
                } else {
                    let depth = rng.gen_range(1..4);
                    let ast = {
                        let mut g = ExprGen { rng: &mut rng, scalar: false };
                        g.nodeset(depth, true)
                    };
                    ops.push(unparse(&ast, &Style { abbrev: rng.gen_bool(0.5), ws: 0, parens: false }));
                }
            }
            let ev = group_event(&doc, &tree, &ops[0], &ops[1], &ops[2]);
            writeln!(wtr, "{}", ev).unwrap();
            made_groups += 1;
        }
    }
    // C07 beyond the specification's subset: seeded garbage and edited expressions that happen to evaluate to
    // a node-set; only the structure of the result is judged (event kind "struct")
    let n_struct: usize = arg_value(args, "--struct").and_then(|s| s.parse().ok()).unwrap_or(0);
    let mut made_struct = 0;
    let mut tries = 0;
    while made_struct < n_struct && tries < n_struct * 200 {
        let tree = gen_tree(&mut rng);
        let text = ser(&tree);
        let doc = match load_doc(&text, &tree) {
            Ok(d) => d,
            Err(_) => continue,
        };
        let valid: Vec<String> = (0..6)
            .map(|_| {
                let depth = rng.gen_range(1..4);
                let mut g = ExprGen { rng: &mut rng, scalar: false };
                let ast = g.nodeset(depth, true);
                unparse(&ast, &Style { abbrev: true, ws: 0, parens: false })
            })
            .collect();
        for _ in 0..40 {
            tries += 1;
            let expr = super::total::garbage(&mut rng, &valid);
            let obs = eval_fresh(&doc, &expr, &json!([]));
            if obs["t"] == "nodes" && obs["v"].as_array().map(|a| a.len() >= 2).unwrap_or(false) {
                let ev = json!({"k": "struct", "tree": tree, "text": string_to_cps(&text), "expr": string_to_cps(&expr), "obs": obs});
                writeln!(wtr, "{}", ev).unwrap();
                made_struct += 1;
                if made_struct >= n_struct {
                    break;
                }
            }
        }
    }
    wtr.flush().unwrap();
    0
}

// ------------------------------------------------------------------------------------------------
// C19: random sessions (the harness runs them, see xp_session.rs)

pub fn random_sessions(seed: u64, n: usize) -> Vec<J> {
    let mut rng = StdRng::seed_from_u64(seed ^ 0x5e55);
    let mut out = vec![];
    let nofunc = func("nofunc", vec![]);
    let dos = json!({"axis": "descendant-or-self", "test": {"k": "type", "ty": "node"}, "preds": []});
    for _ in 0..n {
        let tree = gen_tree(&mut rng);
        let text = ser(&tree);
        let mut asts: Vec<J> = vec![];
        for _ in 0..3 {
            let depth = rng.gen_range(1..4);
            let mut g = ExprGen { rng: &mut rng, scalar: false };
            asts.push(g.any_expr(depth));
        }
        asts.push(func("position", vec![]));
        asts.push(func("last", vec![]));
        // failing queries: an unknown function / an ill-typed call at different predicate depths
        let any_step = |preds: Vec<J>| json!({"axis": "child", "test": {"k": "any"}, "preds": preds});
        asts.push(json!({"t": "path", "abs": true, "steps": [dos.clone(), any_step(vec![nofunc.clone()])]}));
        let inner = json!({"t": "path", "abs": false, "steps": [json!({"axis": "child", "test": {"k": "type", "ty": "node"}, "preds": [nofunc.clone()]})]});
        asts.push(json!({"t": "path", "abs": true, "steps": [dos.clone(), any_step(vec![inner])]}));
        asts.push(json!({"t": "filt", "e": {"t": "path", "abs": true, "steps": [dos.clone(), any_step(vec![])]},
                         "preds": [func("count", vec![num(1024)])], "steps": []}));
        asts.push(nofunc.clone());
        {
            // a random path whose last step gets a failing second predicate
            let mut g = ExprGen { rng: &mut rng, scalar: false };
            let mut steps = g.steps(1, 2);
            let last = steps.len() - 1;
            let mut preds = steps[last]["preds"].as_array().cloned().unwrap_or_default();
            preds.push(func("sum", vec![lit("x")]));
            steps[last]["preds"] = json!(preds);
            asts.push(json!({"t": "path", "abs": true, "steps": steps}));
        }
        let exprs: Vec<J> = asts.iter().map(|a| string_to_cps(&unparse(a, &CANON))).collect();
        let len = rng.gen_range(2..13);
        let qs: Vec<usize> = (0..len).map(|_| rng.gen_range(1..=asts.len())).collect();
        out.push(json!({"k": "session", "tree": tree, "text": string_to_cps(&text), "binds": [], "asts": asts,
                        "exprs": exprs, "qs": qs}));
    }
    out
}
