//! XPath engine (C05 C06 C07 C08 C09 C19): sub-commands `xp-*`.
//!
//!   xp-replay   --in REPLAY --trace OUT --stats OUT [--sample N]
//!               REPLAY = DOC / REPLAY lines printed by TLC (MC_XPath / MC_Scalar); every spelling of
//!               every case is evaluated with `xml_xpath::query` on the parsed document text.  Cases whose
//!               observations all equal the expectation are counted (fast path for "ok", every N-th is
//!               still written to the trace); all others are written to the trace for Trace_XPath.tla.
//!   xp-record   --seed S --n N --out TRACE        seeded random documents and expressions (xp_gen.rs)
//!   xp-session  ...                               C19 (xp_session.rs)
//!   xp-total    ...  / xp-worker                  C06 (xp_total.rs)
//!
//! The harness never judges: it reports what the implementation answered.

#[path = "xp_gen.rs"]
mod gen;
#[path = "xp_session.rs"]
mod session;
#[path = "xp_total.rs"]
mod total;

use crate::util::*;
use serde_json::{json, Value as J};
use std::collections::HashMap;
use std::io::Write;
use xml_dom::{AsExpandedName, AsNode, AsStringValue, Attr, Node, NodeType, XmlDocument, XmlNode};
use xml_xpath::eval::model::{Context, Value};

pub fn main(sub: &str, args: &[String]) -> i32 {
    // in-process drivers: a hang or an abort of the code under test becomes a "crash" event (util.rs watchdog)
    if let Some(path) = arg_value(args, "--watch") {
        if sub != "xp-total" && sub != "xp-worker" {
            watchdog_start(path, 120, arg_flag(args, "--sync"));
            heartbeat(|| json!({"k": "crash", "expr": string_to_cps("(harness start-up)"), "text": []}).to_string());
        }
    }
    match sub {
        "xp-replay" => replay(args),
        "xp-record" => gen::record(args),
        "xp-session" => session::main(args),
        "xp-total" => total::main(args),
        "xp-worker" => total::worker(args),
        "xp-eval" => eval_cli(args),
        _ => {
            eprintln!("unknown subcommand {}", sub);
            2
        }
    }
}

// ------------------------------------------------------------------------------------------------
// documents

pub struct Doc {
    pub dom: XmlDocument,
    /// XmlNode::id() -> 1-based document-order index of the specification's tree
    pub ids: HashMap<usize, i64>,
    /// why the parsed document is not the tree the specification serialized (None = it is)
    pub mismatch: Option<String>,
    pub text: String,
}

pub fn parse_merged(text: &str) -> Result<XmlDocument, String> {
    match guarded(|| {
        XmlDocument::from_raw_with_context(text, xml_dom::Context::from_text_expanded(true))
            .map(|(rest, d)| (rest.to_string(), d))
            .map_err(|e| e.to_string())
    }) {
        Ok(Ok((rest, d))) => {
            if rest.is_empty() {
                Ok(d)
            } else {
                Err(format!("rest: {}", rest))
            }
        }
        Ok(Err(e)) => Err(e),
        Err(p) => Err(format!("panic: {}", p)),
    }
}

fn cps(v: &J) -> String {
    cps_to_string(v)
}

fn kind_of(n: &XmlNode) -> &'static str {
    match n.node_type() {
        NodeType::Element => "elem",
        NodeType::Text | NodeType::CData | NodeType::EntityReference => "text",
        NodeType::Comment => "comment",
        NodeType::PI => "pi",
        NodeType::Document => "root",
        NodeType::DocumentType => "doctype",
        _ => "other",
    }
}

fn qname_of(n: &XmlNode) -> (String, String) {
    match guarded(|| n.as_expanded_name()) {
        Ok(Ok(Some((local, prefix, _)))) => {
            let p = match prefix {
                Some(p) if p != "xmlns" => p,
                _ => String::new(),
            };
            (p, local)
        }
        _ => (String::new(), String::new()),
    }
}

/// Walk the parsed document and the specification's tree in parallel (public API only) and record
/// XmlNode::id() -> tree index.  Any structural difference is reported, not judged.
fn bind(dom: &XmlDocument, tree: &J) -> (HashMap<usize, i64>, Option<String>) {
    let nodes = tree["nodes"].as_array().cloned().unwrap_or_default();
    let n = nodes.len();
    let mut kids: Vec<Vec<usize>> = vec![vec![]; n + 1];
    let mut attrs: Vec<Vec<usize>> = vec![vec![]; n + 1];
    for (i, nd) in nodes.iter().enumerate() {
        let idx = i + 1;
        let p = nd["p"].as_u64().unwrap_or(0) as usize;
        match nd["k"].as_str().unwrap_or("") {
            "attr" => attrs[p].push(idx),
            "ns" => {}
            "root" => {}
            _ => kids[p].push(idx),
        }
    }
    let mut ids = HashMap::new();
    let mut mismatch = None;
    fn walk(
        node: &XmlNode,
        idx: usize,
        nodes: &[J],
        kids: &[Vec<usize>],
        attrs: &[Vec<usize>],
        ids: &mut HashMap<usize, i64>,
        mismatch: &mut Option<String>,
    ) {
        let spec = &nodes[idx - 1];
        let k = spec["k"].as_str().unwrap_or("");
        let dk = kind_of(node);
        if k != dk {
            mismatch.get_or_insert(format!("node {}: kind {} vs {}", idx, k, dk));
            return;
        }
        ids.insert(node.id(), idx as i64);
        match k {
            "elem" => {
                let (p, l) = qname_of(node);
                if p != cps(&spec["pre"]) || l != cps(&spec["loc"]) {
                    mismatch.get_or_insert(format!("node {}: name {}:{}", idx, p, l));
                }
                let dattrs: Vec<XmlNode> = node
                    .attributes()
                    .map(|m| m.iter().map(|a| a.as_node()).collect())
                    .unwrap_or_default();
                if dattrs.len() != attrs[idx].len() {
                    mismatch.get_or_insert(format!("node {}: {} attributes", idx, dattrs.len()));
                }
                for &j in &attrs[idx] {
                    let want = (cps(&nodes[j - 1]["pre"]), cps(&nodes[j - 1]["loc"]));
                    match dattrs.iter().find(|a| qname_of(a) == want) {
                        Some(a) => {
                            ids.insert(a.id(), j as i64);
                            let v = a.as_string_value().unwrap_or_default();
                            if v != cps(&nodes[j - 1]["v"]) {
                                mismatch.get_or_insert(format!("attr {}: value {:?}", j, v));
                            }
                        }
                        None => {
                            mismatch.get_or_insert(format!("attr {} missing", j));
                        }
                    }
                }
            }
            "text" | "comment" | "pi" => {
                let v = node.as_string_value().unwrap_or_default();
                if v != cps(&spec["v"]) {
                    mismatch.get_or_insert(format!("node {}: data {:?}", idx, v));
                }
                if k == "pi" && node.node_name() != cps(&spec["loc"]) {
                    mismatch.get_or_insert(format!("node {}: target", idx));
                }
            }
            _ => {}
        }
        if k == "root" || k == "elem" {
            let dkids: Vec<XmlNode> = node
                .child_nodes()
                .iter()
                .filter(|c| c.node_type() != NodeType::DocumentType)
                .collect();
            if dkids.len() != kids[idx].len() {
                mismatch.get_or_insert(format!("node {}: {} children", idx, dkids.len()));
            }
            for (c, &j) in dkids.iter().zip(kids[idx].iter()) {
                walk(c, j, nodes, kids, attrs, ids, mismatch);
            }
        }
    }
    if n == 0 {
        return (ids, Some("empty tree".into()));
    }
    let r = guarded(|| {
        let mut ids2 = HashMap::new();
        let mut mm = None;
        walk(&dom.as_node(), 1, &nodes, &kids, &attrs, &mut ids2, &mut mm);
        (ids2, mm)
    });
    match r {
        Ok((i, m)) => {
            ids = i;
            mismatch = m;
        }
        Err(p) => mismatch = Some(format!("panic while walking: {}", p)),
    }
    (ids, mismatch)
}

/// the raw view (no merged text nodes): used where it coincides with the merged view
pub fn load_doc_raw(text: &str, tree: &J) -> Result<Doc, String> {
    let dom = match guarded(|| XmlDocument::from_raw(text).map(|(rest, d)| (rest.to_string(), d)).map_err(|e| e.to_string())) {
        Ok(Ok((rest, d))) if rest.is_empty() => d,
        Ok(Ok((rest, _))) => return Err(format!("rest: {}", rest)),
        Ok(Err(e)) => return Err(e),
        Err(p) => return Err(format!("panic: {}", p)),
    };
    let (ids, mismatch) = bind(&dom, tree);
    Ok(Doc { dom, ids, mismatch, text: text.to_string() })
}

pub fn load_doc(text: &str, tree: &J) -> Result<Doc, String> {
    let dom = parse_merged(text)?;
    let (ids, mismatch) = bind(&dom, tree);
    Ok(Doc {
        dom,
        ids,
        mismatch,
        text: text.to_string(),
    })
}

// ------------------------------------------------------------------------------------------------
// values

pub fn num_json(x: f64) -> J {
    if x.is_nan() {
        json!({"cls": "nan", "v": 0})
    } else if x == f64::INFINITY {
        json!({"cls": "pinf", "v": 0})
    } else if x == f64::NEG_INFINITY {
        json!({"cls": "ninf", "v": 0})
    } else if x == 0.0 {
        if x.is_sign_negative() {
            json!({"cls": "nzero", "v": 0})
        } else {
            json!({"cls": "fin", "v": 0})
        }
    } else {
        let y = x * 1024.0;
        if y.fract() == 0.0 && y.abs() < 1073741824.0 {
            json!({"cls": "fin", "v": y as i64})
        } else {
            json!({"cls": "other", "v": 0, "dec": format!("{}", x)})
        }
    }
}

pub fn value_json(doc: &Doc, v: &Value) -> J {
    match v {
        Value::Boolean(b) => json!({"t": "bool", "v": b}),
        Value::Number(x) => json!({"t": "num", "n": num_json(*x)}),
        Value::Text(s) => json!({"t": "str", "v": string_to_cps(s)}),
        Value::Node(ns) => {
            let idx: Vec<i64> = ns
                .iter()
                .map(|n| match n {
                    XmlNode::Namespace(_) => -1,
                    _ => *doc.ids.get(&n.id()).unwrap_or(&0),
                })
                .collect();
            json!({"t": "nodes", "v": idx})
        }
    }
}

/// Evaluate one expression with a fresh context; a panic is data.
pub fn eval_fresh(doc: &Doc, expr: &str, binds: &J) -> J {
    heartbeat(|| json!({"k": "crash", "expr": string_to_cps(expr), "text": string_to_cps(&doc.text)}).to_string());
    // self-test of the watchdog path (development aid): VERIF_XP_TESTHANG=<expr> simulates a hang on that expression
    if std::env::var("VERIF_XP_TESTHANG").ok().as_deref() == Some(expr) {
        loop {
            std::thread::sleep(std::time::Duration::from_secs(1));
        }
    }
    let r = guarded(|| {
        let mut ctx = Context::default();
        if let Some(a) = binds.as_array() {
            for b in a {
                let p = cps(&b[0]);
                let u = cps(&b[1]);
                ctx.add_ns(Some(p.as_str()), u.as_str());
            }
        }
        match xml_xpath::query(doc.dom.clone(), expr, &mut ctx) {
            Ok(v) => value_json(doc, &v),
            Err(e) => json!({"t": "err", "msg": e.to_string()}),
        }
    });
    match r {
        Ok(j) => j,
        Err(p) => json!({"t": "panic", "msg": p}),
    }
}

fn same_value(obs: &J, exp: &J) -> bool {
    let t = obs["t"].as_str().unwrap_or("");
    if t != exp["t"].as_str().unwrap_or("-") {
        return false;
    }
    match t {
        "err" => true,
        "num" => obs["n"]["cls"] == exp["n"]["cls"] && obs["n"]["v"] == exp["n"]["v"] && exp["n"]["cls"] != "unk",
        _ => obs["v"] == exp["v"],
    }
}

// ------------------------------------------------------------------------------------------------
// xp-replay

fn replay(args: &[String]) -> i32 {
    let inp = arg_value(args, "--in").unwrap_or("-");
    let trace = arg_value(args, "--trace").unwrap_or("-");
    let stats_path = arg_value(args, "--stats");
    let sample: u64 = arg_value(args, "--sample").and_then(|s| s.parse().ok()).unwrap_or(50);
    let mut w = open_out(trace);
    let mut docs: HashMap<i64, (Doc, J, Option<Doc>)> = HashMap::new();
    let mut cases = 0u64;
    let mut evals = 0u64;
    let mut fast_ok = 0u64;
    let mut traced = 0u64;
    let mut nontrivial = 0u64;
    let mut samples: Vec<J> = vec![];
    let mut fams: HashMap<String, u64> = HashMap::new();
    let mut bad_docs = 0u64;
    for_each_case(inp, |case| {
        match case["k"].as_str().unwrap_or("") {
            "doc" => {
                let text = cps(&case["text"]);
                match load_doc(&text, &case["tree"]) {
                    Ok(d) => {
                        // raw and merged views coincide when no text node is written with CDATA/references
                        let plain = case["tree"]["nodes"].as_array().map(|a| a.iter().all(|n| n["raw"].as_array().map(|r| r.is_empty()).unwrap_or(true))).unwrap_or(false);
                        let raw = if plain { load_doc_raw(&text, &case["tree"]).ok() } else { None };
                        docs.insert(case["doc"].as_i64().unwrap_or(0), (d, case["tree"].clone(), raw));
                    }
                    Err(e) => {
                        bad_docs += 1;
                        let ev = json!({"k": "doc", "doc": case["doc"], "text": case["text"], "error": e});
                        writeln!(w, "{}", ev).unwrap();
                        traced += 1;
                    }
                }
            }
            "tab" => {
                // an entry of the specification's example table (expression text, expected string)
                if let Some((doc, _, _)) = docs.get(&case["doc"].as_i64().unwrap_or(0)) {
                    cases += 1;
                    evals += 1;
                    nontrivial += 1;
                    let obs = eval_fresh(doc, &cps(&case["expr"]), &json!([]));
                    if obs["t"] == "str" && obs["v"] == case["exp"] {
                        fast_ok += 1;
                    }
                    let ev = json!({"k": "tab", "expr": case["expr"], "obs": obs});
                    writeln!(w, "{}", ev).unwrap();
                    traced += 1;
                    *fams.entry("tab".to_string()).or_insert(0) += 1;
                }
            }
            "xp" => {
                cases += 1;
                let d = case["doc"].as_i64().unwrap_or(0);
                let (doc, tree, rawdoc) = match docs.get(&d) {
                    Some(x) => (&x.0, &x.1, &x.2),
                    None => return,
                };
                let binds = case.get("binds").cloned().unwrap_or(json!([]));
                let exp = &case["exp"];
                let mut obs = vec![];
                let mut all_ok = doc.mismatch.is_none();
                for sp in case["sp"].as_array().unwrap_or(&vec![]) {
                    let o = eval_fresh(doc, &cps(sp), &binds);
                    evals += 1;
                    if !same_value(&o, exp) {
                        all_ok = false;
                    }
                    obs.push(o);
                }
                // the canonical spelling on the raw view, where the two views coincide
                let obs_raw = rawdoc.as_ref().map(|rd| {
                    evals += 1;
                    let o = eval_fresh(rd, &cps(&case["sp"][0]), &binds);
                    if !same_value(&o, exp) || rd.mismatch.is_some() {
                        all_ok = false;
                    }
                    o
                });
                *fams.entry(case["fam"].as_str().unwrap_or("").to_string()).or_insert(0) += 1;
                let nt = match exp["t"].as_str() {
                    Some("nodes") => exp["v"].as_array().map(|a| !a.is_empty()).unwrap_or(false),
                    _ => true,
                };
                if nt {
                    nontrivial += 1;
                }
                if samples.len() < 5 && nt && cases % 997 == 1 {
                    samples.push(json!({"doc": doc.text, "expr": cps(&case["sp"][1]), "expected": exp, "observed": obs[1]}));
                }
                if all_ok {
                    fast_ok += 1;
                }
                if !all_ok || (sample > 0 && cases % sample == 0) {
                    let mut ev = json!({"k": "xp", "fam": case["fam"], "tree": tree, "text": string_to_cps(&doc.text),
                                        "binds": binds, "ast": case["ast"], "sp": case["sp"], "obs": obs,
                                        "mismatch": doc.mismatch.clone().unwrap_or_default()});
                    if !all_ok {
                        ev["fast"] = json!(false);
                    }
                    if let Some(st) = case.get("styles") {
                        ev["styles"] = st.clone();
                    }
                    if let Some(o) = &obs_raw {
                        ev["obs_raw"] = o.clone();
                        ev["raw_mismatch"] = json!(rawdoc.as_ref().and_then(|r| r.mismatch.clone()).unwrap_or_default());
                    }
                    writeln!(w, "{}", ev).unwrap();
                    traced += 1;
                }
            }
            _ => {}
        }
    });
    w.flush().unwrap();
    let stats = json!({"cases": cases, "evaluations": evals, "fast_ok": fast_ok, "traced": traced,
                       "nontrivial": nontrivial, "samples": samples, "families": fams, "bad_docs": bad_docs});
    if let Some(p) = stats_path {
        let mut f = open_out(p);
        writeln!(f, "{}", stats).unwrap();
    } else {
        eprintln!("{}", stats);
    }
    0
}

// ------------------------------------------------------------------------------------------------
// xp-eval: debugging aid  (xp-eval '<doc>' 'expr')

fn eval_cli(args: &[String]) -> i32 {
    if args.len() < 2 {
        eprintln!("usage: xp-eval <xml> <expr>");
        return 2;
    }
    match parse_merged(&args[0]) {
        Ok(dom) => {
            let r = guarded(|| {
                let mut ctx = Context::default();
                match xml_xpath::query(dom.clone(), &args[1], &mut ctx) {
                    Ok(Value::Node(ns)) => format!(
                        "nodes[{}]: {}",
                        ns.len(),
                        ns.iter().map(|n| format!("<{}|{}>", n.order(), n)).collect::<Vec<_>>().join(" ")
                    ),
                    Ok(v) => format!("{:?}", v),
                    Err(e) => format!("error: {}", e),
                }
            });
            println!("{}", r.unwrap_or_else(|p| format!("panic: {}", p)));
            0
        }
        Err(e) => {
            println!("document error: {}", e);
            1
        }
    }
}
