//! C19: parse sessions.  Every session of MC_ParseSession.tla (a series of texts parsed one after the other in ONE
//! thread) is replayed; the outcome of every call (accepted completely? serialization) is logged next to the
//! outcome the same text gets when it is the only thing a fresh thread ever parses.  Trace_ParseSession.tla judges.

use crate::util::*;
use serde_json::{json, Value as J};
use std::io::Write;

pub fn main(sub: &str, args: &[String]) -> i32 {
    match sub {
        "ps-run" => run(args),
        _ => {
            eprintln!("unknown subcommand {}", sub);
            2
        }
    }
}

fn nested(depth: usize) -> String {
    let mut s = String::new();
    for _ in 0..depth {
        s.push_str("<a>");
    }
    s.push('t');
    for _ in 0..depth {
        s.push_str("</a>");
    }
    s
}

/// The text pool (index 1..6 as in the specification's CONSTANT Texts)
fn pool() -> Vec<String> {
    vec![
        "<a x=\"1\"><b/>t<!--c--></a>".to_string(),
        // at and beyond the nesting the parser accepts (whatever its limit is, both sides of 128 are here)
        nested(128),
        nested(140),
        "<a><b></a>".to_string(),
        // the same general entity declared twice (the first declaration binds) and used in a default value
        "<!DOCTYPE r [<!ENTITY e 'v'><!ENTITY e '<b/>'><!ATTLIST r a CDATA 'x&e;y'>]><r/>".to_string(),
        "<!DOCTYPE r [<!ENTITY e 'v'><!ENTITY f '&e;w'><!ATTLIST r a CDATA 'd' b NMTOKENS ' p  q '>]><r c='&f;'>&f;</r>".to_string(),
    ]
}

fn parse_once(text: &str) -> J {
    let t = text.to_string();
    match guarded(move || match xml_dom::XmlDocument::from_raw(&t) {
        Ok((rest, d)) if rest.is_empty() => {
            // force the lazily computed parts as well: serialization and attribute values
            let s = d.to_string();
            Some(s)
        }
        _ => None,
    }) {
        Ok(Some(s)) => json!({"ok": true, "ser": string_to_cps(&s)}),
        Ok(None) => json!({"ok": false, "ser": []}),
        Err(p) => json!({"ok": false, "ser": string_to_cps(&format!("panic: {}", p.chars().take(60).collect::<String>()))}),
    }
}

fn in_fresh_thread<T: Send + 'static, F: FnOnce() -> T + Send + 'static>(f: F) -> T {
    std::thread::Builder::new().stack_size(64 << 20).spawn(f).unwrap().join().unwrap()
}

fn run(args: &[String]) -> i32 {
    let inp = arg_value(args, "--in").unwrap_or("-");
    let outp = arg_value(args, "--out").unwrap_or("-");
    let repeat: usize = arg_value(args, "--repeat").and_then(|v| v.parse().ok()).unwrap_or(1);
    let texts = pool();
    let mut out = open_out(outp);
    let fresh: Vec<J> = texts
        .iter()
        .map(|t| {
            let t = t.clone();
            in_fresh_thread(move || parse_once(&t))
        })
        .collect();
    writeln!(out, "{}", json!({"event": "fresh", "outcomes": fresh})).unwrap();
    let mut sessions = 0usize;
    let mut parses = 0usize;
    let mut cases: Vec<Vec<usize>> = vec![];
    for_each_case(inp, |c| {
        let s: Vec<usize> = c["session"].as_array().map(|a| a.iter().filter_map(|x| x.as_u64().map(|v| v as usize)).collect()).unwrap_or_default();
        cases.push(s);
    });
    cases.sort();
    for _ in 0..repeat {
        for s in &cases {
            let texts2 = texts.clone();
            let s2 = s.clone();
            // one session = one thread: thread-local state of the library survives between its calls
            let outcomes: Vec<J> = in_fresh_thread(move || s2.iter().map(|i| parse_once(&texts2[*i - 1])).collect());
            parses += outcomes.len();
            sessions += 1;
            writeln!(out, "{}", json!({"event": "session", "texts": s, "outcomes": outcomes})).unwrap();
        }
    }
    out.flush().unwrap();
    println!("{}", json!({"sessions": sessions, "parses": parses}));
    0
}
