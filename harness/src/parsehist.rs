//! C19: parse sessions.  Every session of MC_ParseSession.tla (a series of texts parsed one after the other in ONE
//! thread) is replayed; the outcome of every call (accepted completely? serialization) is logged next to the
//! outcome the same text gets when it is the only thing a fresh thread ever parses.  Trace_ParseSession.tla judges.

use crate::util::*;
use serde_json::{json, Value as J};
use std::io::Write;

pub fn main(sub: &str, args: &[String]) -> i32 {
    match sub {
        "ps-run" => run(args),
        "qs-run" => qs_run(args),
        _ => {
            eprintln!("unknown subcommand {}", sub);
            2
        }
    }
}

fn nested(depth: usize) -> String {
    let mut s = String::new();
    for _ in 0..depth {
        s.push_str("<a>");
    }
    s.push('t');
    for _ in 0..depth {
        s.push_str("</a>");
    }
    s
}

/// The text pool (index 1..6 as in the specification's CONSTANT Texts)
fn pool() -> Vec<String> {
    vec![
        "<a x=\"1\"><b/>t<!--c--></a>".to_string(),
        // at and beyond the nesting the parser accepts (whatever its limit is, both sides of 128 are here)
        nested(128),
        nested(140),
        "<a><b></a>".to_string(),
        // the same general entity declared twice (the first declaration binds) and used in a default value
        "<!DOCTYPE r [<!ENTITY e 'v'><!ENTITY e '<b/>'><!ATTLIST r a CDATA 'x&e;y'>]><r/>".to_string(),
        "<!DOCTYPE r [<!ENTITY e 'v'><!ENTITY f '&e;w'><!ATTLIST r a CDATA 'd' b NMTOKENS ' p  q '>]><r c='&f;'>&f;</r>".to_string(),
    ]
}

fn parse_once(text: &str) -> J {
    let t = text.to_string();
    match guarded(move || match xml_dom::XmlDocument::from_raw(&t) {
        Ok((rest, d)) if rest.is_empty() => {
            // force the lazily computed parts as well: serialization and attribute values
            let s = d.to_string();
            // "parsing the same text twice yields equal documents": a second parse, compared with the library's ==
            let eq = match xml_dom::XmlDocument::from_raw(&t) {
                Ok((r2, d2)) => r2.is_empty() && d2 == d && d2.to_string() == s,
                Err(_) => false,
            };
            Some((s, eq))
        }
        _ => None,
    }) {
        Ok(Some((s, eq))) => json!({"ok": true, "ser": string_to_cps(&s), "eq": eq}),
        Ok(None) => json!({"ok": false, "ser": [], "eq": true}),
        Err(p) => json!({"ok": false, "ser": string_to_cps(&format!("panic: {}", p.chars().take(60).collect::<String>())), "eq": true}),
    }
}

fn in_fresh_thread<T: Send + 'static, F: FnOnce() -> T + Send + 'static>(f: F) -> T {
    std::thread::Builder::new().stack_size(64 << 20).spawn(f).unwrap().join().unwrap()
}

fn run(args: &[String]) -> i32 {
    let inp = arg_value(args, "--in").unwrap_or("-");
    let outp = arg_value(args, "--out").unwrap_or("-");
    let repeat: usize = arg_value(args, "--repeat").and_then(|v| v.parse().ok()).unwrap_or(1);
    let texts = pool();
    let mut out = open_out(outp);
    let fresh: Vec<J> = texts
        .iter()
        .map(|t| {
            let t = t.clone();
            in_fresh_thread(move || parse_once(&t))
        })
        .collect();
    writeln!(out, "{}", json!({"event": "fresh", "outcomes": fresh})).unwrap();
    let mut sessions = 0usize;
    let mut parses = 0usize;
    let mut cases: Vec<Vec<usize>> = vec![];
    for_each_case(inp, |c| {
        let s: Vec<usize> = c["session"].as_array().map(|a| a.iter().filter_map(|x| x.as_u64().map(|v| v as usize)).collect()).unwrap_or_default();
        cases.push(s);
    });
    cases.sort();
    for _ in 0..repeat {
        for s in &cases {
            let texts2 = texts.clone();
            let s2 = s.clone();
            // one session = one thread: thread-local state of the library survives between its calls
            let outcomes: Vec<J> = in_fresh_thread(move || s2.iter().map(|i| parse_once(&texts2[*i - 1])).collect());
            parses += outcomes.len();
            sessions += 1;
            writeln!(out, "{}", json!({"event": "session", "texts": s, "outcomes": outcomes})).unwrap();
        }
    }
    out.flush().unwrap();
    println!("{}", json!({"sessions": sessions, "parses": parses}));
    0
}

// ---------------------------------------------------------------------------------------------------------
// query sessions (QuerySession.tla): one parsed document, one evaluation context, a series of queries

use xml_dom::{AsNode, Node};

/// id -> structural path of every node reachable through child_nodes() / attributes()
fn paths_of(doc: &xml_dom::XmlNode) -> std::collections::HashMap<usize, String> {
    fn walk(nd: &xml_dom::XmlNode, path: String, m: &mut std::collections::HashMap<usize, String>, elem: bool) {
        // attributes supplied by the DTD share one id in this crate: they are told apart by name below
        if elem {
            m.insert(nd.id(), path.clone());
        }
        if let Some(attrs) = nd.attributes() {
            for a in attrs.iter() {
                let an = a.as_node();
                if an.id() != 0 {
                    m.insert(an.id(), format!("{}/@{}", path, an.node_name()));
                }
            }
        }
        for (i, c) in nd.child_nodes().iter().enumerate() {
            walk(&c, format!("{}/{}", path, i + 1), m, true);
        }
    }
    let mut m = std::collections::HashMap::new();
    walk(doc, String::new(), &mut m, true);
    m
}

/// an opaque, comparable rendering of the answer to a query
fn answer(doc: &xml_dom::XmlDocument, expr: &str, ctx: &mut xml_xpath::eval::model::Context) -> J {
    use xml_xpath::eval::model::Value;
    let d = doc.clone();
    let r = std::panic::catch_unwind(std::panic::AssertUnwindSafe(|| xml_xpath::query(d, expr, ctx).map_err(|e| e.to_string())));
    match r {
        Err(_) => json!({"t": "panic"}),
        Ok(Err(_)) => json!({"t": "err"}),
        Ok(Ok(v)) => match v {
            Value::Node(ns) => {
                let idx = paths_of(&doc.as_node());
                let mut out = vec![];
                for x in ns.iter() {
                    let own = match x {
                        xml_dom::XmlNode::Attribute(_) | xml_dom::XmlNode::Namespace(_) => format!("{}", x),
                        _ => String::new(),
                    };
                    match idx.get(&x.id()) {
                        Some(p) if x.id() != 0 => out.push(J::from(p.clone())),
                        // namespace nodes and DTD-supplied attributes: what they print as, under their parent's path
                        _ => {
                            let pp = x.parent_node().and_then(|p| idx.get(&p.id()).cloned()).unwrap_or_else(|| "?".into());
                            out.push(J::from(format!("{}/~{}", pp, own)));
                        }
                    }
                }
                json!({"t": "nodes", "v": out})
            }
            Value::Boolean(b) => json!({"t": "bool", "v": b}),
            Value::Number(x) => json!({"t": "num", "v": format!("{}", x)}),
            Value::Text(s) => json!({"t": "str", "v": string_to_cps(&s)}),
        },
    }
}

fn parse_doc(text: &str) -> Option<xml_dom::XmlDocument> {
    let t = text.to_string();
    guarded(move || match xml_dom::XmlDocument::from_raw_with_context(&t, xml_dom::Context::from_text_expanded(true)) {
        Ok((rest, d)) if rest.is_empty() => Some(d),
        _ => None,
    })
    .unwrap_or(None)
}

fn ser_of(doc: &xml_dom::XmlDocument) -> J {
    let d = doc.clone();
    match guarded(move || d.to_string()) {
        Ok(s) => string_to_cps(&s),
        Err(_) => json!([0]),
    }
}

/// Serializations are interned: the trace carries every distinct text once ({"event":"ser","k":n,"text":..}) and
/// refers to it by number afterwards (an encoding, not a judgement: equal numbers <=> equal texts).
struct Interner {
    map: std::collections::HashMap<String, usize>,
}

impl Interner {
    fn id(&mut self, ser: &J, out: &mut dyn Write) -> usize {
        let key = ser.to_string();
        if let Some(k) = self.map.get(&key) {
            return *k;
        }
        let k = self.map.len() + 1;
        self.map.insert(key, k);
        writeln!(out, "{}", json!({"event": "ser", "k": k, "text": ser})).unwrap();
        k
    }
}

fn qs_run(args: &[String]) -> i32 {
    let inp = arg_value(args, "--in").unwrap_or("-");
    let outp = arg_value(args, "--out").unwrap_or("-");
    let mut out = open_out(outp);
    let mut interner = Interner { map: Default::default() };
    let mut docs: std::collections::BTreeMap<i64, (String, Vec<String>, Vec<(String, String)>)> = Default::default();
    let mut sessions: Vec<(i64, Vec<usize>)> = vec![];
    for_each_case(inp, |c| match c["k"].as_str().unwrap_or("") {
        "qdoc" => {
            let qs = c["queries"].as_array().map(|a| a.iter().map(cps_to_string).collect()).unwrap_or_default();
            let binds: Vec<(String, String)> = c["binds"].as_array().map(|a| a.iter().map(|b| (cps_to_string(&b[0]), cps_to_string(&b[1]))).collect()).unwrap_or_default();
            docs.insert(c["d"].as_i64().unwrap_or(0), (cps_to_string(&c["text"]), qs, binds));
        }
        "qsession" => {
            let qs = c["qs"].as_array().map(|a| a.iter().filter_map(|x| x.as_u64().map(|v| v as usize)).collect()).unwrap_or_default();
            sessions.push((c["d"].as_i64().unwrap_or(0), qs));
        }
        _ => {}
    });
    sessions.sort();
    // fresh answers: every query on a parse of its own, with a context of its own, in a thread of its own
    // a context as the caller sets it up for a document: its prefix bindings
    fn new_ctx(binds: &[(String, String)]) -> xml_xpath::eval::model::Context {
        let mut c = xml_xpath::eval::model::Context::default();
        for (p, u) in binds {
            // an empty prefix stands for the default namespace of name tests
            c.add_ns(if p.is_empty() { None } else { Some(p.as_str()) }, u.as_str());
        }
        c
    }
    for (d, (text, qs, binds)) in &docs {
        let mut answers = vec![];
        for q in qs {
            let (t, q, b) = (text.clone(), q.clone(), binds.clone());
            answers.push(in_fresh_thread(move || match parse_doc(&t) {
                Some(doc) => answer(&doc, &q, &mut new_ctx(&b)),
                None => json!({"t": "unparsed"}),
            }));
        }
        let t = text.clone();
        let ser = in_fresh_thread(move || parse_doc(&t).map(|d| ser_of(&d)).unwrap_or(json!([0])));
        let k = interner.id(&ser, &mut *out);
        writeln!(out, "{}", json!({"event": "fresh", "d": d, "answers": answers, "ser": k})).unwrap();
    }
    let mut n = 0usize;
    let mut calls = 0usize;
    for (d, qs) in &sessions {
        let (text, exprs, binds) = match docs.get(d) {
            Some(x) => x.clone(),
            None => continue,
        };
        for variant in ["shared", "percall"] {
            let (text, exprs, qs2, binds) = (text.clone(), exprs.clone(), qs.clone(), binds.clone());
            let (answers, sers): (Vec<J>, Vec<J>) = in_fresh_thread(move || {
                let doc = match parse_doc(&text) {
                    Some(d) => d,
                    None => return (qs2.iter().map(|_| json!({"t": "unparsed"})).collect(), qs2.iter().map(|_| json!([0])).collect()),
                };
                let mut shared = new_ctx(&binds);
                let mut a = vec![];
                let mut s = vec![];
                for q in &qs2 {
                    let e = &exprs[*q - 1];
                    if variant == "shared" {
                        a.push(answer(&doc, e, &mut shared));
                    } else {
                        a.push(answer(&doc, e, &mut new_ctx(&binds)));
                    }
                    s.push(ser_of(&doc));
                }
                (a, s)
            });
            calls += answers.len();
            n += 1;
            let ks: Vec<usize> = sers.iter().map(|x| interner.id(x, &mut *out)).collect();
            writeln!(out, "{}", json!({"event": "session", "d": d, "variant": variant, "qs": qs, "answers": answers, "sers": ks})).unwrap();
        }
    }
    out.flush().unwrap();
    println!("{}", json!({"sessions": n, "queries": calls, "docs": docs.len()}));
    0
}
