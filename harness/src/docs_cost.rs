//! C03 - parsing and printing are total.
//!
//! Sub-commands (none of them judges anything; `spec/Trace_Cost.tla` does):
//!   doc-cost-worker  --file <utf8 file> | --batch <framed file> [--skip k]
//!        runs the pipeline from_raw -> Display -> pretty -> DOM walk (twice: raw and text-expanded
//!        context) IN THIS PROCESS on a thread with an 8 MiB stack, one result line per input.
//!        A Rust panic is reported (`{"outcome":"panic"}`) and ends the process with exit code 101;
//!        a stack overflow / abort kills the process with a signal, which the parent sees.
//!   doc-cost-run     --in <ndjson|REPLAY file with "text":[cps]> --out <ndjson events>
//!                    [--limit-ms 5000] [--jobs 8] [--chunk 256] [--family-default garbage]
//!        runs every input in child processes (`current_exe() doc-cost-worker --batch ...`) with a
//!        wall-clock limit per input and records ok / err / panic / abort(signal) / timeout.
//!   doc-cost-garbage --seed N --count K --out <ndjson {"family":"garbage","n":i,"text":[cps],"gen":..}>
//!        seeded hostile-input generators (markup alphabet, char-level splices of seed documents,
//!        token-level mutations of seed documents, structured documents with random entity graphs).
use crate::util::*;
use rand::rngs::StdRng;
use rand::{Rng, SeedableRng};
use serde_json::{json, Value as J};
use std::io::{BufRead, BufReader, Read, Write};
use std::process::{Child, Command, Stdio};
use std::sync::mpsc;
use std::sync::{Arc, Mutex};
use std::time::{Duration, Instant};
use xml_dom::{
    AsNode, Attr, CharacterData, Document, DocumentType, Entity, Node, Notation, PrettyPrint, XmlNode,
};

// the default stack of a thread made by std::thread::spawn (what a caller of the library gets unless it asks for more)
pub const STACK_BYTES: usize = 2 * 1024 * 1024;
const TEXT_INLINE_MAX: usize = 4000;

pub fn main(sub: &str, args: &[String]) -> i32 {
    match sub {
        "doc-cost-worker" => worker(args),
        "doc-cost-run" => run(args),
        "doc-cost-garbage" => garbage(args),
        _ => {
            eprintln!("unknown subcommand {}", sub);
            2
        }
    }
}

// ------------------------------------------------------------------------------------------------
// the pipeline under observation

/// Walk the whole DOM through the public API with an explicit stack (so that the walk itself cannot
/// exhaust the call stack), forcing the lazily computed values.
fn walk(doc: &xml_dom::XmlDocument) -> usize {
    let mut seen = 0usize;
    let mut stack: Vec<XmlNode> = vec![doc.as_node()];
    if let Some(dt) = doc.doc_type() {
        let _ = dt.name();
        // declared entities and notations are visited like every other node (name, value, children)
        for e in dt.entities().iter() {
            let _ = e.public_id();
            let _ = e.system_id();
            let _ = e.notation_name();
            stack.push(e.as_node());
        }
        for n in dt.notations().iter() {
            let _ = n.public_id();
            let _ = n.system_id();
            stack.push(n.as_node());
        }
    }
    while let Some(n) = stack.pop() {
        seen += 1;
        let _ = n.node_name();
        let _ = n.node_value();
        let _ = n.node_type();
        match &n {
            XmlNode::Text(t) => {
                let _ = t.data();
            }
            XmlNode::CData(t) => {
                let _ = t.data();
            }
            XmlNode::Comment(t) => {
                let _ = t.data();
            }
            XmlNode::ExpandedText(t) => {
                let _ = t.data();
            }
            XmlNode::EntityReference(r) => {
                let _ = r.value();
            }
            XmlNode::Attribute(a) => {
                let _ = a.value();
                let _ = a.specified();
            }
            _ => {}
        }
        if let Some(m) = n.attributes() {
            for a in m.iter() {
                let _ = a.name();
                let _ = a.value();
                stack.push(a.as_node());
            }
        }
        for c in n.child_nodes().iter() {
            stack.push(c);
        }
    }
    seen
}

fn pipeline_one(text: &str, expanded: bool) -> bool {
    let parsed = if expanded {
        xml_dom::XmlDocument::from_raw_with_context(
            text,
            xml_dom::Context::from_text_expanded(true),
        )
    } else {
        xml_dom::XmlDocument::from_raw(text)
    };
    match parsed {
        Ok((_rest, doc)) => {
            let s = doc.to_string();
            std::hint::black_box(s.len());
            let mut buf: Vec<u8> = Vec::new();
            let _ = doc.pretty(&mut buf);
            std::hint::black_box(buf.len());
            std::hint::black_box(walk(&doc));
            true
        }
        Err(_) => false,
    }
}

/// true = a document was returned, false = an error was returned
fn pipeline(text: &str) -> bool {
    let a = pipeline_one(text, false);
    let _b = pipeline_one(text, true);
    a
}

fn panic_message(e: Box<dyn std::any::Any + Send>) -> String {
    if let Some(s) = e.downcast_ref::<&str>() {
        s.to_string()
    } else if let Some(s) = e.downcast_ref::<String>() {
        s.clone()
    } else {
        "panic".to_string()
    }
}

// ------------------------------------------------------------------------------------------------
// worker

/// Batch file framing: for each input a header line `<byte length>\n`, the UTF-8 bytes, `\n`.
fn read_batch(path: &str) -> Vec<String> {
    let mut all = Vec::new();
    let mut f = BufReader::new(std::fs::File::open(path).unwrap_or_else(|e| {
        eprintln!("cannot open {}: {}", path, e);
        std::process::exit(2)
    }));
    loop {
        let mut hdr = String::new();
        match f.read_line(&mut hdr) {
            Ok(0) => break,
            Ok(_) => {}
            Err(_) => break,
        }
        let len: usize = match hdr.trim().parse() {
            Ok(l) => l,
            Err(_) => break,
        };
        let mut buf = vec![0u8; len + 1];
        if f.read_exact(&mut buf).is_err() {
            break;
        }
        buf.pop();
        all.push(String::from_utf8(buf).unwrap_or_default());
    }
    all
}

fn write_batch(path: &str, texts: &[&str]) {
    let mut w = open_out(path);
    for t in texts {
        writeln!(w, "{}", t.len()).unwrap();
        w.write_all(t.as_bytes()).unwrap();
        w.write_all(b"\n").unwrap();
    }
    w.flush().unwrap();
}

fn worker(args: &[String]) -> i32 {
    let inputs: Vec<String> = if let Some(p) = arg_value(args, "--file") {
        let mut s = String::new();
        if p == "-" {
            std::io::stdin().read_to_string(&mut s).unwrap();
        } else {
            s = std::fs::read_to_string(p).unwrap_or_else(|e| {
                eprintln!("cannot read {}: {}", p, e);
                std::process::exit(2)
            });
        }
        vec![s]
    } else if let Some(p) = arg_value(args, "--batch") {
        read_batch(p)
    } else {
        eprintln!("doc-cost-worker --file <path> | --batch <path> [--skip k]");
        return 2;
    };
    let skip: usize = arg_value(args, "--skip")
        .and_then(|s| s.parse().ok())
        .unwrap_or(0);
    // One thread with an 8 MiB stack runs all inputs of the batch in order.  A panic unwinds that
    // thread; it is reported for the input it was working on and the process exits with 101.
    let cur = Arc::new(std::sync::atomic::AtomicUsize::new(skip));
    let cur2 = cur.clone();
    println!("{}", json!({"ready": true}));
    let _ = std::io::stdout().flush();
    let t_all = Instant::now();
    let h = std::thread::Builder::new()
        .stack_size(STACK_BYTES)
        .spawn(move || {
            let out = std::io::stdout();
            for (i, text) in inputs.into_iter().enumerate().skip(skip) {
                cur2.store(i, std::sync::atomic::Ordering::SeqCst);
                let t0 = Instant::now();
                let acc = pipeline(&text);
                let us = t0.elapsed().as_micros() as u64;
                let mut o = out.lock();
                writeln!(o, "{}", json!({"i": i, "outcome": if acc {"ok"} else {"err"}, "us": us})).unwrap();
                o.flush().unwrap();
            }
        })
        .expect("spawn");
    match h.join() {
        Ok(()) => 0,
        Err(e) => {
            let i = cur.load(std::sync::atomic::Ordering::SeqCst);
            println!(
                "{}",
                json!({"i": i, "outcome": "panic", "msg": panic_message(e),
                       "us": t_all.elapsed().as_micros() as u64})
            );
            let _ = std::io::stdout().flush();
            101
        }
    }
}

// ------------------------------------------------------------------------------------------------
// parent

#[derive(Clone)]
struct Case {
    family: String,
    n: i64,
    gen: Option<String>,
    text: String,
}

#[derive(Clone, Default)]
struct Obs {
    outcome: String,
    signal: i64,
    ms: u64,
    msg: Option<String>,
}

enum Line {
    Ready,
    Result(usize, String, Option<String>),
    Eof,
}

fn spawn_worker(batch: &str, skip: usize) -> (Child, mpsc::Receiver<Line>) {
    let exe = std::env::current_exe().expect("current_exe");
    // the machine may be short of processes for a moment: retry before giving up
    let mut attempt = 0;
    let mut child = loop {
        match Command::new(&exe)
            .arg("doc-cost-worker")
            .arg("--batch")
            .arg(batch)
            .arg("--skip")
            .arg(skip.to_string())
            .stdin(Stdio::null())
            .stdout(Stdio::piped())
            .stderr(Stdio::null())
            .spawn()
        {
            Ok(c) => break c,
            Err(e) => {
                attempt += 1;
                if attempt > 50 {
                    eprintln!("cannot start a worker process: {}", e);
                    std::process::exit(2);
                }
                std::thread::sleep(Duration::from_millis(200));
            }
        }
    };
    let stdout = child.stdout.take().unwrap();
    let (tx, rx) = mpsc::channel();
    std::thread::spawn(move || {
        let rd = BufReader::new(stdout);
        for line in rd.lines() {
            let line = match line {
                Ok(l) => l,
                Err(_) => break,
            };
            if let Ok(v) = serde_json::from_str::<J>(&line) {
                if v.get("ready").is_some() {
                    if tx.send(Line::Ready).is_err() {
                        return;
                    }
                    continue;
                }
                let i = v["i"].as_u64().unwrap_or(u64::MAX) as usize;
                let o = v["outcome"].as_str().unwrap_or("?").to_string();
                let m = v["msg"].as_str().map(|s| s.to_string());
                if tx.send(Line::Result(i, o, m)).is_err() {
                    return;
                }
            }
        }
        let _ = tx.send(Line::Eof);
    });
    (child, rx)
}

fn exit_signal(st: &std::process::ExitStatus) -> Option<i32> {
    use std::os::unix::process::ExitStatusExt;
    st.signal()
}

/// Run one chunk of inputs; returns one observation per input.
fn run_chunk(texts: &[&str], batch_path: &str, limit: Duration) -> Vec<Obs> {
    write_batch(batch_path, texts);
    let mut obs: Vec<Obs> = vec![Obs::default(); texts.len()];
    let mut next = 0usize; // first input without an observation
    while next < texts.len() {
        let (mut child, rx) = spawn_worker(batch_path, next);
        let mut t0 = Instant::now();
        loop {
            match rx.recv_timeout(limit.saturating_sub(t0.elapsed())) {
                Ok(Line::Ready) => {
                    // process start-up and loading of the batch are not part of the call
                    t0 = Instant::now();
                }
                Ok(Line::Result(i, outcome, msg)) => {
                    if i != next {
                        // protocol error: treat as tool failure of this input
                        obs[next] = Obs { outcome: "toolerror".into(), signal: 0, ms: 0, msg: None };
                        let _ = child.kill();
                        let _ = child.wait();
                        next += 1;
                        break;
                    }
                    obs[i] = Obs {
                        outcome: outcome.clone(),
                        signal: 0,
                        ms: t0.elapsed().as_millis() as u64,
                        msg,
                    };
                    next = i + 1;
                    t0 = Instant::now();
                    if outcome == "panic" {
                        let _ = child.wait();
                        break;
                    }
                    if next >= texts.len() {
                        let _ = child.wait();
                        break;
                    }
                }
                Ok(Line::Eof) => {
                    // the worker died while working on `next` (or finished)
                    let st = child.wait().expect("wait");
                    if next < texts.len() {
                        let ms = t0.elapsed().as_millis() as u64;
                        if let Some(sig) = exit_signal(&st) {
                            obs[next] = Obs { outcome: "abort".into(), signal: sig as i64, ms, msg: None };
                        } else {
                            obs[next] = Obs {
                                outcome: "abort".into(),
                                signal: -(st.code().unwrap_or(0) as i64),
                                ms,
                                msg: Some(format!("exit code {:?} without a result line", st.code())),
                            };
                        }
                        next += 1;
                    }
                    break;
                }
                Err(mpsc::RecvTimeoutError::Timeout) => {
                    let _ = child.kill();
                    let _ = child.wait();
                    obs[next] = Obs {
                        outcome: "timeout".into(),
                        signal: 0,
                        ms: t0.elapsed().as_millis() as u64,
                        msg: None,
                    };
                    next += 1;
                    break;
                }
                Err(mpsc::RecvTimeoutError::Disconnected) => {
                    let _ = child.kill();
                    let _ = child.wait();
                    obs[next] = Obs { outcome: "toolerror".into(), signal: 0, ms: 0, msg: None };
                    next += 1;
                    break;
                }
            }
        }
    }
    obs
}

fn load_cases(path: &str, default_family: &str) -> Vec<Case> {
    let mut cases = Vec::new();
    let mut idx = 0i64;
    for_each_case(path, |v| {
        if v.get("text").is_none() {
            return;
        }
        idx += 1;
        let family = v["family"].as_str().unwrap_or(default_family).to_string();
        let n = v["n"].as_i64().or_else(|| v["id"].as_i64()).unwrap_or(idx);
        let gen = v["gen"].as_str().map(|s| s.to_string());
        cases.push(Case { family, n, gen, text: cps_to_string(&v["text"]) });
    });
    cases
}

fn run(args: &[String]) -> i32 {
    let inp = match arg_value(args, "--in") {
        Some(p) => p,
        None => {
            eprintln!("doc-cost-run --in <file> --out <file> [--limit-ms 5000] [--jobs 8]");
            return 2;
        }
    };
    let outp = arg_value(args, "--out").unwrap_or("-");
    let limit_ms: u64 = arg_value(args, "--limit-ms").and_then(|s| s.parse().ok()).unwrap_or(5000);
    let jobs: usize = arg_value(args, "--jobs").and_then(|s| s.parse().ok()).unwrap_or(8).max(1);
    let default_family = arg_value(args, "--family-default").unwrap_or("garbage");
    let chunk_max: usize = arg_value(args, "--chunk").and_then(|s| s.parse().ok()).unwrap_or(256).max(1);
    let cases = Arc::new(load_cases(inp, default_family));
    let scratch = format!("{}.chunks.{}", if outp == "-" { "/verif/work/doc-cost" } else { outp }, std::process::id());
    std::fs::create_dir_all(&scratch).expect("scratch dir");

    // chunks: consecutive inputs, at most 256 inputs or ~1 MB of text each
    let mut chunks: Vec<(usize, usize)> = Vec::new();
    let mut start = 0usize;
    let mut bytes = 0usize;
    for (i, c) in cases.iter().enumerate() {
        bytes += c.text.len();
        if i + 1 - start >= chunk_max || bytes >= 1 << 20 {
            chunks.push((start, i + 1));
            start = i + 1;
            bytes = 0;
        }
    }
    if start < cases.len() {
        chunks.push((start, cases.len()));
    }
    let queue = Arc::new(Mutex::new(chunks.into_iter().enumerate().collect::<Vec<_>>()));
    let results: Arc<Mutex<Vec<Option<Obs>>>> = Arc::new(Mutex::new(vec![None; cases.len()]));
    let mut handles = Vec::new();
    for j in 0..jobs {
        let queue = queue.clone();
        let cases = cases.clone();
        let results = results.clone();
        let scratch = scratch.clone();
        handles.push(std::thread::spawn(move || loop {
            let item = queue.lock().unwrap_or_else(|e| e.into_inner()).pop();
            let (_k, (a, b)) = match item {
                Some(x) => x,
                None => break,
            };
            let texts: Vec<&str> = cases[a..b].iter().map(|c| c.text.as_str()).collect();
            let path = format!("{}/job{}.batch", scratch, j);
            let obs = run_chunk(&texts, &path, Duration::from_millis(limit_ms));
            let mut r = results.lock().unwrap_or_else(|e| e.into_inner());
            for (k, o) in obs.into_iter().enumerate() {
                r[a + k] = Some(o);
            }
        }));
    }
    for h in handles {
        let _ = h.join();
    }
    // inputs whose job thread died (should not happen) are run here, one by one
    {
        let mut r = results.lock().unwrap_or_else(|e| e.into_inner());
        let mut lost = 0usize;
        for i in 0..cases.len() {
            let missing = match &r[i] {
                None => true,
                Some(o) => o.outcome == "toolerror" || o.outcome == "?",
            };
            if missing {
                lost += 1;
                let path = format!("{}/lost.batch", scratch);
                let obs = run_chunk(&[cases[i].text.as_str()], &path, Duration::from_millis(limit_ms));
                r[i] = obs.into_iter().next();
            }
        }
        if lost > 0 {
            eprintln!("{} inputs were re-run after a worker thread failed", lost);
        }
    }
    // A time-out must reproduce when the input is run again on its own (nothing else running):
    // the limit is wall-clock time, and eight parallel workers on a busy machine can starve one.
    let mut retried = vec![false; cases.len()];
    {
        let mut r = results.lock().unwrap_or_else(|e| e.into_inner());
        for i in 0..cases.len() {
            if r[i].as_ref().map(|o| o.outcome == "timeout").unwrap_or(false) {
                let path = format!("{}/retry.batch", scratch);
                let obs = run_chunk(&[cases[i].text.as_str()], &path, Duration::from_millis(limit_ms));
                r[i] = obs.into_iter().next();
                retried[i] = true;
            }
        }
    }
    let _ = std::fs::remove_dir_all(&scratch);

    let mut w = open_out(outp);
    let results = results.lock().unwrap_or_else(|e| e.into_inner());
    let mut tool_errors = 0;
    for (k, (c, o)) in cases.iter().zip(results.iter()).enumerate() {
        let o = o.clone().unwrap_or(Obs { outcome: "toolerror".into(), ..Default::default() });
        if o.outcome == "toolerror" || o.outcome == "?" {
            tool_errors += 1;
        }
        let cps: Vec<u32> = c.text.chars().map(|ch| ch as u32).collect();
        let inline = cps.len() <= TEXT_INLINE_MAX;
        let ev = json!({
            "event": "call",
            "family": c.family,
            "n": c.n,
            "len": cps.len(),
            "outcome": o.outcome,
            "signal": o.signal,
            "ms": o.ms,
            "text_omitted": !inline,
            "text": if inline { &cps[..] } else { &cps[..0] },
            "text_prefix": if inline { &cps[..0] } else { &cps[..200] },
            "gen": c.gen.clone().unwrap_or_default(),
            "retried": retried[k],
            "msg": o.msg.clone().unwrap_or_default(),
        });
        writeln!(w, "{}", ev).unwrap();
    }
    w.flush().unwrap();
    if tool_errors > 0 {
        eprintln!("{} inputs could not be run", tool_errors);
        return 2;
    }
    0
}

// ------------------------------------------------------------------------------------------------
// garbage generators

const ALPHABET: &[&str] = &[
    "<", ">", "/", "?", "!", "[", "]", "-", "&", ";", "#", "%", "\"", "'", "=", "x", "a", ":", " ",
    "\n", "<!DOCTYPE", "<!ENTITY", "<!ATTLIST", "<!ELEMENT", "<![CDATA[", "]]>", "<!--", "-->",
    "<?xml", "?>", "&#", "&#x", "%a;", "&a;", "SYSTEM", "PUBLIC", "NDATA", "#PCDATA", "#REQUIRED",
    "(", "|", ")*", ")", ",", "1", "é", "\u{3042}", "\u{1F600}", "\u{FFFD}", "\u{85}", "\t",
    "CDATA", "ID", "#IMPLIED", "#FIXED", "EMPTY", "ANY", "xmlns", "xmlns:a", "version", "encoding",
    "standalone", "<a", "</a", "/>", "a:b", " a=\"", " r ", "<r>", "</r>", "]>", " [",
];

const SEEDS: &[&str] = &[
    "<?xml version=\"1.0\" encoding=\"UTF-8\" standalone=\"yes\"?>\n<!-- c --><?p d?>\n<r a=\"1\" b='2'><a>x</a><b/>t</r>\n<!-- e -->",
    "<!DOCTYPE r [<!ENTITY e \"v\"><!ENTITY f \"&e;w\">]><r a=\"&f;\">&f;&e;</r>",
    "<!DOCTYPE r [<!NOTATION n SYSTEM \"s\"><!ENTITY u SYSTEM \"x.png\" NDATA n><!ENTITY g PUBLIC \"p\" \"s\">]><r/>",
    "<!DOCTYPE r [<!ELEMENT r ((a|b)*,(c,d?)+,e)><!ELEMENT a (#PCDATA|b)*><!ELEMENT b EMPTY><!ELEMENT c ANY>]><r><a/></r>",
    "<!DOCTYPE r [<!ATTLIST r a CDATA #IMPLIED b (x|y) \"x\" c ID #REQUIRED d NMTOKENS #FIXED \"p q\" e NOTATION (n|m) #IMPLIED>]><r c=\"i\"/>",
    "<r><![CDATA[<x>&y;]]>&#65;&#x42;&lt;&gt;&amp;&apos;&quot;</r>",
    "<p:r xmlns:p=\"u\" xmlns=\"d\" p:a=\"1\"><c xmlns=\"\"><p:d/></c></p:r>",
    "<!DOCTYPE r SYSTEM \"r.dtd\" [<!-- c --><?p d?> <!ENTITY e 'a\"b'>]>\n<r>&e;</r>",
    "<!DOCTYPE r PUBLIC \"-//X//Y\" \"r.dtd\"><r xml:lang=\"en\" xml:space=\"preserve\"> <a> </a> </r>",
    "<r a=\" x  y\tz\n\" b=\"&#10;&#x20;\">\u{e9}\u{3042}\u{1F600}<a><b><c><d>deep</d></c></b></a></r>",
    "<!DOCTYPE r [<!ENTITY a \"&#38;#60;\"><!ENTITY b '&#37;'><!ATTLIST r d CDATA \"&a;x\">]><r>&a;&b;</r>",
    "<?xml version=\"1.0\"?><!DOCTYPE r [<!ELEMENT r (#PCDATA)><!ATTLIST r xmlns CDATA #FIXED \"u\">]><r><?q?><!----></r>",
];

fn tokens(s: &str) -> Vec<String> {
    // coarse XML tokens: markup delimiters, names, quoted strings, single other chars
    let cs: Vec<char> = s.chars().collect();
    let mut out = Vec::new();
    let mut i = 0;
    let delims = [
        "<![CDATA[", "<!DOCTYPE", "<!ELEMENT", "<!ATTLIST", "<!ENTITY", "<!NOTATION", "<!--", "-->", "]]>",
        "<?", "?>", "</", "/>", "&#x", "&#",
    ];
    'outer: while i < cs.len() {
        for d in delims.iter() {
            let dc: Vec<char> = d.chars().collect();
            if cs[i..].starts_with(&dc) {
                out.push(d.to_string());
                i += dc.len();
                continue 'outer;
            }
        }
        let c = cs[i];
        if c.is_alphanumeric() || c == '_' {
            let mut j = i;
            while j < cs.len() && (cs[j].is_alphanumeric() || "_-.:".contains(cs[j])) {
                j += 1;
            }
            out.push(cs[i..j].iter().collect());
            i = j;
        } else if c == '"' || c == '\'' {
            let mut j = i + 1;
            while j < cs.len() && cs[j] != c {
                j += 1;
            }
            let j = (j + 1).min(cs.len());
            out.push(cs[i..j].iter().collect());
            i = j;
        } else {
            out.push(c.to_string());
            i += 1;
        }
    }
    out
}

fn gen_alphabet(rng: &mut StdRng) -> String {
    let len = rng.gen_range(1..=200usize);
    let mut s = String::new();
    let mut count = 0;
    while count < len {
        let t = ALPHABET[rng.gen_range(0..ALPHABET.len())];
        s.push_str(t);
        count += t.chars().count();
    }
    s
}

fn gen_splice(rng: &mut StdRng) -> String {
    let mut cs: Vec<char> = SEEDS[rng.gen_range(0..SEEDS.len())].chars().collect();
    let ops = rng.gen_range(1..=4);
    for _ in 0..ops {
        if cs.is_empty() {
            break;
        }
        match rng.gen_range(0..6) {
            0 => {
                // delete a range
                let a = rng.gen_range(0..cs.len());
                let b = (a + rng.gen_range(1..=8)).min(cs.len());
                cs.drain(a..b);
            }
            1 => {
                // duplicate a range in place
                let a = rng.gen_range(0..cs.len());
                let b = (a + rng.gen_range(1..=16)).min(cs.len());
                let part: Vec<char> = cs[a..b].to_vec();
                let at = rng.gen_range(0..=cs.len());
                for (k, c) in part.into_iter().enumerate() {
                    cs.insert(at + k, c);
                }
            }
            2 => {
                // truncate
                let a = rng.gen_range(0..=cs.len());
                cs.truncate(a);
            }
            3 => {
                // splice a range of another seed
                let other: Vec<char> = SEEDS[rng.gen_range(0..SEEDS.len())].chars().collect();
                let a = rng.gen_range(0..other.len());
                let b = (a + rng.gen_range(1..=24)).min(other.len());
                let at = rng.gen_range(0..=cs.len());
                for (k, c) in other[a..b].iter().enumerate() {
                    cs.insert(at + k, *c);
                }
            }
            4 => {
                // replace one char by an alphabet token
                let a = rng.gen_range(0..cs.len());
                let t: Vec<char> = ALPHABET[rng.gen_range(0..ALPHABET.len())].chars().collect();
                cs.splice(a..a + 1, t);
            }
            _ => {
                // swap two chars
                let a = rng.gen_range(0..cs.len());
                let b = rng.gen_range(0..cs.len());
                cs.swap(a, b);
            }
        }
    }
    cs.into_iter().collect()
}

fn gen_token(rng: &mut StdRng) -> String {
    let mut ts = tokens(SEEDS[rng.gen_range(0..SEEDS.len())]);
    let ops = rng.gen_range(1..=3);
    for _ in 0..ops {
        if ts.is_empty() {
            break;
        }
        match rng.gen_range(0..5) {
            0 => {
                let a = rng.gen_range(0..ts.len());
                ts.remove(a);
            }
            1 => {
                let a = rng.gen_range(0..ts.len());
                let t = ts[a].clone();
                ts.insert(a, t);
            }
            2 => {
                let a = rng.gen_range(0..ts.len());
                let b = rng.gen_range(0..ts.len());
                ts.swap(a, b);
            }
            3 => {
                let a = rng.gen_range(0..ts.len());
                ts[a] = ALPHABET[rng.gen_range(0..ALPHABET.len())].to_string();
            }
            _ => {
                let other = tokens(SEEDS[rng.gen_range(0..SEEDS.len())]);
                let a = rng.gen_range(0..=ts.len());
                ts.insert(a, other[rng.gen_range(0..other.len())].clone());
            }
        }
    }
    ts.concat()
}

/// Structured generator: a syntactically plausible document with a random entity graph (forward
/// references, cycles, undeclared names, parameter entities), ATTLIST defaults that use entities,
/// unparsed entities / notations, nested elements whose attributes and text use the entities.  Most
/// of these are accepted or rejected late, so the whole pipeline (lazy values, printing) runs.
fn gen_structured(rng: &mut StdRng) -> String {
    let nent = rng.gen_range(0..6usize);
    let ename = |k: usize| format!("e{}", k);
    let mut s = String::new();
    if rng.gen_bool(0.2) {
        s.push_str("<?xml version=\"1.0\"?>");
    }
    let with_dtd = rng.gen_bool(0.85);
    if with_dtd {
        s.push_str("<!DOCTYPE r");
        match rng.gen_range(0..6) {
            0 => s.push_str(" SYSTEM \"r.dtd\""),
            1 => s.push_str(" PUBLIC \"-//p\" \"r.dtd\""),
            _ => {}
        }
        s.push_str(" [");
        for k in 0..nent {
            let quote = if rng.gen_bool(0.8) { '"' } else { '\'' };
            match rng.gen_range(0..12) {
                0 => s.push_str(&format!("<!ENTITY {} SYSTEM \"x{}.xml\">", ename(k), k)),
                1 => s.push_str(&format!("<!NOTATION n{} SYSTEM \"n\"><!ENTITY {} SYSTEM \"u\" NDATA n{}>", k, ename(k), k)),
                2 => s.push_str(&format!("<!ENTITY % p{} {}x{}>", k, quote, quote)),
                _ => {
                    s.push_str(&format!("<!ENTITY {} {}", ename(k), quote));
                    for _ in 0..rng.gen_range(0..4) {
                        match rng.gen_range(0..9) {
                            0 | 1 | 2 => s.push_str(&format!("&{};", ename(rng.gen_range(0..nent + 1)))),
                            3 => s.push_str(["&#60;", "&#38;", "&#x26;#60;", "&#10;", "&#x9;", "&#38;#38;"][rng.gen_range(0..6)]),
                            4 => s.push_str(["&lt;", "&amp;", "&apos;", "&quot;", "&gt;"][rng.gen_range(0..5)]),
                            5 => s.push_str(&format!("%p{};", rng.gen_range(0..nent + 1))),
                            6 => s.push_str(["<b/>", "<b>", "</b>", "<!--c-->", "<?p d?>", "<![CDATA[x]]>"][rng.gen_range(0..6)]),
                            _ => s.push_str(["t", " ", "\n", "\u{e9}", "x y", "\t"][rng.gen_range(0..6)]),
                        }
                    }
                    s.push(quote);
                    s.push('>');
                }
            }
            if rng.gen_bool(0.1) {
                s.push_str(&format!("%p{};", rng.gen_range(0..nent + 1)));
            }
        }
        for _ in 0..rng.gen_range(0..3) {
            let el = ["r", "a", "b"][rng.gen_range(0..3)];
            let an = ["x", "y", "xml:lang", "xmlns", "xmlns:p", "p:z"][rng.gen_range(0..6)];
            let ty = ["CDATA", "ID", "IDREF", "NMTOKENS", "(u|v)", "NOTATION (n0|n1)", "ENTITY", "ENTITIES"][rng.gen_range(0..8)];
            let de = match rng.gen_range(0..6) {
                0 => "#IMPLIED".to_string(),
                1 => "#REQUIRED".to_string(),
                2 => format!("#FIXED \"&{};\"", ename(rng.gen_range(0..nent + 1))),
                3 => format!("\"&{}; v\"", ename(rng.gen_range(0..nent + 1))),
                4 => "\"u\"".to_string(),
                _ => "\" a  b \"".to_string(),
            };
            s.push_str(&format!("<!ATTLIST {} {} {} {}>", el, an, ty, de));
        }
        if rng.gen_bool(0.3) {
            s.push_str(["<!ELEMENT r ANY>", "<!ELEMENT r (a|b)*>", "<!ELEMENT a (#PCDATA|b)*>", "<!ELEMENT b EMPTY>", "<!ELEMENT r ((a,b?)+|(b|a)*)>"][rng.gen_range(0..5)]);
        }
        s.push_str("]>");
    }
    // element tree
    fn elem(rng: &mut StdRng, s: &mut String, depth: usize, nent: usize) {
        let name = ["r", "a", "b", "p:a"][if depth == 0 { 0 } else { rng.gen_range(0..4) }];
        s.push('<');
        s.push_str(name);
        let mut used = vec![];
        for _ in 0..rng.gen_range(0..3) {
            let an = ["x", "y", "xml:lang", "xmlns", "xmlns:p", "p:z"][rng.gen_range(0..6)];
            if used.contains(&an) && rng.gen_bool(0.9) {
                continue;
            }
            used.push(an);
            s.push(' ');
            s.push_str(an);
            s.push_str("=\"");
            for _ in 0..rng.gen_range(0..3) {
                match rng.gen_range(0..6) {
                    0 | 1 => s.push_str(&format!("&e{};", rng.gen_range(0..nent + 1))),
                    2 => s.push_str(["&#10;", "&#x41;", "&lt;", "&amp;"][rng.gen_range(0..4)]),
                    _ => s.push_str(["u", " ", "\n", "a  b", "\u{e9}"][rng.gen_range(0..5)]),
                }
            }
            s.push('"');
        }
        if rng.gen_bool(0.25) {
            s.push_str("/>");
            return;
        }
        s.push('>');
        for _ in 0..rng.gen_range(0..4) {
            match rng.gen_range(0..10) {
                0 | 1 | 2 if depth < 6 => elem(rng, s, depth + 1, nent),
                3 | 4 => s.push_str(&format!("&e{};", rng.gen_range(0..nent + 1))),
                5 => s.push_str(["&#65;", "&#x1F600;", "&lt;", "&amp;", "&#x9;"][rng.gen_range(0..5)]),
                6 => s.push_str(["<!--c-->", "<?p d?>", "<![CDATA[<&]]>", "<![CDATA[]]>"][rng.gen_range(0..4)]),
                _ => s.push_str(["t", " ", "\n ", "x y", "\u{3042}"][rng.gen_range(0..5)]),
            }
        }
        s.push_str("</");
        s.push_str(if rng.gen_bool(0.97) { name } else { "zz" });
        s.push('>');
    }
    elem(rng, &mut s, 0, nent);
    if rng.gen_bool(0.1) {
        s.push_str("<!--t--><?q?>\n");
    }
    s
}

fn garbage(args: &[String]) -> i32 {
    let seed: u64 = arg_value(args, "--seed").and_then(|s| s.parse().ok()).unwrap_or(1);
    let count: usize = arg_value(args, "--count").and_then(|s| s.parse().ok()).unwrap_or(1000);
    let outp = arg_value(args, "--out").unwrap_or("-");
    let mut rng = StdRng::seed_from_u64(seed);
    let mut w = open_out(outp);
    // the unmutated seeds first: they must be fine, and they show that the seed corpus is accepted
    let mut n = 0usize;
    for s in SEEDS {
        n += 1;
        writeln!(w, "{}", json!({"family": "garbage", "n": n, "gen": "seed", "text": string_to_cps(s)})).unwrap();
    }
    while n < count {
        n += 1;
        let (gen, text) = match rng.gen_range(0..4) {
            0 => ("alphabet", gen_alphabet(&mut rng)),
            1 => ("splice", gen_splice(&mut rng)),
            2 => ("token", gen_token(&mut rng)),
            _ => ("structured", gen_structured(&mut rng)),
        };
        writeln!(w, "{}", json!({"family": "garbage", "n": n, "gen": gen, "text": string_to_cps(&text)})).unwrap();
    }
    w.flush().unwrap();
    0
}
