//! (engine stub)
#[allow(unused_imports)]
use crate::util::*;

pub fn main(sub: &str, _args: &[String]) -> i32 {
    eprintln!("unknown subcommand {}", sub);
    2
}
