//! C17, spec -> impl: runs of the real `xq` / `xe` binaries (built from /repo's examples) on the cases emitted
//! by MC_Cli.tla.  Observed: exit status, stdout, stderr.  For xe the compact output is parsed and projected
//! to a content signature, next to the signature of the specification's expected text; for xq the library's
//! own serialization of exactly the nodes the specification selects is put next to stdout.  Trace_Cli.tla
//! judges every run.

use crate::util::*;
use serde_json::{json, Value as J};
use std::collections::HashMap;
use std::io::{Read, Write};
use std::process::{Command, Stdio};
use std::time::{Duration, Instant};
use xml_dom::{Attr, CharacterData, Document, DocumentType, Element, Node, ProcessingInstruction, XmlDocument, XmlNode};

pub fn main(sub: &str, args: &[String]) -> i32 {
    match sub {
        "cli-run" => run(args),
        "cli-args" => run_args(args),
        _ => {
            eprintln!("unknown subcommand {}", sub);
            2
        }
    }
}

pub struct Obs {
    pub code: i64, // exit code; -1 = killed by a signal; -2 = timeout
    pub stdout: String,
    pub stdout_utf8: bool,
    pub stderr_len: usize,
}

/// A run that exceeds the wall-clock limit is repeated once with a far longer limit: on a busy machine a tool that
/// answers in 50 ms can be starved for seconds, and only a run that never ends is a hang.
pub fn run_tool(bin: &str, args: &[String], stdin_text: &str) -> Obs {
    let o = run_tool_limit(bin, args, stdin_text, 10);
    if o.code == -2 {
        return run_tool_limit(bin, args, stdin_text, 180);
    }
    o
}

fn run_tool_limit(bin: &str, args: &[String], stdin_text: &str, limit_s: u64) -> Obs {
    let mut child = match Command::new(bin)
        .args(args)
        .stdin(Stdio::piped())
        .stdout(Stdio::piped())
        .stderr(Stdio::piped())
        .spawn()
    {
        Ok(c) => c,
        Err(e) => {
            eprintln!("cannot start {}: {}", bin, e);
            std::process::exit(2);
        }
    };
    if let Some(mut si) = child.stdin.take() {
        let _ = si.write_all(stdin_text.as_bytes());
    }
    let mut so = child.stdout.take().unwrap();
    let mut se = child.stderr.take().unwrap();
    let t_out = std::thread::spawn(move || {
        let mut b = vec![];
        let _ = so.read_to_end(&mut b);
        b
    });
    let t_err = std::thread::spawn(move || {
        let mut b = vec![];
        let _ = se.read_to_end(&mut b);
        b
    });
    let t0 = Instant::now();
    let status = loop {
        match child.try_wait() {
            Ok(Some(s)) => break Some(s),
            Ok(None) => {
                if t0.elapsed() > Duration::from_secs(limit_s) {
                    let _ = child.kill();
                    let _ = child.wait();
                    break None;
                }
                std::thread::sleep(Duration::from_millis(2));
            }
            Err(_) => break None,
        }
    };
    let out = t_out.join().unwrap_or_default();
    let err = t_err.join().unwrap_or_default();
    let code = match status {
        None => -2,
        Some(s) => s.code().map(|c| c as i64).unwrap_or(-1),
    };
    let (stdout, ok) = match String::from_utf8(out) {
        Ok(s) => (s, true),
        Err(e) => (String::from_utf8_lossy(e.as_bytes()).to_string(), false),
    };
    Obs { code, stdout, stdout_utf8: ok, stderr_len: err.len() }
}

fn parse_merged(text: &str) -> Option<XmlDocument> {
    let t = text.to_string();
    guarded(move || {
        let ctx = xml_dom::Context::from_text_expanded(true);
        match XmlDocument::from_raw_with_context(&t, ctx) {
            Ok((rest, d)) if rest.trim().is_empty() => Some(d),
            _ => None,
        }
    })
    .unwrap_or(None)
}

/// Content signature of a whole document (merged view): nested lists, attributes sorted by name.
fn sig_node(n: &XmlNode) -> Result<J, String> {
    let e = |x: xml_dom::error::Error| x.to_string();
    Ok(match n {
        XmlNode::Document(d) => {
            let mut kids = vec![];
            for c in d.child_nodes().iter() {
                kids.push(sig_node(&c)?);
            }
            json!(["doc", kids])
        }
        XmlNode::DocumentType(t) => json!(["doctype", string_to_cps(&t.name())]),
        XmlNode::Element(x) => {
            // names are EXPANDED names (namespace name + local part): a replacement that loses its prefix or its
            // declaration is another element
            let expanded = |nd: &XmlNode, fallback: String| -> String {
                match xml_dom::AsExpandedName::as_expanded_name(nd) {
                    Ok(Some((l, _, Some(u)))) => format!("{{{}}}{}", u, l),
                    Ok(Some((l, _, None))) => l,
                    _ => fallback,
                }
            };
            let mut attrs: Vec<(String, String)> = vec![];
            if let Some(m) = n.attributes() {
                for a in m.iter() {
                    attrs.push((expanded(&xml_dom::AsNode::as_node(&a), a.name()), a.value().map_err(e)?));
                }
            }
            attrs.sort();
            let mut kids = vec![];
            for c in x.child_nodes().iter() {
                let s = sig_node(&c)?;
                // empty character runs are not representable in text
                if s[0] == "chars" && s[1].as_array().map(|a| a.is_empty()).unwrap_or(false) {
                    continue;
                }
                kids.push(s);
            }
            json!(["elem", string_to_cps(&expanded(n, x.tag_name())),
                   attrs.iter().map(|(n, v)| json!([string_to_cps(n), string_to_cps(v)])).collect::<Vec<_>>(), kids])
        }
        XmlNode::ExpandedText(t) => json!(["chars", string_to_cps(&t.data().map_err(e)?)]),
        XmlNode::Text(t) => json!(["chars", string_to_cps(&t.data().map_err(e)?)]),
        XmlNode::CData(t) => json!(["chars", string_to_cps(&t.data().map_err(e)?)]),
        XmlNode::Comment(t) => json!(["comment", string_to_cps(&t.data().map_err(e)?)]),
        XmlNode::PI(p) => json!(["pi", string_to_cps(&p.target()), string_to_cps(&p.data())]),
        other => json!(["other", format!("{:?}", other.node_type())]),
    })
}

/// the same signature with all white space removed from character data (and emptied runs dropped): what an
/// indenting printer must preserve
fn strip_ws(sig: &J) -> J {
    match sig {
        J::Array(a) if a.first().and_then(|x| x.as_str()) == Some("chars") => {
            let kept: Vec<J> = a[1].as_array().cloned().unwrap_or_default().into_iter()
                .filter(|c| !matches!(c.as_u64(), Some(32) | Some(9) | Some(10) | Some(13))).collect();
            json!(["chars", kept])
        }
        J::Array(a) => {
            let mut out = vec![];
            for x in a {
                let y = strip_ws(x);
                if y.as_array().map(|v| v.first().and_then(|t| t.as_str()) == Some("chars") && v[1].as_array().map(|c| c.is_empty()).unwrap_or(false)).unwrap_or(false) {
                    continue;
                }
                out.push(y);
            }
            J::Array(out)
        }
        other => other.clone(),
    }
}

fn signature_of_text(text: &str) -> J {
    match parse_merged(text) {
        None => json!({"ok": false}),
        Some(d) => {
            let n = xml_dom::AsNode::as_node(&d);
            match guarded(move || sig_node(&n)) {
                Ok(Ok(s)) => json!({"ok": true, "ws": strip_ws(&s), "sig": s}),
                Ok(Err(e)) => json!({"ok": false, "why": e}),
                Err(p) => json!({"ok": false, "why": format!("panic: {}", p)}),
            }
        }
    }
}

/// the library's own compact serialization of the nodes the specification selects, one per line
pub fn render_selected(text: &str, tree: &J, sel: &[i64]) -> Option<String> {
    let doc = crate::xp::load_doc(text, tree).ok()?;
    if doc.mismatch.is_some() {
        return None;
    }
    // id -> node, by walking the public API
    fn walk(n: &XmlNode, m: &mut HashMap<usize, XmlNode>) {
        m.insert(n.id(), n.clone());
        if let Some(a) = n.attributes() {
            for x in a.iter() {
                let an = xml_dom::AsNode::as_node(&x);
                m.insert(an.id(), an);
            }
        }
        for c in n.child_nodes().iter() {
            walk(&c, m);
        }
    }
    let mut by_id = HashMap::new();
    walk(&xml_dom::AsNode::as_node(&doc.dom), &mut by_id);
    let mut by_idx: HashMap<i64, XmlNode> = HashMap::new();
    for (id, idx) in &doc.ids {
        if let Some(n) = by_id.get(id) {
            by_idx.insert(*idx, n.clone());
        }
    }
    let mut out = String::new();
    for i in sel {
        let n = by_idx.get(i)?;
        out.push_str(&format!("{}\n", n));
    }
    Some(out)
}

/// command lines of MC_CliArgs.tla: every entry of `argv` is ["lit", text] or ["file"] (the path of a file holding
/// the document); the document is also on standard input.
fn run_args(args: &[String]) -> i32 {
    let inp = arg_value(args, "--in").unwrap_or("-");
    let outp = arg_value(args, "--out").unwrap_or("-");
    let xq = arg_value(args, "--xq").unwrap_or("xq").to_string();
    let xe = arg_value(args, "--xe").unwrap_or("xe").to_string();
    let docfile = arg_value(args, "--docfile").unwrap_or("doc.xml").to_string();
    let mut out = open_out(outp);
    let mut cases: Vec<J> = vec![];
    for_each_case(inp, |c| if c["k"] == "args" { cases.push(c) });
    cases.sort_by_key(|c| (c["tool"].as_str().map(|s| s.to_string()), c["toks"].to_string()));
    if let Some(c) = cases.first() {
        if std::fs::write(&docfile, cps_to_string(&c["text"])).is_err() {
            eprintln!("cannot write {}", docfile);
            return 2;
        }
    }
    let jobs: usize = arg_value(args, "--jobs").and_then(|v| v.parse().ok()).unwrap_or(8);
    let chunks: Vec<Vec<(usize, J)>> = (0..jobs).map(|k| cases.iter().cloned().enumerate().skip(k).step_by(jobs).collect()).collect();
    let mut handles = vec![];
    for chunk in chunks {
        let (xq, xe, docfile) = (xq.clone(), xe.clone(), docfile.clone());
        handles.push(std::thread::spawn(move || {
            let mut evs: Vec<(usize, J)> = vec![];
            for (i, c) in chunk {
                let text = cps_to_string(&c["text"]);
                let tool = c["tool"].as_str().unwrap_or("");
                let a: Vec<String> = c["argv"].as_array().map(|v| v.as_slice()).unwrap_or(&[]).iter()
                    .map(|x| if x[0] == "file" { docfile.clone() } else { cps_to_string(&x[1]) }).collect();
                let o = run_tool(if tool == "xq" { &xq } else { &xe }, &a, &text);
                let mut ev = json!({"event": "args", "tool": tool, "toks": c["toks"], "argv": c["argv"],
                                    "code": o.code, "stderr_len": o.stderr_len, "utf8": o.stdout_utf8,
                                    "stdout": string_to_cps(&o.stdout.chars().take(400).collect::<String>()),
                                    "expect_text": c["expect"]});
                if tool == "xq" {
                    let sel: Vec<i64> = c["sel"].as_array().map(|v| v.iter().filter_map(|x| x.as_i64()).collect()).unwrap_or_default();
                    let (tree, t2) = (c["tree"].clone(), text.clone());
                    match guarded(move || render_selected(&t2, &tree, &sel)) {
                        Ok(Some(s)) => {
                            ev["sel_out"] = string_to_cps(&s);
                            ev["renderable"] = json!(true);
                        }
                        _ => {
                            ev["sel_out"] = json!([]);
                            ev["renderable"] = json!(false);
                        }
                    }
                    ev["out"] = json!({"ok": false});
                    ev["exp"] = json!({"ok": false});
                } else {
                    ev["sel_out"] = json!([]);
                    ev["renderable"] = json!(true);
                    ev["out"] = signature_of_text(&o.stdout);
                    ev["exp"] = signature_of_text(&cps_to_string(&c["expect"]));
                }
                evs.push((i, ev));
            }
            evs
        }));
    }
    let mut all: Vec<(usize, J)> = vec![];
    for h in handles {
        all.extend(h.join().unwrap_or_default());
    }
    all.sort_by_key(|e| e.0);
    let n = all.len();
    for (_, ev) in all {
        writeln!(out, "{}", ev).unwrap();
    }
    out.flush().unwrap();
    let _ = std::fs::remove_file(&docfile);
    println!("{}", json!({"runs": n}));
    0
}

fn run(args: &[String]) -> i32 {
    let inp = arg_value(args, "--in").unwrap_or("-");
    let outp = arg_value(args, "--out").unwrap_or("-");
    let xq = arg_value(args, "--xq").unwrap_or("xq").to_string();
    let xe = arg_value(args, "--xe").unwrap_or("xe").to_string();
    let mut out = open_out(outp);
    let mut cases: Vec<J> = vec![];
    for_each_case(inp, |c| cases.push(c));
    // TLC prints cases in a run-dependent order: sort for reproducible traces
    cases.sort_by_key(|c| (c["di"].as_i64(), c["ei"].as_i64(), c["fi"].as_i64()));
    let jobs: usize = arg_value(args, "--jobs").and_then(|v| v.parse().ok()).unwrap_or(8);
    let chunks: Vec<Vec<J>> = (0..jobs).map(|k| cases.iter().skip(k).step_by(jobs).cloned().collect()).collect();
    let mut handles = vec![];
    for chunk in chunks {
        let (xq, xe) = (xq.clone(), xe.clone());
        handles.push(std::thread::spawn(move || {
            let mut evs: Vec<J> = vec![];
            for c in chunk {
                run_case(&c, &xq, &xe, &mut evs);
            }
            evs
        }));
    }
    let mut all: Vec<J> = vec![];
    for h in handles {
        all.extend(h.join().unwrap_or_default());
    }
    all.sort_by_key(|e| (e["di"].as_i64(), e["ei"].as_i64(), e["fi"].as_i64(), e["indent"].as_bool()));
    let n = all.len();
    for ev in all {
        writeln!(out, "{}", ev).unwrap();
    }
    out.flush().unwrap();
    println!("{}", json!({"runs": n}));
    0
}

fn run_case(c: &J, xq: &str, xe: &str, evs: &mut Vec<J>) {
    {
        let text = cps_to_string(&c["text"]);
        let expr = cps_to_string(&c["expr"]);
        let k = c["k"].as_str().unwrap_or("");
        for indent in [false, true] {
            let mut a: Vec<String> = vec![];
            // --setns arguments exactly as the specification gives them (well-formed and malformed ones)
            for v in c["setns"].as_array().map(|v| v.as_slice()).unwrap_or(&[]) {
                a.push("--setns".into());
                a.push(cps_to_string(v));
            }
            a.push("--xpath".into());
            a.push(expr.clone());
            if !indent {
                a.push("--no-indent".into());
            }
            let mut ev = json!({"event": k, "di": c["di"], "ei": c["ei"], "fi": c["fi"], "indent": indent,
                                "setns": c.get("setns").cloned().unwrap_or(json!([]))});
            if k == "xq" {
                let o = run_tool(xq, &a, &text);
                ev["code"] = json!(o.code);
                ev["stderr_len"] = json!(o.stderr_len);
                ev["utf8"] = json!(o.stdout_utf8);
                ev["stdout"] = string_to_cps(&o.stdout);
                // scalar outputs as the harness reads them
                let t = o.stdout.trim_end_matches('\n');
                ev["num"] = match t.parse::<f64>() {
                    Ok(x) => crate::xp::num_json(x),
                    Err(_) => json!({"cls": "unparsable", "v": 0}),
                };
                if c["value"]["t"] == "nodes" {
                    let sel: Vec<i64> = c["value"]["v"].as_array().map(|v| v.iter().filter_map(|x| x.as_i64()).collect()).unwrap_or_default();
                    let tree = c["tree"].clone();
                    let t2 = text.clone();
                    match guarded(move || render_selected(&t2, &tree, &sel)) {
                        Ok(Some(s)) => {
                            ev["sel_out"] = string_to_cps(&s);
                            ev["renderable"] = json!(true);
                        }
                        _ => {
                            ev["sel_out"] = json!([]);
                            ev["renderable"] = json!(false);
                        }
                    }
                } else {
                    ev["sel_out"] = json!([]);
                    ev["renderable"] = json!(true);
                }
            } else {
                a.push("--value".into());
                a.push(cps_to_string(&c["frag"]));
                let o = run_tool(xe, &a, &text);
                ev["code"] = json!(o.code);
                ev["stderr_len"] = json!(o.stderr_len);
                ev["utf8"] = json!(o.stdout_utf8);
                ev["expect_text"] = c["expect"].clone();
                ev["out"] = signature_of_text(&o.stdout);
                ev["exp"] = signature_of_text(&cps_to_string(&c["expect"]));
                ev["stdout_head"] = string_to_cps(&o.stdout.chars().take(200).collect::<String>());
            }
            evs.push(ev);
        }
    }
}
