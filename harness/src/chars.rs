//! C18: character classes (exhaustive interval dump) and names in their syntactic roles.

use crate::util::*;
use serde_json::{json, Value as J};
use std::io::Write;
use xml_dom::{AsExpandedName, Document, Node};
use xml_info::HasQName;

fn intervals<F: Fn(char) -> bool>(f: F) -> Vec<(u32, u32)> {
    // maximal intervals of scalar values on which f is true; surrogates are not scalar values and
    // break intervals (they are outside every class of the specification too).
    let mut out = vec![];
    let mut cur: Option<(u32, u32)> = None;
    for cp in 0u32..=0x10FFFF {
        let v = match char::from_u32(cp) {
            Some(c) => f(c),
            None => false,
        };
        if v {
            cur = match cur {
                Some((lo, _)) => Some((lo, cp)),
                None => Some((cp, cp)),
            };
        } else if let Some(iv) = cur.take() {
            out.push(iv);
        }
    }
    if let Some(iv) = cur {
        out.push(iv);
    }
    out
}

pub fn classes(args: &[String]) -> i32 {
    let out = arg_value(args, "--out").unwrap_or("-");
    let mut w = open_out(out);
    let tab: Vec<(&str, Box<dyn Fn(char) -> bool>)> = vec![
        ("char", Box::new(xml_nom::xmlchar::is_char)),
        ("namestart", Box::new(xml_nom::xmlchar::is_name_start_char)),
        ("namechar", Box::new(xml_nom::xmlchar::is_name_char)),
        ("pubid", Box::new(xml_nom::xmlchar::is_pubid_char)),
        ("encname", Box::new(xml_nom::xmlchar::is_enc_name)),
    ];
    for (name, f) in tab {
        let res = guarded(|| intervals(|c| f(c)));
        let rec = match res {
            Ok(iv) => json!({"event": "class", "cls": name,
                             "ivs": iv.iter().map(|(a, b)| json!([a, b])).collect::<Vec<_>>()}),
            Err(p) => json!({"event": "class", "cls": name, "panic": p, "ivs": []}),
        };
        writeln!(w, "{}", rec).unwrap();
    }
    0
}

fn qualified(prefix: Option<String>, local: String) -> String {
    match prefix {
        Some(p) if p != "xmlns" => format!("{}:{}", p, local),
        _ => local,
    }
}

fn elem_accepts(s: &str) -> bool {
    let text = format!("<{}/>", s);
    match xml_dom::XmlDocument::from_raw(&text) {
        Ok((rest, doc)) if rest.is_empty() => match doc.document_element() {
            Ok(e) => match e.as_expanded_name() {
                Ok(Some((l, p, _))) => qualified(p, l) == s,
                _ => false,
            },
            _ => false,
        },
        _ => false,
    }
}

fn elem_pair_accepts(s: &str) -> bool {
    let text = format!("<{}></{}>", s, s);
    match xml_dom::XmlDocument::from_raw(&text) {
        Ok((rest, doc)) if rest.is_empty() => match doc.document_element() {
            Ok(e) => match e.as_expanded_name() {
                Ok(Some((l, p, _))) => qualified(p, l) == s,
                _ => false,
            },
            _ => false,
        },
        _ => false,
    }
}

fn attr_accepts(s: &str) -> bool {
    let text = format!("<r {}=\"v\"/>", s);
    match xml_dom::XmlDocument::from_raw(&text) {
        Ok((rest, doc)) if rest.is_empty() => match doc.document_element() {
            Ok(e) => match e.attributes() {
                Some(m) => {
                    let v: Vec<_> = m.iter().collect();
                    v.len() == 1
                        && match v[0].as_expanded_name() {
                            Ok(Some((l, p, _))) => qualified(p, l) == s,
                            _ => false,
                        }
                }
                None => false,
            },
            _ => false,
        },
        _ => false,
    }
}

fn pi_accepts(s: &str) -> bool {
    let text = format!("<?{}?><r/>", s);
    match xml_dom::XmlDocument::from_raw(&text) {
        Ok((rest, doc)) if rest.is_empty() => {
            let kids: Vec<_> = doc.child_nodes().iter().collect();
            kids.len() == 2
                && match kids[0].as_pi() {
                    Some(pi) => {
                        use xml_dom::ProcessingInstruction;
                        pi.target() == s && pi.data().is_empty()
                    }
                    None => false,
                }
        }
        _ => false,
    }
}

fn ent_accepts(s: &str) -> bool {
    let text = format!("<!DOCTYPE r [<!ENTITY {} \"v\">]><r>&{};</r>", s, s);
    match xml_dom::XmlDocument::from_raw(&text) {
        Ok((rest, doc)) if rest.is_empty() => match doc.document_element() {
            Ok(e) => {
                let kids: Vec<_> = e.child_nodes().iter().collect();
                kids.len() == 1
                    && kids[0].node_type() == xml_dom::NodeType::EntityReference
                    && kids[0].node_name() == s
            }
            _ => false,
        },
        _ => false,
    }
}

fn doctype_accepts(s: &str) -> bool {
    let text = format!("<!DOCTYPE {}><r/>", s);
    match xml_parser::document(&text) {
        Ok((rest, tree)) if rest.is_empty() => match xml_info::XmlDocument::new(&tree) {
            Ok(doc) => {
                let d = doc.borrow().document_declaration();
                match d {
                    Some(d) => {
                        let d = d.borrow();
                        qualified(d.prefix().map(|p| p.to_string()), d.local_name().to_string())
                            == s
                    }
                    None => false,
                }
            }
            _ => false,
        },
        _ => false,
    }
}

fn obs<F: FnOnce() -> bool>(f: F) -> J {
    match guarded(f) {
        Ok(b) => J::Bool(b),
        Err(_) => J::String("panic".into()),
    }
}

/// Is a document accepted completely and does it hold exactly this character where it was written?
fn char_in_role(role: &str, c: char) -> bool {
    use xml_dom::{CharacterData, Element, ProcessingInstruction};
    let text = match role {
        "text" => format!("<r>a{}b</r>", c),
        "attr" => format!("<r x=\"a{}b\"/>", c),
        "comment" => format!("<r><!--a{}b--></r>", c),
        "pi" => format!("<r><?t a{}b?></r>", c),
        "cdata" => format!("<r><![CDATA[a{}b]]></r>", c),
        _ => return false,
    };
    let want = format!("a{}b", c);
    // white space is normalized in attribute values (3.3.3) and line ends everywhere (2.11): only acceptance is
    // asked for those characters
    let lenient = matches!(c, '\t' | '\n' | '\r');
    match xml_dom::XmlDocument::from_raw(&text) {
        Ok((rest, doc)) if rest.is_empty() => {
            let e = match doc.document_element() {
                Ok(e) => e,
                Err(_) => return false,
            };
            let got = match role {
                "attr" => Some(e.get_attribute("x")),
                _ => match e.first_child() {
                    Some(xml_dom::XmlNode::Text(t)) => t.data().ok(),
                    Some(xml_dom::XmlNode::Comment(t)) => t.data().ok(),
                    Some(xml_dom::XmlNode::CData(t)) => t.data().ok(),
                    Some(xml_dom::XmlNode::PI(p)) => Some(p.data()),
                    _ => None,
                },
            };
            lenient || got.as_deref() == Some(want.as_str())
        }
        _ => false,
    }
}

/// C18: the class Char as the parser applies it in each construct that is made of Chars: the set of code points
/// accepted (and preserved) as character data, in an attribute value, a comment, PI data and a CDATA section,
/// as maximal intervals - exhaustive over all scalar values, like `classes`.
pub fn charroles(args: &[String]) -> i32 {
    let out = arg_value(args, "--out").unwrap_or("-");
    let mut w = open_out(out);
    // one thread per site: every sweep is 1 114 112 parses of a tiny document
    let mut handles = vec![];
    for role in ["text", "attr", "comment", "pi", "cdata"] {
        handles.push(std::thread::spawn(move || {
            let res = guarded(|| intervals(|c| guarded(|| char_in_role(role, c)).unwrap_or(false)));
            (format!("char@{}", role), res)
        }));
    }
    for site in SITES {
        handles.push(std::thread::spawn(move || {
            let res = guarded(|| intervals(|c| guarded(|| accepted(&site_text(site, c))).unwrap_or(false)));
            (site.to_string(), res)
        }));
    }
    for h in handles {
        let (cls, res) = h.join().unwrap_or_else(|_| ("?".to_string(), Err("thread".to_string())));
        let rec = match res {
            Ok(iv) => json!({"event": "class", "cls": cls,
                             "ivs": iv.iter().map(|(a, b)| json!([a, b])).collect::<Vec<_>>()}),
            Err(p) => json!({"event": "class", "cls": cls, "panic": p, "ivs": []}),
        };
        writeln!(w, "{}", rec).unwrap();
    }
    0
}

/// Sites of the grammar where a character class decides acceptance (XmlChar.tla SiteClasses): the document written
/// for code point c; observed: is it accepted completely?
const SITES: [&str; 10] = [
    "encname1@decl", "encname@decl", "versionnum@decl", "pubid@dq", "pubid@sq", "namestart@elem", "namechar@elem",
    "namestart@attr", "namechar@attr", "namechar@xmlns",
];

fn site_text(site: &str, c: char) -> String {
    match site {
        "encname1@decl" => format!("<?xml version='1.0' encoding='{}a'?><r/>", c),
        "encname@decl" => format!("<?xml version='1.0' encoding='a{}a'?><r/>", c),
        "versionnum@decl" => format!("<?xml version='1.{}'?><r/>", c),
        "pubid@dq" => format!("<!DOCTYPE r PUBLIC \"a{}b\" \"s\"><r/>", c),
        "pubid@sq" => format!("<!DOCTYPE r PUBLIC 'a{}b' 's'><r/>", c),
        "namestart@elem" => format!("<{}a/>", c),
        "namechar@elem" => format!("<a{}b xmlns:a='u'/>", c),
        "namestart@attr" => format!("<r {}a='v'/>", c),
        "namechar@attr" => format!("<r xmlns:a='u' a{}b='v'/>", c),
        "namechar@xmlns" => format!("<r xmlns{}a='u'/>", c),
        _ => String::new(),
    }
}

fn accepted(text: &str) -> bool {
    matches!(xml_dom::XmlDocument::from_raw(text), Ok((rest, _)) if rest.is_empty())
}

pub fn names(args: &[String]) -> i32 {
    let inp = arg_value(args, "--in").unwrap_or("-");
    let out = arg_value(args, "--out").unwrap_or("-");
    let mut w = open_out(out);
    for_each_case(inp, |case| {
        let s = cps_to_string(&case["s"]);
        let rec = json!({
            "event": "name",
            "s": case["s"],
            "elem": obs(|| elem_accepts(&s)),
            "elem2": obs(|| elem_pair_accepts(&s)),
            "attr": obs(|| attr_accepts(&s)),
            "pi": obs(|| pi_accepts(&s)),
            "ent": obs(|| ent_accepts(&s)),
            "doctype": obs(|| doctype_accepts(&s)),
        });
        writeln!(w, "{}", rec).unwrap();
    });
    0
}
