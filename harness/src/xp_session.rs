//! (to be filled)
pub fn main(_args: &[String]) -> i32 {
    eprintln!("not implemented");
    2
}
