//! xp-session (C19): series of queries - succeeding and failing - on ONE evaluation context and ONE
//! document.  After every query the harness records what is observable through the public API:
//! Context::get_position / get_size, the answer, the answer of the same query on a fresh context and a
//! fresh parse, whether the document's serialization and every node's order key are unchanged; and once per
//! session whether parsing the same text twice gives equal documents.  Trace_Session.tla judges.
//!
//!   xp-session --in REPLAY --trace OUT --stats OUT [--sample N]     sessions enumerated by MC_Session
//!   xp-session --random N --seed S --trace OUT                      random sessions on random documents

use super::gen;
use super::{eval_fresh, load_doc, value_json, Doc};
use crate::util::*;
use serde_json::{json, Value as J};
use std::io::Write;
use xml_dom::{AsNode, Node, XmlNode};
use xml_xpath::eval::model::Context;

fn order_keys(doc: &Doc) -> Vec<(usize, usize)> {
    fn walk(n: &XmlNode, out: &mut Vec<(usize, usize)>) {
        out.push((n.id(), n.order()));
        if let Some(attrs) = n.attributes() {
            for a in attrs.iter() {
                let a = a.as_node();
                out.push((a.id(), a.order()));
            }
        }
        for c in n.child_nodes().iter() {
            walk(&c, out);
        }
    }
    let mut out = vec![];
    let _ = guarded(|| walk(&doc.dom.as_node(), &mut out));
    out
}

/// Run one session; `qs` are 1-based indices into `exprs`.
fn run_session(text: &str, tree: &J, binds: &J, exprs: &[String], qs: &[usize]) -> Result<(Vec<J>, bool, bool), String> {
    let doc = load_doc(text, tree)?;
    let ser0 = guarded(|| doc.dom.to_string()).unwrap_or_default();
    let ord0 = order_keys(&doc);
    let mut ctx = Context::default();
    if let Some(a) = binds.as_array() {
        for b in a {
            ctx.add_ns(Some(cps_to_string(&b[0]).as_str()), cps_to_string(&b[1]).as_str());
        }
    }
    let mut steps = vec![];
    for &q in qs {
        let expr = &exprs[q - 1];
        heartbeat(|| json!({"k": "crash", "expr": string_to_cps(expr), "text": string_to_cps(text)}).to_string());
        let obs = match guarded(|| match xml_xpath::query(doc.dom.clone(), expr, &mut ctx) {
            Ok(v) => value_json(&doc, &v),
            Err(e) => json!({"t": "err", "msg": e.to_string()}),
        }) {
            Ok(j) => j,
            Err(p) => json!({"t": "panic", "msg": p}),
        };
        let pos = ctx.get_position();
        let size = ctx.get_size();
        let ser_same = guarded(|| doc.dom.to_string()).map(|s| s == ser0).unwrap_or(false);
        let order_same = order_keys(&doc) == ord0;
        // the same query on a fresh context and a fresh parse
        let fresh = match load_doc(text, tree) {
            Ok(d2) => eval_fresh(&d2, expr, binds),
            Err(e) => json!({"t": "err", "msg": e}),
        };
        steps.push(json!({"obs": obs, "fresh": fresh, "pos": pos, "size": size,
                          "ser_same": ser_same, "order_same": order_same}));
    }
    // parsing the same text twice
    let (eq, ser_eq) = match (load_doc(text, tree), load_doc(text, tree)) {
        (Ok(a), Ok(b)) => (
            guarded(|| a.dom == b.dom).unwrap_or(false),
            guarded(|| a.dom.to_string() == b.dom.to_string()).unwrap_or(false),
        ),
        _ => (false, false),
    };
    Ok((steps, eq, ser_eq))
}

fn same(a: &J, b: &J) -> bool {
    let t = a["t"].as_str().unwrap_or("");
    t == b["t"].as_str().unwrap_or("-")
        && match t {
            "err" => true,
            "num" => a["n"]["cls"] == b["n"]["cls"] && a["n"]["v"] == b["n"]["v"] && a["n"]["cls"] != "other",
            _ => a["v"] == b["v"],
        }
}

pub fn main(args: &[String]) -> i32 {
    let trace = arg_value(args, "--trace").unwrap_or("-");
    let mut w = open_out(trace);
    if let Some(n) = arg_value(args, "--random") {
        let n: usize = n.parse().unwrap_or(100);
        let seed: u64 = arg_value(args, "--seed").and_then(|s| s.parse().ok()).unwrap_or(1);
        for ev in gen::random_sessions(seed, n) {
            let text = cps_to_string(&ev["text"]);
            let exprs: Vec<String> = ev["exprs"].as_array().unwrap().iter().map(cps_to_string).collect();
            let qs: Vec<usize> = ev["qs"].as_array().unwrap().iter().map(|q| q.as_u64().unwrap() as usize).collect();
            let mut ev = ev;
            match run_session(&text, &ev["tree"], &ev["binds"], &exprs, &qs) {
                Ok((steps, eq, ser_eq)) => {
                    ev["steps"] = json!(steps);
                    ev["reparse_eq"] = json!(eq);
                    ev["reparse_ser_eq"] = json!(ser_eq);
                }
                Err(e) => {
                    ev["k"] = json!("doc");
                    ev["error"] = json!(e);
                }
            }
            writeln!(w, "{}", ev).unwrap();
        }
        w.flush().unwrap();
        return 0;
    }
    let inp = arg_value(args, "--in").unwrap_or("-");
    let stats_path = arg_value(args, "--stats");
    let sample: u64 = arg_value(args, "--sample").and_then(|s| s.parse().ok()).unwrap_or(20);
    let mut sdoc: Option<J> = None;
    let mut sessions = 0u64;
    let mut queries = 0u64;
    let mut fast_ok = 0u64;
    let mut traced = 0u64;
    let mut samples: Vec<J> = vec![];
    for_each_case(inp, |case| match case["k"].as_str().unwrap_or("") {
        "sdoc" => sdoc = Some(case),
        "session" => {
            let sd = match &sdoc {
                Some(s) => s,
                None => return,
            };
            sessions += 1;
            let text = cps_to_string(&sd["text"]);
            let exprs: Vec<String> = sd["exprs"].as_array().unwrap().iter().map(cps_to_string).collect();
            let qs: Vec<usize> = case["qs"].as_array().unwrap().iter().map(|q| q.as_u64().unwrap() as usize).collect();
            queries += qs.len() as u64;
            let mut ev = json!({"k": "session", "tree": sd["tree"], "text": sd["text"], "binds": sd["binds"],
                                "asts": sd["asts"], "exprs": sd["exprs"], "qs": case["qs"]});
            let mut ok = true;
            match run_session(&text, &sd["tree"], &sd["binds"], &exprs, &qs) {
                Ok((steps, eq, ser_eq)) => {
                    for (i, s) in steps.iter().enumerate() {
                        if !(same(&s["obs"], &case["exp"][i]) && same(&s["fresh"], &s["obs"]) && s["pos"] == 0 && s["size"] == 0
                            && s["ser_same"] == true && s["order_same"] == true)
                        {
                            ok = false;
                        }
                    }
                    ok = ok && eq && ser_eq;
                    if samples.len() < 4 && sessions % 397 == 1 {
                        samples.push(json!({"document": text, "queries": qs.iter().map(|&q| exprs[q - 1].clone()).collect::<Vec<_>>(),
                                            "steps": steps}));
                    }
                    ev["steps"] = json!(steps);
                    ev["reparse_eq"] = json!(eq);
                    ev["reparse_ser_eq"] = json!(ser_eq);
                }
                Err(e) => {
                    ok = false;
                    ev["k"] = json!("doc");
                    ev["error"] = json!(e);
                }
            }
            if ok {
                fast_ok += 1;
            }
            if !ok || (sample > 0 && sessions % sample == 0) {
                writeln!(w, "{}", ev).unwrap();
                traced += 1;
            }
        }
        _ => {}
    });
    w.flush().unwrap();
    let stats = json!({"sessions": sessions, "queries": queries, "fast_ok": fast_ok, "traced": traced, "samples": samples});
    if let Some(p) = stats_path {
        let mut f = open_out(p);
        writeln!(f, "{}", stats).unwrap();
    }
    0
}
