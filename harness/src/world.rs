//! A "world": the real DOM objects behind a node pool of the specification, the projection of their
//! state through the public API (the Rust twin of Dom.tla's state record plus the navigational
//! views and document-order keys), and the execution of one specification call.

use crate::util::guarded;
use serde_json::{json, Value as J};
use std::collections::HashMap;
use xml_dom::{
    AsNode, Attr, Document, DocumentMut, ElementMut, NamedNodeMapMut, Node, NodeMut, XmlNode,
};

pub struct World {
    pub nodes: Vec<Option<XmlNode>>, // index = pool index (0 unused)
    pub kind: Vec<String>,
    pub owner: Vec<usize>,
    pub aname: Vec<String>,
    /// (main document) id -> pool index
    pub ids: HashMap<(usize, usize), usize>,
    pub docs: Vec<usize>, // pool indices of documents
}

pub const UNKNOWN: i64 = -1;
pub const PANIC: i64 = -2;

fn nth_child(n: &XmlNode, k: usize) -> Option<XmlNode> {
    n.child_nodes().iter().nth(k - 1)
}

impl World {
    /// Build the real objects for a pool description (the `pool` array of a POOL line).
    pub fn build(pool: &J, expanded: bool) -> Result<World, String> {
        let arr = pool.as_array().ok_or("pool is not an array")?;
        let n = arr.len();
        let mut w = World {
            nodes: vec![None; n + 1],
            kind: vec![String::new(); n + 1],
            owner: vec![0; n + 1],
            aname: vec![String::new(); n + 1],
            ids: HashMap::new(),
            docs: vec![],
        };
        for (i, d) in arr.iter().enumerate() {
            let i = i + 1;
            w.kind[i] = d["kind"].as_str().unwrap_or("").to_string();
            w.owner[i] = d["owner"].as_u64().unwrap_or(0) as usize;
            w.aname[i] = d["aname"].as_str().unwrap_or("").to_string();
        }
        // documents first
        for (i, d) in arr.iter().enumerate() {
            let i = i + 1;
            if d["how"] == "doc" {
                let text = d["text"].as_str().unwrap_or("");
                let ctx = xml_dom::Context::from_text_expanded(expanded);
                let (rest, doc) = xml_dom::XmlDocument::from_raw_with_context(text, ctx)
                    .map_err(|e| format!("pool document does not parse: {}", e))?;
                if !rest.is_empty() {
                    return Err("pool document has unconsumed input".into());
                }
                // Node ids are per document, and the foreign document is built exactly like the main one, so every
                // foreign node has the id of a main node (its twin, or the main node created at the same point): an
                // implementation that tells nodes apart by id alone - without asking whose document they belong to -
                // shows here.  (A foreign node that wrongly ends up inside the main tree is then reported under its
                // twin's index; the call that put it there has already been judged by its result.)
                w.docs.push(i);
                w.nodes[i] = Some(doc.as_node());
            }
        }
        for (i, d) in arr.iter().enumerate() {
            let i = i + 1;
            let how = d["how"].as_str().unwrap_or("");
            let owner = w.owner[i];
            let doc = match &w.nodes[owner] {
                Some(XmlNode::Document(d)) => d.clone(),
                _ => return Err("owner is not a document".into()),
            };
            match how {
                "doc" => {}
                "parsed" => {
                    let mut cur = doc.as_node();
                    for step in d["path"].as_array().ok_or("path")? {
                        let k = step.as_i64().unwrap_or(0);
                        cur = if k > 0 {
                            nth_child(&cur, k as usize).ok_or("bad path")?
                        } else {
                            let m = cur.attributes().ok_or("no attributes")?;
                            m.iter().nth((-k - 1) as usize).ok_or("bad attr path")?.as_node()
                        };
                    }
                    w.nodes[i] = Some(cur);
                }
                "spare" => {}
                "create" => {
                    let t = d["text"].as_str().unwrap_or("x");
                    let node = match w.kind[i].as_str() {
                        "elem" => doc.create_element(t).map_err(|e| e.to_string())?.as_node(),
                        "text" => doc.create_text_node(t).as_node(),
                        "comment" => doc.create_comment(t).as_node(),
                        "cdata" => doc.create_cdata_section(t).as_node(),
                        "pi" => doc
                            .create_processing_instruction(t, "d")
                            .map_err(|e| e.to_string())?
                            .as_node(),
                        "attr" => doc.create_attribute(t).map_err(|e| e.to_string())?.as_node(),
                        "eref" => doc
                            .create_entity_reference(t)
                            .map_err(|e| e.to_string())?
                            .as_node(),
                        k => return Err(format!("cannot create kind {}", k)),
                    };
                    w.nodes[i] = Some(node);
                }
                _ => return Err("bad how".into()),
            }
        }
        for i in 1..=n {
            if let Some(nd) = w.nodes[i].as_ref() {
                let id = nd.id();
                let d = if w.kind[i] == "doc" { i } else { w.owner[i] };
                w.ids.insert((d, id), i);
            }
        }
        Ok(w)
    }

    pub fn n(&self) -> usize {
        self.nodes.len() - 1
    }

    pub fn node(&self, i: usize) -> &XmlNode {
        self.nodes[i].as_ref().unwrap()
    }

    fn doc_of(&self, i: usize) -> usize {
        if self.kind[i] == "doc" {
            i
        } else {
            self.owner[i]
        }
    }

    /// pool index of a node met while looking from pool node `from`
    pub fn index_of(&self, from: usize, n: &XmlNode) -> i64 {
        let d = self.doc_of(from);
        match self.ids.get(&(d, n.id())) {
            Some(i) => *i as i64,
            None => UNKNOWN,
        }
    }

    pub fn register(&mut self, kind: &str, owner: usize, node: XmlNode) -> usize {
        let id = node.id();
        if let Some(i) = self.ids.get(&(owner, id)) {
            return *i;
        }
        self.nodes.push(Some(node));
        self.kind.push(kind.to_string());
        self.owner.push(owner);
        self.aname.push(String::new());
        let i = self.nodes.len() - 1;
        self.ids.insert((owner, id), i);
        i
    }

    fn opt_idx(&self, from: usize, f: impl FnOnce() -> Option<XmlNode>) -> i64 {
        match guarded(f) {
            Ok(Some(n)) => self.index_of(from, &n),
            Ok(None) => 0,
            Err(_) => PANIC,
        }
    }

    /// The abstract state as seen through the public API.
    pub fn project(&self) -> J {
        let n = self.n();
        let mut kids = vec![];
        let mut attrs = vec![];
        let mut par = vec![];
        let mut first = vec![];
        let mut last = vec![];
        let mut prev = vec![];
        let mut next = vec![];
        let mut has = vec![];
        let mut ord = vec![];
        for i in 1..=n {
            if self.nodes[i].is_none() {
                // a spare slot: the node does not exist (yet)
                kids.push(json!([]));
                attrs.push(json!([]));
                for v in [&mut par, &mut first, &mut last, &mut prev, &mut next, &mut has, &mut ord] {
                    v.push(J::from(0));
                }
                continue;
            }
            let h = self.node(i).clone();
            if self.kind[i] == "doc" && i != 1 {
                // a foreign document: only the pool nodes among its children are observed
                let k: Vec<J> = match guarded(|| h.child_nodes().iter().collect::<Vec<_>>()) {
                    Ok(v) => v
                        .iter()
                        .map(|c| self.index_of(i, c))
                        .filter(|x| *x != UNKNOWN)
                        .map(J::from)
                        .collect(),
                    Err(_) => vec![J::from(PANIC)],
                };
                kids.push(J::Array(k));
                attrs.push(json!([]));
                for v in [&mut par, &mut first, &mut last, &mut prev, &mut next, &mut has] {
                    v.push(J::from(0));
                }
                ord.push(J::from(0));
                continue;
            }
            let k: J = match guarded(|| h.child_nodes().iter().collect::<Vec<_>>()) {
                Ok(v) => J::Array(v.iter().map(|c| J::from(self.index_of(i, c))).collect()),
                Err(_) => json!([PANIC]),
            };
            kids.push(k);
            let a: J = if self.kind[i] == "elem" {
                match guarded(|| match h.attributes() {
                    Some(m) => m.iter().map(|a| a.as_node()).collect::<Vec<_>>(),
                    None => vec![],
                }) {
                    Ok(v) => J::Array(v.iter().map(|c| J::from(self.index_of(i, c))).collect()),
                    Err(_) => json!([PANIC]),
                }
            } else {
                json!([])
            };
            attrs.push(a);
            par.push(J::from(self.opt_idx(i, || h.parent_node())));
            first.push(J::from(self.opt_idx(i, || h.first_child())));
            last.push(J::from(self.opt_idx(i, || h.last_child())));
            prev.push(J::from(self.opt_idx(i, || h.previous_sibling())));
            next.push(J::from(self.opt_idx(i, || h.next_sibling())));
            has.push(match guarded(|| h.has_child()) {
                Ok(b) => J::from(if b { 1 } else { 0 }),
                Err(_) => J::from(PANIC),
            });
            ord.push(match guarded(|| h.order()) {
                Ok(o) => J::from(o as i64),
                Err(_) => J::from(PANIC),
            });
        }
        json!({"kids": kids, "attrs": attrs, "par": par, "first": first, "last": last,
               "prev": prev, "next": next, "has": has, "ord": ord})
    }

    /// Serialization of the main document (None if printing panics).
    pub fn print(&self) -> Option<String> {
        let h = self.node(1).clone();
        guarded(|| h.to_string()).ok()
    }

    fn err_name(e: &xml_dom::error::Error) -> String {
        match e {
            xml_dom::error::Error::Dom(d) => format!("{:?}", d),
            xml_dom::error::Error::Info(i) => format!("Info:{:?}", i),
            xml_dom::error::Error::Parse(_) => "Parse".to_string(),
        }
    }

    fn ret_node(&self, from: usize, r: Result<Result<XmlNode, xml_dom::error::Error>, String>) -> J {
        match r {
            Ok(Ok(n)) => json!({"ok": self.index_of(from, &n)}),
            Ok(Err(e)) => json!({"err": Self::err_name(&e)}),
            Err(p) => json!({"panic": p}),
        }
    }

    /// Execute one structural call of Dom.tla on the real objects.
    pub fn exec(&self, c: &J) -> J {
        if std::env::var("VERIF_DEBUG").is_ok() {
            eprintln!("exec {} in {}", c, state_only(&self.project()));
        }
        let op = c["op"].as_str().unwrap_or("");
        let r = c["r"].as_u64().unwrap_or(0) as usize;
        let recv = self.node(r).clone();
        let arg = |k: &str| -> Option<XmlNode> {
            match c[k].as_u64() {
                Some(0) | None => None,
                Some(i) => Some(self.node(i as usize).clone()),
            }
        };
        match op {
            "insert_before" | "append_child" => {
                let n = arg("n").unwrap();
                let rf = arg("ref");
                let use_append = op == "append_child";
                let res = guarded(|| {
                    macro_rules! go {
                        ($v:expr) => {
                            if use_append {
                                $v.append_child(n.clone())
                            } else {
                                $v.insert_before(n.clone(), rf.as_ref())
                            }
                        };
                    }
                    dispatch_mut(&recv, |m| match m {
                        Mut::Doc(v) => go!(v),
                        Mut::Elem(v) => go!(v),
                        Mut::Attr(v) => go!(v),
                        Mut::Text(v) => go!(v),
                        Mut::Comment(v) => go!(v),
                        Mut::CData(v) => go!(v),
                        Mut::PI(v) => go!(v),
                    })
                });
                self.ret_node(r, res)
            }
            "replace_child" => {
                let n = arg("n").unwrap();
                let old = arg("old").unwrap();
                let res = guarded(|| {
                    dispatch_mut(&recv, |m| match m {
                        Mut::Doc(v) => v.replace_child(n.clone(), &old),
                        Mut::Elem(v) => v.replace_child(n.clone(), &old),
                        Mut::Attr(v) => v.replace_child(n.clone(), &old),
                        Mut::Text(v) => v.replace_child(n.clone(), &old),
                        Mut::Comment(v) => v.replace_child(n.clone(), &old),
                        Mut::CData(v) => v.replace_child(n.clone(), &old),
                        Mut::PI(v) => v.replace_child(n.clone(), &old),
                    })
                });
                self.ret_node(r, res)
            }
            "remove_child" => {
                let old = arg("old").unwrap();
                let res = guarded(|| {
                    dispatch_mut(&recv, |m| match m {
                        Mut::Doc(v) => v.remove_child(&old),
                        Mut::Elem(v) => v.remove_child(&old),
                        Mut::Attr(v) => v.remove_child(&old),
                        Mut::Text(v) => v.remove_child(&old),
                        Mut::Comment(v) => v.remove_child(&old),
                        Mut::CData(v) => v.remove_child(&old),
                        Mut::PI(v) => v.remove_child(&old),
                    })
                });
                self.ret_node(r, res)
            }
            "set_attribute_node" | "set_named_item" => {
                let e = recv.as_element().unwrap();
                let a = match arg("a") {
                    Some(XmlNode::Attribute(a)) => a,
                    _ => return json!({"panic": "harness: not an attribute"}),
                };
                let via_map = op == "set_named_item";
                let res = guarded(|| {
                    if via_map {
                        e.attributes().unwrap().set_named_item(a.clone())
                    } else {
                        e.set_attribute_node(a.clone())
                    }
                });
                match res {
                    Ok(Ok(Some(old))) => json!({"ok": self.index_of(r, &old.as_node())}),
                    Ok(Ok(None)) => json!({"ok": 0}),
                    Ok(Err(e)) => json!({"err": Self::err_name(&e)}),
                    Err(p) => json!({"panic": p}),
                }
            }
            "remove_attribute_node" => {
                let e = recv.as_element().unwrap();
                let a = match arg("a") {
                    Some(XmlNode::Attribute(a)) => a,
                    _ => return json!({"panic": "harness: not an attribute"}),
                };
                let res = guarded(|| e.remove_attribute_node(a.clone()));
                match res {
                    Ok(Ok(old)) => json!({"ok": self.index_of(r, &old.as_node())}),
                    Ok(Err(e)) => json!({"err": Self::err_name(&e)}),
                    Err(p) => json!({"panic": p}),
                }
            }
            "remove_named_item" => {
                let e = recv.as_element().unwrap();
                let name = c["name"].as_str().unwrap_or("").to_string();
                let res = guarded(|| e.attributes().unwrap().remove_named_item(&name));
                match res {
                    Ok(Ok(old)) => json!({"ok": self.index_of(r, &old.as_node())}),
                    Ok(Err(e)) => json!({"err": Self::err_name(&e)}),
                    Err(p) => json!({"panic": p}),
                }
            }
            "remove_attribute" => {
                let e = recv.as_element().unwrap();
                let name = c["name"].as_str().unwrap_or("").to_string();
                let res = guarded(|| e.remove_attribute(&name));
                match res {
                    Ok(Ok(())) => json!({"ok": 0}),
                    Ok(Err(e)) => json!({"err": Self::err_name(&e)}),
                    Err(p) => json!({"panic": p}),
                }
            }
            _ => json!({"panic": format!("harness: unknown op {}", op)}),
        }
    }

    /// first unused spare slot of the main document
    pub fn spare(&self) -> Option<usize> {
        (1..=self.n()).find(|i| self.nodes[*i].is_none() && self.owner[*i] == 1)
    }

    /// calls that create nodes need `&mut self`: split_text puts the new node into the slot `new`
    pub fn exec_mut(&mut self, c: &J) -> J {
        if c["op"] == "set_value" {
            // Attr.value := "q": the attribute's children become one new Text node, which takes the pool slot `new`
            use xml_dom::AttrMut;
            let a = c["a"].as_u64().unwrap_or(0) as usize;
            let slot = c["new"].as_u64().unwrap_or(0) as usize;
            let at = match self.node(a) {
                XmlNode::Attribute(x) => x.clone(),
                _ => return json!({"panic": "harness: set_value on a non-attribute"}),
            };
            let at2 = at.clone();
            return match guarded(move || at2.set_value("q")) {
                Ok(Ok(())) => {
                    if let Ok(Some(node)) = guarded(|| at.first_child()) {
                        let id = node.id();
                        self.nodes[slot] = Some(node);
                        self.ids.insert((1, id), slot);
                    }
                    json!({"ok": 0})
                }
                Ok(Err(e)) => json!({"err": Self::err_name(&e)}),
                Err(p) => json!({"panic": p}),
            };
        }
        if c["op"] != "split_text" {
            return self.exec(c);
        }
        use xml_dom::TextMut;
        let r = c["r"].as_u64().unwrap_or(0) as usize;
        let slot = c["new"].as_u64().unwrap_or(0) as usize;
        let off = c["off"].as_u64().unwrap_or(0) as usize;
        let t = match self.node(r) {
            XmlNode::Text(t) => t.clone(),
            _ => return json!({"panic": "harness: split_text on a non-text node"}),
        };
        match guarded(move || t.split_text(off)) {
            Ok(Ok(n2)) => {
                let node = n2.as_node();
                let id = node.id();
                self.nodes[slot] = Some(node);
                self.ids.insert((1, id), slot);
                json!({"ok": slot})
            }
            Ok(Err(e)) => json!({"err": Self::err_name(&e)}),
            Err(p) => json!({"panic": p}),
        }
    }

    pub fn text_len(&self, i: usize) -> usize {
        use xml_dom::CharacterData;
        match self.node(i) {
            XmlNode::Text(t) => t.length(),
            _ => 0,
        }
    }

    pub fn attr_name(&self, i: usize) -> String {
        match self.node(i) {
            XmlNode::Attribute(a) => a.name(),
            _ => String::new(),
        }
    }
}

pub enum Mut<'a> {
    Doc(&'a xml_dom::XmlDocument),
    Elem(&'a xml_dom::XmlElement),
    Attr(&'a xml_dom::XmlAttr),
    Text(&'a xml_dom::XmlText),
    Comment(&'a xml_dom::XmlComment),
    CData(&'a xml_dom::XmlCDataSection),
    PI(&'a xml_dom::XmlProcessingInstruction),
}

pub fn dispatch_mut<T>(n: &XmlNode, f: impl FnOnce(Mut) -> T) -> T {
    match n {
        XmlNode::Document(v) => f(Mut::Doc(v)),
        XmlNode::Element(v) => f(Mut::Elem(v)),
        XmlNode::Attribute(v) => f(Mut::Attr(v)),
        XmlNode::Text(v) => f(Mut::Text(v)),
        XmlNode::Comment(v) => f(Mut::Comment(v)),
        XmlNode::CData(v) => f(Mut::CData(v)),
        XmlNode::PI(v) => f(Mut::PI(v)),
        _ => panic!("harness: receiver kind has no NodeMut"),
    }
}

#[allow(dead_code)]
pub fn doc_of(n: &XmlNode) -> Option<xml_dom::XmlDocument> {
    match n {
        XmlNode::Document(d) => Some(d.clone()),
        _ => n.owner_document(),
    }
}

#[allow(dead_code)]
pub fn root_of(d: &xml_dom::XmlDocument) -> Option<xml_dom::XmlElement> {
    d.document_element().ok()
}

pub fn state_only(abs: &J) -> J {
    json!({"kids": abs["kids"], "attrs": abs["attrs"]})
}
