//! C12/C13/C14, impl -> spec: long seeded random edit histories over a pool that is larger than the
//! exhaustive ones.  Every call is logged with the projected pre and post state; Trace_Dom.tla judges each
//! event from its own pre-state.  With `--queries` a battery of XPath expressions is evaluated after every
//! state change on the edited document and on a fresh parse of its serialization (C14, second half).

use crate::util::*;
use crate::world::*;
use rand::rngs::StdRng;
use rand::seq::SliceRandom;
use rand::{Rng, SeedableRng};
use serde_json::{json, Value as J};
use std::collections::HashMap;
use std::io::Write;
use xml_dom::{AsNode, Node, XmlNode};

fn n(kind: &str, owner: usize, aname: &str, how: &str, path: &[i64], text: &str) -> J {
    json!({"kind": kind, "owner": owner, "aname": aname, "how": how, "path": path, "text": text})
}

// (namespace declarations written AFTER an ordinary attribute: in document order an element's namespace nodes still come
// before its attributes, on a fresh parse and after any renumbering)
const DOC: &str = "<!DOCTYPE r><?p d?><r y=\"1\" xmlns:p=\"u\" z=\"2\"><a><b/>uvw<c x=\"3\" xmlns:q=\"v\"/></a>txyz<!--k--><d><e/></d></r><!--z--><?e f?>";

/// 30 nodes: a parsed document with every movable kind, factory-made nodes, a foreign document.
pub fn big_pool() -> J {
    let mut v = vec![
        n("doc", 1, "", "doc", &[], DOC),            // 1
        n("doctype", 1, "", "parsed", &[1], ""),     // 2
        n("pi", 1, "", "parsed", &[2], ""),          // 3
        n("elem", 1, "", "parsed", &[3], ""),        // 4 r
        n("attr", 1, "y", "parsed", &[3, -1], ""),   // 5
        n("attr", 1, "z", "parsed", &[3, -2], ""),   // 6
        n("elem", 1, "", "parsed", &[3, 1], ""),     // 7 a
        n("elem", 1, "", "parsed", &[3, 1, 1], ""),  // 8 b
        n("text", 1, "", "parsed", &[3, 1, 2], ""),  // 9 u
        n("elem", 1, "", "parsed", &[3, 1, 3], ""),  // 10 c
        n("attr", 1, "x", "parsed", &[3, 1, 3, -1], ""), // 11
        n("text", 1, "", "parsed", &[3, 2], ""),     // 12 t
        n("comment", 1, "", "parsed", &[3, 3], ""),  // 13
        n("elem", 1, "", "parsed", &[3, 4], ""),     // 14 d
        n("elem", 1, "", "parsed", &[3, 4, 1], ""),  // 15 e
        n("elem", 1, "", "create", &[], "f"),        // 16
        n("elem", 1, "", "create", &[], "g"),        // 17
        n("text", 1, "", "create", &[], "v"),        // 18
        n("cdata", 1, "", "create", &[], "w"),       // 19
        n("comment", 1, "", "create", &[], "m"),     // 20
        n("pi", 1, "", "create", &[], "q"),          // 21
        n("attr", 1, "x", "create", &[], "x"),       // 22
        n("attr", 1, "y", "create", &[], "y"),       // 23
        n("attr", 1, "w", "create", &[], "w"),       // 24
        n("text", 1, "", "parsed", &[3, -1, 1], ""), // 25 value of y
        n("text", 1, "", "parsed", &[3, -2, 1], ""), // 26 value of z
        n("text", 1, "", "parsed", &[3, 1, 3, -1, 1], ""), // 27 value of x
        // twins: distinct nodes that LOOK the same (an implementation must tell nodes apart by identity)
        n("elem", 1, "", "create", &[], "g"),        // 28
        n("text", 1, "", "create", &[], "v"),        // 29
        n("comment", 1, "", "create", &[], "m"),     // 30
        // the epilog: what is appended to the document element still comes BEFORE these
        n("comment", 1, "", "parsed", &[4], ""),     // 31
        n("pi", 1, "", "parsed", &[5], ""),          // 32
    ];
    // slots for the nodes that split_text and Attr.value := .. create
    for _ in 0..7 {
        v.push(n("text", 1, "", "spare", &[], ""));
    }
    let f = v.len() + 1;
    v.push(n("doc", f, "", "doc", &[], DOC)); // structurally equal foreign document
    v.push(n("elem", f, "", "create", &[], "f"));
    v.push(n("attr", f, "x", "create", &[], "x"));
    J::Array(v)
}

/// C15 over STRUCTURAL histories: a pool whose character data is harmless node by node and dangerous in combination
/// (`]]` next to `>`, an entity whose replacement text holds markup next to an attribute), so that the offending
/// sequence only arises from insertions.
const DOC15: &str = "<!DOCTYPE r [<!ENTITY e \"&#60;k/>\"><!ENTITY f \"v\">]><r y=\"1\"><a>]]</a><b>t</b>&f;</r>";

pub fn c15_pool() -> J {
    let mut v = vec![
        n("doc", 1, "", "doc", &[], DOC15),          // 1
        n("doctype", 1, "", "parsed", &[1], ""),     // 2
        n("elem", 1, "", "parsed", &[2], ""),        // 3 r
        n("attr", 1, "y", "parsed", &[2, -1], ""),   // 4
        n("elem", 1, "", "parsed", &[2, 1], ""),     // 5 a
        n("text", 1, "", "parsed", &[2, 1, 1], ""),  // 6 "]]"
        n("elem", 1, "", "parsed", &[2, 2], ""),     // 7 b
        n("text", 1, "", "parsed", &[2, 2, 1], ""),  // 8 "t"
        n("eref", 1, "", "parsed", &[2, 3], ""),     // 9 &f;
        n("text", 1, "", "parsed", &[2, -1, 1], ""), // 10 value of y
        n("text", 1, "", "create", &[], "]]"),       // 11
        n("text", 1, "", "create", &[], ">"),        // 12
        n("text", 1, "", "create", &[], "]"),        // 13
        n("text", 1, "", "create", &[], "]>"),       // 14
        n("cdata", 1, "", "create", &[], "]]"),      // 15
        n("comment", 1, "", "create", &[], "c"),     // 16
        n("eref", 1, "", "create", &[], "e"),        // 17
        n("eref", 1, "", "create", &[], "f"),        // 18
        n("elem", 1, "", "create", &[], "g"),        // 19
        n("attr", 1, "x", "create", &[], "x"),       // 20
        n("text", 1, "", "create", &[], "\""),       // 21
        n("text", 1, "", "create", &[], "'"),        // 22
    ];
    for _ in 0..2 {
        v.push(n("text", 1, "", "spare", &[], ""));
    }
    J::Array(v)
}

/// Content signature with maximal runs of character data merged (text, CDATA; entity references stay what they are):
/// comparable between a live document with adjacent / empty Text nodes and a fresh parse of its serialization.
fn content_sig(nd: &XmlNode) -> Result<J, String> {
    use xml_dom::{Attr, CharacterData, ProcessingInstruction};
    let e = |x: xml_dom::error::Error| x.to_string();
    let mut kids: Vec<J> = vec![];
    let mut run: Option<String> = None;
    for c in nd.child_nodes().iter() {
        let chars = match &c {
            XmlNode::Text(t) => Some(t.data().map_err(e)?),
            XmlNode::CData(t) => Some(t.data().map_err(e)?),
            XmlNode::ExpandedText(t) => Some(t.data().map_err(e)?),
            // a reference denotes its replacement text (a re-parse turns "&gt;" into a reference node, the DOM had
            // a character): character data is compared as characters
            XmlNode::EntityReference(r) => Some(r.value().map_err(e)?),
            _ => None,
        };
        if let Some(s) = chars {
            run = Some(run.unwrap_or_default() + &s);
            continue;
        }
        if let Some(r) = run.take() {
            if !r.is_empty() {
                kids.push(json!(["chars", string_to_cps(&r)]));
            }
        }
        match &c {
            XmlNode::Comment(t) => kids.push(json!(["comment", string_to_cps(&t.data().map_err(e)?)])),
            XmlNode::PI(p) => kids.push(json!(["pi", string_to_cps(&p.target()), string_to_cps(&p.data())])),
            XmlNode::Element(_) => kids.push(content_sig(&c)?),
            XmlNode::DocumentType(_) => {}
            other => kids.push(json!(["other", format!("{:?}", other.node_type())])),
        }
    }
    if let Some(r) = run.take() {
        if !r.is_empty() {
            kids.push(json!(["chars", string_to_cps(&r)]));
        }
    }
    let mut attrs: Vec<(String, String)> = vec![];
    if let Some(m) = nd.attributes() {
        for a in m.iter() {
            attrs.push((a.name(), a.value().map_err(e)?));
        }
    }
    attrs.sort();
    Ok(json!(["node", string_to_cps(&nd.node_name()),
              attrs.iter().map(|(n, v)| json!([string_to_cps(n), string_to_cps(v)])).collect::<Vec<_>>(), kids]))
}

/// maximal runs of adjacent Text children (Text only: not CDATA, not references) anywhere in the tree: what the
/// printer writes back to back as character data
fn text_runs(nd: &XmlNode, out: &mut Vec<J>) {
    use xml_dom::CharacterData;
    let mut run: Option<String> = None;
    for c in nd.child_nodes().iter() {
        match &c {
            XmlNode::Text(t) => {
                run = Some(run.unwrap_or_default() + &t.data().unwrap_or_default());
            }
            other => {
                if let Some(r) = run.take() {
                    out.push(string_to_cps(&r));
                }
                if let XmlNode::Element(_) = other {
                    text_runs(other, out);
                }
            }
        }
    }
    if let Some(r) = run.take() {
        out.push(string_to_cps(&r));
    }
}

/// after a call that reported success and changed the state: print, parse again, describe both
fn reprint(w: &World, call: &J, out: &mut dyn Write) -> usize {
    let doc = match w.node(1) {
        XmlNode::Document(d) => d.clone(),
        _ => return 0,
    };
    // a document without a document element has no serialization to speak of
    if xml_dom::Document::document_element(&doc).is_err() {
        return 0;
    }
    let d1 = doc.clone();
    let live = guarded(move || content_sig(&d1.as_node()));
    let text = w.print();
    let mut ev = json!({"event": "reprint", "call": call, "printed": text.is_some(), "reparsed": false, "live_ok": false,
                        "re_ok": false, "live": [], "re": [], "text": string_to_cps(text.as_deref().unwrap_or(""))});
    if let Ok(Ok(l)) = &live {
        ev["live"] = l.clone();
        ev["live_ok"] = json!(true);
    }
    let d3 = doc.clone();
    ev["text_runs"] = match guarded(move || {
        let mut v = vec![];
        text_runs(&d3.as_node(), &mut v);
        v
    }) {
        Ok(v) => J::Array(v),
        Err(_) => json!([]),
    };
    if let Some(t) = text {
        let r = guarded(move || xml_dom::XmlDocument::from_raw(&t).map(|(rest, d)| (rest.is_empty(), d)).map_err(|e| e.to_string()));
        if let Ok(Ok((true, d2))) = r {
            ev["reparsed"] = json!(true);
            if let Ok(Ok(s)) = guarded(move || content_sig(&d2.as_node())) {
                ev["re"] = s;
                ev["re_ok"] = json!(true);
            }
        }
    }
    writeln!(out, "{}", ev).unwrap();
    1
}

const BATTERY: &[&str] = &[
    "//node()", "//*", "//@*", "//text()", "//comment()", "//processing-instruction()",
    "/r//*[1]", "//*[last()]", "//a/following::node()", "//d/preceding::node()",
    "//b/ancestor::*", "//e/ancestor-or-self::node()[1]", "//*/following-sibling::node()[1]",
    "//*/preceding-sibling::node()[1]", "//f | //a | //r | //g", "(//g | //a | //d)[1]",
    "(//node())[last()]", "//*/@*[1]", "//*[@x]", "//*/..", "//@*/..", "count(//node())",
    "//d/descendant-or-self::node()", "//*/child::node()[2]", "//*[not(*)]", "/descendant::*[2]",
    "//a/parent::*/child::*", "//c/following::*", "//g/preceding::*", "count(//@*)", "string(/)",
    "//*[. = 'u']", "//node()[2]/preceding-sibling::node()",
    // 0 iff the first node of (attributes | namespace nodes) of the element is a namespace node / the last an attribute
    "count((/r/@* | /r/namespace::*)[1] | /r/namespace::*) - count(/r/namespace::*)",
    "count((//c/@* | //c/namespace::*)[1] | //c/namespace::*) - count(//c/namespace::*)",
    "count((/r/@* | /r/namespace::*)[last()] | /r/@*) - count(/r/@*)",
    "count(//namespace::*)", "count(/r/namespace::*)", "count(//d/namespace::* | //e/namespace::*)",
    "//r/following::node()", "(//node())[last()]/preceding::*[1]",
];

/// id -> (structural path, pre-order index), computed by walking child_nodes()/attributes()
fn index_doc(doc: &XmlNode) -> HashMap<usize, (String, i64)> {
    fn walk(nd: &XmlNode, path: String, k: &mut i64, m: &mut HashMap<usize, (String, i64)>) {
        *k += 1;
        m.insert(nd.id(), (path.clone(), *k));
        if let Some(attrs) = nd.attributes() {
            let mut names: Vec<(String, XmlNode)> = attrs.iter().map(|a| (a.as_node().node_name(), a.as_node())).collect();
            // the relative order of one element's attributes is implementation-dependent: sort by name so
            // that the index is comparable with the re-parsed copy
            names.sort_by(|a, b| a.0.cmp(&b.0));
            // ... and for the same reason they all get ONE index (ties are allowed among them)
            if !names.is_empty() {
                *k += 1;
            }
            for (nm, a) in names {
                m.insert(a.id(), (format!("{}/@{}", path, nm), *k));
            }
        }
        for (i, c) in nd.child_nodes().iter().enumerate() {
            walk(&c, format!("{}/{}", path, i + 1), k, m);
        }
    }
    let mut m = HashMap::new();
    let mut k = 0;
    walk(doc, String::new(), &mut k, &mut m);
    m
}

fn run_query(doc: &xml_dom::XmlDocument, expr: &str, ctx: &mut xml_xpath::eval::model::Context) -> (J, J) {
    let d = doc.clone();
    let idx = match guarded(|| index_doc(&d.as_node())) {
        Ok(m) => m,
        Err(p) => return (json!({"panic": p}), json!([])),
    };
    let d2 = doc.clone();
    let r = guarded(|| xml_xpath::query(d2, expr, ctx).map_err(|e| e.to_string()));
    match r {
        Err(p) => (json!({"panic": p.chars().take(80).collect::<String>()}), json!([])),
        Ok(Err(_)) => (json!({"err": 1}), json!([])),
        Ok(Ok(v)) => match v {
            xml_xpath::eval::model::Value::Node(ns) => {
                let mut paths = vec![];
                let mut ids = vec![];
                for x in ns.iter() {
                    match idx.get(&x.id()) {
                        Some((p, k)) => {
                            paths.push(J::from(p.clone()));
                            ids.push(J::from(*k));
                        }
                        None => {
                            paths.push(J::from("?"));
                            ids.push(J::from(0));
                        }
                    }
                }
                (J::Array(paths), J::Array(ids))
            }
            xml_xpath::eval::model::Value::Boolean(b) => (json!({"bool": b}), json!([])),
            xml_xpath::eval::model::Value::Number(x) => (json!({"num": format!("{}", x)}), json!([])),
            xml_xpath::eval::model::Value::Text(s) => (json!({"str": string_to_cps(&s)}), json!([])),
        },
    }
}

/// two adjacent Text children would be merged by a re-parse: such documents are excluded from the query
/// comparison (not from anything else)
fn has_adjacent_text(w: &World, abs: &J) -> bool {
    for ks in abs["kids"].as_array().unwrap() {
        let ks = ks.as_array().unwrap();
        // an empty Text child (split_text at either end) is not representable in a serialization either
        for k in ks {
            let a = k.as_i64().unwrap_or(0);
            if a > 0 && w.kind[a as usize] == "text" && w.nodes[a as usize].is_some() && w.text_len(a as usize) == 0 {
                return true;
            }
        }
        for p in ks.windows(2) {
            let (a, b) = (p[0].as_i64().unwrap_or(0), p[1].as_i64().unwrap_or(0));
            if a > 0 && b > 0 && w.kind[a as usize] == "text" && w.kind[b as usize] == "text" {
                return true;
            }
        }
    }
    false
}

/// The live document is queried with ONE evaluation context for the whole history (`live_ctx`): whatever a context
/// remembers must not outlive an edit.  The re-parsed copy gets a fresh one.
fn queries(w: &World, abs: &J, out: &mut dyn Write, live_ctx: &mut xml_xpath::eval::model::Context) -> usize {
    let doc = match w.node(1) {
        XmlNode::Document(d) => d.clone(),
        _ => return 0,
    };
    // the comparison with a fresh parse needs a document that has a faithful serialization (no adjacent or empty Text
    // nodes; printing and parsing are C15's business); the STRUCTURE of the node-sets (C07) is judged on every document
    let mut re: Option<xml_dom::XmlDocument> = None;
    let mut text = String::new();
    if !has_adjacent_text(w, abs) {
        if let Some(t) = w.print() {
            if let Ok(Ok((true, d))) = guarded(|| xml_dom::XmlDocument::from_raw(&t).map(|(r, d)| (r.is_empty(), d)).map_err(|e| e.to_string())) {
                re = Some(d);
                text = t;
            }
        }
    }
    let mut k = 0;
    for expr in BATTERY {
        let (live, idx) = run_query(&doc, expr, live_ctx);
        let rep = match &re {
            Some(d) => run_query(d, expr, &mut Default::default()).0,
            None => live.clone(), // not comparable: nothing to say for C14
        };
        writeln!(out, "{}", json!({"event": "query", "expr": expr, "live": live, "re": rep, "idx": idx, "text": text,
                                   "comparable": re.is_some()})).unwrap();
        k += 1;
    }
    k
}

fn random_call(w: &World, rng: &mut StdRng) -> J {
    let nn = w.n();
    let main = |i: usize| (if w.kind[i] == "doc" { i } else { w.owner[i] }) == 1;
    let movable: Vec<usize> = (1..=nn)
        .filter(|i| w.nodes[*i].is_some() && w.kind[*i] != "doc" && w.kind[*i] != "attr")
        .collect();
    // split_text: an existing text node of the main document, while a spare slot is left
    if let Some(slot) = w.spare() {
        if rng.gen_range(0..100) < 6 {
            let texts: Vec<usize> = movable.iter().cloned().filter(|i| w.kind[*i] == "text" && main(*i) && w.text_len(*i) >= 1).collect();
            if let Some(t) = texts.choose(rng) {
                let len = w.text_len(*t);
                return json!({"op": "split_text", "r": t, "new": slot, "off": rng.gen_range(0..=len)});   // both ends included: an empty half is a node too
            }
        }
    }
    let attrs: Vec<usize> = (1..=nn).filter(|i| w.nodes[*i].is_some() && w.kind[*i] == "attr").collect();
    // Attr.value := "q" on an attribute of the main document, while a spare slot is left for the Text node it creates
    if let Some(slot) = w.spare() {
        if rng.gen_range(0..100) < 3 {
            let mine: Vec<usize> = attrs.iter().cloned().filter(|i| main(*i)).collect();
            if let Some(a) = mine.choose(rng) {
                return json!({"op": "set_value", "a": a, "new": slot});
            }
        }
    }
    let elems: Vec<usize> = (1..=nn).filter(|i| w.kind[*i] == "elem" && main(*i)).collect();
    let recv: Vec<usize> = (1..=nn)
        .filter(|i| w.nodes[*i].is_some() && main(*i) && w.kind[*i] != "doctype" && w.kind[*i] != "eref")
        .collect();
    // receivers: mostly containers
    let containers: Vec<usize> = recv.iter().cloned().filter(|i| ["doc", "elem", "attr"].contains(&w.kind[*i].as_str())).collect();
    let r = if rng.gen_bool(0.85) { *containers.choose(rng).unwrap() } else { *recv.choose(rng).unwrap() };
    let pick_child = |rng: &mut StdRng, r: usize| -> Option<usize> {
        let ks: Vec<XmlNode> = w.node(r).child_nodes().iter().collect();
        if ks.is_empty() {
            return None;
        }
        let c = &ks[rng.gen_range(0..ks.len())];
        let i = w.index_of(r, c);
        if i > 0 { Some(i as usize) } else { None }
    };
    let names = ["x", "y", "z", "w"];
    match rng.gen_range(0..100) {
        0..=24 => json!({"op": "append_child", "r": r, "n": movable.choose(rng).unwrap()}),
        25..=44 => {
            let rf = if rng.gen_bool(0.8) { pick_child(rng, r).unwrap_or(0) } else if rng.gen_bool(0.5) { 0 } else { *movable.choose(rng).unwrap() };
            json!({"op": "insert_before", "r": r, "n": movable.choose(rng).unwrap(), "ref": rf})
        }
        45..=59 => {
            let old = if rng.gen_bool(0.8) { pick_child(rng, r).unwrap_or(*movable.choose(rng).unwrap()) } else { *movable.choose(rng).unwrap() };
            // every third time the replacement is a node of the same kind as the one it replaces (look-alikes among them)
            let same_kind: Vec<usize> = movable.iter().cloned().filter(|i| w.kind[*i] == w.kind[old] && *i != old).collect();
            let nn = if !same_kind.is_empty() && rng.gen_range(0..3) == 0 { *same_kind.choose(rng).unwrap() } else { *movable.choose(rng).unwrap() };
            json!({"op": "replace_child", "r": r, "n": nn, "old": old})
        }
        60..=74 => {
            let old = if rng.gen_bool(0.8) { pick_child(rng, r).unwrap_or(*movable.choose(rng).unwrap()) } else { *movable.choose(rng).unwrap() };
            json!({"op": "remove_child", "r": r, "old": old})
        }
        75..=82 => json!({"op": "set_attribute_node", "r": elems.choose(rng).unwrap(), "a": attrs.choose(rng).unwrap()}),
        83..=87 => json!({"op": "set_named_item", "r": elems.choose(rng).unwrap(), "a": attrs.choose(rng).unwrap()}),
        88..=92 => json!({"op": "remove_attribute_node", "r": elems.choose(rng).unwrap(), "a": attrs.choose(rng).unwrap()}),
        93..=96 => json!({"op": "remove_named_item", "r": elems.choose(rng).unwrap(), "name": names.choose(rng).unwrap()}),
        _ => json!({"op": "remove_attribute", "r": elems.choose(rng).unwrap(), "name": names.choose(rng).unwrap()}),
    }
}

pub fn record(args: &[String]) -> i32 {
    let outp = arg_value(args, "--out").unwrap_or("-");
    let hist: usize = arg_value(args, "--histories").and_then(|v| v.parse().ok()).unwrap_or(10);
    let len: usize = arg_value(args, "--len").and_then(|v| v.parse().ok()).unwrap_or(100);
    let seed: u64 = arg_value(args, "--seed").and_then(|v| v.parse().ok()).unwrap_or(1);
    let with_q = arg_flag(args, "--queries");
    let with_c15 = arg_flag(args, "--c15");
    let merged = arg_flag(args, "--merged");
    let pool = if with_c15 { c15_pool() } else { big_pool() };
    let mut out = open_out(outp);
    writeln!(out, "{}", json!({"event": "pool", "pool": pool})).unwrap();
    if let Some(wd) = arg_value(args, "--watch") {
        watchdog_start(wd, 20, arg_flag(args, "--sync"));
    }
    let mut rng = StdRng::seed_from_u64(seed);
    let mut steps = 0usize;
    let mut nq = 0usize;
    for h in 0..hist {
        let mut w = match World::build(&pool, merged) {
            Ok(w) => w,
            Err(e) => {
                eprintln!("cannot build the pool: {}", e);
                return 2;
            }
        };
        writeln!(out, "{}", json!({"event": "reset", "history": h})).unwrap();
        let mut pre = w.project();
        let mut hist: Vec<J> = vec![];
        // every third history: a namespace declaration reaches the document element the long way round (attribute node
        // created, valued, the document looked at, then attached) - not a pool node: attributes() does not list declarations
        if !with_c15 && !merged && h % 3 == 1 {
            ns_prelude(&w);
            writeln!(out, "{}", json!({"event": "prelude"})).unwrap();
            pre = w.project();
        }
        let mut live_ctx = xml_xpath::eval::model::Context::default();
        if with_q && !with_c15 && !merged && h % 3 == 1 {
            // the battery right after the prelude: the next structural edit would renumber everything
            nq += queries(&w, &pre, &mut *out, &mut live_ctx);
        }
        // every second history opens with a scripted prefix that a random writer meets too rarely: a node replaced by
        // its look-alike (same kind, same name / data, another node), then the random calls take over
        let script: Vec<J> = if !with_c15 && !merged && h % 2 == 0 {
            vec![json!({"op": "append_child", "r": 4, "n": 17}), json!({"op": "replace_child", "r": 4, "n": 28, "old": 17}),
                 json!({"op": "append_child", "r": 7, "n": 18}), json!({"op": "replace_child", "r": 7, "n": 29, "old": 18}),
                 json!({"op": "insert_before", "r": 4, "n": 20, "ref": 7}), json!({"op": "replace_child", "r": 4, "n": 30, "old": 20}),
                 // the document element asked to change places with the PI in front of it / the comment behind it
                 json!({"op": "insert_before", "r": 1, "n": 4, "ref": 3}), json!({"op": "insert_before", "r": 1, "n": 31, "ref": 4})]
        } else {
            vec![]
        };
        for step in 0..(len + script.len()) {
            let mut c = if step < script.len() { script[step].clone() } else { random_call(&w, &mut rng) };
            if with_c15 {
                // the DOCTYPE stays where it is: a document whose declarations were taken away while references to them
                // remain is outside C15's quantifier (creation, insertion and data-editing calls)
                let touches_doctype = |c: &J| [&c["n"], &c["old"]].iter().any(|x| x.as_u64() == Some(2));
                let mut tries = 0;
                while touches_doctype(&c) && tries < 20 {
                    c = random_call(&w, &mut rng);
                    tries += 1;
                }
                if touches_doctype(&c) {
                    continue;
                }
            }
            // every fourth recorded call of an unscripted history is preceded by a SILENT one: made, its return value kept,
            // and nothing read from the document before the recorded call runs (what an implementation leaves pending -
            // a renumbering - is then still pending)
            let mut silent: Option<(J, J)> = None;
            if !with_c15 && !merged && step >= script.len() && rng.gen_range(0..4) == 0 {
                let c0 = random_call(&w, &mut rng);
                if c0["op"] != "split_text" && c0["op"] != "set_value" {
                    heartbeat(|| json!({"event": "crash", "call": c0, "calls": hist}).to_string());
                    hist.push(c0.clone());
                    let o0 = w.exec_mut(&c0);
                    silent = Some((c0, o0));
                }
            }
            heartbeat(|| json!({"event": "crash", "call": c, "calls": hist}).to_string());
            hist.push(c.clone());
            let outc = w.exec_mut(&c);
            let post = w.project();
            if let Some((c0, o0)) = &silent {
                writeln!(out, "{}", json!({"event": "call", "burst": true, "silent": c0, "silent_out": o0, "call": c, "out": outc, "pre": pre, "post": post})).unwrap();
            } else if merged {
                writeln!(out, "{}", json!({"event": "call", "merged": true, "call": c, "out": outc, "pre": pre, "post": post})).unwrap();
            } else {
                writeln!(out, "{}", json!({"event": "call", "call": c, "out": outc, "pre": pre, "post": post})).unwrap();
            }
            out.flush().unwrap();
            steps += 1;
            if with_q && state_only(&post) != state_only(&pre) {
                nq += queries(&w, &post, &mut *out, &mut live_ctx);
            }
            if with_c15 && outc.get("ok").is_some() && state_only(&post) != state_only(&pre) {
                nq += reprint(&w, &c, &mut *out);
            }
            pre = post;
        }
    }
    out.flush().unwrap();
    println!("{}", json!({"steps": steps, "queries": nq, "histories": hist}));
    0
}

/// a namespace declaration attached to the document element the long way round (see record)
fn ns_prelude(w: &World) {
    use xml_dom::{AttrMut, Document, DocumentMut, ElementMut};
    if let XmlNode::Document(d) = w.node(1).clone() {
        let _ = guarded(|| {
            if let (Ok(a), Ok(r)) = (d.create_attribute("xmlns:n"), d.document_element()) {
                let _ = a.set_value("w");
                let _ = w.project();
                let _ = r.set_attribute_node(a);
            }
        });
    }
}

/// Re-run a stored case {pool, event{hist?, call}} or {pool, calls[], event}: rebuild the world, apply the
/// history, apply the call, log the event.
pub fn rerun(args: &[String]) -> i32 {
    let inp = arg_value(args, "--in").unwrap_or("-");
    let outp = arg_value(args, "--out").unwrap_or("-");
    let text = std::fs::read_to_string(inp).unwrap_or_default();
    let case: J = serde_json::from_str(&text).unwrap_or(J::Null);
    let pool = case["pool"].clone();
    let mut w = match World::build(&pool, false) {
        Ok(w) => w,
        Err(e) => {
            eprintln!("cannot build the pool: {}", e);
            return 2;
        }
    };
    let mut out = open_out(outp);
    writeln!(out, "{}", json!({"event": "pool", "pool": pool})).unwrap();
    let ev = &case["event"];
    let hist = case.get("calls").cloned().unwrap_or_else(|| if ev.get("calls").is_some() { ev["calls"].clone() } else { ev["hist"].clone() });
    if let Some(wd) = arg_value(args, "--watch") {
        watchdog_start(wd, 20, arg_flag(args, "--sync"));
    }
    heartbeat(|| json!({"event": "crash", "call": ev["call"], "calls": hist}).to_string());
    if case["prelude"] == true {
        ns_prelude(&w);
    }
    let mut live_ctx = xml_xpath::eval::model::Context::default();
    let mut before = w.project();
    let calls = hist.as_array().cloned().unwrap_or_default();
    for (ci, c) in calls.iter().enumerate() {
        let _ = w.exec_mut(c);
        if ev["event"] == "query" && ci + 1 < calls.len() {
            // as in the recording: the battery ran, on the one context, after every call that changed the state
            let after = w.project();
            if state_only(&after) != state_only(&before) {
                queries(&w, &after, &mut std::io::sink(), &mut live_ctx);
            }
            before = after;
        }
    }
    let pre = w.project();
    if ev["event"] == "reprint" {
        reprint(&w, &ev["call"], &mut *out);
    } else if ev["event"] == "query" {
        queries(&w, &pre, &mut *out, &mut live_ctx);
    } else {
        let outc = w.exec_mut(&ev["call"]);
        let post = w.project();
        writeln!(out, "{}", json!({"event": "call", "call": ev["call"], "out": outc, "pre": pre, "post": post})).unwrap();
    }
    out.flush().unwrap();
    0
}
