//! C10, spec -> impl: every document of MC_Ns.tla (declaration layouts) is parsed; the expanded name and the
//! in-scope namespaces of every element are read through the public API (`as_expanded_name`,
//! `in_scope_namespace`) and the name tests are evaluated with the caller's bindings, on the document and on
//! its consistently renamed twin.  Trace_Ns.tla judges every document.

use crate::util::*;
use serde_json::{json, Value as J};
use std::collections::HashMap;
use std::io::Write;
use xml_dom::{AsExpandedName, AsNode, Node, XmlNode};

pub fn main(sub: &str, args: &[String]) -> i32 {
    match sub {
        "ns-run" => run(args),
        _ => {
            eprintln!("unknown subcommand {}", sub);
            2
        }
    }
}

fn elements_in_order(n: &XmlNode, out: &mut Vec<XmlNode>) {
    if let XmlNode::Element(_) = n {
        out.push(n.clone());
    }
    for c in n.child_nodes().iter() {
        elements_in_order(&c, out);
    }
}

fn observe_elems(doc: &crate::xp::Doc) -> J {
    let mut els = vec![];
    elements_in_order(&doc.dom.as_node(), &mut els);
    let mut out = vec![];
    for e in els {
        let idx = *doc.ids.get(&e.id()).unwrap_or(&0);
        let x = match &e {
            XmlNode::Element(x) => x.clone(),
            _ => continue,
        };
        let x2 = x.clone();
        let name = guarded(move || x2.as_expanded_name().map_err(|e| e.to_string()));
        let x3 = x.clone();
        let scope = guarded(move || {
            x3.in_scope_namespace().map_err(|e| e.to_string()).and_then(|v| {
                let mut o = vec![];
                for n in v {
                    let p = n.node_name();
                    let p = if p == "xmlns" { String::new() } else { p };
                    let u = n.node_value().map_err(|e| e.to_string())?.unwrap_or_default();
                    o.push(json!([string_to_cps(&p), string_to_cps(&u)]));
                }
                Ok(o)
            })
        });
        let mut rec = json!({"idx": idx});
        match name {
            Ok(Ok(Some((l, p, u)))) => {
                let p = match p {
                    Some(p) if p != "xmlns" => p,
                    _ => String::new(),
                };
                rec["loc"] = string_to_cps(&l);
                rec["pre"] = string_to_cps(&p);
                rec["uri"] = string_to_cps(&u.unwrap_or_default());
                rec["named"] = json!(true);
            }
            _ => {
                rec["loc"] = json!([]);
                rec["pre"] = json!([]);
                rec["uri"] = json!([]);
                rec["named"] = json!(false);
            }
        }
        match scope {
            Ok(Ok(v)) => {
                rec["scope"] = J::Array(v);
                rec["scoped"] = json!(true);
            }
            _ => {
                rec["scope"] = json!([]);
                rec["scoped"] = json!(false);
            }
        }
        out.push(rec);
    }
    J::Array(out)
}

/// expanded names and in-scope namespaces of all elements in document order, without node identities (the scope is
/// sorted): comparable between an edited document and a fresh parse of its serialization
fn observe_plain(dom: &xml_dom::XmlDocument) -> J {
    let fake = crate::xp::Doc { dom: dom.clone(), ids: HashMap::new(), mismatch: None, text: String::new() };
    let mut v = observe_elems(&fake).as_array().cloned().unwrap_or_default();
    for e in v.iter_mut() {
        e["idx"] = json!(0);
        let mut sc: Vec<J> = e["scope"].as_array().cloned().unwrap_or_default();
        sc.sort_by_key(|x| x.to_string());
        e["scope"] = json!(sc);
    }
    J::Array(v)
}

fn edits(text: &str) -> J {
    use xml_dom::{Document, ElementMut, NodeMut};
    let mut out = vec![];
    let plans: Vec<(&str, Box<dyn Fn(&xml_dom::XmlDocument) -> bool>)> = vec![
        ("root.set_attribute(xmlns:p, u2)", Box::new(|d| d.document_element().map(|r| r.set_attribute("xmlns:p", "u2").is_ok()).unwrap_or(false))),
        ("root.remove_attribute(xmlns:p)", Box::new(|d| d.document_element().map(|r| r.remove_attribute("xmlns:p").is_ok()).unwrap_or(false))),
        ("root.set_attribute(xmlns, u2)", Box::new(|d| d.document_element().map(|r| r.set_attribute("xmlns", "u2").is_ok()).unwrap_or(false))),
        ("root.remove_attribute(xmlns)", Box::new(|d| d.document_element().map(|r| r.remove_attribute("xmlns").is_ok()).unwrap_or(false))),
        ("root.append_child(last element)", Box::new(|d| {
            let r = match d.document_element() { Ok(r) => r, Err(_) => return false };
            let mut els = vec![];
            elements_in_order(&d.as_node(), &mut els);
            match els.last() {
                Some(last) if els.len() >= 3 => r.append_child(last.clone()).is_ok(),
                _ => false,
            }
        })),
    ];
    for (name, f) in plans {
        let t = text.to_string();
        let r = guarded(move || -> Option<J> {
            let doc = crate::xp::parse_merged(&t).ok()?;
            // resolve every name once BEFORE the edit (an implementation may remember what it resolved)
            let _ = observe_plain(&doc);
            if !f(&doc) {
                return None;
            }
            let live = observe_plain(&doc);
            let ser = doc.to_string();
            // serializability after edits is C15's business: without a re-parse the live view is still judged
            // against the specification's edit action
            let (re, reparsed) = match crate::xp::parse_merged(&ser) {
                Ok(d2) => (observe_plain(&d2), true),
                Err(_) => (json!([]), false),
            };
            Some(json!({"edit": name, "live": live, "re": re, "reparsed": reparsed, "text": string_to_cps(&ser)}))
        });
        match r {
            Ok(Some(j)) => out.push(j),
            Ok(None) => {}
            Err(p) => out.push(json!({"edit": name, "live": [{"panic": p, "named": false, "scoped": false}], "re": [], "reparsed": true, "text": []})),
        }
    }
    J::Array(out)
}

fn rebind_queries(doc: &crate::xp::Doc, q: &J) -> J {
    // add_ns(e, <another uri>) ; add_ns(e, <the uri of the binding>) on ONE context
    let pre = cps_to_string(&q["binds"][0][0]);
    let uri = cps_to_string(&q["binds"][0][1]);
    let mut obs = vec![];
    for e in q["exprs"].as_array().cloned().unwrap_or_default() {
        let expr = cps_to_string(&e);
        let (p2, u2, d2) = (pre.clone(), uri.clone(), doc.dom.clone());
        let r = guarded(move || {
            let mut ctx = xml_xpath::eval::model::Context::default();
            ctx.add_ns(Some(p2.as_str()), "urn:somewhere-else");
            ctx.add_ns(Some(p2.as_str()), u2.as_str());
            xml_xpath::query(d2, &expr, &mut ctx).map_err(|e| e.to_string())
        });
        obs.push(match r {
            Ok(Ok(v)) => crate::xp::value_json(doc, &v),
            Ok(Err(e)) => json!({"t": "err", "msg": e}),
            Err(p) => json!({"t": "panic", "msg": p}),
        });
    }
    J::Array(obs)
}

/// add_ns(e, u) ; the query once (whatever a context resolves, it resolves now) ; remove_ns(e) ; the query again
fn unbind_queries(doc: &crate::xp::Doc, q: &J) -> J {
    let pre = cps_to_string(&q["binds"][0][0]);
    let uri = cps_to_string(&q["binds"][0][1]);
    let mut obs = vec![];
    for e in q["exprs"].as_array().cloned().unwrap_or_default() {
        let expr = cps_to_string(&e);
        let (p2, u2, d2) = (pre.clone(), uri.clone(), doc.dom.clone());
        let r = guarded(move || {
            let mut ctx = xml_xpath::eval::model::Context::default();
            ctx.add_ns(Some(p2.as_str()), u2.as_str());
            let _ = xml_xpath::query(d2.clone(), &expr, &mut ctx);
            ctx.remove_ns(Some(p2.as_str()));
            xml_xpath::query(d2, &expr, &mut ctx).map_err(|e| e.to_string())
        });
        obs.push(match r {
            Ok(Ok(v)) => crate::xp::value_json(doc, &v),
            Ok(Err(e)) => json!({"t": "err", "msg": e}),
            Err(p) => json!({"t": "panic", "msg": p}),
        });
    }
    J::Array(obs)
}

fn run_queries(doc: &crate::xp::Doc, qs: &J) -> J {
    let mut out = vec![];
    for q in qs.as_array().cloned().unwrap_or_default() {
        let mut obs = vec![];
        for e in q["exprs"].as_array().cloned().unwrap_or_default() {
            let expr = cps_to_string(&e);
            obs.push(crate::xp::eval_fresh(doc, &expr, &q["binds"]));
        }
        out.push(json!({"obs": obs}));
    }
    J::Array(out)
}

fn run(args: &[String]) -> i32 {
    let inp = arg_value(args, "--in").unwrap_or("-");
    let outp = arg_value(args, "--out").unwrap_or("-");
    let mut out = open_out(outp);
    let mut n = 0usize;
    let mut ideal = 0usize;
    let all = arg_flag(args, "--all");
    let xq = arg_value(args, "--xq").map(|s| s.to_string());
    let xq_every: usize = arg_value(args, "--xq-every").and_then(|v| v.parse().ok()).unwrap_or(25);
    let _unused: HashMap<u8, u8> = HashMap::new();
    for_each_case(inp, |c| {
        let text = cps_to_string(&c["text"]);
        let text2 = cps_to_string(&c["text2"]);
        let mut ev = json!({"event": "ns", "t": c["t"], "text": c["text"]});
        match crate::xp::load_doc(&text, &c["tree"]) {
            Ok(doc) => {
                ev["parsed"] = json!(true);
                ev["bound"] = json!(doc.mismatch.is_none());
                ev["elems"] = observe_elems(&doc);
                ev["queries"] = run_queries(&doc, &c["queries"]);
                ev["rebind"] = rebind_queries(&doc, &c["queries"][0]);
                ev["unbind"] = unbind_queries(&doc, &c["queries"][0]);
                ev["edits"] = edits(&text);
            }
            Err(_) => {
                ev["parsed"] = json!(false);
                ev["bound"] = json!(false);
                ev["elems"] = json!([]);
                ev["queries"] = json!([]);
                ev["rebind"] = json!([]);
                ev["unbind"] = json!([]);
                ev["edits"] = json!([]);
            }
        }
        // the renamed twin: same structure, so the specification's tree still gives the node numbering
        match crate::xp::load_doc(&text2, &c["tree2"]) {
            Ok(doc2) => {
                ev["parsed2"] = json!(doc2.mismatch.is_none());
                ev["queries2"] = run_queries(&doc2, &c["queries"]);
            }
            Err(_) => {
                ev["parsed2"] = json!(false);
                ev["queries2"] = json!([]);
            }
        }
        // fast path: everything as the REPLAY line says
        let mut ok = ev["parsed"] == true && ev["parsed2"] == true && ev["bound"] == true;
        if ok {
            let exp_el = c["elems"].as_array().cloned().unwrap_or_default();
            let obs_el = ev["elems"].as_array().cloned().unwrap_or_default();
            ok = exp_el.len() == obs_el.len();
            for (a, b) in exp_el.iter().zip(obs_el.iter()) {
                let mut s1: Vec<String> = a["scope"].as_array().map(|v| v.iter().map(|x| x.to_string()).collect()).unwrap_or_default();
                let mut s2: Vec<String> = b["scope"].as_array().map(|v| v.iter().map(|x| x.to_string()).collect()).unwrap_or_default();
                s1.sort();
                s2.sort();
                if a["idx"] != b["idx"] || a["uri"] != b["uri"] || a["loc"] != b["loc"] || a["pre"] != b["pre"] || s1 != s2
                    || b["named"] != true || b["scoped"] != true
                {
                    ok = false;
                }
            }
            for (qi, q) in c["queries"].as_array().cloned().unwrap_or_default().iter().enumerate() {
                for (k, exp) in q["expect"].as_array().cloned().unwrap_or_default().iter().enumerate() {
                    let o1 = &ev["queries"][qi]["obs"][k];
                    let o2 = &ev["queries2"][qi]["obs"][k];
                    let nsq = exp["v"].as_array().map(|v| v.len()).unwrap_or(0);
                    let same = |o: &J| -> bool {
                        if o["t"] != "nodes" {
                            return false;
                        }
                        let ov = o["v"].as_array().cloned().unwrap_or_default();
                        if ov.iter().any(|x| x.as_i64() == Some(-1)) {
                            ov.len() == nsq && ov.iter().all(|x| x.as_i64() == Some(-1))
                        } else {
                            o["v"] == exp["v"]
                        }
                    };
                    if !same(o1) || !same(o2) {
                        ok = false;
                    }
                }
            }
        }
        if ok {
            for (k, exp) in c["queries"][0]["expect"].as_array().cloned().unwrap_or_default().iter().enumerate() {
                let o = &ev["rebind"][k];
                let is_ns = o["v"].as_array().map(|v| v.iter().any(|x| x.as_i64() == Some(-1))).unwrap_or(false);
                if o["t"] != "nodes" || (!is_ns && o["v"] != exp["v"]) || (is_ns && o["v"].as_array().map(|v| v.len()) != exp["v"].as_array().map(|v| v.len())) {
                    ok = false;
                }
            }
            for (k, exp) in c["nobind"].as_array().cloned().unwrap_or_default().iter().enumerate() {
                let o = &ev["unbind"][k];
                let is_ns = o["v"].as_array().map(|v| v.iter().any(|x| x.as_i64() == Some(-1))).unwrap_or(false);
                let same = if exp["t"] == "err" { o["t"] == "err" }
                           else { o["t"] == "nodes" && ((!is_ns && o["v"] == exp["v"]) || (is_ns && o["v"].as_array().map(|v| v.len()) == exp["v"].as_array().map(|v| v.len()))) };
                if !same {
                    ok = false;
                }
            }
            if c["nobind"].as_array().map(|a| a.len()).unwrap_or(0) == 0 {
                ok = false;
            }
            for ed in ev["edits"].as_array().cloned().unwrap_or_default() {
                if ed["live"] != ed["re"] {
                    ok = false;
                }
            }
        }
        n += 1;
        if ok {
            ideal += 1;
        }
        // the caller's bindings as the command line tool takes them: xq --setns xmlns:e=<uri>
        let mut with_xq = false;
        if let Some(xq) = &xq {
            if n % xq_every == 0 && ev["parsed"] == true {
                with_xq = true;
                let mut runs = vec![];
                for (qi, q) in c["queries"].as_array().cloned().unwrap_or_default().iter().enumerate() {
                    let uri = cps_to_string(&q["binds"][0][1]);
                    let pre = cps_to_string(&q["binds"][0][0]);
                    for k in 0..7usize {
                        // the name tests 1..7 (the namespace-axis ones print nodes without a serialization)
                        let expr = cps_to_string(&q["exprs"][k]);
                        let a: Vec<String> = vec!["--no-indent".into(), "--xpath".into(), expr, "--setns".into(), format!("xmlns:{}={}", pre, uri)];
                        let o = crate::cli::run_tool(xq, &a, &text);
                        let sel: Vec<i64> = q["expect"][k]["v"].as_array().map(|v| v.iter().filter_map(|x| x.as_i64()).collect()).unwrap_or_default();
                        let tree = c["tree"].clone();
                        let t2 = text.clone();
                        let rendered = guarded(move || crate::cli::render_selected(&t2, &tree, &sel)).unwrap_or(None);
                        runs.push(json!({"b": qi + 1, "q": k + 1, "code": o.code, "stdout": string_to_cps(&o.stdout),
                            "sel": q["expect"][k]["v"], "renderable": rendered.is_some(),
                            "sel_out": string_to_cps(&rendered.unwrap_or_default())}));
                    }
                }
                ev["xq"] = J::Array(runs);
            }
        }
        if !with_xq {
            ev["xq"] = json!([]);
        }
        if !ok || all || with_xq || n % 10 == 0 {
            writeln!(out, "{}", ev).unwrap();
        }
    });
    out.flush().unwrap();
    println!("{}", json!({"docs": n, "ideal": ideal}));
    0
}
