SPECIFICATION McSpec
CONSTANT Dev = {}
CONSTANT SDoc <- McDoc
CONSTANT SQueries <- McQueries
CONSTANT SBinds <- McBinds
CONSTANT MaxLen = 2
CONSTANT Leaky = TRUE
CONSTANT SortedSeq <- FastSortedSeq
CONSTANT Cp <- FastCp
CONSTANT OutcomeAt <- FastOutcomeAt
INVARIANT InvQuiet
CHECK_DEADLOCK FALSE
