------------------------------- MODULE MC_Doc -------------------------------
(***************************************************************************)
(* The bounded document WRITER: TLC enumerates every behaviour of the      *)
(* token machine of XmlDoc.tla over a representative token alphabet, up to *)
(* MaxTokens tokens (element depth <= MaxDepth), with at most MaxBad bad    *)
(* actions; beyond the exhaustive bound the same Next is run with          *)
(* -simulate.  On every completed document (phase "accept") it checks the  *)
(* design-level invariants and prints one REPLAY line per style:           *)
(*   {toks, style, text = Render(toks, style), wf, viol, inprofile, tree}  *)
(* - well-formed ones serve C01 / C04, ill-formed ones C02, all of them    *)
(* C03.                                                                    *)
(***************************************************************************)
EXTENDS XmlSurface, XmlPrint, XmlLex, TLC, Json

CONSTANTS MaxTokens,     \* tokens before "end"
          MaxDepth,      \* open elements
          MaxBad,        \* bad actions per behaviour
          MaxTop,        \* tokens outside the root element and outside the DTD
          MaxDtd,        \* declarations in the internal subset
          Wide,          \* TRUE: the larger alphabet
          Prefix,        \* "none" | "dtd": start from the empty document or after a fixed rich DTD
          MaxTrunc,      \* truncation (End as a bad action) only after <= MaxTrunc tokens
          NStylesGood, NStylesBad,
          NLexStyles     \* styles whose rendering is read back by the scanner XmlLex (0 = off)

VARIABLES st, toks, nbad
vars == <<st, toks, nbad>>

Lit(s) == [i \in 1..Len(s) |-> CI(s[i])]

Na  == <<97>>
Nb  == <<98>>
Npa == <<112, 58, 97>>
Ne1 == <<101, 49>>
Ne2 == <<101, 50>>
Nu  == <<117>>
Nn  == <<110>>
Nx  == <<120>>
Ny  == <<121>>
Nz  == <<122>>
Nt  == <<116>>

\* ---- prolog / epilog
X1 == [k |-> "xmldecl", ver |-> <<49, 46, 48>>, enc |-> <<>>, sa |-> "none"]
X2 == [k |-> "xmldecl", ver |-> <<49, 46, 48>>, enc |-> <<85, 84, 70, 45, 56>>, sa |-> "yes"]
X3 == [k |-> "xmldecl", ver |-> <<49, 46, 49>>, enc |-> <<117, 116, 102, 45, 56>>, sa |-> "no"]
COM  == [k |-> "comment", v |-> <<32, 99, 45, 60, 38, 32>>]          \* " c-<& "
COM0 == [k |-> "comment", v |-> <<>>]
PI1  == [k |-> "pi", n |-> Nt, v |-> <<100, 32, 63, 32, 62>>]         \* <?t d ? >?>
PI0  == [k |-> "pi", n |-> <<120, 109, 108, 45, 116>>, v |-> <<>>]    \* <?xml-t?>
WS   == [k |-> "ws", v |-> <<10, 32>>]
DT1 == [k |-> "doctype", n |-> Na, ext |-> "none", pub |-> <<>>, sys |-> <<>>, subset |-> FALSE]
DT2 == [k |-> "doctype", n |-> Na, ext |-> "none", pub |-> <<>>, sys |-> <<>>, subset |-> TRUE]
DT3 == [k |-> "doctype", n |-> Npa, ext |-> "public", pub |-> <<45, 47, 47, 88, 47, 47, 89>>,
        sys |-> <<115, 39, 120>>, subset |-> TRUE]                    \* PUBLIC "-//X//Y" "s'x"
DT4 == [k |-> "doctype", n |-> Na, ext |-> "system", pub |-> <<>>, sys |-> <<115, 46, 100>>, subset |-> FALSE]

\* ---- internal subset
E1 == [k |-> "entity", n |-> Ne1, v |-> Lit(<<32, 118, 32>>)]                        \* " v "
E2 == [k |-> "entity", n |-> Ne2, v |-> <<CI(97), RI(10), CI(98), EI(Ne1), CI(34), CI(39)>>]  \* a&#10;b&e1;"'
UE == [k |-> "uentity", n |-> Nu, ext |-> "system", pub |-> <<>>, sys |-> <<117, 46, 112>>, ndata |-> Nn]
UP == [k |-> "uentity", n |-> <<117, 50>>, ext |-> "public", pub |-> <<45, 47, 47, 85>>, sys |-> <<34, 113>>, ndata |-> Nn]
NO == [k |-> "notation", n |-> Nn, ext |-> "pubonly", pub |-> <<45, 47, 47, 78>>, sys |-> <<>>]
NS == [k |-> "notation", n |-> <<110, 50>>, ext |-> "system", pub |-> <<>>, sys |-> <<110, 46, 101>>]
AL1 == [k |-> "attlist", el |-> Na,
        defs |-> << [n |-> Nx, ty |-> "CDATA", en |-> <<>>, dk |-> "VALUE", dv |-> Lit(<<100, 32, 32, 118>>)],
                    [n |-> Ny, ty |-> "NMTOKENS", en |-> <<>>, dk |-> "IMPLIED", dv |-> <<>>] >>]
AL2 == [k |-> "attlist", el |-> Na,
        defs |-> << [n |-> Nz, ty |-> "ENUM", en |-> <<<<112>>, <<113>>>>, dk |-> "VALUE", dv |-> Lit(<<112>>)],
                    [n |-> Nx, ty |-> "NMTOKEN", en |-> <<>>, dk |-> "REQUIRED", dv |-> <<>>] >>]
AL3 == [k |-> "attlist", el |-> Nb,
        defs |-> << [n |-> Nx, ty |-> "ID", en |-> <<>>, dk |-> "REQUIRED", dv |-> <<>>],
                    [n |-> Nz, ty |-> "CDATA", en |-> <<>>, dk |-> "FIXED", dv |-> <<CI(102), RI(9), EI(N_lt)>>] >>]
ED == [k |-> "elemdecl", n |-> Na, v |-> <<40, 35, 80, 67, 68, 65, 84, 65, 124, 97, 124, 98, 41, 42>>]
DE == [k |-> "dtdend"]

\* ---- content
SA == [k |-> "stag", n |-> Na, attrs |-> <<>>, lex |-> "ok"]
SB == [k |-> "stag", n |-> Nb, lex |-> "ok",
       attrs |-> << [n |-> Nx, v |-> Lit(<<49, 32, 50>>)],
                    [n |-> Ny, v |-> <<EI(N_lt), RI(9), CI(34), CI(39), CI(233)>>] >>]
SP == [k |-> "stag", n |-> Npa, lex |-> "ok",
       attrs |-> << [n |-> <<120, 109, 108, 110, 115, 58, 112>>, v |-> Lit(<<117>>)],
                    [n |-> <<120, 109, 108, 58, 108, 97, 110, 103>>, v |-> Lit(<<101, 110>>)] >>]
SE == [k |-> "stag", n |-> Na, lex |-> "ok",
       attrs |-> << [n |-> Nx, v |-> <<EI(Ne1), EI(Ne2)>>],
                    [n |-> Ny, v |-> Lit(<<32, 116, 32, 9, 117, 10>>)] >>]
\* names that merely begin with "xml" / "xmlns" are ordinary names
SX == [k |-> "stag", n |-> <<120, 109, 108, 97>>, lex |-> "ok",
       attrs |-> << [n |-> <<120, 109, 108, 110, 115, 102, 111, 111>>, v |-> Lit(<<120>>)],
                    [n |-> <<120, 109, 108, 102>>, v |-> <<CI(49), RI(10), CI(50)>>] >>]
T1 == [k |-> "text", items |-> Lit(<<120, 32, 121, 10>>)]
T2 == [k |-> "text", items |-> Lit(<<60, 38, 62, 233, 128512, 93, 93>>)]
T3 == [k |-> "text", items |-> <<EI(Ne1), RI(65), EI(Ne2), EI(N_amp), RI(13)>>]
T4 == [k |-> "text", items |-> Lit(<<32>>)]
CD == [k |-> "cdata", v |-> <<60, 120, 62, 38, 93, 93>>]
CD0 == [k |-> "cdata", v |-> <<>>]
ET(n) == [k |-> "etag", n |-> n]
END == [k |-> "end"]

\* ---- tokens that exist only to be ill-formed (C02); each violates exactly one guard
SDup  == [k |-> "stag", n |-> Na, lex |-> "ok", attrs |-> <<[n |-> Nx, v |-> Lit(<<49>>)], [n |-> Nx, v |-> Lit(<<50>>)]>>]
SUnq  == [k |-> "stag", n |-> Na, lex |-> "unquoted", attrs |-> <<[n |-> Nx, v |-> Lit(<<49>>)]>>]
SNosp == [k |-> "stag", n |-> Na, lex |-> "nospace", attrs |-> <<[n |-> Nx, v |-> Lit(<<49>>)], [n |-> Ny, v |-> Lit(<<50>>)]>>]
SLt   == [k |-> "stag", n |-> Na, lex |-> "ok", attrs |-> <<[n |-> Nx, v |-> <<CI(49), [t |-> "x", s |-> <<60>>, why |-> "LtInAttr"]>>]>>]
SAmp  == [k |-> "stag", n |-> Na, lex |-> "ok", attrs |-> <<[n |-> Nx, v |-> <<[t |-> "x", s |-> <<38, 32>>, why |-> "BareAmp"], CI(49)>>]>>]
S2col == [k |-> "stag", n |-> <<97, 58, 98, 58, 99>>, attrs |-> <<>>, lex |-> "ok"]
SDig  == [k |-> "stag", n |-> <<49, 97>>, attrs |-> <<>>, lex |-> "ok"]
SRef0 == [k |-> "stag", n |-> Na, lex |-> "ok", attrs |-> <<[n |-> Nx, v |-> <<RI(0)>>]>>]
SUnd  == [k |-> "stag", n |-> Na, lex |-> "ok", attrs |-> <<[n |-> Nx, v |-> <<EI(<<110, 111>>)>>]>>]
TCtl  == [k |-> "text", items |-> Lit(<<120, 1>>)]
TFffe == [k |-> "text", items |-> Lit(<<65534>>)]
TRef0 == [k |-> "text", items |-> <<RI(0)>>]
TRef1 == [k |-> "text", items |-> <<CI(120), RI(1)>>]
TRefS == [k |-> "text", items |-> <<RI(55296)>>]
TRefF == [k |-> "text", items |-> <<RI(65534)>>]
TRefB == [k |-> "text", items |-> <<RI(1114112)>>]
TLt   == [k |-> "text", items |-> <<CI(120), [t |-> "x", s |-> <<60, 32>>, why |-> "LtInText"]>>]
TAmp  == [k |-> "text", items |-> <<[t |-> "x", s |-> <<38, 32>>, why |-> "BareAmp"]>>]
TAmp2 == [k |-> "text", items |-> <<[t |-> "x", s |-> <<38, 97, 32>>, why |-> "BareAmp"]>>]
TCde  == [k |-> "text", items |-> <<CI(120), [t |-> "x", s |-> <<93, 93, 62>>, why |-> "CDEndInText"]>>]
TUnd  == [k |-> "text", items |-> <<EI(<<110, 111>>)>>]
TUnp  == [k |-> "text", items |-> <<EI(Nu)>>]
CDash == [k |-> "comment", v |-> <<97, 45, 45, 98>>]
CDas2 == [k |-> "comment", v |-> <<97, 45>>]
PIxml == [k |-> "pi", n |-> <<88, 109, 76>>, v |-> <<>>]
CDCtl == [k |-> "cdata", v |-> <<120, 11>>]

XBadV == [k |-> "xmldecl", ver |-> <<50, 46, 48>>, enc |-> <<>>, sa |-> "none"]             \* version="2.0"  [26]
XBadE == [k |-> "xmldecl", ver |-> <<49, 46, 48>>, enc |-> <<56, 117>>, sa |-> "none"]       \* encoding="8u"  [81]
DTBadP == [k |-> "doctype", n |-> Na, ext |-> "public", pub |-> <<97, 123>>, sys |-> <<115>>, subset |-> FALSE]  \* '{' [13]
CFfff == [k |-> "comment", v |-> <<97, 65535>>]
PICtl == [k |-> "pi", n |-> Nt, v |-> <<100, 11>>]
XE   == [k |-> "uentity", n |-> <<120, 101>>, ext |-> "system", pub |-> <<>>, sys |-> <<101, 46, 120>>, ndata |-> <<>>]
SExt == [k |-> "stag", n |-> Na, lex |-> "ok", attrs |-> <<[n |-> Nx, v |-> <<EI(<<120, 101>>)>>]>>]
TExt == [k |-> "text", items |-> <<EI(<<120, 101>>)>>]     \* external parsed entity in content: outside the profile

\* entity cycle (the declarations are well-formed, the reference is not)
EC1 == [k |-> "entity", n |-> <<99, 49>>, v |-> <<EI(<<99, 50>>)>>]
EC2 == [k |-> "entity", n |-> <<99, 50>>, v |-> <<CI(120), EI(<<99, 49>>)>>]
TCyc == [k |-> "text", items |-> <<EI(<<99, 49>>)>>]
SUnp == [k |-> "stag", n |-> Na, lex |-> "ok", attrs |-> <<[n |-> Nx, v |-> <<CI(49), EI(Nu)>>]>>]
SCyc == [k |-> "stag", n |-> Na, lex |-> "ok", attrs |-> <<[n |-> Nx, v |-> <<EI(<<99, 50>>)>>]>>]

\* a fixed rich internal subset, so that the bounded writer also reaches every entity / ATTLIST
\* feature combination in content within a few more tokens (Prefix = "dtd")
DtdPrefix == <<DT2, E1, E2, UE, NO, XE, EC1, EC2, AL1, AL3, DE>>

XmlDecls == IF Wide THEN {X1, X2, X3} ELSE {X1, X2}
Miscs    == IF Wide THEN {COM, COM0, PI1, PI0, WS} ELSE {COM, PI1, WS}
Doctypes == IF Wide THEN {DT1, DT2, DT3, DT4} ELSE {DT1, DT2, DT3}
Decls    == IF Wide THEN {E1, E2, UE, UP, NO, NS, AL1, AL2, AL3, ED, COM, PI1, WS, EC1, EC2}
            ELSE {E1, E2, UE, NO, AL1, AL2, ED, PI1}
Stags    == IF Wide THEN {SA, SB, SP, SE, SX} ELSE {SA, SB, SE}
Texts    == IF Wide THEN {T1, T2, T3, T4, CD, CD0} ELSE {T1, T2, T3, CD}
Inner    == IF Wide THEN {COM, PI1, PI0} ELSE {COM, PI1}

BadContent == {SDup, SUnq, SNosp, SLt, SAmp, S2col, SDig, SRef0, SUnd, TCtl, TFffe, TRef0, TRef1, TRefS,
               TRefF, TRefB, TLt, TAmp, TAmp2, TCde, TUnd, TUnp, CDash, CDas2, PIxml, CDCtl, X1, DT1, E1}
               \cup {CFfff, PICtl}
               \cup (IF Wide \/ Prefix = "dtd" THEN {TCyc, SUnp, SCyc, SExt, TExt} ELSE {})
BadTop     == {T1, T3, CD, CDash, PIxml, X1, E1, DE, SDig, S2col, SDup, DTBadP, CFfff}
BadDtd     == {SA, T1, CDash, PIxml, DT1, X1}

TopTokens == Cardinality({ i \in 1..Len(toks) :
                 toks[i].k \in {"xmldecl", "comment", "pi", "ws", "doctype"} })   \* upper bound, fine as a cap
DtdTokens == Cardinality({ i \in 1..Len(toks) :
                 toks[i].k \in {"entity", "uentity", "notation", "attlist", "elemdecl"} })

Cands ==
  CASE st.phase \in {"start", "prolog"} ->
         (IF st.phase = "start" THEN XmlDecls ELSE {})
         \cup (IF TopTokens < MaxTop THEN Miscs \cup (IF st.seenDoctype THEN {} ELSE Doctypes) ELSE {})
         \cup Stags
    [] st.phase = "dtd" -> (IF DtdTokens < MaxDtd THEN Decls ELSE {}) \cup {DE}
    [] st.phase = "afterDtd" -> (IF TopTokens < MaxTop THEN Miscs ELSE {}) \cup Stags
    [] st.phase = "content" ->
         (IF Len(st.stack) < MaxDepth THEN Stags ELSE {})
         \cup {ET(st.stack[Len(st.stack)])} \cup Texts \cup Inner
    [] st.phase = "epilog" -> (IF TopTokens < MaxTop + 1 THEN Miscs ELSE {})
    [] OTHER -> {}

BadCands ==
  CASE st.phase \in {"start", "prolog", "afterDtd"} ->
         BadTop \cup (IF st.phase = "prolog" THEN {X2} ELSE {}) \cup (IF st.phase = "start" THEN {XBadV, XBadE} ELSE {})
         \cup (IF st.phase = "afterDtd" /\ Prefix = "dtd" THEN {SUnp, SCyc, SExt} ELSE {})
    [] st.phase = "dtd" -> BadDtd
    [] st.phase = "content" ->
         BadContent \cup {ET(IF st.stack[Len(st.stack)] = Nb THEN Na ELSE Nb)}
    [] st.phase = "epilog" -> BadTop \cup {SA, ET(Na)}
    [] OTHER -> {}

Init == /\ toks = (IF Prefix = "dtd" THEN DtdPrefix ELSE <<>>)
        /\ st = Fold(InitState, toks)
        /\ nbad = 0

StepWith(tok, v) ==
  /\ st' = (LET st1 == Apply(st, tok)
            IN IF v = "" THEN st1 ELSE [st1 EXCEPT !.wf = FALSE, !.viol = Append(st.viol, v)])
  /\ toks' = Append(toks, tok)
  /\ nbad' = IF v = "" THEN nbad ELSE nbad + 1

\* one GOOD action per token kind (all guards of XmlDoc!Viol hold) ...
GoodTok == /\ st.phase # "accept" /\ Len(toks) < MaxTokens
           /\ \E tok \in Cands \cup BadCands : LET v == Viol(st, tok) IN v = "" /\ StepWith(tok, v)
\* ... and the BAD actions, one per violated constraint (the label is Viol(st, tok))
BadTok  == /\ st.phase # "accept" /\ Len(toks) < MaxTokens /\ nbad < MaxBad
           /\ \E tok \in BadCands \cup Cands : LET v == Viol(st, tok) IN v # "" /\ StepWith(tok, v)
\* the writer stops: End (good only after the root is closed; otherwise the bad actions
\* Unclosed / NoRoot / DtdUnclosed, i.e. truncation - only of short prefixes, to keep them few)
End == /\ st.phase # "accept" /\ toks # <<>>
       /\ LET v == Viol(st, END) IN (v = "" \/ (nbad < MaxBad /\ Len(toks) <= MaxTrunc)) /\ StepWith(END, v)

Next == GoodTok \/ BadTok \/ End
Spec == Init /\ [][Next]_vars

(***************************************************************************)
(* Styles (XmlSurface): a covering set of the surface-syntax choices.      *)
(***************************************************************************)
Sty(q, tw, ew, em, ch, or, dw) ==
  [quote |-> q, tagws |-> tw, eqws |-> ew, empty |-> em, chars |-> ch, order |-> or, declws |-> dw]
Styles == <<
  Sty("dq", 0, FALSE, "tag", <<"lit">>, "fwd", 0),
  Sty("sq", 1, TRUE, "pair", <<"dec", "lit", "hex">>, "rev", 1),
  Sty("mixed", 2, FALSE, "tag", <<"ent", "cdata">>, "rev", 0),
  Sty("dq", 2, TRUE, "pair", <<"cdata", "hex", "lit", "ent">>, "fwd", 1),
  Sty("sq", 0, TRUE, "tag", <<"hex">>, "fwd", 1),
  Sty("mixed", 1, FALSE, "pair", <<"dec", "cdata">>, "fwd", 0) >>

(***************************************************************************)
(* Invariants                                                              *)
(***************************************************************************)
Done == st.phase = "accept"
Rec == Recognize(toks)

\* the incremental machine and the recogniser (fold) agree; a behaviour without bad action is
\* well-formed and vice versa; every emitted token is one the surface syntax can write
MachineInv ==
  /\ TypeOK(st)
  /\ (st.wf <=> nbad = 0) /\ Len(st.viol) = nbad
  /\ (Done => \A i \in 1..Len(toks) : TokenSane(toks[i]))
  /\ (Done => Rec = [wf |-> st.wf, viol |-> st.viol, inprofile |-> st.inprofile, tree |-> st.tree])

\* the rendering of one token sequence in two styles denotes the same tree by construction
\* (the tree is a function of toks only); what TLC checks here is that the renderer is total
\* on every emitted sequence and never produces an unencodable code point
RenderInv ==
  Done => \A k \in 1..Len(Styles) :
            LET text == Render(toks, Styles[k])
            IN /\ StyleOK(Styles[k])
               /\ \A i \in 1..Len(text) : IsScalar(text[i])

Case(k) == [toks |-> toks, style |-> Styles[k], text |-> Render(toks, Styles[k]),
            wf |-> st.wf, viol |-> st.viol, inprofile |-> st.inprofile, tree |-> st.tree]

EmitInv ==
  Done => \A k \in 1..(IF st.wf THEN NStylesGood ELSE NStylesBad) : PrintT(<<"REPLAY", ToJson(Case(k))>>)

\* C04 at the specification level: a faithful printer exists and reaches a fixpoint (XmlPrint)
PrintInv == (Done /\ st.wf) => PrintRoundTrip(st)

\* Style independence, checked through an independent reading of the text (XmlLex): for every
\* style the rendered text, scanned back into tokens and recognised, is well-formed exactly when
\* the writer's behaviour is, and denotes the writer's tree.
LexInv ==
  Done => \A k \in 1..NLexStyles :
            LET r == RecognizeText(Render(toks, Styles[k]))
            IN IF st.wf THEN r.wf /\ r.tree = st.tree
               ELSE (\E i \in 1..Len(st.viol) : st.viol[i] # "TwoColons") => ~r.wf

Inv == MachineInv /\ RenderInv /\ PrintInv /\ LexInv /\ EmitInv
=============================================================================
