------------------------------ MODULE Trace_Doc ------------------------------
(***************************************************************************)
(* Trace validation for C01 / C02 / C04 (and the judge of replayed cases). *)
(* One event per document the harness ran through the implementation:      *)
(*  {"toks":[...], "style":{...}, "text":[cp...],                          *)
(*   "raw":    {"parse":"ok"|"err"|"panic", "rest":n, "proj":TREE},        *)
(*   "merged": {... the text_expanded DOM view ...},                       *)
(*   "rt":     {"print","reparse","rest","eq","projsame","fix",["proj2"]}} *)
(* The expected value is RE-DERIVED here from the recorded token sequence  *)
(* with the machine of XmlDoc.tla (Recognize = fold); the recorded text    *)
(* must be the spec's own rendering of those tokens.  Nothing the harness  *)
(* computed is trusted except what the implementation answered.            *)
(* The module never blocks: one state per event, a VERDICT line for every  *)
(* event that is not ideal: "VIOLATION" or the name of the catalogued open *)
(* finding whose as-is model reproduces the observation exactly.           *)
(***************************************************************************)
EXTENDS XmlSurface, TLC, Json, IOUtils

CONSTANTS Prop,      \* "C01" | "C02" | "C04"
          Open       \* names of the open catalogued findings of Prop

Rec == ndJsonDeserialize(IOEnv.TRACE)

VARIABLE l

Range(f) == { f[i] : i \in DOMAIN f }

\* the observed projection as a value of the same shape as XmlDoc's tree (JSON has no sets)
ObsTree(o) ==
  [xmldecl |-> o.xmldecl,
   doctype |-> [o.doctype EXCEPT !.uents = Range(@), !.nots = Range(@)],
   nodes   |-> [i \in DOMAIN o.nodes |-> [o.nodes[i] EXCEPT !.a = Range(@)]]]

Accepted(v) == v.parse = "ok" /\ v.rest = 0
HasProj(v) == "proj" \in DOMAIN v

\* ---------------------------------------------------------------------------------------------
\* tool-level consistency of the event itself
ToolVerdict(e) ==
  IF ~StyleOK(e.style) THEN "TOOL-BAD-STYLE"
  ELSE IF \E i \in 1..Len(e.toks) : ~TokenSane(e.toks[i]) THEN "TOOL-INSANE-TOKEN"
  ELSE IF e.toks = <<>> \/ e.toks[Len(e.toks)].k # "end" THEN "TOOL-NO-END"
  ELSE IF Render(e.toks, e.style) # e.text THEN "TOOL-RENDER-MISMATCH"
  ELSE "ok"

\* ---------------------------------------------------------------------------------------------
\* C01: accepted, nothing left over, projection = tree, in both views
ViewIdeal(v, tree) == Accepted(v) /\ HasProj(v) /\ "errs" \notin DOMAIN v.proj /\ ObsTree(v.proj) = tree

(***************************************************************************)
(* Catalogued as-is models (open findings).  Each one is an exact          *)
(* alternative to the ideal expectation; it applies only when its name is  *)
(* in Open.                                                                *)
(***************************************************************************)

\* "no-line-end-normalization": 2.11 is not applied - the tree the implementation builds is the
\* one the machine would build if literal CR were an ordinary character in content (CR LF stays
\* CR LF).  As-is tree: re-run the machine on the tokens with every literal CR of content marked
\* as a character reference (which the machine passes through unchanged).
CrAsRef(items) == [i \in 1..Len(items) |-> IF items[i].t = "c" /\ items[i].c = 13 THEN RI(13) ELSE items[i]]
NoEolTok(t) ==
  CASE t.k = "text" -> [t EXCEPT !.items = CrAsRef(@)]
    [] t.k = "ws" -> [k |-> "text", items |-> [i \in 1..Len(t.v) |-> IF t.v[i] = 13 THEN RI(13) ELSE CI(t.v[i])]]
    [] t.k = "cdata" -> [k |-> "text", items |-> [i \in 1..Len(t.v) |-> RI(t.v[i])]]
    [] OTHER -> t
HasContentCr(toks) ==
  \E i \in 1..Len(toks) :
     \/ (toks[i].k = "text" /\ \E j \in 1..Len(toks[i].items) : toks[i].items[j].t = "c" /\ toks[i].items[j].c = 13)
     \/ (toks[i].k \in {"ws", "cdata"} /\ 13 \in Range(toks[i].v))

\* the ws token only turns into text inside content; outside it must stay S
NoEolToks(toks) ==
  LET depth(i) == Cardinality({ j \in 1..(i-1) : toks[j].k = "stag" }) - Cardinality({ j \in 1..(i-1) : toks[j].k = "etag" })
  IN [i \in 1..Len(toks) |-> IF toks[i].k = "ws" /\ depth(i) <= 0 THEN toks[i] ELSE NoEolTok(toks[i])]

\* "required-attribute-materialized": an attribute declared #REQUIRED that is not written appears
\* all the same, with the empty value and specified = false (pinned by the repository's own test
\* test_attribute_specified_required).  As-is tree: the ideal tree plus exactly those attributes.
HasRequired(toks) ==
  \E i \in 1..Len(toks) : toks[i].k = "attlist" /\ \E j \in 1..Len(toks[i].defs) : toks[i].defs[j].dk = "REQUIRED"
RequiredExtra(attlists, el, present) ==
  LET d == DefsFor(attlists, el)
      names == { d[i].n : i \in 1..Len(d) }
  IN { [n |-> an, v |-> <<>>, spec |-> FALSE] :
         an \in { x \in names : /\ BindingDef(attlists, el, x).dk = "REQUIRED"
                               /\ ~IsNsAttrName(x)
                               /\ ~\E a \in present : a.n = x } }
RequiredTree(toks) ==
  LET st == Fold(InitState, toks)
      ns == st.tree.nodes
  IN [st.tree EXCEPT !.nodes =
        [i \in 1..Len(ns) |-> IF ns[i].k = "elem"
                              THEN [ns[i] EXCEPT !.a = @ \cup RequiredExtra(st.attlists, ns[i].n, ns[i].a)]
                              ELSE ns[i]]]

AsIsTreeC01(name, e) ==
  CASE name = "no-line-end-normalization" -> Recognize(NoEolToks(e.toks)).tree
    [] name = "required-attribute-materialized" -> RequiredTree(e.toks)
    [] OTHER -> Recognize(e.toks).tree

AsIsAppliesC01(name, e) ==
  CASE name = "no-line-end-normalization" -> HasContentCr(e.toks)
    [] name = "required-attribute-materialized" -> HasRequired(e.toks)
    [] OTHER -> FALSE

C01Names == {"no-line-end-normalization", "required-attribute-materialized"}

C01Verdict(e, rec) ==
  IF ~(rec.wf /\ rec.inprofile) THEN [verdict |-> "ok"]
  ELSE IF ViewIdeal(e.raw, rec.tree) /\ ViewIdeal(e.merged, rec.tree) THEN [verdict |-> "ok"]
  ELSE LET m == { n \in C01Names \cap Open :
                    /\ AsIsAppliesC01(n, e)
                    /\ ViewIdeal(e.raw, AsIsTreeC01(n, e)) /\ ViewIdeal(e.merged, AsIsTreeC01(n, e)) }
       IN IF m # {} THEN [verdict |-> CHOOSE n \in m : TRUE]
          ELSE [verdict |-> "VIOLATION",
                why |-> IF ~Accepted(e.raw) \/ ~Accepted(e.merged)
                        THEN "well-formed document of the profile not accepted (or input left over)"
                        ELSE "the document does not expose the information items the text denotes",
                raw |-> e.raw.parse, merged |-> e.merged.parse,
                rawok |-> ViewIdeal(e.raw, rec.tree), mergedok |-> ViewIdeal(e.merged, rec.tree)]

\* ---------------------------------------------------------------------------------------------
\* C02: ill-formed => Err or non-empty rest, in both entry points.  A name with two colons is an
\* XML 1.0 Name (only Namespaces in XML forbids it): not demanded.
NsOnly(viol) == \A i \in 1..Len(viol) : viol[i] \in {"TwoColons"}

\* as-is models: the first violated constraint is one the parser is known not to check, and it
\* is the only kind of violation in the document
C02Names == {"name-start-unchecked"}
OnlyLabels(viol, S) == viol # <<>> /\ \A i \in 1..Len(viol) : viol[i] \in S
\* "name-start-unchecked" (catalogued under C18, production Name = (NameChar)+ in the parser):
\* a PI target / entity / notation name that is an Nmtoken but not a Name is accepted
BadNameIsNmtoken(toks) ==
  \A i \in 1..Len(toks) :
     LET t == toks[i]
     IN CASE t.k = "pi" -> IsName(t.n) \/ IsNmtoken(t.n)
          [] t.k \in {"entity", "uentity", "notation"} -> IsName(t.n) \/ IsNmtoken(t.n)
          [] t.k = "stag" -> IsQName(t.n) /\ \A j \in 1..Len(t.attrs) : IsQName(t.attrs[j].n)
          [] t.k = "etag" -> IsQName(t.n)
          [] t.k = "doctype" -> IsQName(t.n)
          [] OTHER -> TRUE
AsIsAppliesC02(name, e, rec) ==
  CASE name = "name-start-unchecked" -> OnlyLabels(rec.viol, {"BadName"}) /\ BadNameIsNmtoken(e.toks)
    [] OTHER -> FALSE

C02Verdict(e, rec) ==
  IF rec.wf \/ NsOnly(rec.viol) THEN [verdict |-> "ok"]
  ELSE IF ~Accepted(e.raw) /\ ~Accepted(e.merged) THEN [verdict |-> "ok"]
  ELSE LET m == { n \in C02Names \cap Open : AsIsAppliesC02(n, e, rec) }
       IN IF m # {} THEN [verdict |-> CHOOSE n \in m : TRUE, viol |-> rec.viol]
          ELSE [verdict |-> "VIOLATION", why |-> "ill-formed input returned as a completely parsed document",
                viol |-> rec.viol, raw |-> Accepted(e.raw), merged |-> Accepted(e.merged)]

\* ---------------------------------------------------------------------------------------------
\* C04: every accepted input round-trips and the printer reaches a fixpoint
RtIdeal(rt) == /\ rt.print = "ok" /\ rt.reparse = "ok" /\ rt.rest = 0
               /\ rt.eq = TRUE /\ rt.projsame = TRUE /\ rt.fix = TRUE

HasAttlist(toks) == \E i \in 1..Len(toks) : toks[i].k = "attlist"
C04Names == {"attlist-not-printed"}
\* "attlist-not-printed": Display of an ATTLIST declaration prints nothing, so after one round the
\* declarations (types, defaults) are gone: the re-parsed document compares unequal and/or its
\* projection lacks defaulted attributes.  Exact model: the document has an ATTLIST; the printed
\* text re-parses completely; printing is a fixpoint from then on.
AsIsAppliesC04(name, e) ==
  CASE name = "attlist-not-printed" ->
         /\ HasAttlist(e.toks)
         /\ e.rt.print = "ok" /\ e.rt.reparse = "ok" /\ e.rt.rest = 0 /\ e.rt.fix = TRUE
    [] OTHER -> FALSE

C04Verdict(e, rec) ==
  IF ~Accepted(e.raw) THEN [verdict |-> "ok"]
  ELSE IF RtIdeal(e.rt) THEN [verdict |-> "ok"]
  ELSE LET m == { n \in C04Names \cap Open : AsIsAppliesC04(n, e) }
       IN IF m # {} THEN [verdict |-> CHOOSE n \in m : TRUE]
          ELSE [verdict |-> "VIOLATION", why |-> "print / re-parse / compare / re-print failed",
                rt |-> [x \in DOMAIN e.rt \ {"proj2", "s1", "s2"} |-> e.rt[x]]]

Verdict(e) ==
  LET tv == ToolVerdict(e)
  IN IF tv # "ok" THEN [verdict |-> tv]
     ELSE LET rec == Recognize(e.toks)
          IN CASE Prop = "C01" -> C01Verdict(e, rec)
               [] Prop = "C02" -> C02Verdict(e, rec)
               [] Prop = "C04" -> C04Verdict(e, rec)

Init == l = 1
Next == /\ l <= Len(Rec)
        /\ LET v == Verdict(Rec[l])
           IN  IF v.verdict = "ok" THEN TRUE ELSE PrintT(<<"VERDICT", ToJson([i |-> l] @@ v)>>)
        /\ l' = l + 1
Spec == Init /\ [][Next]_l

Done == TLCGet("stats").diameter = Len(Rec) + 1 \/
        PrintT(<<"TRUNCATED", TLCGet("stats").diameter, Len(Rec)>>)
=============================================================================
