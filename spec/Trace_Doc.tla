------------------------------ MODULE Trace_Doc ------------------------------
(***************************************************************************)
(* Trace validation for C01 / C02 / C04 (and the judge of replayed cases). *)
(* One event per document the harness ran through the implementation:      *)
(*  {"toks":[...], "style":{...}, "text":[cp...],                          *)
(*   "raw":    {"parse":"ok"|"err"|"panic", "rest":n, "proj":TREE},        *)
(*   "merged": {... the text_expanded DOM view ...},                       *)
(*   "rt":     {"print","reparse","rest","eq","projsame","fix",["proj2"]}} *)
(* The expected value is RE-DERIVED here from the recorded token sequence  *)
(* with the machine of XmlDoc.tla (Recognize = fold); the recorded text    *)
(* must be the spec's own rendering of those tokens.  Nothing the harness  *)
(* computed is trusted except what the implementation answered.            *)
(* The module never blocks: one state per event, a VERDICT line for every  *)
(* event that is not ideal: "VIOLATION" or the name of the catalogued open *)
(* finding whose as-is model reproduces the observation exactly.           *)
(***************************************************************************)
EXTENDS XmlSurface, XmlLex, TLC, Json, IOUtils

CONSTANTS Prop,      \* "C01" | "C02" | "C04"
          Open       \* names of the open catalogued findings of Prop

Rec == ndJsonDeserialize(IOEnv.TRACE)

VARIABLE l

Range(f) == { f[i] : i \in DOMAIN f }

\* the observed projection as a value of the same shape as XmlDoc's tree (JSON has no sets)
ObsTree(o) ==
  [xmldecl |-> o.xmldecl,
   doctype |-> [o.doctype EXCEPT !.uents = Range(@), !.nots = Range(@)],
   nodes   |-> [i \in DOMAIN o.nodes |-> [o.nodes[i] EXCEPT !.a = Range(@)]]]

Accepted(v) == v.parse = "ok" /\ v.rest = 0
HasProj(v) == "proj" \in DOMAIN v

\* ---------------------------------------------------------------------------------------------
\* tool-level consistency of the event itself
FromText(e) == "src" \in DOMAIN e /\ e.src = "text"

ToolVerdict(e) ==
  IF FromText(e) THEN (IF Lex(e.text) = e.toks THEN "ok" ELSE "TOOL-LEX-MISMATCH")
  ELSE IF ~StyleOK(e.style) THEN "TOOL-BAD-STYLE"
  ELSE IF \E i \in 1..Len(e.toks) : ~TokenSane(e.toks[i]) THEN "TOOL-INSANE-TOKEN"
  ELSE IF e.toks = <<>> \/ e.toks[Len(e.toks)].k # "end" THEN "TOOL-NO-END"
  ELSE IF Render(e.toks, e.style) # e.text THEN "TOOL-RENDER-MISMATCH"
  ELSE "ok"

\* ---------------------------------------------------------------------------------------------
\* C01: accepted, nothing left over, projection = tree, in the raw and merged DOM views and through
\* the information-set accessors of xml_info (view "info", present in events of newer harnesses)
HasInfo(e) == "info" \in DOMAIN e
ViewIdeal(v, tree) == Accepted(v) /\ HasProj(v) /\ "errs" \notin DOMAIN v.proj /\ ObsTree(v.proj) = tree

(***************************************************************************)
(* Catalogued as-is models (open findings).  Each one is an exact          *)
(* alternative to the ideal expectation; it applies only when its name is  *)
(* in Open.                                                                *)
(***************************************************************************)

\* "no-line-end-normalization": 2.11 is not applied to content, comments, PI data and the literal
\* values of entities included in content (CR stays CR, CR LF stays CR LF).  As-is machine: the same token machine with its line-end handling
\* switched off (state field eol = FALSE).  Attribute values are not affected (3.3.3 turns a
\* literal CR into a space either way).
NoEolInit == [InitState EXCEPT !.eol = FALSE]
HasLiteralCr(toks) ==
  \E i \in 1..Len(toks) :
     \/ (toks[i].k = "text" /\ \E j \in 1..Len(toks[i].items) : toks[i].items[j].t = "c" /\ toks[i].items[j].c = 13)
     \/ (toks[i].k \in {"ws", "cdata", "comment", "pi"} /\ 13 \in Range(toks[i].v))
     \/ (toks[i].k = "entity" /\ \E j \in 1..Len(toks[i].v) : toks[i].v[j].t = "c" /\ toks[i].v[j].c = 13)

\* "required-attribute-materialized": an attribute declared #REQUIRED that is not written appears
\* all the same, with the empty value and specified = false (pinned by the repository's own test
\* test_attribute_specified_required).  As-is tree: the ideal tree plus exactly those attributes.
HasRequired(toks) ==
  \E i \in 1..Len(toks) : toks[i].k = "attlist" /\ \E j \in 1..Len(toks[i].defs) : toks[i].defs[j].dk = "REQUIRED"
RequiredExtra(attlists, el, present) ==
  LET d == DefsFor(attlists, el)
      names == { d[i].n : i \in 1..Len(d) }
  IN { [n |-> an, v |-> <<>>, spec |-> FALSE] :
         an \in { x \in names : /\ BindingDef(attlists, el, x).dk = "REQUIRED"
                               /\ ~IsNsAttrName(x)
                               /\ ~\E a \in present : a.n = x } }
RequiredTree(init, toks) ==
  LET st == Fold(init, toks)
      ns == st.tree.nodes
  IN [st.tree EXCEPT !.nodes =
        [i \in 1..Len(ns) |-> IF ns[i].k = "elem"
                              THEN [ns[i] EXCEPT !.a = @ \cup RequiredExtra(st.attlists, ns[i].n, ns[i].a)]
                              ELSE ns[i]]]

\* "nesting-depth-limit": elements nested deeper than 128 are refused (parser::MAX_NESTING_DEPTH,
\* introduced by the repair of the stack overflow on deep nesting).  Exact model: the document
\* opens more than 128 elements at once and both entry points answer with an error.
RECURSIVE MaxNest(_, _, _)
MaxNest(toks, cur, best) ==
  IF toks = <<>> THEN best
  ELSE LET c == CASE Head(toks).k = "stag" -> cur + 1 [] Head(toks).k = "etag" -> cur - 1 [] OTHER -> cur
       IN MaxNest(Tail(toks), c, IF c > best THEN c ELSE best)
NestingLimit == 128
\* ... and so are general-entity references nested deeper than 128 (a reference to an entity whose replacement text
\* refers to an entity whose ...: info check_entity_reference, introduced by the repair of the stack overflow on long
\* entity chains).  The depth of a reference is the number of entities on the longest chain it starts; the FIRST
\* declaration of a name binds; `fuel` bounds the walk (declarations that are never referenced may be cyclic).
EntDeclIdx(toks, n) == { i \in 1..Len(toks) : toks[i].k = "entity" /\ toks[i].n = n }
RECURSIVE EntDepth(_, _, _)
RefsDepth(toks, items, fuel) ==
  LET ds == { EntDepth(toks, items[j].n, fuel) : j \in { j \in 1..Len(items) : items[j].t = "e" } }
  IN  IF ds = {} THEN 0 ELSE CHOOSE d \in ds : \A x \in ds : x <= d
EntDepth(toks, n, fuel) ==
  LET ix == EntDeclIdx(toks, n) IN
  IF fuel = 0 \/ ix = {} THEN 1
  ELSE LET i == CHOOSE i \in ix : \A j \in ix : i <= j
       IN  IF "v" \in DOMAIN toks[i] THEN 1 + RefsDepth(toks, toks[i].v, fuel - 1) ELSE 1
MaxEntDepth(toks) ==
  LET fuel == Cardinality({ i \in 1..Len(toks) : toks[i].k = "entity" }) + 1
      ds == { RefsDepth(toks, toks[i].items, fuel) : i \in { i \in 1..Len(toks) : toks[i].k = "text" } }
            \cup UNION { { RefsDepth(toks, toks[i].attrs[a].v, fuel) : a \in 1..Len(toks[i].attrs) } :
                          i \in { i \in 1..Len(toks) : toks[i].k = "stag" } }
  IN  IF ds = {} THEN 0 ELSE CHOOSE d \in ds : \A x \in ds : x <= d
TooDeep(e) == MaxNest(e.toks, 0, 0) > NestingLimit \/ MaxEntDepth(e.toks) > NestingLimit

\* as-is models compose: S is a set of open findings that all apply to the document
AsIsTreeC01(S, e) ==
  LET init == IF "no-line-end-normalization" \in S THEN NoEolInit ELSE InitState
  IN IF "required-attribute-materialized" \in S THEN RequiredTree(init, e.toks)
     ELSE RecognizeFrom(init, e.toks).tree

AsIsAppliesC01(name, e) ==
  CASE name = "no-line-end-normalization" -> HasLiteralCr(e.toks)
    [] name = "required-attribute-materialized" -> HasRequired(e.toks)
    [] OTHER -> FALSE

C01Names == {"no-line-end-normalization", "required-attribute-materialized"}

AllViewsIdeal(e, tree) ==
  ViewIdeal(e.raw, tree) /\ ViewIdeal(e.merged, tree) /\ (HasInfo(e) => ViewIdeal(e.info, tree))

C01Verdict(e, rec) ==
  IF ~(rec.wf /\ rec.inprofile) THEN [verdict |-> "ok"]
  ELSE IF AllViewsIdeal(e, rec.tree) THEN [verdict |-> "ok"]
  ELSE IF "nesting-depth-limit" \in Open /\ TooDeep(e) /\ e.raw.parse = "err" /\ e.merged.parse = "err"
          /\ (HasInfo(e) => e.info.parse = "err")
       THEN [verdict |-> "nesting-depth-limit", depth |-> MaxNest(e.toks, 0, 0)]
  ELSE LET app == { n \in C01Names \cap Open : AsIsAppliesC01(n, e) }
           m == { S \in (SUBSET app) \ {{}} : AllViewsIdeal(e, AsIsTreeC01(S, e)) }
       IN IF m # {} THEN LET S == CHOOSE S \in m : \A T \in m : Cardinality(S) <= Cardinality(T)
                         IN [verdict |-> CHOOSE n \in S : TRUE, findings |-> S]
          ELSE [verdict |-> "VIOLATION",
                why |-> IF ~Accepted(e.raw) \/ ~Accepted(e.merged)
                        THEN "well-formed document of the profile not accepted (or input left over)"
                        ELSE "the document does not expose the information items the text denotes",
                raw |-> e.raw.parse, merged |-> e.merged.parse,
                rawok |-> ViewIdeal(e.raw, rec.tree), mergedok |-> ViewIdeal(e.merged, rec.tree),
                infook |-> (HasInfo(e) => ViewIdeal(e.info, rec.tree))]

\* ---------------------------------------------------------------------------------------------
\* C02: ill-formed => Err or non-empty rest, in both entry points.  A name with two colons is an
\* XML 1.0 Name (only Namespaces in XML forbids it): not demanded.
\* Parameter entities are not modelled (XmlLex): no conclusion either.
NsOnly(viol) == \/ (\E i \in 1..Len(viol) : viol[i] = "ParameterEntity")
                \/ (\A j \in 1..Len(viol) : viol[j] \in {"TwoColons"})

\* as-is models: the first violated constraint is one the parser is known not to check, and it
\* is the only kind of violation in the document
C02Names == {"name-start-unchecked", "entity-replacement-not-parsed"}
OnlyLabels(viol, S) == viol # <<>> /\ \A i \in 1..Len(viol) : viol[i] \in S
\* "name-start-unchecked" (catalogued under C18, production Name = (NameChar)+ in the parser):
\* a PI target / entity / notation name that is an Nmtoken but not a Name is accepted
BadNameIsNmtoken(toks) ==
  \A i \in 1..Len(toks) :
     LET t == toks[i]
     IN CASE t.k = "pi" -> IsName(t.n) \/ IsNmtoken(t.n)
          [] t.k \in {"entity", "uentity", "notation"} -> IsName(t.n) \/ IsNmtoken(t.n)
          [] t.k = "stag" -> IsQName(t.n) /\ \A j \in 1..Len(t.attrs) : IsQName(t.attrs[j].n)
          [] t.k = "etag" -> IsQName(t.n)
          [] t.k = "doctype" -> IsQName(t.n)
          [] OTHER -> TRUE
AsIsAppliesC02(name, e, rec) ==
  CASE name = "name-start-unchecked" -> OnlyLabels(rec.viol, {"BadName"}) /\ BadNameIsNmtoken(e.toks)
    \* "entity-replacement-not-parsed": a reference in content stays a reference node; the replacement text is never
    \* parsed as content, so an entity whose replacement text is not well-formed content is accepted
    [] name = "entity-replacement-not-parsed" -> OnlyLabels(rec.viol, {"ReplacementNotContent"})
    [] OTHER -> FALSE

C02Verdict(e, rec) ==
  IF rec.wf \/ NsOnly(rec.viol) THEN [verdict |-> "ok"]
  ELSE IF ~Accepted(e.raw) /\ ~Accepted(e.merged) /\ (HasInfo(e) => ~Accepted(e.info)) THEN [verdict |-> "ok"]
  ELSE LET m == { n \in C02Names \cap Open : AsIsAppliesC02(n, e, rec) }
       IN IF m # {} THEN [verdict |-> CHOOSE n \in m : TRUE, viol |-> rec.viol]
          ELSE [verdict |-> "VIOLATION", why |-> "ill-formed input returned as a completely parsed document",
                viol |-> rec.viol, raw |-> Accepted(e.raw), merged |-> Accepted(e.merged)]

\* ---------------------------------------------------------------------------------------------
\* C04: every accepted input round-trips and the printer reaches a fixpoint
RtIdeal(rt) == /\ rt.print = "ok" /\ rt.reparse = "ok" /\ rt.rest = 0
               /\ rt.eq = TRUE /\ rt.projsame = TRUE /\ rt.fix = TRUE

HasAttlist(toks) == \E i \in 1..Len(toks) : toks[i].k = "attlist"
C04Names == {"attlist-not-printed"}
\* "attlist-not-printed": Display of an ATTLIST declaration prints nothing, so after one round the
\* declarations (types, defaults) are gone: the re-parsed document compares unequal and/or its
\* projection lacks defaulted attributes.  Exact model: the document has an ATTLIST; the printed
\* text re-parses completely; printing is a fixpoint from then on.
AsIsAppliesC04(name, e) ==
  CASE name = "attlist-not-printed" ->
         /\ HasAttlist(e.toks)
         /\ e.rt.print = "ok" /\ e.rt.reparse = "ok" /\ e.rt.rest = 0 /\ e.rt.fix = TRUE
    [] OTHER -> FALSE

C04Verdict(e, rec) ==
  IF ~Accepted(e.raw) THEN [verdict |-> "ok"]
  ELSE IF RtIdeal(e.rt) THEN [verdict |-> "ok"]
  ELSE LET m == { n \in C04Names \cap Open : AsIsAppliesC04(n, e) }
       IN IF m # {} THEN [verdict |-> CHOOSE n \in m : TRUE]
          ELSE [verdict |-> "VIOLATION", why |-> "print / re-parse / compare / re-print failed",
                rt |-> [x \in DOMAIN e.rt \ {"proj2", "s1", "s2"} |-> e.rt[x]]]

Verdict(e) ==
  LET tv == ToolVerdict(e)
  IN IF tv # "ok" THEN [verdict |-> tv]
     ELSE LET rec == Recognize(e.toks)
          IN CASE Prop = "C01" -> C01Verdict(e, rec)
               [] Prop = "C02" -> C02Verdict(e, rec)
               [] Prop = "C04" -> C04Verdict(e, rec)

(***************************************************************************)
(* Render mode (Prop = "RENDER"): the events are token sequences + styles  *)
(* produced by the harness's random writer / token editor (doc-record).    *)
(* The specification decides what they are: well-formed or not (and why),  *)
(* what they denote, and how they are written as text - and prints the     *)
(* same REPLAY record the model checker prints for its own behaviours.     *)
(* Sequences the surface syntax cannot write faithfully are skipped.       *)
(***************************************************************************)
RenderOut(e, i) ==
  IF ~StyleOK(e.style) \/ e.toks = <<>> \/ (\E j \in 1..Len(e.toks) : ~TokenSane(e.toks[j]))
     \/ e.toks[Len(e.toks)].k # "end"
  THEN PrintT(<<"INSANE", i>>)
  ELSE LET rec == Recognize(e.toks)
       IN PrintT(<<"REPLAY", ToJson([toks |-> e.toks, style |-> e.style, text |-> Render(e.toks, e.style),
                                     wf |-> rec.wf, viol |-> rec.viol, inprofile |-> rec.inprofile,
                                     tree |-> rec.tree])>>)

(***************************************************************************)
(* Text mode (Prop = "TEXT"): the events are arbitrary TEXTS (character-   *)
(* level edits of well-formed renderings made by the harness).  The        *)
(* specification reads them with its own scanner (XmlLex) and decides      *)
(* whether they are well-formed.  Such cases are never in the C01 profile  *)
(* (the scanner is lenient about content models, so "well-formed" is only  *)
(* an upper bound there); C02 uses the "ill-formed" verdicts, C04 every    *)
(* accepted input.                                                         *)
(***************************************************************************)
TextStyle == [quote |-> "dq", tagws |-> 0, eqws |-> FALSE, empty |-> "tag", chars |-> <<"lit">>,
              order |-> "fwd", declws |-> 0]
TextOut(e, i) ==
  LET toks == Lex(e.text)
      rec == Recognize(toks)
  IN PrintT(<<"REPLAY", ToJson([toks |-> toks, style |-> TextStyle, text |-> e.text, src |-> "text",
                                wf |-> rec.wf, viol |-> rec.viol, inprofile |-> FALSE, tree |-> rec.tree])>>)

Init == l = 1
Next == /\ l <= Len(Rec)
        /\ IF Prop = "RENDER" THEN RenderOut(Rec[l], l)
           ELSE IF Prop = "TEXT" THEN TextOut(Rec[l], l)
           ELSE LET v == Verdict(Rec[l])
                IN  IF v.verdict = "ok" THEN TRUE ELSE PrintT(<<"VERDICT", ToJson([i |-> l] @@ v)>>)
        /\ l' = l + 1
Spec == Init /\ [][Next]_l

Done == TLCGet("stats").diameter = Len(Rec) + 1 \/
        PrintT(<<"TRUNCATED", TLCGet("stats").diameter, Len(Rec)>>)
=============================================================================
