----------------------------- MODULE MC_ElemAttrs -----------------------------
EXTENDS ElemAttrs, TLC, Json

NamesM == {"x", "y", "z"}
ValuesM == {"", "a", "b"}
DefM == [n \in NamesM |-> IF n = "y" THEN "dv" ELSE NoDef]

VARIABLES am, last
\* the document the harness starts from: <!DOCTYPE r [<!ATTLIST r y CDATA "dv" z CDATA #IMPLIED>]><r x="a"/>
Init == am = [Init0 EXCEPT !["x"] = [present |-> TRUE, v |-> "a", spec |-> TRUE]] /\ last = "init"
Step(c) == LET r == Apply(am, c) IN am' = (IF "err" \in DOMAIN r THEN am ELSE r.am) /\ last' = c.op
Next == \E c \in Calls : Step(c)
Spec == Init /\ [][Next]_<<am, last>>
View == am

InvDefault == DefaultInv(am)
InvEmit == PrintT(<<"NODE", ToJson([s |-> am, edges |-> { [call |-> c, out |-> Apply(am, c)] : c \in Calls }])>>)
=============================================================================
