SPECIFICATION Spec
CONSTANT Names <- NamesM
CONSTANT Values <- ValuesM
CONSTANT Def <- DefM
VIEW View
INVARIANT InvDefault
INVARIANT InvEmit
CHECK_DEADLOCK FALSE
