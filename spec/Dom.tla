--------------------------------- MODULE Dom ---------------------------------
(***************************************************************************)
(* The DOM Level 1 structural machine (C12, C13, C14).                     *)
(*                                                                         *)
(* A *pool* P describes the nodes that exist (their kind, owner document   *)
(* and, for attributes, name) - none of that ever changes.  A *state* S    *)
(* holds what the mutators change:                                         *)
(*      S.kids  : [Node -> Seq(Node)]   child lists                        *)
(*      S.attrs : [Node -> Seq(Node)]   attribute lists of elements        *)
(* Parent, siblings, ancestors and document order are DERIVED from these - *)
(* which is exactly what C12/C14 demand of the implementation, whose       *)
(* parent_id / id_map / DocumentOrder bookkeeping is redundant state.      *)
(*                                                                         *)
(* One operator per public mutator gives the set of acceptable outcomes    *)
(* (DOM L1 does not order competing exceptions) and the unique effect of   *)
(* a successful call.  All operators are pure functions of (P, S, call) so *)
(* that MC_Dom (model checking), the EDGE dump (spec -> impl replay) and   *)
(* Trace_Dom (impl -> spec trace validation) share one definition.         *)
(***************************************************************************)
EXTENDS Integers, Sequences, FiniteSets

None == 0        \* "no node"

Kinds == {"doc", "doctype", "elem", "attr", "text", "cdata", "comment", "pi", "eref"}

Nodes(P) == DOMAIN P.kind

\* ---------------------------------------------------------------------------------------------
\* sequence helpers

Range(s) == { s[i] : i \in DOMAIN s }
IndexOf(s, x) == CHOOSE i \in DOMAIN s : s[i] = x          \* only used when x \in Range(s)
Without(s, x) == SelectSeq(s, LAMBDA y : y # x)
InsertAt(s, i, x) == SubSeq(s, 1, i - 1) \o <<x>> \o SubSeq(s, i, Len(s))   \* x becomes s'[i]
NoDup(s) == \A i, j \in DOMAIN s : i # j => s[i] # s[j]

\* ---------------------------------------------------------------------------------------------
\* derived structure.  Everything is computed from the child / attribute lists; the `...Fn` forms build the
\* whole parent (owner) function of a state once, so that callers that look at many nodes or many calls of one
\* state do not pay for it again (TLC evaluates a LET-bound value once).

NN(P) == Len(P.kind)                                            \* Nodes(P) = 1..NN(P)

ChildPairs(P, S) == UNION { { <<S.kids[p][i], p>> : i \in DOMAIN S.kids[p] } : p \in Nodes(P) }
AttrPairs(P, S)  == UNION { { <<S.attrs[p][i], p>> : i \in DOMAIN S.attrs[p] } : p \in Nodes(P) }

PairFn(P, pairs) ==
  [n \in Nodes(P) |-> LET ps == { pr \in pairs : pr[1] = n }
                       IN  IF ps = {} THEN None ELSE (CHOOSE pr \in ps : TRUE)[2]]
ParentFn(P, S) == PairFn(P, ChildPairs(P, S))                  \* node -> parent or None
OwnerFn(P, S)  == PairFn(P, AttrPairs(P, S))                   \* attribute -> owner element or None

Parent(P, S, n)    == ParentFn(P, S)[n]
OwnerElem(P, S, a) == OwnerFn(P, S)[a]

\* ancestors along a parent function; `fuel` makes it total on cyclic garbage logged by an implementation
RECURSIVE AncVia(_, _, _)
AncVia(par, n, fuel) ==
  IF fuel = 0 \/ par[n] = None THEN {} ELSE {par[n]} \cup AncVia(par, par[n], fuel - 1)

AncestorsOf(P, S, n) == AncVia(ParentFn(P, S), n, NN(P))

\* the document a node belongs to for the WRONG_DOCUMENT rule (a document is its own)
DocOf(P, n) == IF P.kind[n] = "doc" THEN n ELSE P.owner[n]

CanContain(pk, ck) ==
  CASE pk = "doc"  -> ck \in {"elem", "doctype", "comment", "pi"}
    [] pk = "elem" -> ck \in {"elem", "text", "cdata", "eref", "comment", "pi"}
    [] pk = "attr" -> ck \in {"text", "eref"}
    [] OTHER       -> FALSE

IsContainer(P, n) == P.kind[n] \in {"doc", "elem", "attr"}

KidsOfKind(P, S, r, k) == { c \in Range(S.kids[r]) : P.kind[c] = k }

TotalLen(P, f) ==                                              \* sum of the lengths of the lists f[1..N]
  LET F[k \in 0..NN(P)] == IF k = 0 THEN 0 ELSE F[k - 1] + Len(f[k]) IN F[NN(P)]

\* ---------------------------------------------------------------------------------------------
\* C12: the tree invariant of the ideal machine

TreeInvX(P, S, cp, ap, par) ==
  \* no node occurs twice in one list or in two lists
  /\ Cardinality({ pr[1] : pr \in cp }) = TotalLen(P, S.kids)
  /\ Cardinality({ pr[1] : pr \in ap }) = TotalLen(P, S.attrs)
  \* nor beneath itself
  /\ \A n \in Nodes(P) : n \notin AncVia(par, n, NN(P))
  /\ \A pr \in cp : CanContain(P.kind[pr[2]], P.kind[pr[1]]) /\ DocOf(P, pr[1]) = DocOf(P, pr[2])
  /\ \A pr \in ap : P.kind[pr[2]] = "elem" /\ P.kind[pr[1]] = "attr" /\ DocOf(P, pr[1]) = DocOf(P, pr[2])
  /\ \A e \in Nodes(P) : Cardinality({ P.aname[a] : a \in Range(S.attrs[e]) }) = Len(S.attrs[e])
  /\ \A d \in Nodes(P) : P.kind[d] = "doc" =>
        /\ Cardinality(KidsOfKind(P, S, d, "elem")) <= 1
        /\ Cardinality(KidsOfKind(P, S, d, "doctype")) <= 1

TreeInv(P, S) ==
  LET cp == ChildPairs(P, S)
      ap == AttrPairs(P, S)
  IN  TreeInvX(P, S, cp, ap, PairFn(P, cp))

\* ---------------------------------------------------------------------------------------------
\* C14: document order = pre-order, an element before its attributes before its children

RECURSIVE PreOrder(_, _, _)
RECURSIVE PreOrderSeq(_, _, _)
PreOrderSeq(P, S, s) == IF s = <<>> THEN <<>> ELSE PreOrder(P, S, Head(s)) \o PreOrderSeq(P, S, Tail(s))
PreOrder(P, S, n) == <<n>> \o PreOrderSeq(P, S, S.attrs[n]) \o PreOrderSeq(P, S, S.kids[n])

\* nodes attached to document d, in document order
DocOrder(P, S, d) == PreOrder(P, S, d)

\* ---------------------------------------------------------------------------------------------
\* calls.  A call is a record [op, r, ...]; an outcome description is
\*    [errs |-> set of exception classes any of which may be raised (state unchanged),
\*     ok   |-> BOOLEAN: success (with effect Apply) is acceptable,
\*     any  |-> BOOLEAN: DOM L1 is silent - any exception is acceptable as well]
\* If errs = {} and ~any the call MUST succeed.  If ~ok it MUST fail.

HIER == "HierarchyRequestErr"
WRONGDOC == "WrongDocumentErr"
NOTFOUND == "NotFoundErr"
INUSE == "InuseAttributeErr"

\* errors of putting n under r (before ref, or at the end when ref = None); `moving` is the node that
\* leaves r in the same call (replace_child: old) and therefore does not count as a second
\* element / doctype of a document
InsertErrs(P, S, par, r, n, ref, leaving) ==
  (IF DocOf(P, n) # DocOf(P, r) THEN {WRONGDOC} ELSE {})
  \cup (IF ref # None /\ DocOf(P, ref) # DocOf(P, r) THEN {WRONGDOC, NOTFOUND} ELSE {})
  \cup (IF \/ ~CanContain(P.kind[r], P.kind[n])
           \/ n = r
           \/ n \in AncVia(par, r, NN(P))
           \/ /\ P.kind[r] = "doc" /\ P.kind[n] \in {"elem", "doctype"}
              /\ KidsOfKind(P, S, r, P.kind[n]) \ {n, leaving} # {}
        THEN {HIER} ELSE {})
  \cup (IF ref # None /\ ref \notin Range(S.kids[r]) THEN {NOTFOUND} ELSE {})

\* moving the document's own element / doctype to another position, or replacing the document element
\* by another element: DOM L1 can be read either way (the crate answers HIERARCHY_REQUEST)
\* Likewise (re-)inserting a DocumentType node: DOM Level 1 has no way to create one and calls it read-only,
\* so an implementation may refuse to insert it anywhere (HIERARCHY_REQUEST) - or put it back.
DocSingletonAmbiguous(P, S, r, n, leaving) ==
  /\ P.kind[r] = "doc" /\ P.kind[n] \in {"elem", "doctype"}
  /\ \/ P.kind[n] = "doctype"
     \/ /\ KidsOfKind(P, S, r, P.kind[n]) # {}
        /\ KidsOfKind(P, S, r, P.kind[n]) \ {n, leaving} = {}

\* An element put in front of the document type declaration gives a document that cannot be written out (XML 1.0 [1],
\* [22]: the DOCTYPE precedes the document element); DOM Level 1 does not speak of it, so an implementation may
\* insert (and C15 then has something to say) or refuse with HIERARCHY_REQUEST.
PosIn(s, x) == CHOOSE i \in 1..Len(s) : s[i] = x
BeforeDoctype(P, S, r, n, ref) ==
  /\ P.kind[r] = "doc" /\ P.kind[n] = "elem" /\ ref # None /\ ref \in Range(S.kids[r])
  /\ \E d \in Range(S.kids[r]) : P.kind[d] = "doctype" /\ PosIn(S.kids[r], ref) <= PosIn(S.kids[r], d)

OutcomeX(P, S, par, own_, c) ==
  CASE c.op = "append_child" ->
         LET e == InsertErrs(P, S, par, c.r, c.n, None, None)
             amb == DocSingletonAmbiguous(P, S, c.r, c.n, None)
         IN [errs |-> e \cup (IF amb THEN {HIER} ELSE {}), ok |-> e = {}, any |-> FALSE]
    [] c.op = "insert_before" ->
         LET e == InsertErrs(P, S, par, c.r, c.n, c.ref, None)
             amb == DocSingletonAmbiguous(P, S, c.r, c.n, None) \/ BeforeDoctype(P, S, c.r, c.n, c.ref)
         IN [errs |-> e \cup (IF amb THEN {HIER} ELSE {}), ok |-> e = {}, any |-> c.n = c.ref]
    [] c.op = "replace_child" ->
         LET e == InsertErrs(P, S, par, c.r, c.n, c.old, c.old)
                    \cup (IF c.old \notin Range(S.kids[c.r]) THEN {NOTFOUND} ELSE {})
                    \cup (IF ~IsContainer(P, c.r) THEN {HIER} ELSE {})
             amb == DocSingletonAmbiguous(P, S, c.r, c.n, c.old) \/ BeforeDoctype(P, S, c.r, c.n, c.old)
         IN [errs |-> e \cup (IF amb THEN {HIER} ELSE {}), ok |-> e = {}, any |-> c.n = c.old]
    [] c.op = "remove_child" ->
         LET e == (IF c.old \notin Range(S.kids[c.r]) THEN {NOTFOUND} ELSE {})
                  \cup (IF DocOf(P, c.old) # DocOf(P, c.r) THEN {WRONGDOC} ELSE {})
                  \cup (IF ~IsContainer(P, c.r) THEN {HIER} ELSE {})
         IN [errs |-> e, ok |-> e = {}, any |-> FALSE]
    [] c.op \in {"set_attribute_node", "set_named_item"} ->
         LET own == own_[c.a]
             e == (IF DocOf(P, c.a) # DocOf(P, c.r) THEN {WRONGDOC} ELSE {})
                  \cup (IF own # None /\ own # c.r THEN {INUSE} ELSE {})
         IN [errs |-> e \cup (IF own = c.r THEN {INUSE} ELSE {}), ok |-> e = {}, any |-> FALSE]
    [] c.op = "remove_attribute_node" ->
         LET same == { b \in Range(S.attrs[c.r]) : P.aname[b] = P.aname[c.a] }
             e == IF same = {} THEN {NOTFOUND} ELSE {}
         \* identity or same name (how the crate decides): if a different attribute of that name is
         \* present DOM L1 says NOT_FOUND, removing the namesake is tolerated
         IN [errs |-> e \cup (IF c.a \notin Range(S.attrs[c.r]) THEN {NOTFOUND} ELSE {}),
             ok |-> e = {}, any |-> FALSE]
    [] c.op = "remove_named_item" ->
         LET same == { b \in Range(S.attrs[c.r]) : P.aname[b] = c.name }
         IN [errs |-> IF same = {} THEN {NOTFOUND} ELSE {}, ok |-> same # {}, any |-> FALSE]
    [] c.op = "remove_attribute" ->
         [errs |-> {}, ok |-> TRUE, any |-> FALSE]
    \* split_text(offset) with offset <= length on text node r; `new` is the pool slot the new node will occupy
    \* (a node that does not exist before the call).  DOM L1 is silent about a text node without a parent.
    [] c.op = "split_text" ->
         [errs |-> {}, ok |-> par[c.r] # None, any |-> par[c.r] = None \/ par[c.new] # None]

    \* Attr.value := a non-empty string without references, on attribute a: "creates a Text node with the unparsed
    \* contents of the string" (DOM L1) - the children of the attribute are replaced by ONE new Text node (`new`: the pool
    \* slot it will occupy), and the former children are removed: they have no parent any more
    [] c.op = "set_value" ->
         [errs |-> {}, ok |-> TRUE, any |-> par[c.new] # None]

Outcome(P, S, c) == OutcomeX(P, S, ParentFn(P, S), OwnerFn(P, S), c)

\* ---------------------------------------------------------------------------------------------
\* effects of successful calls

Detach(P, S, n) ==       \* remove n from wherever it is (child list or attribute list)
  [S EXCEPT !.kids  = [p \in Nodes(P) |-> Without(S.kids[p], n)],
            !.attrs = [p \in Nodes(P) |-> Without(S.attrs[p], n)]]

InsertEffect(P, S, r, n, ref) ==
  IF n = ref THEN S
  ELSE LET S1 == Detach(P, S, n)
           pos == IF ref = None THEN Len(S1.kids[r]) + 1 ELSE IndexOf(S1.kids[r], ref)
       IN  [S1 EXCEPT !.kids[r] = InsertAt(S1.kids[r], pos, n)]

RemoveNamed(P, S, r, name) ==
  [S EXCEPT !.attrs[r] = SelectSeq(S.attrs[r], LAMBDA b : P.aname[b] # name)]

Apply(P, S, c) ==
  CASE c.op = "append_child" -> InsertEffect(P, S, c.r, c.n, None)
    [] c.op = "insert_before" -> InsertEffect(P, S, c.r, c.n, c.ref)
    [] c.op = "replace_child" ->
         IF c.n = c.old THEN S
         ELSE LET S1 == InsertEffect(P, S, c.r, c.n, c.old) IN Detach(P, S1, c.old)
    [] c.op = "remove_child" -> Detach(P, S, c.old)
    [] c.op \in {"set_attribute_node", "set_named_item"} ->
         IF c.a \in Range(S.attrs[c.r]) THEN S
         ELSE LET S1 == RemoveNamed(P, S, c.r, P.aname[c.a])
              IN  [S1 EXCEPT !.attrs[c.r] = Append(S1.attrs[c.r], c.a)]
    [] c.op = "remove_attribute_node" -> RemoveNamed(P, S, c.r, P.aname[c.a])
    [] c.op = "remove_named_item" -> RemoveNamed(P, S, c.r, c.name)
    [] c.op = "remove_attribute" -> RemoveNamed(P, S, c.r, c.name)
    [] c.op = "split_text" ->
         LET p == Parent(P, S, c.r)
         IN  [S EXCEPT !.kids[p] = InsertAt(S.kids[p], IndexOf(S.kids[p], c.r) + 1, c.new)]
    [] c.op = "set_value" -> [S EXCEPT !.kids[c.a] = <<c.new>>]

\* the node a successful call returns (None: nothing / unit)
Returned(P, S, c) ==
  CASE c.op \in {"insert_before", "append_child"} -> c.n
    [] c.op = "replace_child" -> c.old
    [] c.op = "remove_child" -> c.old
    [] c.op \in {"set_attribute_node", "set_named_item"} ->
         LET same == { b \in Range(S.attrs[c.r]) : P.aname[b] = P.aname[c.a] /\ b # c.a }
         IN IF same = {} THEN None ELSE CHOOSE b \in same : TRUE
    [] c.op = "remove_attribute_node" ->
         LET same == { b \in Range(S.attrs[c.r]) : P.aname[b] = P.aname[c.a] }
         IN IF same = {} THEN None ELSE CHOOSE b \in same : TRUE
    [] c.op = "remove_named_item" ->
         LET same == { b \in Range(S.attrs[c.r]) : P.aname[b] = c.name }
         IN IF same = {} THEN None ELSE CHOOSE b \in same : TRUE
    [] c.op = "split_text" -> c.new
    [] OTHER -> None

\* ---------------------------------------------------------------------------------------------
\* the calls offered in a pool (every receiver / argument choice among the pool's nodes, including
\* self, ancestors, detached and foreign nodes)

Movable(P) == { n \in Nodes(P) : P.kind[n] \notin {"doc", "attr"} }
AttrNodes(P) == { n \in Nodes(P) : P.kind[n] = "attr" }
ElemNodes(P) == { n \in Nodes(P) : P.kind[n] = "elem" }
\* node 1 is the main document by convention; nodes of other documents are only ever arguments
Receivers(P) == { n \in Nodes(P) : P.kind[n] \notin {"doctype", "eref"} /\ DocOf(P, n) = DocOf(P, 1) }
ANames(P) == { P.aname[a] : a \in AttrNodes(P) }

Calls(P) ==
       { [op |-> "append_child", r |-> r, n |-> n] : r \in Receivers(P), n \in Movable(P) }
  \cup { [op |-> "insert_before", r |-> r, n |-> n, ref |-> ref] :
            r \in Receivers(P), n \in Movable(P), ref \in Movable(P) \cup {None} }
  \cup { [op |-> "replace_child", r |-> r, n |-> n, old |-> old] :
            r \in Receivers(P), n \in Movable(P), old \in Movable(P) }
  \cup { [op |-> "remove_child", r |-> r, old |-> old] : r \in Receivers(P), old \in Movable(P) }
  \cup { [op |-> "set_attribute_node", r |-> r, a |-> a] : r \in ElemNodes(P), a \in AttrNodes(P) }
  \cup { [op |-> "set_named_item", r |-> r, a |-> a] : r \in ElemNodes(P), a \in AttrNodes(P) }
  \cup { [op |-> "remove_attribute_node", r |-> r, a |-> a] : r \in ElemNodes(P), a \in AttrNodes(P) }
  \cup { [op |-> "remove_named_item", r |-> r, name |-> nm] : r \in ElemNodes(P), nm \in ANames(P) }
  \cup { [op |-> "remove_attribute", r |-> r, name |-> nm] : r \in ElemNodes(P), nm \in ANames(P) }

\* calls for which DOM L1 prescribes a definite answer (the others are not generated)
Definite(P, S, c) == ~Outcome(P, S, c).any

=============================================================================
