------------------------------- MODULE MC_Scalar -------------------------------
(***************************************************************************)
(* C09: the core functions and operators on scalar arguments.              *)
(* TLC applies every scalar function of the core library at every arity,   *)
(* and every operator, to the members of a value pool (strings: empty,     *)
(* white space, non-ASCII incl. astral, numeric-looking in every lexical   *)
(* variation; numbers: NaN, both infinities, both zeros, halves, huge,     *)
(* tiny), computes the XPath 1.0 result with ScalarFns/XPathSem and prints *)
(* one REPLAY line per application (same format as MC_XPath, the document  *)
(* is <r/>).  Design-level theorems checked on every case: results are     *)
(* well-typed for the function, string functions never lengthen their      *)
(* argument, round/floor/ceiling are ordered, comparison duality.          *)
(***************************************************************************)
EXTENDS XPathDoc, XPathSyntax, TLC, Json, SequencesExt

CONSTANT Tier            \* "quick" | "thorough"

FastSortedSeq(S) == SetToSeq(S)
CpTab == TLCEval([w \in CpWords |-> CpCase(w)])
FastCp(w) == CpTab[w]

DocR == [prolog |-> <<>>, nodes |-> <<
  [k |-> "root", p |-> 0, pre |-> <<>>, loc |-> <<>>, uri |-> <<>>, v |-> <<>>, raw |-> <<>>],
  [k |-> "elem", p |-> 1, pre |-> <<>>, loc |-> <<114>>, uri |-> <<>>, v |-> <<>>, raw |-> <<>>] >>]

Str(v)  == [t |-> "str", v |-> v]
NumE(n) == [t |-> "num", n |-> n]
Fn(f, args) == [t |-> "fn", name |-> f, args |-> args]
Bin(o, l, r) == [t |-> "bin", op |-> o, l |-> l, r |-> r]
NegE(e) == [t |-> "neg", e |-> e]

(***************************************************************************)
(* Value pool                                                              *)
(***************************************************************************)
\* lexical classes for number(): white space, '-', '+', digit, '.', 'e', letter
LexAlphabet == {32, 45, 43, 49, 46, 101, 120} \cup (IF Tier = "thorough" THEN {9, 48} ELSE {})
LexStrings(n) == UNION { [1..k -> LexAlphabet] : k \in 0..n }

NamedStrings ==
  { <<>>, <<32>>, <<97>>, <<97, 98>>, <<26085, 26412>>, <<233, 128512>>, <<32, 49, 50, 32>>, <<45, 48, 46, 53>>,
    <<49, 101, 51>>, <<43, 49>>, <<46, 53>>, <<53, 46>>, <<73, 110, 102, 105, 110, 105, 116, 121>>, <<78, 97, 78>>,
    <<48, 120, 49, 48>>, <<49, 32, 50>>, <<49, 50, 51, 52, 53>>, <<10, 49, 46, 53, 9>>, <<45, 48>>, <<45>>, <<46>>,
    <<48, 46, 48, 48, 48, 57, 55, 54, 53, 54, 50, 53>>, <<49, 48, 52, 56, 53, 55, 53>>, <<32, 97, 32, 32, 98, 9, 10, 99, 32>>,
    <<116, 114, 117, 101>>, <<45, 45, 49>>, <<49, 46, 50, 46, 51>>,
    <<105, 116, 39, 115>>, <<34, 113, 34>>, <<60, 38, 62>>,                 \* it's  "q"  <&>  (quoting of literals)
    \* numerals padded with white space that is NOT the XML production S (NBSP, IDEOGRAPHIC SPACE, EM SPACE): NaN
    <<160, 49, 50>>, <<49, 50, 12288>>, <<8195, 55, 8195>> }
SmallStrings == { <<>>, <<97>>, <<97, 98>>, <<26085, 26412>>, <<233, 128512>>, <<49, 50, 51, 52, 53>>, <<32, 97, 32, 32, 98, 32>> }
Needles == { <<>>, <<97>>, <<98>>, <<26412>>, <<128512>>, <<32>>, <<50, 51>>, <<97, 98>> }

Numbers ==
  { NaN, PInf, NInf, PZero, NZero, Fin(512), Fin(-512), Fin(1024), Fin(-1024), Fin(1536), Fin(-1536), Fin(2560), Fin(-2560),
    Fin(3072), Fin(10240), Fin(1073740800), Fin(1) }           \* ... 3, 10, 1048575, 2^-10
NumArgs == Numbers \cup (IF Tier = "thorough" THEN {Fin(2048), Fin(-2048), Fin(4096), Fin(6144), Fin(256)} ELSE {})

SE(S) == { Str(s) : s \in S }
NE(S) == { NumE(n) : n \in S }
Bools == { Fn("true", <<>>), Fn("false", <<>>) }
AnyScalars == SE(NamedStrings) \cup NE(Numbers) \cup Bools

CmpOps == {"=", "!=", "<", "<=", ">", ">="}
ArOps  == {"+", "-", "*", "div", "mod"}

Families == {"conv", "numparse", "str2", "substr2", "substr3", "strfn", "translate", "round", "arith", "cmp", "logic", "illtyped"}

SmallSeq == SetToSeq(SmallStrings)
Seeds ==
  { [fam |-> f, a |-> "-", i |-> 0] : f \in Families \ {"substr3", "arith", "cmp", "str2"} }
  \cup { [fam |-> "substr3", a |-> "-", i |-> k] : k \in 1..Len(SmallSeq) }
  \cup { [fam |-> "arith", a |-> o, i |-> 0] : o \in ArOps }
  \cup { [fam |-> "cmp", a |-> o, i |-> 0] : o \in CmpOps }
  \cup { [fam |-> "str2", a |-> f, i |-> 0] : f \in {"starts-with", "contains", "substring-before", "substring-after", "concat"} }

Expand(s) ==
  CASE s.fam = "conv" ->
         { Fn(f, <<x>>) : f \in {"string", "number", "boolean", "not"}, x \in AnyScalars }
         \cup { Fn("string-length", <<x>>) : x \in AnyScalars } \cup { Fn("normalize-space", <<x>>) : x \in AnyScalars }
    [] s.fam = "numparse" ->
         { Fn("number", <<Str(x)>>) : x \in LexStrings(IF Tier = "thorough" THEN 4 ELSE 3) }
    [] s.fam = "str2" ->
         { Fn(s.a, <<Str(x), Str(y)>>) : x \in NamedStrings, y \in Needles }
         \cup { Fn(s.a, <<x, y>>) : x \in NE({NaN, NZero, Fin(1536), PInf}) \cup Bools, y \in SE({<<97>>, <<78>>, <<49>>, <<>>}) }
         \cup (IF s.a = "concat" THEN { Fn("concat", <<Str(x), y, Str(x)>>) : x \in SmallStrings, y \in NE(Numbers) \cup Bools } ELSE {})
    [] s.fam = "substr2" ->
         { Fn("substring", <<Str(x), NumE(p)>>) : x \in SmallStrings, p \in NumArgs }
         \cup { Fn("substring", <<Str(x), Str(p)>>) : x \in SmallStrings, p \in {<<50>>, <<32, 50, 32>>, <<120>>, <<>>} }
    [] s.fam = "substr3" ->
         { Fn("substring", <<Str(SmallSeq[s.i]), NumE(p), NumE(l)>>) : p \in NumArgs, l \in NumArgs }
    [] s.fam = "strfn" ->
         { Fn("normalize-space", <<Str(x)>>) : x \in LexStrings(3) }
         \cup { Fn("string-length", <<Str(x)>>) : x \in NamedStrings }
         \cup { Fn("string", <<NumE(n)>>) : n \in NumArgs \cup {Fin(1025), Fin(-1047552), Fin(102400), Fin(1536000)} }
    [] s.fam = "translate" ->
         { Fn("translate", <<Str(x), Str(y), Str(z)>>) : x \in SmallStrings, y \in Needles \cup {<<97, 97, 98>>, <<26085, 97>>},
                                                          z \in {<<>>, <<120>>, <<120, 121>>, <<128512, 26412, 122>>} }
    [] s.fam = "round" ->
         { Fn(f, <<x>>) : f \in {"floor", "ceiling", "round"}, x \in NE(NumArgs \cup {Fin(1023), Fin(-1), Fin(-511), Fin(-513), Fin(513), Fin(511)})
                                                                   \cup SE(NamedStrings) \cup Bools }
         \cup { NegE(x) : x \in AnyScalars } \cup { NegE(NegE(x)) : x \in AnyScalars }
    [] s.fam = "arith" -> { Bin(s.a, x, y) : x \in NE(NumArgs), y \in NE(NumArgs) }
                          \cup { Bin(s.a, x, y) : x \in SE({<<49, 50>>, <<32, 50, 32>>, <<97>>, <<>>}) \cup Bools, y \in NE({Fin(2048), NaN, PZero}) \cup Bools }
    [] s.fam = "cmp" -> { Bin(s.a, x, y) : x \in NE(Numbers), y \in NE(Numbers) }
                        \cup { Bin(s.a, x, y) : x \in SE({<<>>, <<97>>, <<49>>, <<32, 49, 32>>, <<78, 97, 78>>, <<49, 46, 48>>}) \cup Bools,
                                                y \in NE({NaN, PZero, NZero, Fin(1024), PInf}) \cup Bools \cup SE({<<>>, <<97>>, <<49>>, <<49, 46, 48>>}) }
                        \cup { Bin(s.a, y, x) : x \in SE({<<97>>, <<49>>}) \cup Bools, y \in NE({NaN, PZero, Fin(1024)}) }
    [] s.fam = "logic" -> { Bin(o, x, y) : o \in {"or", "and"}, x \in AnyScalars, y \in SE({<<>>, <<97>>}) \cup NE({NaN, PZero, Fin(512)}) \cup Bools }
    [] s.fam = "illtyped" ->
         { Fn("count", <<NumE(Fin(1024))>>), Fn("sum", <<Str(<<120>>)>>), Fn("concat", <<Str(<<97>>)>>), Fn("substring", <<Str(<<97>>)>>),
           Fn("true", <<NumE(Fin(1024))>>), Fn("not", <<>>), Fn("translate", <<Str(<<97>>), Str(<<97>>)>>), Fn("nofunc", <<>>),
           Fn("round", <<>>), Fn("contains", <<Str(<<97>>)>>), Fn("string-length", <<Str(<<97>>), Str(<<97>>)>>),
           Fn("name", <<Str(<<97>>)>>), Fn("local-name", <<NumE(Fin(1024))>>), Bin("|", NumE(Fin(1024)), NumE(Fin(1024))),
           Fn("floor", <<NumE(Fin(1024)), NumE(Fin(1024))>>), Fn("boolean", <<>>), Fn("starts-with", <<Str(<<97>>)>>) }

VARIABLES stage, seed, ast
vars == <<stage, seed, ast>>
Init == stage = 0 /\ seed \in Seeds /\ ast = NumE(PZero)
Next == stage = 0 /\ stage' = 1 /\ seed' = seed /\ ast' \in Expand(seed)
Spec == Init /\ [][Next]_vars

Val(e) == EvalTop(DocR, e, <<>>)

(***************************************************************************)
(* Theorems                                                                *)
(***************************************************************************)
ResultType(f) ==
  CASE f \in {"string", "concat", "substring", "substring-before", "substring-after", "normalize-space", "translate"} -> "str"
    [] f \in {"number", "string-length", "floor", "ceiling", "round"} -> "num"
    [] f \in {"boolean", "not", "starts-with", "contains", "true", "false"} -> "bool"
    [] OTHER -> "any"
Typed ==
  LET v == Val(ast) IN
  /\ (ast.t = "fn" /\ ResultType(ast.name) # "any") => v.t \in {ResultType(ast.name), "err", "unk"}
  /\ (ast.t = "bin" /\ ast.op \in CmpOps \cup {"or", "and"}) => v.t \in {"bool", "unk"}
  /\ (ast.t = "bin" /\ ast.op \in ArOps) => v.t = "num"
  /\ ast.t = "neg" => v.t = "num"
Shrinks ==
  (ast.t = "fn" /\ ast.name \in {"substring", "substring-before", "substring-after", "normalize-space", "translate"}
     /\ ast.args[1].t = "str" /\ Val(ast).t = "str") => Len(Val(ast).v) <= Len(ast.args[1].v)
RoundOrder ==
  (ast.t = "fn" /\ ast.name = "round" /\ Len(ast.args) = 1 /\ ast.args[1].t = "num") =>
     LET x == ast.args[1]
     IN  /\ NumLe(Val(Fn("floor", <<x>>)).n, Val(ast).n) \in {"T", "U"} \/ IsNaN(x.n)
         /\ NumLe(Val(ast).n, Val(Fn("ceiling", <<x>>)).n) \in {"T", "U"} \/ IsNaN(x.n)
CmpDual ==
  (ast.t = "bin" /\ ast.op \in {"<", "<="}) =>
     Val(ast) = Val(Bin(IF ast.op = "<" THEN ">" ELSE ">=", ast.r, ast.l))
\* substring(s, p) = substring(s, p, +Infinity), except for p = -Infinity (-Infinity + Infinity is NaN:
\* the recommendation's own example substring("12345", -1 div 0, 1 div 0) = "")
SubstrDefault ==
  (ast.t = "fn" /\ ast.name = "substring" /\ Len(ast.args) = 2 /\ ToNum(DocR, Val(ast.args[2])).n.cls # "ninf") =>
     Val(ast) = Val(Fn("substring", <<ast.args[1], ast.args[2], NumE(PInf)>>))

CaseStyles == <<Canonical, [abbrev |-> TRUE, ws |-> 1, parens |-> TRUE]>>
Case == [k |-> "xp", fam |-> seed.fam, doc |-> 1, ast |-> ast, styles |-> CaseStyles,
         sp |-> Spellings(ast, CaseStyles), exp |-> Val(ast)]
Emit == PrintT(<<"REPLAY", ToJson(Case)>>)
Inv == stage = 1 => (Typed /\ Shrinks /\ RoundOrder /\ CmpDual /\ SubstrDefault /\ Emit)

ASSUME PrintT(<<"DOC", ToJson([k |-> "doc", doc |-> 1, tree |-> DocR, text |-> Ser(DocR)])>>)
\* the example table of number -> string conversions outside the exact range (ScalarFns!NumStringTable)
ASSUME \A i \in 1..Len(NumStringTable) :
         PrintT(<<"REPLAY", ToJson([k |-> "tab", doc |-> 1, expr |-> NumStringTable[i].x, exp |-> NumStringTable[i].s])>>)
=============================================================================
