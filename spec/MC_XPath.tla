------------------------------- MODULE MC_XPath -------------------------------
(***************************************************************************)
(* Bounded model of XPath evaluation (C05, C07, C08).                      *)
(*                                                                         *)
(* TLC enumerates (document, expression) pairs: the documents of the pool  *)
(* below, the expressions of a layered grammar (families).  For every pair *)
(* it checks the specification's own theorems (node-sets strictly sorted   *)
(* in document order, union algebra, (E)[k] counts in document order,      *)
(* [n] = [position()=n]) and prints one REPLAY line carrying the document  *)
(* index, the abstract expression, its spellings (XPathSyntax!Unparse) and *)
(* the expected value (XPathSem!Eval).  The harness replays every spelling *)
(* on the real crates.                                                     *)
(*                                                                         *)
(* State space: an initial state per seed (family, document, slice); one   *)
(* successor per expression of the slice.  History-free, so the number of  *)
(* distinct states is 1 + #seeds + #cases.                                 *)
(***************************************************************************)
EXTENDS XPathDoc, XPathSyntax, TLC, Json, SequencesExt

CONSTANT Tier            \* "tiny" | "quick" | "thorough"

\* TLC-only accelerations, installed by the cfg (CONSTANT SortedSeq <- FastSortedSeq, Cp <- FastCp).
\* SetToSeq enumerates a set of integers in ascending order (checked by SortedInv on every case).
FastSortedSeq(S) == SetToSeq(S)
CpTab == TLCEval([w \in CpWords |-> CpCase(w)])
FastCp(w) == CpTab[w]

(***************************************************************************)
(* Document pool                                                           *)
(***************************************************************************)
Nd(k, p, pre, loc, uri, v) == [k |-> k, p |-> p, pre |-> pre, loc |-> loc, uri |-> uri, v |-> v, raw |-> <<>>]
RootN      == Nd("root", 0, <<>>, <<>>, <<>>, <<>>)
El(p, n)   == Nd("elem", p, <<>>, Cp(n), <<>>, <<>>)
At(p, n, v) == Nd("attr", p, <<>>, Cp(n), <<>>, Cp(v))
Tx(p, v)   == Nd("text", p, <<>>, <<>>, <<>>, Cp(v))
TxC(p, v)  == Nd("text", p, <<>>, <<>>, <<>>, v)
TxRaw(p, v, raw) == [Nd("text", p, <<>>, <<>>, <<>>, v) EXCEPT !.raw = raw]
Cm(p, v)   == Nd("comment", p, <<>>, <<>>, <<>>, Cp(v))
Pi(p, t, v) == Nd("pi", p, <<>>, Cp(t), <<>>, IF v = "" THEN <<>> ELSE Cp(v))

\* <a x="1"><b>ab</b><!--c--><b y="2"><c/>12</b><?p s?></a>
D1 == [prolog |-> <<>>, nodes |-> <<
  RootN, El(1, "a"), At(2, "x", "1"), El(2, "b"), Tx(4, "ab"), Cm(2, "c"), El(2, "b"), At(7, "y", "2"),
  El(7, "c"), Tx(7, "12"), Pi(2, "p", "s") >>]
\* <a><b><c/><c x="1">1</c></b>s<b/><c>2</c></a>
D2 == [prolog |-> <<>>, nodes |-> <<
  RootN, El(1, "a"), El(2, "b"), El(3, "c"), El(3, "c"), At(5, "x", "1"), Tx(5, "1"), Tx(2, "s"), El(2, "b"),
  El(2, "c"), Tx(10, "2") >>]
\* <!--c--><a><b/><?p s?>1</a><?p?>
D3 == [prolog |-> <<>>, nodes |-> <<
  RootN, Cm(1, "c"), El(1, "a"), El(3, "b"), Pi(3, "p", "s"), Tx(3, "1"), Pi(1, "p", "") >>]
\* <a><a><a/>1</a><b><a x="1" y="2"/><b>2</b></b></a>
D4 == [prolog |-> <<>>, nodes |-> <<
  RootN, El(1, "a"), El(2, "a"), El(3, "a"), Tx(3, "1"), El(2, "b"), El(6, "a"), At(7, "x", "1"), At(7, "y", "2"),
  El(6, "b"), Tx(10, "2") >>]
\* <!DOCTYPE a [<!ENTITY e "12">]><a>1<![CDATA[2]]>&#97;<b/>&e;</a>   (merged text runs: "12a" and "12")
D5 == [prolog |-> <<60,33,68,79,67,84,89,80,69,32,97,32,91,60,33,69,78,84,73,84,89,32,101,32,34,49,50,34,62,93,62>>,
       nodes |-> << RootN, El(1, "a"),
                    TxRaw(2, <<49, 50, 97>>, <<49,60,33,91,67,68,65,84,65,91,50,93,93,62,38,35,57,55,59>>),
                    El(2, "b"), TxRaw(2, <<49, 50>>, <<38, 101, 59>>) >>]
\* <a x="2"><b x="1">1</b><b>2</b><c x="12">ab</c><b x="2"> 12 </b></a>
D6 == [prolog |-> <<>>, nodes |-> <<
  RootN, El(1, "a"), At(2, "x", "2"), El(2, "b"), At(4, "x", "1"), Tx(4, "1"), El(2, "b"), Tx(7, "2"),
  El(2, "c"), At(9, "x", "12"), Tx(9, "ab"), El(2, "b"), At(12, "x", "2"), TxC(12, <<32, 49, 50, 32>>) >>]

\* <a xml:lang="en"><b xml:lang="en-US">1<c/></b><b xml:lang="">2</b><c xml:lang="fr"><!--c--></c>s</a>
LangAt(p, v) == Nd("attr", p, Cp("xml"), Cp("lang"), XmlNsUri, IF v = "" THEN <<>> ELSE Cp(v))
D7 == [prolog |-> <<>>, nodes |-> <<
  RootN, El(1, "a"), LangAt(2, "en"), El(2, "b"), LangAt(4, "en-US"), Tx(4, "1"), El(4, "c"), El(2, "b"), LangAt(8, ""),
  Tx(8, "2"), El(2, "c"), LangAt(11, "fr"), Cm(11, "c"), Tx(2, "s") >>]

\* <a xmlns:p="u1" x="1"><p:b p:x="1" x="2"><b/></p:b><c xmlns:q="u2"><q:b/>1</c></a>
\* with its namespace nodes (every element: the implicit xml binding and the declarations in scope)
NsN(p, pre, uri) == Nd("ns", p, <<>>, pre, <<>>, uri)
XmlNs(p) == NsN(p, Cp("xml"), XmlNsUri)
ElQ(p, pre, n, uri) == Nd("elem", p, Cp(pre), Cp(n), Cp(uri), <<>>)
D8 == [prolog |-> <<>>, nodes |-> <<
  RootN,
  El(1, "a"), XmlNs(2), NsN(2, Cp("p"), Cp("u1")), At(2, "x", "1"),
  ElQ(2, "p", "b", "u1"), XmlNs(6), NsN(6, Cp("p"), Cp("u1")), Nd("attr", 6, Cp("p"), Cp("x"), Cp("u1"), Cp("1")), At(6, "x", "2"),
  El(6, "b"), XmlNs(11), NsN(11, Cp("p"), Cp("u1")),
  El(2, "c"), XmlNs(14), NsN(14, Cp("p"), Cp("u1")), NsN(14, Cp("q"), Cp("u2")),
  ElQ(14, "q", "b", "u2"), XmlNs(18), NsN(18, Cp("p"), Cp("u1")), NsN(18, Cp("q"), Cp("u2")),
  Tx(14, "1") >>]

(***************************************************************************)
(* Generated documents (thorough tier): <a> with every sequence of at most *)
(* 3 children drawn from 7 child shapes (leaf element, element with an     *)
(* attribute, text, comment, PI, element with text, element with an        *)
(* element child), adjacent text nodes excluded.                           *)
(***************************************************************************)
ChildShapes == {"eb", "ec", "t", "c", "p", "ebt", "ebc"}
ShapeNodes(sh, idx, nth) ==
  CASE sh = "eb"  -> <<El(2, "b")>>
    [] sh = "ec"  -> <<El(2, "c"), At(idx, "x", "1")>>
    [] sh = "t"   -> <<Tx(2, IF nth = 1 THEN "1" ELSE "2")>>
    [] sh = "c"   -> <<Cm(2, "c")>>
    [] sh = "p"   -> <<Pi(2, "p", "s")>>
    [] sh = "ebt" -> <<El(2, "b"), Tx(idx, "12")>>
    [] sh = "ebc" -> <<El(2, "b"), El(idx, "c")>>
RECURSIVE BuildKids(_, _, _)
BuildKids(ks, k, acc) == IF k > Len(ks) THEN acc ELSE BuildKids(ks, k + 1, acc \o ShapeNodes(ks[k], Len(acc) + 1, k))
NoAdjText(ks) == \A k \in 1..(Len(ks) - 1) : ~(ks[k] = "t" /\ ks[k + 1] = "t")
GenShapes == { ks \in UNION { [1..n -> ChildShapes] : n \in 0..3 } : NoAdjText(ks) }
GenDocSeq == IF Tier = "thorough"
             THEN LET S == SetToSeq(GenShapes)
                  IN  [i \in 1..Len(S) |-> [prolog |-> <<>>, nodes |-> BuildKids(S[i], 1, <<RootN, El(1, "a")>>)]]
             ELSE <<>>

\* element and attribute names that begin with (or are) an axis name, a node type or an operator name
\* <order self="1" div="2"><text>1</text><div>4<selfish/><a-b>3</a-b><div>2</div></div><or/><and>1</and><mod/><textual/><andy/><orb/></order>
D9 == [prolog |-> <<>>, nodes |-> <<
  RootN, El(1, "order"), At(2, "self", "1"), At(2, "div", "2"), El(2, "text"), Tx(5, "1"), El(2, "div"), TxC(7, <<52>>),
  El(7, "selfish"), El(7, "a-b"), TxC(10, <<51>>), El(7, "div"), Tx(12, "2"), El(2, "or"), El(2, "and"), Tx(15, "1"),
  El(2, "mod"), El(2, "textual"), El(2, "andy"), El(2, "orb") >>]

\* default namespace on elements and its undeclaration (no attributes: an unprefixed attribute in the scope
\* of a default namespace is reported in that namespace by xml_dom::AsExpandedName - C10, outside /repo/xpath)
\* <a xmlns="u1"><b>1<c xmlns=""><b/></c></b><p:c xmlns:p="u2"/></a>
DefNs(p, uri) == NsN(p, <<>>, Cp(uri))
ElU(p, n, uri) == Nd("elem", p, <<>>, Cp(n), Cp(uri), <<>>)
D10 == [prolog |-> <<>>, nodes |-> <<
  RootN,
  ElU(1, "a", "u1"), XmlNs(2), DefNs(2, "u1"),
  ElU(2, "b", "u1"), XmlNs(5), DefNs(5, "u1"), Tx(5, "1"),
  El(5, "c"), XmlNs(9),
  El(9, "b"), XmlNs(11),
  ElQ(2, "p", "c", "u2"), XmlNs(13), DefNs(13, "u1"), NsN(13, Cp("p"), Cp("u2")) >>]

\* D7 is used by the family "ctx" only, D8 and D10 by "ns", D9 by "kw", the generated ones by "g1"
DocSeq == IF Tier = "tiny" THEN <<D1>> ELSE <<D1, D2, D3, D4, D5, D6, D7, D8, D9, D10>> \o GenDocSeq
NFixed == 10
\* caller-side namespace bindings (prefixes of the expression context; note the swapped ones)
BindSeq == << <<>>,
              << <<Cp("r"), Cp("u1")>> >>,
              << <<Cp("r"), Cp("u2")>>, <<Cp("p"), Cp("u1")>> >>,
              << <<Cp("p"), Cp("u2")>>, <<Cp("q"), Cp("u1")>>, <<Cp("r"), Cp("u")>> >> >>
MainDocs == IF Tier = "tiny" THEN {1} ELSE 1..6
ASSUME \A k \in 1..Len(DocSeq) : TreeOk(DocSeq[k])

(***************************************************************************)
(* Expression grammar                                                      *)
(***************************************************************************)
NumL(i)    == [t |-> "num", n |-> OfInt(i)]
NumH(h)    == [t |-> "num", n |-> Fin(h * 512)]          \* h halves
StrL(s)    == [t |-> "str", v |-> Cp(s)]
Fn0(f)     == [t |-> "fn", name |-> f, args |-> <<>>]
Fn1(f, a)  == [t |-> "fn", name |-> f, args |-> <<a>>]
Fn2(f, a, b) == [t |-> "fn", name |-> f, args |-> <<a, b>>]
Fn3(f, a, b, c) == [t |-> "fn", name |-> f, args |-> <<a, b, c>>]
Bin(o, l, r) == [t |-> "bin", op |-> o, l |-> l, r |-> r]
NegE(e)    == [t |-> "neg", e |-> e]
NameT(n)   == [k |-> "name", pre |-> <<>>, loc |-> Cp(n)]
AnyT       == [k |-> "any"]
TypeT(ty)  == [k |-> "type", ty |-> ty]
Step(ax, test, preds) == [axis |-> ax, test |-> test, preds |-> preds]
Rel(steps) == [t |-> "path", abs |-> FALSE, steps |-> steps]
AbsP(steps) == [t |-> "path", abs |-> TRUE, steps |-> steps]
Filt(e, preds, steps) == [t |-> "filt", e |-> e, preds |-> preds, steps |-> steps]
Dos  == Step("descendant-or-self", TypeT("node"), <<>>)
Self == Step("self", TypeT("node"), <<>>)
Up   == Step("parent", TypeT("node"), <<>>)
Ch(n) == Step("child", NameT(n), <<>>)
AtS(n) == Step("attribute", NameT(n), <<>>)

UsedAxes == Axes \ {"namespace"}
Tests == IF Tier = "tiny" THEN {NameT("b"), AnyT, TypeT("node"), TypeT("text")}
         ELSE {NameT("a"), NameT("b"), NameT("x"), AnyT, TypeT("node"), TypeT("text"), TypeT("comment"), TypeT("pi")}
              \cup (IF Tier = "thorough" THEN {[k |-> "pilit", target |-> Cp("p")], [k |-> "pilit", target |-> Cp("x")], NameT("p")} ELSE {})

PredsSmall == { <<>>, <<NumL(1)>>, <<NumL(2)>>, <<Fn0("last")>> }
PredsMore ==
  { <<Bin("<", Fn0("position"), NumL(3))>>, <<Rel(<<Ch("b")>>)>>, <<Rel(<<AtS("x")>>)>>,
    <<Fn1("not", Rel(<<Ch("c")>>))>>, <<Bin("=", Rel(<<Self>>), StrL("12"))>>,
    <<Bin("=", Fn1("count", Rel(<<Ch("b")>>)), NumL(1))>>, <<NumH(3)>>,
    <<Rel(<<Ch("b")>>), NumL(1)>>, <<NumL(2), NumL(1)>>, <<Bin("=", Bin("mod", Fn0("position"), NumL(2)), NumL(1))>>,
    <<Bin("=", Rel(<<AtS("x")>>), NumL(2))>>, <<Bin(">", Rel(<<Self>>), NumL(1))>>,
    \* predicates whose value is a COMPUTED number (no literal, no position()/last()): still positional
    <<Fn1("count", Rel(<<Ch("c")>>))>>, <<Fn1("number", Rel(<<AtS("x")>>))>>, <<Bin("+", Fn1("count", Rel(<<Ch("b")>>)), NumL(1))>> }
Preds == IF Tier = "tiny" THEN PredsSmall ELSE PredsSmall \cup PredsMore

StepsFull == { Step(ax, t, p) : ax \in UsedAxes, t \in Tests, p \in Preds }
StepsOfAxis(ax) == { Step(ax, t, p) : t \in Tests, p \in Preds }
StepsBare == { Step(ax, t, <<>>) : ax \in UsedAxes, t \in Tests }
\* first steps of multi-step paths
LeadQuick == { <<Dos, Step("child", TypeT("node"), <<>>)>> }
Lead == IF Tier # "thorough" THEN LeadQuick
        ELSE LeadQuick \cup { <<Dos, Ch("b")>>, <<Dos, AtS("x")>> } \cup
        { <<Ch("a")>>, <<Dos, Step("child", AnyT, <<>>)>>, <<Ch("a"), Ch("b")>>, <<Dos, Ch("c")>>,
          <<Ch("a"), Step("child", TypeT("node"), <<NumL(2)>>)>>, <<Dos, Step("child", TypeT("text"), <<>>)>>,
          <<Dos, Step("child", TypeT("comment"), <<>>)>>, <<Dos, Step("child", AnyT, <<NumL(1)>>), Up>> }

\* node-set valued operands for unions, filters, comparisons and functions
PathPool ==
  { AbsP(<<Dos, Ch("b")>>), AbsP(<<Dos, Ch("a")>>), AbsP(<<Dos, Ch("c")>>), AbsP(<<Ch("a"), Ch("b")>>),
    AbsP(<<Dos, AtS("x")>>), AbsP(<<Dos, Step("child", TypeT("text"), <<>>)>>), AbsP(<<>>),
    AbsP(<<Dos, Step("child", AnyT, <<NumL(1)>>)>>), AbsP(<<Dos, Ch("b"), Step("following", AnyT, <<>>)>>),
    AbsP(<<Dos, Step("child", TypeT("node"), <<>>)>>), AbsP(<<Dos, Ch("nofunc")>>),
    Rel(<<Ch("a"), Step("child", TypeT("comment"), <<>>)>>), AbsP(<<Dos, Ch("b"), Step("preceding-sibling", TypeT("node"), <<>>)>>) }
PathPoolSmall == { AbsP(<<Dos, Ch("b")>>), AbsP(<<Dos, Ch("c")>>), AbsP(<<Ch("a"), Step("child", TypeT("node"), <<>>)>>),
                   AbsP(<<Dos, AtS("x")>>), AbsP(<<Dos, Ch("nofunc")>>) }
Pool == IF Tier = "tiny" THEN PathPoolSmall ELSE PathPool

ScalarPool == { NumL(0), NumL(1), NumL(2), NumL(12), NumH(3), StrL("12"), StrL("ab"), StrL("1"), [t |-> "str", v |-> <<>>],
                Fn0("true"), Fn0("false"), [t |-> "num", n |-> NaN] }
CmpOps == {"=", "!=", "<", "<=", ">", ">="}

FilterPreds == { <<NumL(1)>>, <<NumL(2)>>, <<Fn0("last")>>, <<Bin("=", Fn0("position"), NumL(2))>>,
                 <<Rel(<<AtS("x")>>)>>, <<NumL(3)>>, <<Bin(">", Fn0("position"), NumL(1)), NumL(1)>>,
                 \* a later predicate of a filter expression sees the size of what the earlier ones left
                 <<Rel(<<AtS("x")>>), Fn0("last")>>, <<Bin(">", Fn0("position"), NumL(1)), Bin("=", Fn0("position"), Fn0("last"))>> }
FilterSteps == { <<>>, <<Step("child", AnyT, <<>>)>>, <<Up>>, <<Dos, Step("child", TypeT("text"), <<>>)>>,
                 <<Step("ancestor", AnyT, <<NumL(1)>>)>> }

\* functions applied to a node-set P
FnApps(P) ==
  { Fn1("count", P), Fn1("sum", P), Fn1("string", P), Fn1("name", P), Fn1("local-name", P), Fn1("namespace-uri", P),
    Fn1("number", P), Fn1("boolean", P), Fn1("not", P), Fn1("normalize-space", P), Fn1("string-length", P),
    Fn2("concat", P, StrL("s")), Fn2("contains", P, StrL("1")), Fn2("starts-with", P, StrL("a")),
    Fn2("substring", P, NumL(2)), Fn3("substring", P, NumL(1), NumL(1)), Fn3("translate", P, StrL("12"), StrL("ab")),
    \* a character repeated in the second argument: its FIRST occurrence decides ("121" -> "abc": 1 becomes a, never c)
    Fn3("translate", P, [t |-> "str", v |-> <<49, 50, 49>>], StrL("abc")),
    Fn2("substring-before", P, StrL("2")), Fn2("substring-after", P, StrL("1")), Fn1("floor", P), Fn1("round", P),
    NegE(P), Bin("+", P, NumL(1)), Bin("*", P, P) }
\* functions of the context node inside a predicate: //node()[f]
CtxPreds ==
  { Bin("=", Fn0("name"), StrL("b")), Bin("=", Fn0("local-name"), StrL("p")), Bin("=", Fn0("string"), StrL("12")),
    Bin("=", Fn0("string-length"), NumL(2)), Bin("=", Fn0("normalize-space"), StrL("12")), Bin("=", Fn0("number"), NumL(12)),
    Bin("=", Fn0("position"), Fn0("last")), Fn1("lang", StrL("en")), Bin("=", Fn0("namespace-uri"), [t |-> "str", v |-> <<>>]),
    Fn1("lang", StrL("EN")), Fn1("lang", StrL("fr")), Fn1("lang", StrL("en-US")), Fn1("lang", StrL("e")),
    Bin("=", Fn0("name"), [t |-> "str", v |-> Cp("xml") \o Cp(":") \o Cp("lang")]),
    \* one-step REVERSE-axis node-sets taken from a non-root context node, where their (document) order shows:
    \* the first node in document order names the set, (E)[1] and (E)[last()] pick by document order
    Bin("=", Fn1("name", Rel(<<Step("preceding-sibling", AnyT, <<>>)>>)), StrL("b")),
    Bin("=", Fn1("name", Rel(<<Step("ancestor", AnyT, <<>>)>>)), StrL("a")),
    Bin("=", Fn1("string", Rel(<<Step("preceding", TypeT("node"), <<>>)>>)), StrL("ab")),
    Fn1("boolean", Filt(Rel(<<Step("preceding-sibling", TypeT("node"), <<>>)>>), <<NumL(1)>>, <<Step("self", NameT("b"), <<>>)>>)),
    Fn1("boolean", Filt(Rel(<<Step("ancestor-or-self", AnyT, <<>>)>>), <<Fn0("last")>>, <<Step("self", NameT("b"), <<>>)>>)) }

\* operator precedence / associativity family (C08)
Atoms == { NumL(1), NumL(2), NumL(3) }
ArOps == {"or", "and", "=", "!=", "<", "<=", ">", ">=", "+", "-", "*", "div", "mod"}

Families == IF Tier = "tiny" THEN {"p1", "un", "fl"}
            ELSE {"p1", "p2", "un", "fl", "cmp", "fn", "ctx", "ns", "kw", "ar", "ar3"}

\* the quick tier uses fewer documents for the operand-pool families
DocsFor(f) == IF Tier = "quick" /\ f = "cmp" THEN {2, 6}
              ELSE IF Tier = "quick" /\ f \in {"un", "fl"} THEN {1, 2, 4, 6}
              ELSE MainDocs
Seeds ==
  { [fam |-> "p1", d |-> k, a |-> ax, b |-> 1] : k \in MainDocs, ax \in UsedAxes }
  \cup (IF "p2" \in Families THEN { [fam |-> "p2", d |-> k, a |-> ax, b |-> 1] : k \in MainDocs, ax \in UsedAxes } ELSE {})
  \cup UNION { { [fam |-> f, d |-> k, a |-> "-", b |-> 1] : k \in DocsFor(f) } : f \in Families \ {"p1", "p2", "ar", "ar3", "ctx", "ns", "kw"} }
  \cup (IF "ctx" \in Families THEN { [fam |-> "ctx", d |-> k, a |-> "-", b |-> 1] : k \in 1..7 } ELSE {})
  \cup (IF "ns" \in Families THEN { [fam |-> "ns", d |-> dd, a |-> "-", b |-> k] : dd \in {8, 10}, k \in 1..Len(BindSeq) } ELSE {})
  \cup (IF "ar" \in Families THEN { [fam |-> f, d |-> 1, a |-> o, b |-> 1] : f \in {"ar", "ar3"}, o \in ArOps } ELSE {})
  \cup { [fam |-> "g1", d |-> NFixed + k, a |-> ax, b |-> 1] : k \in 1..Len(GenDocSeq), ax \in UsedAxes }
  \cup (IF "kw" \in Families THEN { [fam |-> "kw", d |-> 9, a |-> "-", b |-> 1] } ELSE {})

Expand(s) ==
  CASE s.fam = "p1" -> { Rel(<<st>>) : st \in StepsOfAxis(s.a) } \cup { AbsP(<<Dos, st>>) : st \in StepsOfAxis(s.a) }
    [] s.fam = "g1" -> { AbsP(<<Dos, Step(s.a, t, p)>>) : t \in Tests, p \in PredsSmall }
    [] s.fam = "p2" -> { AbsP(ld \o <<st>>) : ld \in Lead, st \in StepsOfAxis(s.a) }
                       \* every axis from an ATTRIBUTE context node (following / preceding / parent / ancestor ... of
                       \* an attribute), with the bare node tests and a positional predicate - in every tier
                       \cup { AbsP(<<Dos, AtS("x"), Step(s.a, t, p)>>) : t \in Tests, p \in {<<>>, <<NumL(1)>>} }
    [] s.fam = "un" -> { Bin("|", A, B) : A \in Pool, B \in Pool }
                       \cup { Bin("|", Bin("|", A, B), C) : A \in Pool, B \in Pool, C \in PathPoolSmall }
                       \cup { Bin("|", A, Bin("|", B, C)) : A \in PathPoolSmall, B \in Pool, C \in PathPoolSmall }
                       \cup { Fn1("count", Bin("|", A, B)) : A \in Pool, B \in Pool }
                       \* union binds tighter than unary minus and every binary operator
                       \cup { NegE(Bin("|", A, B)) : A \in PathPoolSmall, B \in PathPoolSmall }
                       \cup { Bin(o, Bin("|", A, B), NumL(12)) : o \in {"=", "<", "+", "*", "and"}, A \in PathPoolSmall, B \in PathPoolSmall }
                       \cup { Bin(o, NumL(2), Bin("|", A, B)) : o \in {"!=", ">=", "-", "div", "or"}, A \in PathPoolSmall, B \in PathPoolSmall }
    [] s.fam = "fl" -> { Filt(A, p, st) : A \in Pool, p \in FilterPreds, st \in FilterSteps }
                       \cup { Filt(Bin("|", A, B), p, <<>>) : A \in Pool, B \in PathPoolSmall, p \in FilterPreds }
    [] s.fam = "cmp" -> { Bin(o, A, B) : o \in CmpOps, A \in Pool \cup ScalarPool,
                                         B \in (IF Tier = "thorough" THEN Pool ELSE PathPoolSmall) \cup ScalarPool }
                        \cup { Bin(o, A, B) : o \in CmpOps, A \in ScalarPool, B \in Pool }
    [] s.fam = "fn" -> UNION { FnApps(P) : P \in Pool }
    [] s.fam = "ctx" -> { AbsP(<<Dos, Step("child", TypeT("node"), <<p>>)>>) : p \in CtxPreds }
                        \cup { AbsP(<<Dos, Step(ax, [k |-> "pilit", target |-> Cp(t)], pr)>>) :
                                 ax \in {"child", "following", "preceding-sibling", "self"}, t \in {"p", "x"}, pr \in {<<>>, <<NumL(1)>>} }
                        \cup { AbsP(<<Dos, Step("attribute", AnyT, <<p>>)>>) : p \in CtxPreds }
                        \* the abbreviated steps . and .. right after // (and between steps) in RELATIVE paths, at the top
                        \* level and inside predicates: a//. is a/descendant-or-self::node()/self::node()
                        \cup { Rel(<<Ch("a"), Dos, Self>>), Rel(<<Ch("a"), Dos, Self, Step("child", TypeT("text"), <<>>)>>),
                               Rel(<<Ch("a"), Dos, Up>>), Rel(<<Ch("a"), Self, Ch("b")>>), Rel(<<Self, Dos, Ch("b")>>),
                               Rel(<<Ch("a"), Ch("b"), Dos, Self>>), Fn1("count", Rel(<<Ch("a"), Dos, Self>>)),
                               AbsP(<<Dos, Step("child", AnyT, <<Bin("=", Fn1("count", Rel(<<Self, Dos, Self>>)), NumL(2))>>)>>),
                               AbsP(<<Dos, Step("child", AnyT, <<Rel(<<Ch("b"), Dos, Self, Step("child", TypeT("text"), <<>>)>>)>>)>>),
                               AbsP(<<Ch("a"), Dos, Self>>), AbsP(<<Ch("a"), Dos, Self, Ch("c")>>) }
                        \* an INNER // followed by a child step with a positional predicate: x//t[1] is the first t child of
                        \* every node below x (x/descendant-or-self::node()/child::t[1]), not the first t descendant
                        \cup { AbsP(<<Ch("a"), Dos, Step("child", t, <<p>>)>>) :
                                 t \in {NameT("b"), AnyT, TypeT("node"), TypeT("text")},
                                 p \in {NumL(1), NumL(2), Fn0("last"), Bin("=", Fn0("position"), NumL(2))} }
                        \cup { Rel(<<Ch("a"), Dos, Step("child", AnyT, <<NumL(1)>>)>>),
                               Fn1("count", AbsP(<<Ch("a"), Ch("b"), Dos, Step("child", TypeT("node"), <<NumL(1)>>)>>)),
                               AbsP(<<Dos, Step("child", AnyT, <<Rel(<<Self, Dos, Step("child", AnyT, <<NumL(2)>>)>>)>>)>>) }
    [] s.fam = "ns" ->
         LET T == { [k |-> "name", pre |-> pr, loc |-> Cp(n)] : pr \in {<<>>, Cp("r"), Cp("p"), Cp("q")}, n \in {"b", "x", "c"} }
                  \cup { [k |-> "nsany", pre |-> pr] : pr \in {Cp("r"), Cp("p"), Cp("q")} } \cup {AnyT}
             NameIs(f, v) == Bin("=", Fn0(f), [t |-> "str", v |-> v])
             P == { NameIs("name", Cp("p") \o Cp(":") \o Cp("b")), NameIs("name", Cp("b")), NameIs("local-name", Cp("b")),
                    NameIs("local-name", Cp("x")), NameIs("namespace-uri", Cp("u1")), NameIs("namespace-uri", Cp("u2")),
                    NameIs("namespace-uri", <<>>), NameIs("name", Cp("p") \o Cp(":") \o Cp("x")) }
         IN  { AbsP(<<Dos, Step(ax, t, <<>>)>>) : ax \in {"child", "attribute", "descendant-or-self", "parent"}, t \in T }
             \cup { AbsP(<<Dos, Step("child", AnyT, <<Rel(<<Step(ax, t, <<>>)>>)>>)>>) : ax \in {"child", "attribute", "self"}, t \in T }
             \cup { AbsP(<<Dos, Step(ax, TypeT("node"), <<pr>>)>>) : ax \in {"child", "attribute"}, pr \in P }
             \cup { Fn1(f, AbsP(<<Dos, Step(ax, t, <<>>)>>)) : f \in {"name", "local-name", "namespace-uri", "count"},
                                                             ax \in {"child", "attribute"}, t \in T }
             \* the namespace axis of ONE element at a time (namespace nodes have no identity across elements
             \* through the public API, so node-sets of namespace nodes themselves are not compared)
             \cup LET NT == { NameT("p"), NameT("q"), NameT("xml"), NameT("r"), AnyT, TypeT("node"), TypeT("text") }
                      Nsx(t) == Rel(<<Step("namespace", t, <<>>)>>)
                      One == { <<Ch("a")>>, <<Ch("a"), Ch("c")>>, <<Ch("a"), Ch("c"), Step("child", [k |-> "name", pre |-> Cp("q"), loc |-> Cp("b")], <<>>)>>,
                               <<Ch("a"), Step("child", [k |-> "name", pre |-> Cp("p"), loc |-> Cp("b")], <<>>), Ch("b")>> }
                  IN  { AbsP(<<Dos, Step("child", AnyT, <<Nsx(t)>>)>>) : t \in NT }
                      \cup { AbsP(<<Dos, Step("child", AnyT, <<Bin("=", Nsx(t), [t |-> "str", v |-> Cp("u2")])>>)>>) : t \in NT }
                      \cup { AbsP(<<Dos, Step("child", AnyT, <<Bin("=", Fn1("count", Nsx(AnyT)), NumL(k))>>)>>) : k \in 1..3 }
                      \cup { Fn1(f, AbsP(o \o <<Step("namespace", t, <<>>)>>)) : f \in {"count", "string", "boolean"}, o \in One, t \in NT }
                      \cup { Fn1(f, AbsP(o \o <<Step("namespace", NameT(n), <<>>)>>)) : f \in {"name", "local-name", "namespace-uri"}, o \in One, n \in {"p", "q", "xml"} }
                      \cup { Fn1("count", AbsP(o \o <<Step("namespace", AnyT, <<>>), Step(ax, TypeT("node"), <<>>)>>)) :
                               o \in One, ax \in {"child", "descendant", "attribute", "self", "following-sibling",
                                                  \* a namespace node has a parent (its element), ancestors, and nodes before/after it
                                                  "parent", "ancestor", "ancestor-or-self", "following", "preceding"} }
                      \cup { Fn1(f, AbsP(o \o <<Step("namespace", NameT("p"), <<>>), Up>>)) : f \in {"name", "count"}, o \in One }
                      \* every element has namespace nodes of its own: the namespace axis over several elements
                      \cup { Fn1("count", AbsP(<<Dos, Step("namespace", t, <<>>)>>)) : t \in NT }
                      \cup { Fn1("count", AbsP(<<Dos, Step("namespace", AnyT, <<>>), Up>>)),
                             Fn1("count", AbsP(<<Dos, Step("namespace", AnyT, <<>>), Step("self", TypeT("node"), <<>>)>>)),
                             Fn1("count", Bin("|", AbsP(<<Ch("a"), Step("namespace", AnyT, <<>>)>>), AbsP(<<Ch("a"), Ch("c"), Step("namespace", AnyT, <<>>)>>))) }
    [] s.fam = "kw" ->
         LET KwNames == {"order", "self", "text", "div", "selfish", "a-b", "or", "and", "mod", "textual", "andy", "orb", "comment", "node"}
             E(n) == AbsP(<<Dos, Ch(n)>>)
             R(n) == Rel(<<Ch("order"), Ch(n)>>)
         IN  { E(n) : n \in KwNames } \cup { R(n) : n \in KwNames } \cup { Rel(<<Ch(n)>>) : n \in KwNames }
             \cup { AbsP(<<Dos, AtS(n)>>) : n \in {"self", "div", "or", "text"} }
             \cup { AbsP(<<Dos, Step(ax, NameT(n), <<>>)>>) : ax \in {"self", "descendant", "following-sibling", "parent"}, n \in {"div", "text", "or", "self", "order"} }
             \cup { Bin(o, E(x), E(y)) : o \in {"div", "mod", "and", "or", "*", "-", "+", "=", "|"}, x \in {"div", "a-b", "or", "and", "mod", "text"}, y \in {"div", "and", "a-b"} }
             \cup { Bin(o, R(x), NumL(2)) : o \in {"div", "mod", "and", "or", "*", "-"}, x \in KwNames }
             \cup { Bin(o, NumL(2), R(x)) : o \in {"div", "mod", "and", "or", "*", "-"}, x \in KwNames }
             \cup { AbsP(<<Dos, Step("child", AnyT, <<Rel(<<Ch(n)>>)>>)>>) : n \in KwNames }
             \cup { AbsP(<<Dos, Step("child", AnyT, <<Bin(o, Rel(<<Ch(x)>>), Rel(<<Ch(y)>>))>>)>>) : o \in {"or", "and", "div"}, x \in {"div", "or", "text"}, y \in {"and", "selfish", "a-b"} }
             \cup { Fn1("count", E(n)) : n \in KwNames } \cup { NegE(R(n)) : n \in {"div", "a-b", "text"} }
    [] s.fam = "ar" -> { Bin(s.a, Bin(o, x, y), z) : o \in ArOps, x \in Atoms, y \in {NumL(2)}, z \in Atoms }
                       \cup { Bin(s.a, x, Bin(o, y, z)) : o \in ArOps, x \in Atoms, y \in {NumL(2)}, z \in Atoms }
                       \cup { Bin(s.a, NegE(x), y) : x \in Atoms, y \in Atoms } \cup { NegE(Bin(s.a, x, y)) : x \in Atoms, y \in Atoms }
    [] s.fam = "ar3" -> { Bin(o2, Bin(s.a, NumL(3), Bin(o, NumL(2), NumL(1))), NumL(2)) : o \in ArOps, o2 \in ArOps }
                        \cup { Bin(s.a, Bin(o, NumL(3), NumL(2)), Bin(o2, NumL(1), NumL(2))) : o \in ArOps, o2 \in ArOps }

VARIABLES stage, seed, ast
vars == <<stage, seed, ast>>

Init == stage = 0 /\ seed \in Seeds /\ ast = NumL(0)
Next == /\ stage = 0
        /\ stage' = 1
        /\ seed' = seed
        /\ ast' \in Expand(seed)
Spec == Init /\ [][Next]_vars

Doc == DocSeq[seed.d]
Binds == BindSeq[seed.b]
Val(e) == EvalTop(Doc, e, Binds)

(***************************************************************************)
(* Theorems of the specification, checked on every case                    *)
(***************************************************************************)
SortedInv == WellFormedValue(Doc, Val(ast))

IsUnion(e) == e.t = "bin" /\ e.op = "|"
UnionAlgebra ==
  IsUnion(ast) =>
    LET A == ast.l  B == ast.r
        vA == Val(A)  vB == Val(B)  vAB == Val(ast)
    IN  /\ vAB = Val(Bin("|", B, A))                              \* commutative
        /\ Val(Bin("|", A, A)) = vA                                \* idempotent
        /\ (vA.t = "nodes" /\ vB.t = "nodes") =>
             /\ Len(vAB.v) <= Len(vA.v) + Len(vB.v)
             /\ RangeOf(vAB.v) = RangeOf(vA.v) \cup RangeOf(vB.v)
        /\ IsUnion(A) => vAB = Val(Bin("|", A.l, Bin("|", A.r, B)))     \* associative

\* (E)[k] is the k-th node of E in document order
FilterCounts ==
  (ast.t = "filt" /\ Len(ast.preds) = 1 /\ Len(ast.steps) = 0 /\ ast.preds[1].t = "num") =>
    LET vE == Val(ast.e)  k == ast.preds[1].n.v \div Scale
    IN  vE.t = "nodes" => Val(ast).v = (IF k <= Len(vE.v) THEN <<vE.v[k]>> ELSE <<>>)

\* [n] and [position()=n] denote the same (section 2.5), checked on the last step of a path
NumPredExpansion ==
  (ast.t = "path" /\ Len(ast.steps) >= 1) =>
    LET m  == Len(ast.steps)
        st == ast.steps[m]
    IN  (Len(st.preds) >= 1 /\ st.preds[1].t = "num") =>
          Val(ast) = Val([ast EXCEPT !.steps[m].preds[1] = Bin("=", Fn0("position"), st.preds[1])])

\* the abbreviated and the unabbreviated spelling differ in text exactly when an abbreviation applies,
\* white space and parentheses never change the token sequence apart from '(' ')'
NonParen(toks) == SelectSeq(toks, LAMBDA t : t.s \notin {<<40>>, <<41>>})
StyleInv ==
  /\ NonParen(ET(ast, [abbrev |-> FALSE, ws |-> 0, parens |-> TRUE])) = NonParen(ET(ast, Canonical))
  /\ NonParen(ET(ast, [abbrev |-> TRUE, ws |-> 0, parens |-> TRUE]))
       = NonParen(ET(ast, [abbrev |-> TRUE, ws |-> 0, parens |-> FALSE]))

\* reading back the tokens of the operator families gives the abstract expression again, with minimal
\* and with redundant parentheses (XPathSyntax!Read is written from the grammar, not from NeedsParens)
ReadBack ==
  seed.fam \in {"ar", "ar3"} =>
    /\ Read(ET(ast, Canonical)) = ast
    /\ Read(ET(ast, [abbrev |-> TRUE, ws |-> 0, parens |-> TRUE])) = ast

Case == [k |-> "xp", fam |-> seed.fam, doc |-> seed.d, binds |-> Binds, ast |-> ast,
         sp |-> Spellings(ast, IF Tier = "thorough" /\ seed.fam # "g1" THEN AllStyleSeq ELSE StyleSeq), exp |-> Val(ast)]
Emit == PrintT(<<"REPLAY", ToJson(Case)>>)

Inv == stage = 1 => (SortedInv /\ UnionAlgebra /\ FilterCounts /\ NumPredExpansion /\ StyleInv /\ ReadBack /\ Emit)

\* documents are printed once
ASSUME \A k \in 1..Len(DocSeq) :
         PrintT(<<"DOC", ToJson([k |-> "doc", doc |-> k, tree |-> DocSeq[k], text |-> Ser(DocSeq[k])])>>)
InvVal == stage = 1 => SortedInv
InvSp == stage = 1 => Len(Spellings(ast, StyleSeq)) > 0
InvJson == stage = 1 => Len(ToJson(ast)) > 0
=============================================================================
