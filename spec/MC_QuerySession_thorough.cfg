SPECIFICATION Spec
CONSTANT MaxLen = 4
INVARIANT InvEmit
CHECK_DEADLOCK FALSE
