SPECIFICATION Spec
CONSTANT MaxItems = 3
CONSTANT FullLen = 2
CONSTANT McTypes = {"CDATA", "NMTOKENS", "ENUM"}
INVARIANT Inv
CHECK_DEADLOCK FALSE
