SPECIFICATION Spec
CONSTANT MaxItems = 3
CONSTANT FullLen = 2
INVARIANT Inv
CHECK_DEADLOCK FALSE
