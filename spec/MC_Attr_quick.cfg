SPECIFICATION Spec
CONSTANT MaxItems = 3
CONSTANT FullLen = 2
CONSTANT McTypes = {"CDATA", "ID", "NMTOKEN", "NMTOKENS", "ENUM"}
INVARIANT Inv
CHECK_DEADLOCK FALSE
