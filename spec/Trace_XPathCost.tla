---------------------------- MODULE Trace_XPathCost ----------------------------
(***************************************************************************)
(* Trace validation for C06.  One event = one call of xml_xpath::query in  *)
(* a child process:                                                        *)
(*   {"k":"call", "fam":family, "n":n, "allow":kind, "maxms":bound,        *)
(*    "expr":[cp..], "doc":[cp..], "outcome":"ok"|"err"|"panic"|"abort"|   *)
(*    "timeout", "empty":b (ok with an empty node-set), "ms":n}            *)
(* Every event must be a behaviour Call -> Return | Error of XPathCost:    *)
(* panic, abort and timeout match no action.  For the hostile families the *)
(* text must be the specification's Member(fam, n), the kind of answer     *)
(* must be allowed for the construct, and the time must stay below         *)
(* MaxMs(fam, n).                                                          *)
(***************************************************************************)
EXTENDS Integers, Sequences, TLC, Json, IOUtils

CONSTANT Open

Rec == ndJsonDeserialize(IOEnv.TRACE)
VARIABLE l

\* the Call -> Return | Error machine; its variables are instantiated to "a call is pending"
C == INSTANCE XPathCost WITH pc <- "called", input <- [fam |-> "-", n |-> 0, allow |-> "any"], result <- "none"

CallVerdict(e) ==
  IF e.fam \in C!FamilyNames /\ e.expr # C!Member(e.fam, e.n)
  THEN [verdict |-> "VIOLATION", why |-> "tool: the text is not the specification's family member"]
  ELSE IF e.fam \in C!FamilyNames /\ e.maxms # C!MaxMs(e.fam, e.n)
  THEN [verdict |-> "VIOLATION", why |-> "tool: time bound differs from the specification's"]
  ELSE IF e.outcome \notin {"ok", "err"}
  THEN [verdict |-> "VIOLATION", why |-> "no action of the specification matches: " \o e.outcome,
        spelling |-> e.expr, detail |-> e.detail]
  ELSE IF ~C!Accepts(e.allow, e.outcome, e.empty)
  THEN [verdict |-> "VIOLATION", why |-> "the statement prescribes an error (or an empty node-set) for this construct",
        spelling |-> e.expr, detail |-> e.detail]
  ELSE IF e.ms > e.maxms
  THEN [verdict |-> "VIOLATION", why |-> "time exceeds the polynomial bound of the family", spelling |-> e.expr, ms |-> e.ms]
  ELSE [verdict |-> "ok"]

Verdict(e) == IF e.k = "call" THEN CallVerdict(e) ELSE [verdict |-> "VIOLATION", why |-> "tool: unknown event kind"]
Verdicts == [i \in 1..Len(Rec) |-> Verdict(Rec[i])]

Init == l = 1
Next == /\ l <= Len(Rec)
        /\ LET v == Verdicts[l]
           IN  IF v.verdict = "ok" THEN TRUE ELSE PrintT(<<"VERDICT", ToJson([i |-> l] @@ v)>>)
        /\ l' = l + 1
Spec == Init /\ [][Next]_l

Done == TLCGet("stats").diameter = Len(Rec) + 1 \/
        PrintT(<<"TRUNCATED", TLCGet("stats").diameter, Len(Rec)>>)
=============================================================================
