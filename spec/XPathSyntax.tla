------------------------------ MODULE XPathSyntax ------------------------------
(***************************************************************************)
(* Concrete syntax of XPath 1.0 expressions: Unparse(ast, style) renders   *)
(* an abstract expression (see XPathSem.tla for the datatype) to text, as  *)
(* a sequence of code points.  The grammar productions [1]-[39] of the     *)
(* recommendation are followed token by token; the three style dimensions  *)
(* are exactly the "equivalent spellings" of the recommendation:           *)
(*   abbrev : section 2.5 abbreviations (child:: omitted, @, ., .., //,    *)
(*            [n] for [position()=n]) versus the unabbreviated syntax      *)
(*   ws     : 0 no optional white space, 1 one space between every two     *)
(*            tokens, 2 mixed space/tab/newline between every two tokens   *)
(*            (section 3.7: ExprWhitespace may be used between tokens)     *)
(*   parens : redundant parentheses around every operand, argument and     *)
(*            predicate expression                                         *)
(* NeedsParens implements the precedence/associativity of productions      *)
(* [21]-[27] and [18]: or < and < equality < relational < additive <       *)
(* multiplicative < unary minus < union < path, all binary operators       *)
(* left-associative.                                                       *)
(***************************************************************************)
EXTENDS Integers, Sequences, ScalarFns, XPathChars

Styles == [abbrev : BOOLEAN, ws : 0..2, parens : BOOLEAN]
Canonical == [abbrev |-> FALSE, ws |-> 0, parens |-> FALSE]

\* tokens: w = "word" (names, keywords, numbers: made of name characters), "minus", "sym"
Word(s) == [s |-> s, w |-> "word"]
W(str)  == Word(Cp(str))
Sy(str) == [s |-> Cp(str), w |-> "sym"]
MinusTok == [s |-> <<45>>, w |-> "minus"]
Wrap(toks) == <<Sy("(")>> \o toks \o <<Sy(")")>>

\* a literal: quoted with ' unless it contains one
Lit(v) == LET q == IF \E i \in 1..Len(v) : v[i] = 39 THEN <<34>> ELSE <<39>>
          IN  [s |-> q \o v \o q, w |-> "sym"]

Prec(e) ==
  CASE e.t = "bin" -> (CASE e.op = "or" -> 1 [] e.op = "and" -> 2 [] e.op \in {"=", "!="} -> 3
                         [] e.op \in {"<", "<=", ">", ">="} -> 4 [] e.op \in {"+", "-"} -> 5
                         [] e.op \in {"*", "div", "mod"} -> 6 [] e.op = "|" -> 8)
    [] e.t = "neg" -> 7
    [] OTHER -> 9

\* operand `e` in a position that accepts precedence >= min.  The bare root path '/' is parenthesized
\* as an operand: by the lexical rule of section 3.7 a '*' or a name after the operator '/' is read as a
\* node test, so "/ * 2" and "/ div 2" are not the product and quotient they look like.
IsBareRoot(e) == e.t = "path" /\ e.abs /\ Len(e.steps) = 0
NeedsParens(e, min) == Prec(e) < min \/ (IsBareRoot(e) /\ min > 1)

OpTok(op) == IF op \in {"or", "and", "div", "mod"} THEN W(op) ELSE IF op = "-" THEN MinusTok ELSE Sy(op)

\* number literals: Number ::= Digits ('.' Digits?)? ; everything else through an expression
NumToks(n) ==
  CASE n.cls = "fin" /\ n.v >= 0 -> <<Word(NumToStr(n))>>
    [] n.cls = "fin"             -> Wrap(<<MinusTok, Word(NumToStr(Neg(n)))>>)
    [] n.cls = "nzero"           -> Wrap(<<MinusTok, W("0")>>)
    [] n.cls = "nan"             -> Wrap(<<W("0"), W("div"), W("0")>>)
    [] n.cls = "pinf"            -> Wrap(<<W("1"), W("div"), W("0")>>)
    [] n.cls = "ninf"            -> Wrap(<<MinusTok, W("1"), W("div"), W("0")>>)

QNameToks(pre, loc) == IF pre = <<>> THEN <<Word(loc)>> ELSE <<Word(pre \o <<58>> \o loc)>>

IsNodeTest(step) == step.test.k = "type" /\ step.test.ty = "node" /\ Len(step.preds) = 0
IsDos(step) == step.axis = "descendant-or-self" /\ IsNodeTest(step)

TestToks(test) ==
  CASE test.k = "name"  -> QNameToks(test.pre, test.loc)
    [] test.k = "any"   -> <<Sy("*")>>
    [] test.k = "nsany" -> <<Word(test.pre \o <<58, 42>>)>>
    [] test.k = "type"  -> <<W(CASE test.ty = "node" -> "node" [] test.ty = "text" -> "text"
                                 [] test.ty = "comment" -> "comment" [] test.ty = "pi" -> "processing-instruction"),
                             Sy("("), Sy(")")>>
    [] test.k = "pilit" -> <<W("processing-instruction"), Sy("("), Lit(test.target), Sy(")")>>

RECURSIVE ET(_, _)
RECURSIVE ArgsToks(_, _, _)
RECURSIVE PredsToks(_, _, _)
RECURSIVE StepsToks(_, _, _, _)

Operand(e, st, min) ==
  LET t == ET(e, st)
      u == IF NeedsParens(e, min) THEN Wrap(t) ELSE t
  IN  IF st.parens THEN Wrap(u) ELSE u

ArgsToks(args, k, st) ==
  IF k > Len(args) THEN <<>>
  ELSE (IF k > 1 THEN <<Sy(",")>> ELSE <<>>) \o Operand(args[k], st, 1) \o ArgsToks(args, k + 1, st)

\* [n] abbreviates [position()=n] for a number literal n
PredsToks(preds, k, st) ==
  IF k > Len(preds) THEN <<>>
  ELSE <<Sy("[")>>
       \o (IF ~st.abbrev /\ preds[k].t = "num"
           THEN <<W("position"), Sy("("), Sy(")"), Sy("=")>> \o NumToks(preds[k].n)
           ELSE Operand(preds[k], st, 1))
       \o <<Sy("]")>> \o PredsToks(preds, k + 1, st)

StepToks(step, st) ==
  IF st.abbrev /\ step.axis = "self" /\ IsNodeTest(step) THEN <<Sy(".")>>
  ELSE IF st.abbrev /\ step.axis = "parent" /\ IsNodeTest(step) THEN <<Sy("..")>>
  ELSE (IF st.abbrev /\ step.axis = "child" THEN <<>>
        ELSE IF st.abbrev /\ step.axis = "attribute" THEN <<Sy("@")>>
        ELSE <<W(step.axis), Sy("::")>>)
       \o TestToks(step.test) \o PredsToks(step.preds, 1, st)

\* lead: "none" = first step of a relative path (nothing before it), "slash" = a '/' is due before
\* the step, "done" = the separator has been written already ('//')
StepsToks(steps, k, lead, st) ==
  IF k > Len(steps) THEN <<>>
  ELSE IF st.abbrev /\ lead = "slash" /\ IsDos(steps[k]) /\ k < Len(steps)
       THEN <<Sy("//")>> \o StepsToks(steps, k + 1, "done", st)
       ELSE (IF lead = "slash" THEN <<Sy("/")>> ELSE <<>>)
            \o StepToks(steps[k], st) \o StepsToks(steps, k + 1, "slash", st)

ET(e, st) ==
  CASE e.t = "num" -> NumToks(e.n)
    [] e.t = "str" -> <<Lit(e.v)>>
    [] e.t = "neg" -> <<MinusTok>> \o Operand(e.e, st, 7)
    [] e.t = "bin" -> Operand(e.l, st, Prec(e)) \o <<OpTok(e.op)>> \o Operand(e.r, st, Prec(e) + 1)
    [] e.t = "fn"  -> <<W(e.name), Sy("(")>> \o ArgsToks(e.args, 1, st) \o <<Sy(")")>>
    [] e.t = "path" -> IF e.abs /\ Len(e.steps) = 0 THEN <<Sy("/")>>
                       ELSE StepsToks(e.steps, 1, IF e.abs THEN "slash" ELSE "none", st)
    [] e.t = "filt" -> Wrap(ET(e.e, st)) \o PredsToks(e.preds, 1, st) \o StepsToks(e.steps, 1, "slash", st)

\* white space that MUST separate two tokens: two words would fuse; a '-' after a word would be
\* read as a name character
NeedSp(x, y) == x.w = "word" /\ y.w \in {"word", "minus"}

Sep(x, y, k, ws) ==
  CASE ws = 0 -> IF NeedSp(x, y) THEN <<32>> ELSE <<>>
    [] ws = 1 -> <<32>>
    [] ws = 2 -> (CASE k % 3 = 0 -> <<10>> [] k % 3 = 1 -> <<9>> [] OTHER -> <<32, 13, 10>>)

RECURSIVE Join(_, _, _)
Join(toks, k, ws) ==
  IF k > Len(toks) THEN <<>>
  ELSE (IF k = 1 THEN <<>> ELSE Sep(toks[k - 1], toks[k], k, ws)) \o toks[k].s \o Join(toks, k + 1, ws)

\* ExprWhitespace "may be freely added ... before or after any ExprToken" (XPath 1.0 3.7): also before the first and
\* after the last one (style field pad, optional)
Unparse(e, st) == LET body == Join(ET(e, st), 1, st.ws)
                  IN  IF "pad" \in DOMAIN st /\ st.pad THEN <<32>> \o body \o <<10, 32>> ELSE body

(***************************************************************************)
(* A reader for the operator fragment of the grammar (productions          *)
(* [21]-[27], operands: numbers and parenthesized expressions), written    *)
(* directly from the productions as a precedence-climbing parser over      *)
(* token sequences.  It is independent of NeedsParens: MC_XPath checks     *)
(* that reading back the tokens of Unparse gives the abstract expression   *)
(* again (so a wrong entry in the precedence table, a wrong associativity  *)
(* or a missing parenthesis in the unparser is caught at the specification *)
(* level, before any implementation is involved).                          *)
(***************************************************************************)
BinOps == {"or", "and", "=", "!=", "<", "<=", ">", ">=", "+", "-", "*", "div", "mod", "|"}
OpPrec(o) == Prec([t |-> "bin", op |-> o])
IsBinOpTok(t) == \E o \in BinOps : OpTok(o) = t
OpOfTok(t) == CHOOSE o \in BinOps : OpTok(o) = t
IsNumTok(t) == t.w = "word" /\ IsNumberLex(t.s)

\* results are records [e |-> expression, p |-> index of the next unread token]; p = 0 signals a syntax error
SyntaxError == [t |-> "syntax-error"]
RECURSIVE ReadExpr(_, _, _)
RECURSIVE ReadLoop(_, _, _, _)
RECURSIVE ReadUnary(_, _)
ReadPrimary(toks, p) ==
  IF p > Len(toks) THEN [e |-> SyntaxError, p |-> 0]
  ELSE IF toks[p] = Sy("(")
       THEN LET r == ReadExpr(toks, p + 1, 1)
            IN  IF r.p = 0 \/ r.p > Len(toks) \/ toks[r.p] # Sy(")") THEN [e |-> SyntaxError, p |-> 0] ELSE [e |-> r.e, p |-> r.p + 1]
  ELSE IF IsNumTok(toks[p]) THEN [e |-> [t |-> "num", n |-> StrToNum(toks[p].s)], p |-> p + 1]
  ELSE [e |-> SyntaxError, p |-> 0]
\* UnaryExpr ::= UnionExpr | '-' UnaryExpr
ReadUnary(toks, p) ==
  IF p <= Len(toks) /\ toks[p] = MinusTok
  THEN LET r == ReadUnary(toks, p + 1) IN IF r.p = 0 THEN r ELSE [e |-> [t |-> "neg", e |-> r.e], p |-> r.p]
  ELSE LET r == ReadPrimary(toks, p) IN IF r.p = 0 THEN r ELSE ReadLoop(toks, r.e, r.p, 8)
\* left-associative operators of precedence >= min applied to the operand read so far
ReadLoop(toks, lhs, p, min) ==
  IF p <= Len(toks) /\ IsBinOpTok(toks[p]) /\ OpPrec(OpOfTok(toks[p])) >= min
  THEN LET o == OpOfTok(toks[p])
           r == IF OpPrec(o) >= 7 THEN ReadPrimary(toks, p + 1) ELSE ReadExpr(toks, p + 1, OpPrec(o) + 1)
       IN  IF r.p = 0 THEN r ELSE ReadLoop(toks, [t |-> "bin", op |-> o, l |-> lhs, r |-> r.e], r.p, min)
  ELSE [e |-> lhs, p |-> p]
ReadExpr(toks, p, min) ==
  LET u == ReadUnary(toks, p) IN IF u.p = 0 THEN u ELSE ReadLoop(toks, u.e, u.p, min)
\* the expression a token sequence denotes, or SyntaxError
Read(toks) == LET r == ReadExpr(toks, 1, 1) IN IF r.p = Len(toks) + 1 THEN r.e ELSE SyntaxError

\* all spellings of an expression, the canonical one (unabbreviated, no optional white space,
\* minimal parentheses) first
StyleSeq == << Canonical,
               [abbrev |-> TRUE,  ws |-> 0, parens |-> FALSE],
               [abbrev |-> FALSE, ws |-> 1, parens |-> FALSE],
               [abbrev |-> TRUE,  ws |-> 2, parens |-> FALSE, pad |-> TRUE],
               [abbrev |-> FALSE, ws |-> 0, parens |-> TRUE],
               [abbrev |-> TRUE,  ws |-> 1, parens |-> TRUE] >>
AllStyleSeq == StyleSeq \o << [abbrev |-> TRUE,  ws |-> 1, parens |-> FALSE],
                              [abbrev |-> FALSE, ws |-> 2, parens |-> FALSE],
                              [abbrev |-> TRUE,  ws |-> 0, parens |-> TRUE],
                              [abbrev |-> FALSE, ws |-> 1, parens |-> TRUE],
                              [abbrev |-> TRUE,  ws |-> 2, parens |-> TRUE],
                              [abbrev |-> FALSE, ws |-> 2, parens |-> TRUE] >>
Spellings(e, styles) == [k \in 1..Len(styles) |-> Unparse(e, styles[k])]
=============================================================================
