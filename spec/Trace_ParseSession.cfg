SPECIFICATION TSpec
CONSTANT Texts = {1, 2, 3, 4, 5, 6}
CONSTANT MaxLen = 4
CONSTANT Open = {}
POSTCONDITION Done
CHECK_DEADLOCK FALSE
