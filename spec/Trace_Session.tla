----------------------------- MODULE Trace_Session -----------------------------
(***************************************************************************)
(* Trace validation for C19.  One event = one session on ONE context and   *)
(* ONE document:                                                           *)
(*   {"k":"session", "tree":DOC, "text":[cp..], "binds":[..],              *)
(*    "asts":[AST..], "exprs":[[cp..]..]   the query alphabet,             *)
(*    "qs":[index..]                        the queries issued, in order,  *)
(*    "steps":[{"obs":VALUE, "fresh":VALUE (same query, fresh context and   *)
(*              fresh parse), "pos":n, "size":n (Context::get_position /   *)
(*              get_size after the query), "ser_same":b, "order_same":b}], *)
(*    "reparse_eq":b, "reparse_ser_eq":b}                                  *)
(* The XPathSession machine is instantiated on the recorded document and   *)
(* alphabet; after every query the observed image of the stacks must       *)
(* satisfy StacksEmptyAtRest and the answer must be FreshOutcome(q), which *)
(* is also what the fresh context answered; the document observations must *)
(* be unchanged.                                                           *)
(***************************************************************************)
EXTENDS XPathDoc, XPathSyntax, TLC, Json, IOUtils, SequencesExt

CONSTANT Open

FastSortedSeq(S) == SetToSeq(S)
CpTab == TLCEval([w \in CpWords |-> CpCase(w)])
FastCp(w) == CpTab[w]

Rec == ndJsonDeserialize(IOEnv.TRACE)
VARIABLE l

\* the session machine on the recorded document, with the observable image of the two stacks
\* (their tops, through get_size / get_position) substituted for the stack variables
Sess(d, qs, b, sz, ps) ==
  INSTANCE XPathSession WITH SDoc <- d, SQueries <- qs, SBinds <- b, MaxLen <- 0, Leaky <- FALSE,
                             szStack <- sz, posStack <- ps, phase <- "rest", cur <- 0, base <- 0,
                             ctx0 <- <<0, 0>>, log <- <<>>
ObsStack(top) == IF top = 0 THEN <<>> ELSE <<top>>

SameNodes(d, o, x) == /\ Len(o) = Len(x)
                      /\ \A k \in 1..Len(o) : o[k] \in 1..N(d)
                      /\ RangeOf(o) = RangeOf(x)
                      /\ \A i, j \in 1..Len(o) : i # j => o[i] # o[j]
ValueOk(d, o, x) ==
  CASE x.t = "unk"   -> o.t \in {"nodes", "num", "str", "bool", "err"}
    [] x.t = "err"   -> o.t = "err"
    [] x.t = "num"   -> o.t = "num" /\ (IsUnk(x.n) \/ (o.n.cls = x.n.cls /\ o.n.v = x.n.v))
    [] x.t = "nodes" -> o.t = "nodes" /\ SameNodes(d, o.v, x.v)
    [] OTHER         -> o.t = x.t /\ o.v = x.v
KindOk(o, x) == x.t = "unk" \/ o.t = x.t
SameObs(a, b) ==
  /\ a.t = b.t
  /\ CASE a.t \in {"err", "panic"} -> TRUE [] a.t = "num" -> a.n = b.n [] OTHER -> a.v = b.v

First(S) == CHOOSE k \in S : \A m \in S : k <= m

FreshOf(e, q) == Sess(e.tree, e.asts, e.binds, <<>>, <<>>)!FreshOutcome(q)
EmptyAtRest(e, st) == Sess(e.tree, e.asts, e.binds, ObsStack(st.size), ObsStack(st.pos))!StacksEmptyAtRest

StepProblem(e, i) ==
  LET st  == e.steps[i]
      q   == e.qs[i]
      exp == FreshOf(e, q)
  IN  IF ~EmptyAtRest(e, st) THEN "the context keeps size/position frames after the query"
      ELSE IF st.obs.t = "panic" THEN "panic"
      ELSE IF ~SameObs(st.obs, st.fresh) THEN "answer differs from the answer on a fresh context"
      \* whether the VALUE is the one XPath 1.0 prescribes is C05/C09's claim; here the kind of outcome
      \* (error or value of the specified type) must be the specified one
      ELSE IF ~KindOk(st.obs, exp) THEN "outcome kind differs from the specified outcome"
      ELSE IF ~st.ser_same THEN "the query changed the document's serialization"
      ELSE IF ~st.order_same THEN "the query changed document-order keys"
      ELSE ""

SessionVerdict(e) ==
  LET bound == /\ TreeOk(e.tree) /\ Ser(e.tree) = e.text
               /\ Len(e.exprs) = Len(e.asts) /\ Len(e.steps) = Len(e.qs)
               /\ \A q \in 1..Len(e.asts) : Unparse(e.asts[q], Canonical) = e.exprs[q]
      bad == {i \in 1..Len(e.qs) : StepProblem(e, i) # ""}
  IN  IF ~bound THEN [verdict |-> "VIOLATION", why |-> "tool: recorded text is not the specification's rendering"]
      ELSE IF bad # {}
      THEN [verdict |-> "VIOLATION", why |-> StepProblem(e, First(bad)), step |-> First(bad),
            spelling |-> e.exprs[e.qs[First(bad)]], observed |-> e.steps[First(bad)],
            expected |-> FreshOf(e, e.qs[First(bad)]),
            history |-> [i \in 1..First(bad) |-> e.exprs[e.qs[i]]]]
      ELSE IF ~e.reparse_eq \/ ~e.reparse_ser_eq
      THEN [verdict |-> "VIOLATION", why |-> "parsing the same text twice gives different documents"]
      ELSE [verdict |-> "ok"]

Verdict(e) ==
  CASE e.k = "session" -> SessionVerdict(e)
    [] e.k = "doc" -> [verdict |-> "VIOLATION", why |-> "a document of the model was rejected", detail |-> e.error]
    \* the harness process hung or was taken down while evaluating this expression (no value, no error)
    [] e.k = "crash" -> [verdict |-> "VIOLATION", why |-> "the evaluation hung or aborted the process: " \o e.how,
                         spelling |-> e.expr]
    [] OTHER -> [verdict |-> "VIOLATION", why |-> "tool: unknown event kind"]

\* (constant level: the recorded document and alphabet are substituted for CONSTANTS of XPathSession)
Verdicts == [i \in 1..Len(Rec) |-> Verdict(Rec[i])]

Init == l = 1
Next == /\ l <= Len(Rec)
        /\ LET v == Verdicts[l]
           IN  IF v.verdict = "ok" THEN TRUE ELSE PrintT(<<"VERDICT", ToJson([i |-> l] @@ v)>>)
        /\ l' = l + 1
Spec == Init /\ [][Next]_l

Done == TLCGet("stats").diameter = Len(Rec) + 1 \/
        PrintT(<<"TRUNCATED", TLCGet("stats").diameter, Len(Rec)>>)
=============================================================================
