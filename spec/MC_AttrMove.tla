------------------------------ MODULE MC_AttrMove ------------------------------
EXTENDS AttrMove, TLC, Json
InvEmit == Len(hist) = MaxLen => PrintT(<<"REPLAY", ToJson([hist |-> hist])>>)
=============================================================================
