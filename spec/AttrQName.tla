------------------------------ MODULE AttrQName ------------------------------
(***************************************************************************)
(* Defaulting is by attribute NAME, and an attribute name is a qualified   *)
(* name: p:a, q:a and a are three different attributes (C11: "attributes   *)
(* declared with a default ... appear when not written").  One element r,  *)
(* one ATTLIST definition for the name D with default "dv" (or #IMPLIED),  *)
(* and any subset of {a, p:a, q:a} written on the element, each with a     *)
(* value of its own.  The observation is deliberately free of names: the   *)
(* SET of (value, specified) pairs of the element's attributes and their   *)
(* number - because this crate's DOM reports local parts as names.         *)
(***************************************************************************)
EXTENDS AttrNormSurface, FiniteSets

NA == <<97>>  NPA == <<112, 58, 97>>  NQA == <<113, 58, 97>>  NR == <<114>>
AllNames == <<NA, NPA, NQA>>
ValOf(n) == IF n = NA THEN <<CI(49)>> ELSE IF n = NPA THEN <<CI(50)>> ELSE <<CI(51)>>      \* "1" "2" "3"
DV == <<CI(100), CI(118)>>                                                                  \* "dv"

\* a case: declared name index d, default kind dk, written subset w (of indices 1..3)
QDoc(c) ==
  [ents |-> <<>>,
   attlists |-> << [el |-> NR, defs |-> << [n |-> AllNames[c.d], ty |-> "CDATA", dk |-> c.dk,
                                            dv |-> IF c.dk = "VALUE" THEN DV ELSE <<>>] >>] >>,
   els |-> << [el |-> NR, written |-> SelectSeq([k \in 1..3 |-> [n |-> AllNames[k], v |-> ValOf(AllNames[k])]],
                                                 LAMBDA x : \E k \in c.w : AllNames[k] = x.n)] >>]

Cases == { [d |-> d, dk |-> dk, w |-> w] : d \in 1..3, dk \in {"VALUE", "IMPLIED"}, w \in SUBSET (1..3) }

\* what must be observed: the pairs (value, specified) and their number
Pairs(c) == { <<x.v, x.spec>> : x \in Expected(QDoc(c), 1) }
Count(c) == Cardinality(Expected(QDoc(c), 1))

\* design: the default appears exactly when its own name is not written - whatever else is written
DesignInv == \A c \in Cases :
   LET defaulted == c.dk = "VALUE" /\ c.d \notin c.w
   IN  /\ Count(c) = Cardinality(c.w) + (IF defaulted THEN 1 ELSE 0)
       /\ (defaulted <=> <<<<100, 118>>, FALSE>> \in Pairs(c))

(***************************************************************************)
(* The same for ELEMENT type names: an attribute-list declaration belongs   *)
(* to the element type whose (qualified) name it gives.  Three children     *)
(* a:x, b:x and x of the document element r; any non-empty subset of the    *)
(* three types has an ATTLIST, each with a default of its own for the       *)
(* attribute d.  Every child has exactly the defaults of ITS type.          *)
(***************************************************************************)
ElNames == <<<<97, 58, 120>>, <<98, 58, 120>>, <<120>>>>          \* a:x  b:x  x
ElDefault(k) == <<CI(100), CI(48 + k)>>                            \* "d1" "d2" "d3"
ND == <<100>>                                                      \* the attribute d
EDoc(D) ==
  [ents |-> <<>>,
   attlists |-> [j \in 1..Cardinality(D) |->
                   LET k == CHOOSE k \in D : Cardinality({ m \in D : m < k }) = j - 1
                   IN  [el |-> ElNames[k], defs |-> << [n |-> ND, ty |-> "CDATA", dk |-> "VALUE", dv |-> ElDefault(k)] >>]],
   els |-> << [el |-> NR, written |-> <<>>] >> \o [k \in 1..3 |-> [el |-> ElNames[k], written |-> <<>>]]]
ECases == (SUBSET (1..3)) \ {{}}
\* child k is els[k + 1]
EPairs(D, k) == { <<x.v, x.spec>> : x \in Expected(EDoc(D), k + 1) }
DesignInvE == \A D \in ECases : \A k \in 1..3 :
   EPairs(D, k) = IF k \in D THEN { <<<<100, 48 + k>>, FALSE>> } ELSE {}

(***************************************************************************)
(* One entity, two kinds of reference: included in an ATTRIBUTE VALUE every *)
(* white-space character of the replacement text becomes a space (3.3.3),   *)
(* included in CONTENT it stays what it is - whichever is looked at first.  *)
(* <!DOCTYPE r [<!ENTITY e "a&#9;b&#10;c">]><r x="&e;">&e;</r>, typed or    *)
(* not; the harness reads content then attribute, or attribute then content.*)
(***************************************************************************)
NX == <<120>>  NE == <<101>>
SharedEnt == << [n |-> NE, v |-> <<CI(97), [t |-> "r", c |-> 9], CI(98), [t |-> "r", c |-> 10], CI(99)>>] >>
SDoc(ty) ==
  [ents |-> SharedEnt,
   attlists |-> IF ty = "" THEN <<>> ELSE << [el |-> NR, defs |-> << [n |-> NX, ty |-> ty, dk |-> "IMPLIED", dv |-> <<>>] >>] >>,
   els |-> << [el |-> NR, written |-> << [n |-> NX, v |-> << [t |-> "e", n |-> NE] >>] >>] >>]
STypes == {"", "CDATA", "NMTOKENS"}
\* the text: Render gives <r x="&e;"/>; the content reference is put between the tags
SText(ty) == LET t == Render(SDoc(ty)) IN SubSeq(t, 1, Len(t) - 2) \o <<62, 38, 101, 59, 60, 47, 114, 62>>     \* >&e;</r>
SAttrValue(ty) == (CHOOSE x \in Expected(SDoc(ty), 1) : x.n = NX).v
SContent == <<97, 9, 98, 10, 99>>                                 \* a TAB b LF c : the replacement text as it is
=============================================================================
