SPECIFICATION Spec
CONSTANT Dev = {}
CONSTANT Open = {}
POSTCONDITION Done
CHECK_DEADLOCK FALSE
