SPECIFICATION Spec
CONSTANTS MaxTokens = 4
 MaxDepth = 2
 MaxBad = 1
 MaxTop = 2
 MaxDtd = 2
 MaxTrunc = 2
 Wide = FALSE
 NStylesGood = 2
 NStylesBad = 1
INVARIANT Inv
CHECK_DEADLOCK FALSE
