SPECIFICATION Spec
CONSTANT Exhaustive = TRUE
POSTCONDITION Done
CHECK_DEADLOCK FALSE
