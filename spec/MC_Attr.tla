------------------------------- MODULE MC_Attr -------------------------------
(***************************************************************************)
(* C11, spec -> impl.  The attribute value literal grows one item per      *)
(* step (state machine like MC_Name); every reachable state is a literal   *)
(* over the item alphabet.  On every state TLC checks the design-level     *)
(* theorems of AttrNorm.tla and prints one REPLAY case per combination of  *)
(* declared type x default kind x written x ATTLIST layout, carrying the   *)
(* document text (rendered by AttrNormSurface.Render) and the expected set of  *)
(* effective attributes.                                                   *)
(***************************************************************************)
EXTENDS AttrNormSurface, TLC, Json, SequencesExt

CONSTANTS MaxItems,   \* literals have at most this many items
          FullLen,    \* literals up to this length get the full combination matrix, longer ones a reduced one
          McTypes     \* declared types of the full matrix (a subset of AttTypes)

\* a ' ' TAB LF CR (CR LF arises from CR followed by LF) &#32; &#9; &#10; &#13; &#65; &lt; &amp; &e1; &e2; &e3;
\* with e1 = "<CR><LF>x ", e2 = "a&#10;b", e3 = "&e1;<TAB>z" (AttrNormSurface.McEnts)
\* (a tuple, not a set: TLC does not compare records of different shapes)
Alphabet ==
  << CI(97), CI(32), CI(9), CI(10), CI(13),
     RI(32), RI(9), RI(10), RI(13), RI(65),
     EI(N_lt), EI(N_amp), EI(NmE1), EI(NmE2), EI(NmE3) >>

VARIABLE s

Init == s = <<>>
Next == /\ Len(s) < MaxItems
        /\ \E i \in 1..Len(Alphabet) : s' = Append(s, Alphabet[i])
Spec == Init /\ [][Next]_s

(***************************************************************************)
(* Theorems about Normalize on the literal s                               *)
(***************************************************************************)
Tokenized == AttTypes \ {"CDATA"}
N(ty) == Normalize(s, ty, McEnts)

Count(seq, P(_)) == Cardinality({ i \in 1..Len(seq) : P(seq[i]) })

\* TAB / LF / CR survive only through character references written in the literal itself
\* (one occurrence per reference); those inside entity values have become literal (4.5) and are spaces.
OnlyReferencedWs ==
  \A ty \in {"", "CDATA", "NMTOKENS"} : \A c \in {9, 10, 13} :
     LET IsC(x) == x = c
         IsRef(it) == it.t = "r" /\ it.c = c
     IN Count(N(ty), IsC) = Count(s, IsRef)

TokenizedShape == \A ty \in Tokenized : NoEdgeOrDoubleSpace(N(ty)) /\ N(ty) = Tokenize(N("CDATA"))
TypesAgree == N("") = N("CDATA") /\ \A t1, t2 \in Tokenized : N(t1) = N(t2)

HasOnlySpaceWs(v) == \A i \in 1..Len(v) : v[i] \notin {9, 10, 13}
Idempotent ==
  \A ty \in {"CDATA", "NMTOKENS"} :
     HasOnlySpaceWs(N(ty)) => Normalize(AsLiteral(N(ty)), ty, McEnts) = N(ty)

LineEndsTheorems ==
  /\ LineEnds(LineEnds(s)) = LineEnds(s)
  /\ \A i \in 1..Len(LineEnds(s)) : ~(LineEnds(s)[i].t = "c" /\ LineEnds(s)[i].c = 13)
  /\ Len(LineEnds(s)) <= Len(s)

\* a literal without references and white space is its own value
PlainIsIdentity ==
  (\A i \in 1..Len(s) : s[i].t = "c" /\ ~IsWsCp(s[i].c)) => N("NMTOKENS") = [i \in 1..Len(s) |-> s[i].c]

WellFormedSpace == ItemsOk(s, McEnts) /\ DocOk(McDoc([items |-> s, ty |-> "", dk |-> "", layout |-> "none", written |-> TRUE]))

(***************************************************************************)
(* The combination matrix                                                  *)
(***************************************************************************)
ASSUME McTypes \subseteq AttTypes

FullMatrix ==
  { [ty |-> ty, dk |-> dk, layout |-> lay, written |-> TRUE] :
       ty \in McTypes, dk \in DefaultKinds, lay \in {"one", "two", "second"} }
  \cup
  { [ty |-> ty, dk |-> dk, layout |-> lay, written |-> FALSE] :
       ty \in McTypes, dk \in {"VALUE", "FIXED"}, lay \in {"one", "two", "second"} }
  \cup
  { [ty |-> "", dk |-> "", layout |-> lay, written |-> TRUE] : lay \in {"none", "other"} }

\* cases in which the literal is not used at all: emitted once, with the empty literal
LiteralFree ==
  { [ty |-> ty, dk |-> dk, layout |-> lay, written |-> FALSE] :
       ty \in McTypes, dk \in {"IMPLIED", "REQUIRED"}, lay \in {"one", "two", "second"} }
  \cup
  { [ty |-> "", dk |-> "", layout |-> lay, written |-> FALSE] : lay \in {"none", "other"} }

ReducedMatrix ==
  { [ty |-> ty, dk |-> "IMPLIED", layout |-> "one", written |-> TRUE] : ty \in {"CDATA", "NMTOKENS"} }
  \cup
  { [ty |-> ty, dk |-> "VALUE", layout |-> "one", written |-> FALSE] : ty \in {"CDATA", "NMTOKENS"} }

Matrix == IF Len(s) = 0 THEN FullMatrix \cup LiteralFree
          ELSE IF Len(s) <= FullLen THEN FullMatrix ELSE ReducedMatrix

Abs(m) == [items |-> s, ty |-> m.ty, dk |-> m.dk, layout |-> m.layout, written |-> m.written]

(***************************************************************************)
(* Theorems about Effective on every case                                  *)
(***************************************************************************)
EffectiveTheorems(abs) ==
  LET d   == McDoc(abs)
      eff == Expected(d, 1)
      as  == { x \in eff : x.n = NmA }
      declared == abs.ty # ""
      defaulted == declared /\ ~abs.written /\ abs.dk \in {"VALUE", "FIXED"}
  IN /\ AbsOk(abs) /\ DocOk(d)
     /\ \A x, y \in eff : x.n = y.n => x = y                                 \* a function of the name
     /\ (abs.written => as = { [n |-> NmA, v |-> Normalize(abs.items, abs.ty, McEnts), spec |-> TRUE] })
     /\ (defaulted => as = { [n |-> NmA, v |-> Normalize(abs.items, abs.ty, McEnts), spec |-> FALSE] })
     /\ (~abs.written /\ ~defaulted => as = {})
     /\ \A x \in eff : ~x.spec <=> (x.n # NmA \/ defaulted)
     /\ (abs.layout = "two" <=> [n |-> NmB, v |-> <<98, 118>>, spec |-> FALSE] \in eff)
     /\ \A x \in eff : x.n \in {NmA, NmB}                                     \* c #IMPLIED never appears
     /\ Cardinality(eff) = (IF abs.written \/ defaulted THEN 1 ELSE 0) + (IF abs.layout = "two" THEN 1 ELSE 0)
     /\ Lookup(eff, NmC) = <<>>                                               \* get_attribute of an absent name
     /\ (abs.written \/ defaulted => Lookup(eff, NmA) = Normalize(abs.items, abs.ty, McEnts))

Case(abs) ==
  LET d == McDoc(abs)
  IN [k |-> "mc", abs |-> abs, text |-> Render(d),
      expect |-> << SetToSeq(Expected(d, 1)) >>,
      ask |-> << SetToSeq(AskNames(d, 1) \cup {NmC}) >>]

Emit == \A m \in Matrix : PrintT(<<"REPLAY", ToJson(Case(Abs(m)))>>)

Inv == /\ OnlyReferencedWs /\ TokenizedShape /\ TypesAgree /\ Idempotent /\ LineEndsTheorems
       /\ PlainIsIdentity /\ WellFormedSpace
       /\ \A m \in Matrix : EffectiveTheorems(Abs(m))
       /\ Emit
=============================================================================
