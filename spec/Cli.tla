--------------------------------- MODULE Cli ---------------------------------
(***************************************************************************)
(* The two command line tools as compositions of the specification's       *)
(* pieces (C17):                                                           *)
(*   xq  = parse ; XPathSem!EvalTop ; print the selected nodes / scalar    *)
(*   xe  = parse ; XPathSem!EvalTop ; for every selected element /         *)
(*         attribute / document node, in document order: remove all its    *)
(*         children, append a copy of the parsed replacement ; print       *)
(* The document after xe is given as TEXT (code points) produced by the    *)
(* serializer of XPathDoc.tla with the replacement spliced in, so that     *)
(* "every other item is unchanged" holds by construction of the            *)
(* expectation.  A run's outcome is Exit0(stdout) or ExitErr (non-zero     *)
(* status with a message); there is no Crash outcome.                      *)
(***************************************************************************)
EXTENDS XPathDoc, XPathSyntax

\* A replacement fragment: the text given to --value, whether it is well-formed content, the kinds of its
\* top-level items, the number of top-level elements, and (when it is text only) its character data
Frag(text, wf, kinds, nelem, chars, unsupported) ==
  [text |-> text, wf |-> wf, kinds |-> kinds, nelem |-> nelem, chars |-> chars, unsupported |-> unsupported]

\* ---------------------------------------------------------------------------------------------
\* which runs are usable

TargetKinds == {"root", "elem", "attr"}

\* can the items of the fragment be the children of a node of this kind (DOM Level 1 hierarchy)?
FragFits(k, f) ==
  CASE k = "elem" -> TRUE
    [] k = "attr" -> f.kinds \subseteq {"text"}
    [] k = "root" -> f.kinds \subseteq {"elem", "comment", "pi"} /\ f.nelem = 1
    [] OTHER -> FALSE

\* "yes": the run must succeed with exactly the expected document; "no": it must end with a message and a
\* non-zero status; "either": the tool may refuse a construct it does not support (a PI or an entity reference in
\* the replacement) - but if it succeeds the output must still be the expected document
XeUsable(d, v, f) ==
  IF v.t # "nodes" THEN "no"                                \* scalar result, syntax / evaluation error
  ELSE IF ~f.wf THEN "no"
  ELSE IF \E k \in 1..Len(v.v) : Kind(d, v.v[k]) \notin TargetKinds THEN "no"
  ELSE IF \E k \in 1..Len(v.v) : ~FragFits(Kind(d, v.v[k]), f) THEN "no"
  ELSE IF f.unsupported /\ Len(v.v) > 0 THEN "either"
  ELSE "yes"

\* ---------------------------------------------------------------------------------------------
\* the document after the edit, as text

RECURSIVE XSeq(_, _, _, _)
RECURSIVE XNode(_, _, _, _)
RECURSIVE XAttrs(_, _, _, _)

XAttrs(d, s, sel, f) ==
  IF Len(s) = 0 THEN <<>>
  ELSE LET nd == d.nodes[Head(s)]
           val == IF Head(s) \in sel THEN f.chars ELSE nd.v
       IN  <<32>> \o QNameOf(nd) \o <<61, 34>> \o EscAttr(val) \o <<34>> \o XAttrs(d, Tail(s), sel, f)

XSeq(d, s, sel, f) == IF Len(s) = 0 THEN <<>> ELSE XNode(d, Head(s), sel, f) \o XSeq(d, Tail(s), sel, f)

XNode(d, i, sel, f) ==
  LET nd == d.nodes[i] IN
  CASE nd.k = "root"    -> IF i \in sel THEN f.text                \* all children (prolog included) replaced
                           ELSE d.prolog \o XSeq(d, SortedSeq(Children(d, i)), sel, f)
    [] nd.k = "elem"    ->
         LET kids == SortedSeq(Children(d, i))
             open == <<60>> \o QNameOf(nd)
                     \o SerDecls(d, i, SortedSeq(NsNodes(d, i)))
                     \o (IF HasDefaultNs(d, Par(d, i)) /\ ~HasDefaultNs(d, i) THEN NsDecl(<<>>, <<>>) ELSE <<>>)
                     \o XAttrs(d, SortedSeq(AxisSet(d, "attribute", i)), sel, f)
             body == IF i \in sel THEN f.text ELSE XSeq(d, kids, sel, f)
         IN  IF Len(body) = 0 THEN open \o <<47, 62>>
             ELSE open \o <<62>> \o body \o <<60, 47>> \o QNameOf(nd) \o <<62>>
    [] OTHER            -> SerNode(d, i)

XeExpect(d, v, f) == XNode(d, 1, RangeOf(v.v), f)

\* ---------------------------------------------------------------------------------------------
\* properties of the design, checked by TLC on every case (MC_Cli)

\* replacing nothing changes nothing
XeIdentity(d, f) == XNode(d, 1, {}, f) = Ser(d)
\* a selected node nested in another selected node does not matter: the outer replacement wins
XeOuterWins(d, v, f) ==
  LET sel == RangeOf(v.v)
      outer == { i \in sel : Anc(d, i) \cap sel = {} /\ ~(Kind(d, i) = "attr" /\ Par(d, i) \in sel /\ FALSE) }
      \* an attribute of a selected element is still replaced (attributes are not children)
      keep == { i \in sel : Anc(d, i) \cap (sel \ {i}) \subseteq (IF Kind(d, i) = "attr" THEN {Par(d, i)} ELSE {}) }
  IN  XNode(d, 1, sel, f) = XNode(d, 1, keep, f)
=============================================================================
