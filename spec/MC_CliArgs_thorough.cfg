SPECIFICATION Spec
CONSTANT Dev = {}
CONSTANT MaxItems = 3
CONSTANT Items <- ItemsT
INVARIANT InvShape
INVARIANT InvIndent
INVARIANT InvFinal
INVARIANT InvEmit
VIEW ViewToks
CHECK_DEADLOCK FALSE
