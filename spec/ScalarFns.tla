------------------------------ MODULE ScalarFns ------------------------------
(***************************************************************************)
(* XPath 1.0 scalar semantics (sections 3.5, 4.2, 4.4 of the               *)
(* recommendation) on exactly representable values.                        *)
(*                                                                         *)
(* Strings are sequences of Unicode code points (Int), so that lengths and *)
(* positions count characters by construction.                             *)
(*                                                                         *)
(* Numbers are records [cls, v]:                                           *)
(*   cls = "nan" | "pinf" | "ninf" | "nzero" | "fin" | "unk"               *)
(*   v   = value * 1024 for cls = "fin" (an exact dyadic rational with at  *)
(*         most 10 fractional bits and |value| < 2^20); 0 otherwise.       *)
(* "fin" with v = 0 is positive zero, "nzero" is negative zero.  "unk" is  *)
(* a number whose exact value is not representable here (1 div 3, results  *)
(* out of range): TLA+ has no floating point, and the accuracy of inexact  *)
(* IEEE-754 results is not decided by this specification.  Every operator  *)
(* is exact: it returns the IEEE-754 result or "unk", never an             *)
(* approximation.                                                          *)
(***************************************************************************)
EXTENDS Integers, Sequences

Scale == 1024
MaxV   == 1073741824          \* 2^30 = 2^20 * Scale : |v| must stay below
IntMax == 2147483647

Num(c, x) == [cls |-> c, v |-> x]
NaN   == Num("nan", 0)
PInf  == Num("pinf", 0)
NInf  == Num("ninf", 0)
NZero == Num("nzero", 0)
PZero == Num("fin", 0)
Unk   == Num("unk", 0)
Fin(x) == IF x >= MaxV \/ x <= -MaxV THEN Unk ELSE Num("fin", x)
OfInt(i) == Fin(i * Scale)                \* |i| < 2^20 assumed by callers

Abs(x) == IF x < 0 THEN -x ELSE x
Fits(x, y) == x = 0 \/ Abs(y) <= IntMax \div Abs(x)       \* x*y does not overflow 32 bits

IsNaN(a)  == a.cls = "nan"
IsUnk(a)  == a.cls = "unk"
IsInf(a)  == a.cls \in {"pinf", "ninf"}
IsZero(a) == a.cls = "nzero" \/ (a.cls = "fin" /\ a.v = 0)
IsNeg(a)  == a.cls \in {"ninf", "nzero"} \/ (a.cls = "fin" /\ a.v < 0)      \* sign bit
Zero(neg) == IF neg THEN NZero ELSE PZero
Inf(neg)  == IF neg THEN NInf ELSE PInf

(***************************************************************************)
(* IEEE 754 arithmetic (XPath 3.5)                                         *)
(***************************************************************************)
Neg(a) ==
  CASE a.cls = "nan"   -> NaN
    [] a.cls = "unk"   -> Unk
    [] a.cls = "pinf"  -> NInf
    [] a.cls = "ninf"  -> PInf
    [] a.cls = "nzero" -> PZero
    [] OTHER           -> IF a.v = 0 THEN NZero ELSE Num("fin", -a.v)

Add(a, b) ==
  IF IsNaN(a) \/ IsNaN(b) THEN NaN
  ELSE IF IsUnk(a) \/ IsUnk(b) THEN Unk
  ELSE IF IsInf(a) /\ IsInf(b) THEN (IF a.cls = b.cls THEN a ELSE NaN)
  ELSE IF IsInf(a) THEN a
  ELSE IF IsInf(b) THEN b
  ELSE IF IsZero(a) /\ IsZero(b) THEN Zero(IsNeg(a) /\ IsNeg(b))
  ELSE IF IsZero(a) THEN b
  ELSE IF IsZero(b) THEN a
  ELSE Fin(a.v + b.v)                 \* x + (-x) = +0 in round-to-nearest

Sub(a, b) == Add(a, Neg(b))

\* exact product of two scaled magnitudes, or -1 when not representable
MulMag(x, y) ==
  IF x % Scale = 0 THEN (IF Fits(x \div Scale, y) THEN (x \div Scale) * y ELSE -1)
  ELSE IF y % Scale = 0 THEN (IF Fits(y \div Scale, x) THEN (y \div Scale) * x ELSE -1)
  ELSE IF Fits(x, y) /\ (x * y) % Scale = 0 THEN (x * y) \div Scale
  ELSE -1

Mul(a, b) ==
  LET neg == IsNeg(a) # IsNeg(b) IN
  IF IsNaN(a) \/ IsNaN(b) THEN NaN
  ELSE IF IsUnk(a) \/ IsUnk(b) THEN Unk
  ELSE IF (IsInf(a) /\ IsZero(b)) \/ (IsZero(a) /\ IsInf(b)) THEN NaN
  ELSE IF IsInf(a) \/ IsInf(b) THEN Inf(neg)
  ELSE IF IsZero(a) \/ IsZero(b) THEN Zero(neg)
  ELSE LET m == MulMag(Abs(a.v), Abs(b.v))
       IN  IF m <= 0 \/ m >= MaxV THEN Unk          \* m = 0 would be an underflow: inexact
           ELSE Num("fin", IF neg THEN -m ELSE m)

Div(a, b) ==
  LET neg == IsNeg(a) # IsNeg(b) IN
  IF IsNaN(a) \/ IsNaN(b) THEN NaN
  ELSE IF IsUnk(a) \/ IsUnk(b) THEN Unk
  ELSE IF IsInf(a) /\ IsInf(b) THEN NaN
  ELSE IF IsInf(a) THEN Inf(neg)
  ELSE IF IsInf(b) THEN Zero(neg)
  ELSE IF IsZero(a) /\ IsZero(b) THEN NaN
  ELSE IF IsZero(b) THEN Inf(neg)
  ELSE IF IsZero(a) THEN Zero(neg)
  ELSE LET x == Abs(a.v)  y == Abs(b.v)
       IN  IF Fits(x, Scale) /\ (x * Scale) % y = 0 /\ (x * Scale) \div y < MaxV
           THEN Num("fin", IF neg THEN -((x * Scale) \div y) ELSE (x * Scale) \div y)
           ELSE Unk

\* truncating remainder, sign of the dividend (Java/ECMAScript %, C fmod)
Mod(a, b) ==
  IF IsNaN(a) \/ IsNaN(b) THEN NaN
  ELSE IF IsUnk(a) \/ IsUnk(b) THEN Unk
  ELSE IF IsInf(a) \/ IsZero(b) THEN NaN
  ELSE IF IsInf(b) THEN a
  ELSE IF IsZero(a) THEN a
  ELSE LET r == Abs(a.v) % Abs(b.v)
       IN  IF r = 0 THEN Zero(IsNeg(a)) ELSE Num("fin", IF IsNeg(a) THEN -r ELSE r)

(***************************************************************************)
(* Comparison of numbers.  Results are "T", "F" or "U" (not decided here,  *)
(* an operand is "unk").                                                   *)
(***************************************************************************)
\* rank for ordering comparable numbers
Key(a) == CASE a.cls = "ninf" -> -MaxV - 1 [] a.cls = "pinf" -> MaxV + 1 [] a.cls = "nzero" -> 0 [] OTHER -> a.v
B3(b) == IF b THEN "T" ELSE "F"
NumEq(a, b) == IF IsNaN(a) \/ IsNaN(b) THEN "F" ELSE IF IsUnk(a) \/ IsUnk(b) THEN "U" ELSE B3(Key(a) = Key(b))
NumNe(a, b) == IF IsNaN(a) \/ IsNaN(b) THEN "T" ELSE IF IsUnk(a) \/ IsUnk(b) THEN "U" ELSE B3(Key(a) # Key(b))
NumLt(a, b) == IF IsNaN(a) \/ IsNaN(b) THEN "F" ELSE IF IsUnk(a) \/ IsUnk(b) THEN "U" ELSE B3(Key(a) < Key(b))
NumLe(a, b) == IF IsNaN(a) \/ IsNaN(b) THEN "F" ELSE IF IsUnk(a) \/ IsUnk(b) THEN "U" ELSE B3(Key(a) <= Key(b))
NumGt(a, b) == NumLt(b, a)
NumGe(a, b) == NumLe(b, a)

(***************************************************************************)
(* floor, ceiling, round (XPath 4.4)                                       *)
(***************************************************************************)
FloorV(x) == (x \div Scale) * Scale              \* \div rounds towards minus infinity
Floor(a) == IF a.cls # "fin" THEN a ELSE Num("fin", FloorV(a.v))       \* floor(-0.5) = -1, floor(0.5) = +0
Ceiling(a) == IF a.cls # "fin" THEN a
              ELSE LET c == -FloorV(-a.v) IN IF c = 0 /\ a.v < 0 THEN NZero ELSE Fin(c)
\* "the number closest to the argument that is an integer; if there are two such numbers, the one
\*  closest to positive infinity; ... if the argument is less than zero but greater than or equal to
\*  -0.5, negative zero is returned"
Round(a) == IF a.cls # "fin" THEN a
            ELSE LET r == FloorV(a.v + Scale \div 2) IN IF r = 0 /\ a.v < 0 THEN NZero ELSE Fin(r)

(***************************************************************************)
(* Characters                                                              *)
(***************************************************************************)
IsWs(c)    == c \in {32, 9, 10, 13}
IsDigit(c) == c >= 48 /\ c <= 57
Minus == 45
Dot   == 46

RECURSIVE Pow10(_)
Pow10(n) == IF n = 0 THEN 1 ELSE 10 * Pow10(n - 1)
RECURSIVE Pow5(_)
Pow5(n) == IF n = 0 THEN 1 ELSE 5 * Pow5(n - 1)
RECURSIVE Pow2(_)
Pow2(n) == IF n = 0 THEN 1 ELSE 2 * Pow2(n - 1)

(***************************************************************************)
(* number -> string (XPath 4.2 string()): NaN, Infinity, -Infinity, both   *)
(* zeros "0", integers without point, otherwise digits '.' digits with at  *)
(* least one digit on each side and no more than needed (the value is an   *)
(* exact dyadic rational, so its decimal expansion is finite and unique).  *)
(***************************************************************************)
RECURSIVE IntDigits(_)
IntDigits(n) == IF n < 10 THEN <<48 + n>> ELSE Append(IntDigits(n \div 10), 48 + (n % 10))
RECURSIVE FracDigits(_)
FracDigits(r) == IF r = 0 THEN <<>> ELSE <<48 + ((r * 10) \div Scale)>> \o FracDigits((r * 10) % Scale)

StrInf == <<73, 110, 102, 105, 110, 105, 116, 121>>
StrNaN == <<78, 97, 78>>
NumToStr(a) ==
  CASE a.cls = "nan"   -> StrNaN
    [] a.cls = "pinf"  -> StrInf
    [] a.cls = "ninf"  -> <<Minus>> \o StrInf
    [] a.cls = "nzero" -> <<48>>
    [] a.cls = "fin"   -> LET m == Abs(a.v)
                              s == IF a.v < 0 THEN <<Minus>> ELSE <<>>
                              f == FracDigits(m % Scale)
                          IN  s \o IntDigits(m \div Scale) \o (IF f = <<>> THEN <<>> ELSE <<Dot>> \o f)
    [] OTHER           -> <<63>>          \* "unk": callers test IsUnk first

(***************************************************************************)
(* string -> number (XPath 4.4 number()): optional white space, optional   *)
(* '-', Number ::= Digits ('.' Digits?)? | '.' Digits, optional white      *)
(* space; anything else (a '+', an exponent, "Infinity", "NaN", hex,       *)
(* inner white space, the empty string) is NaN.                            *)
(***************************************************************************)
RECURSIVE StripL(_)
StripL(s) == IF s # <<>> /\ IsWs(Head(s)) THEN StripL(Tail(s)) ELSE s
RECURSIVE StripR(_)
StripR(s) == IF s # <<>> /\ IsWs(s[Len(s)]) THEN StripR(SubSeq(s, 1, Len(s) - 1)) ELSE s
Strip(s) == StripR(StripL(s))

AllDigits(s) == \A i \in 1..Len(s) : IsDigit(s[i])
DotPos(s) == IF \E i \in 1..Len(s) : s[i] = Dot THEN CHOOSE i \in 1..Len(s) : s[i] = Dot /\ \A j \in 1..(i-1) : s[j] # Dot ELSE 0

\* lexical shape of an unsigned Number
IsNumberLex(s) ==
  LET d == DotPos(s) IN
  IF d = 0 THEN Len(s) >= 1 /\ AllDigits(s)
  ELSE LET ip == SubSeq(s, 1, d - 1)  fp == SubSeq(s, d + 1, Len(s))
       IN  AllDigits(ip) /\ AllDigits(fp) /\ (Len(ip) >= 1 \/ Len(fp) >= 1)

RECURSIVE DropLeadingZeros(_)
DropLeadingZeros(s) == IF Len(s) > 1 /\ Head(s) = 48 THEN DropLeadingZeros(Tail(s)) ELSE s
RECURSIVE DropTrailingZeros(_)
DropTrailingZeros(s) == IF s # <<>> /\ s[Len(s)] = 48 THEN DropTrailingZeros(SubSeq(s, 1, Len(s) - 1)) ELSE s
RECURSIVE DigitsVal(_)
DigitsVal(s) == IF s = <<>> THEN 0 ELSE DigitsVal(SubSeq(s, 1, Len(s) - 1)) * 10 + (s[Len(s)] - 48)

\* scaled magnitude of an unsigned Number, or -1 when it is not exactly representable here
MagOf(s) ==
  LET d  == DotPos(s)
      ip == DropLeadingZeros(IF d = 0 THEN s ELSE SubSeq(s, 1, d - 1))
      fp == DropTrailingZeros(IF d = 0 THEN <<>> ELSE SubSeq(s, d + 1, Len(s)))
      m  == Len(fp)
  IN  IF Len(ip) > 7 \/ m > 9 THEN -1
      ELSE LET iv == DigitsVal(ip)
               fv == DigitsVal(fp)
           IN  IF iv >= MaxV \div Scale THEN -1
               ELSE IF m = 0 THEN iv * Scale
               ELSE IF fv % Pow5(m) = 0 /\ m <= 10
                    THEN iv * Scale + (fv \div Pow5(m)) * Pow2(10 - m)
               ELSE -1

StrToNum(str) ==
  LET s   == Strip(str)
      neg == s # <<>> /\ Head(s) = Minus
      u   == IF neg THEN Tail(s) ELSE s
  IN  IF ~IsNumberLex(u) THEN NaN
      ELSE LET m == MagOf(u)
           IN  IF m < 0 THEN Unk
               ELSE IF m = 0 THEN Zero(neg)
               ELSE Num("fin", IF neg THEN -m ELSE m)

(***************************************************************************)
(* String functions (XPath 4.2); positions and lengths in characters       *)
(***************************************************************************)
StartsWith(a, b) == Len(b) <= Len(a) /\ SubSeq(a, 1, Len(b)) = b
OccursAt(a, b, i) == i + Len(b) - 1 <= Len(a) /\ SubSeq(a, i, i + Len(b) - 1) = b
StrContains(a, b) == \E i \in 1..(Len(a) + 1) : OccursAt(a, b, i)
FirstOcc(a, b) == CHOOSE i \in 1..(Len(a) + 1) : OccursAt(a, b, i) /\ \A j \in 1..(i - 1) : ~OccursAt(a, b, j)
SubstringBefore(a, b) == IF StrContains(a, b) THEN SubSeq(a, 1, FirstOcc(a, b) - 1) ELSE <<>>
SubstringAfter(a, b)  == IF StrContains(a, b) THEN SubSeq(a, FirstOcc(a, b) + Len(b), Len(a)) ELSE <<>>
StringLength(a) == OfInt(Len(a))

\* substring(s, p [, l]): the characters at positions i with i >= round(p) and (i < round(p)+round(l));
\* every comparison involving NaN is false.  has3 = FALSE: two-argument form.
\* Result: [u |-> FALSE, v |-> string], or u = TRUE when an argument is "unk".
RECURSIVE SelectIdx(_, _, _)
SelectIdx(s, keep, i) == IF i > Len(s) THEN <<>>
                         ELSE (IF keep[i] THEN <<s[i]>> ELSE <<>>) \o SelectIdx(s, keep, i + 1)
Substring(s, p, l, has3) ==
  LET rp  == Round(p)
      end == IF has3 THEN Add(rp, Round(l)) ELSE PInf
      keep == [i \in 1..Len(s) |-> NumGe(OfInt(i), rp) = "T" /\ NumLt(OfInt(i), end) = "T"]
  IN  IF IsUnk(p) \/ (has3 /\ IsUnk(l)) \/ IsUnk(end) THEN [u |-> TRUE, v |-> <<>>]
      ELSE [u |-> FALSE, v |-> SelectIdx(s, keep, 1)]

\* normalize-space: strip leading and trailing white space, collapse inner runs to one #x20
RECURSIVE Collapse(_)
Collapse(s) ==
  IF s = <<>> THEN <<>>
  ELSE IF IsWs(Head(s))
       THEN (IF Len(s) >= 2 /\ IsWs(s[2]) THEN Collapse(Tail(s)) ELSE <<32>> \o Collapse(Tail(s)))
       ELSE <<Head(s)>> \o Collapse(Tail(s))
NormalizeSpace(s) == Collapse(Strip(s))

\* translate(s, from, to): first occurrence in `from` decides; no counterpart in `to` => removed
IndexIn(c, from) == IF \E i \in 1..Len(from) : from[i] = c
                    THEN CHOOSE i \in 1..Len(from) : from[i] = c /\ \A j \in 1..(i - 1) : from[j] # c ELSE 0
RECURSIVE Translate(_, _, _)
Translate(s, from, to) ==
  IF s = <<>> THEN <<>>
  ELSE LET k == IndexIn(Head(s), from)
       IN  (IF k = 0 THEN <<Head(s)>> ELSE IF k <= Len(to) THEN <<to[k]>> ELSE <<>>)
           \o Translate(Tail(s), from, to)

\* lower-casing of ASCII letters (lang() compares case-insensitively)
Lower(c) == IF c >= 65 /\ c <= 90 THEN c + 32 ELSE c
LowerStr(s) == [i \in 1..Len(s) |-> Lower(s[i])]


(***************************************************************************)
(* number -> string beyond the exactly representable range: an EXAMPLE     *)
(* TABLE (not an enumeration, not computed: TLA+ has integers only) of     *)
(* expressions with the decimal expansion XPath 1.0 4.2 prescribes - no    *)
(* exponent notation, integers without a point, at least one digit before  *)
(* the point, as many digits after it as needed to distinguish the number  *)
(* from all other IEEE 754 values.                                         *)
\*   string(1000000*1000000)                  = "1000000000000"
\*   string(1000000*1000000*1000000*1000)     = "1000000000000000000000"
\*   string(-(1000000*1000000))               = "-1000000000000"
\*   string(1000000*1000000+0.5)              = "1000000000000.5"
\*   string(1 div 1024 div 1024)              = "0.00000095367431640625"
\*   string(1 div (1000000*10))               = "0.0000001"
\*   string(9007199254740992)                 = "9007199254740992"
\*   string(0.1+0.2)                          = "0.30000000000000004"
\*   string(1 div 3)                          = "0.3333333333333333"
\*   string(123456789012)                     = "123456789012"
\*   string(1.50)                             = "1.5"
\*   string(007)                              = "7"
\*   string(.5)                               = "0.5"
\*   string(5.)                               = "5"
(***************************************************************************)
NumStringTable ==
  << [x |-> <<115, 116, 114, 105, 110, 103, 40, 49, 48, 48, 48, 48, 48, 48, 42, 49, 48, 48, 48, 48, 48, 48, 41>>,
      s |-> <<49, 48, 48, 48, 48, 48, 48, 48, 48, 48, 48, 48, 48>>],
     [x |-> <<115, 116, 114, 105, 110, 103, 40, 49, 48, 48, 48, 48, 48, 48, 42, 49, 48, 48, 48, 48, 48, 48, 42, 49, 48, 48, 48, 48, 48, 48, 42, 49, 48, 48, 48, 41>>,
      s |-> <<49, 48, 48, 48, 48, 48, 48, 48, 48, 48, 48, 48, 48, 48, 48, 48, 48, 48, 48, 48, 48, 48>>],
     [x |-> <<115, 116, 114, 105, 110, 103, 40, 45, 40, 49, 48, 48, 48, 48, 48, 48, 42, 49, 48, 48, 48, 48, 48, 48, 41, 41>>,
      s |-> <<45, 49, 48, 48, 48, 48, 48, 48, 48, 48, 48, 48, 48, 48>>],
     [x |-> <<115, 116, 114, 105, 110, 103, 40, 49, 48, 48, 48, 48, 48, 48, 42, 49, 48, 48, 48, 48, 48, 48, 43, 48, 46, 53, 41>>,
      s |-> <<49, 48, 48, 48, 48, 48, 48, 48, 48, 48, 48, 48, 48, 46, 53>>],
     [x |-> <<115, 116, 114, 105, 110, 103, 40, 49, 32, 100, 105, 118, 32, 49, 48, 50, 52, 32, 100, 105, 118, 32, 49, 48, 50, 52, 41>>,
      s |-> <<48, 46, 48, 48, 48, 48, 48, 48, 57, 53, 51, 54, 55, 52, 51, 49, 54, 52, 48, 54, 50, 53>>],
     [x |-> <<115, 116, 114, 105, 110, 103, 40, 49, 32, 100, 105, 118, 32, 40, 49, 48, 48, 48, 48, 48, 48, 42, 49, 48, 41, 41>>,
      s |-> <<48, 46, 48, 48, 48, 48, 48, 48, 49>>],
     [x |-> <<115, 116, 114, 105, 110, 103, 40, 57, 48, 48, 55, 49, 57, 57, 50, 53, 52, 55, 52, 48, 57, 57, 50, 41>>,
      s |-> <<57, 48, 48, 55, 49, 57, 57, 50, 53, 52, 55, 52, 48, 57, 57, 50>>],
     [x |-> <<115, 116, 114, 105, 110, 103, 40, 48, 46, 49, 43, 48, 46, 50, 41>>,
      s |-> <<48, 46, 51, 48, 48, 48, 48, 48, 48, 48, 48, 48, 48, 48, 48, 48, 48, 48, 52>>],
     [x |-> <<115, 116, 114, 105, 110, 103, 40, 49, 32, 100, 105, 118, 32, 51, 41>>,
      s |-> <<48, 46, 51, 51, 51, 51, 51, 51, 51, 51, 51, 51, 51, 51, 51, 51, 51, 51>>],
     [x |-> <<115, 116, 114, 105, 110, 103, 40, 49, 50, 51, 52, 53, 54, 55, 56, 57, 48, 49, 50, 41>>,
      s |-> <<49, 50, 51, 52, 53, 54, 55, 56, 57, 48, 49, 50>>],
     [x |-> <<115, 116, 114, 105, 110, 103, 40, 49, 46, 53, 48, 41>>,
      s |-> <<49, 46, 53>>],
     [x |-> <<115, 116, 114, 105, 110, 103, 40, 48, 48, 55, 41>>,
      s |-> <<55>>],
     [x |-> <<115, 116, 114, 105, 110, 103, 40, 46, 53, 41>>,
      s |-> <<48, 46, 53>>],
     [x |-> <<115, 116, 114, 105, 110, 103, 40, 53, 46, 41>>,
      s |-> <<53>>],
     \* a number is false iff it is zero or NaN (section 4.3): however small it is, a non-zero number is true
     [x |-> <<115, 116, 114, 105, 110, 103, 40, 98, 111, 111, 108, 101, 97, 110, 40, 48, 46, 48, 48, 48, 48, 48, 48, 48, 48, 48, 48, 48, 48, 48, 48, 48, 49, 41, 41>>,   \* string(boolean(0.0000000000000001))
      s |-> <<116, 114, 117, 101>>],
     [x |-> <<115, 116, 114, 105, 110, 103, 40, 110, 111, 116, 40, 49, 32, 100, 105, 118, 32, 49, 48, 48, 48, 48, 48, 48, 48, 48, 48, 48, 48, 48, 48, 48, 48, 48, 48, 48, 48, 41, 41>>,   \* string(not(1 div 10000000000000000000))
      s |-> <<102, 97, 108, 115, 101>>],
     [x |-> <<115, 116, 114, 105, 110, 103, 40, 48, 46, 48, 48, 48, 48, 48, 48, 48, 48, 48, 48, 48, 48, 48, 48, 48, 49, 32, 111, 114, 32, 102, 97, 108, 115, 101, 40, 41, 41>>,   \* string(0.0000000000000001 or false())
      s |-> <<116, 114, 117, 101>>],
     [x |-> <<115, 116, 114, 105, 110, 103, 40, 98, 111, 111, 108, 101, 97, 110, 40, 48, 46, 51, 32, 45, 32, 40, 48, 46, 49, 32, 43, 32, 48, 46, 50, 41, 41, 41>>,   \* string(boolean(0.3 - (0.1 + 0.2)))
      s |-> <<116, 114, 117, 101>>],
     [x |-> <<115, 116, 114, 105, 110, 103, 40, 116, 114, 117, 101, 40, 41, 32, 61, 32, 48, 46, 48, 48, 48, 48, 48, 48, 48, 48, 48, 48, 48, 48, 48, 48, 48, 49, 41>>,   \* string(true() = 0.0000000000000001)
      s |-> <<116, 114, 117, 101>>],
     [x |-> <<115, 116, 114, 105, 110, 103, 40, 98, 111, 111, 108, 101, 97, 110, 40, 45, 48, 46, 48, 48, 48, 48, 48, 48, 48, 48, 48, 48, 48, 48, 48, 48, 48, 49, 41, 41>>,   \* string(boolean(-0.0000000000000001))
      s |-> <<116, 114, 117, 101>>] >>

BoolStr(b) == IF b THEN <<116, 114, 117, 101>> ELSE <<102, 97, 108, 115, 101>>
=============================================================================
