--------------------------- MODULE Trace_AttrQName ---------------------------
(***************************************************************************)
(* Event: {"event":"attrq","d":i,"dk":s,"w":[b,b,b],"parsed":b,"len":n,     *)
(*         "pairs":[[[cp..],bool]..]}                                       *)
(***************************************************************************)
EXTENDS AttrQName, TLC, Json, IOUtils
CONSTANT Open
Rec == ndJsonDeserialize(IOEnv.TRACE)
VARIABLE l
CaseOf(e) == [d |-> e.d, dk |-> e.dk, w |-> { k \in 1..3 : e.w[k] }]
Verdict(e) ==
  LET c == CaseOf(e)
      got == { <<e.pairs[i][1], e.pairs[i][2]>> : i \in 1..Len(e.pairs) }
  IN  IF ~e.parsed THEN [verdict |-> "VIOLATION", why |-> "a well-formed document was rejected", text |-> Render(QDoc(c))]
      ELSE IF got # Pairs(c) \/ e.len # Count(c) \/ Len(e.pairs) # Count(c)
      THEN [verdict |-> "VIOLATION",
            why |-> "defaulting is not by qualified name: the attributes of the element are not the written ones plus the unwritten declared default",
            text |-> Render(QDoc(c)), expected |-> Pairs(c), observed |-> e.pairs, len |-> e.len]
      ELSE [verdict |-> "ok"]
TInit == l = 1
TNext == /\ l <= Len(Rec)
         /\ LET v == Verdict(Rec[l]) IN IF v.verdict = "ok" THEN TRUE ELSE PrintT(<<"VERDICT", ToJson([i |-> l] @@ v)>>)
         /\ l' = l + 1
TSpec == TInit /\ [][TNext]_l
Done == TLCGet("stats").diameter = Len(Rec) + 1 \/ PrintT(<<"TRUNCATED", TLCGet("stats").diameter, Len(Rec)>>)
=============================================================================
