--------------------------- MODULE Trace_AttrQName ---------------------------
(***************************************************************************)
(* Event: {"event":"attrq","d":i,"dk":s,"w":[b,b,b],"parsed":b,"len":n,     *)
(*         "pairs":[[[cp..],bool]..]}                                       *)
(***************************************************************************)
EXTENDS AttrQName, TLC, Json, IOUtils
CONSTANT Open
Rec == ndJsonDeserialize(IOEnv.TRACE)
VARIABLE l
CaseOf(e) == [d |-> e.d, dk |-> e.dk, w |-> { k \in 1..3 : e.w[k] }]
Verdict(e) ==
  LET c == CaseOf(e)
      got == { <<e.pairs[i][1], e.pairs[i][2]>> : i \in 1..Len(e.pairs) }
  IN  IF ~e.parsed THEN [verdict |-> "VIOLATION", why |-> "a well-formed document was rejected", text |-> Render(QDoc(c))]
      ELSE IF got # Pairs(c) \/ e.len # Count(c) \/ Len(e.pairs) # Count(c)
      THEN [verdict |-> "VIOLATION",
            why |-> "defaulting is not by qualified name: the attributes of the element are not the written ones plus the unwritten declared default",
            text |-> Render(QDoc(c)), expected |-> Pairs(c), observed |-> e.pairs, len |-> e.len]
      ELSE [verdict |-> "ok"]
\* {"event":"elemq","decl":[b,b,b],"parsed":b,"kids":[{"len":n,"pairs":[..]} x 3]}
VerdictE(e) ==
  LET D == { k \in 1..3 : e.decl[k] }
      bad == { k \in 1..3 : LET got == { <<e.kids[k].pairs[i][1], e.kids[k].pairs[i][2]>> : i \in 1..Len(e.kids[k].pairs) }
                            IN  got # EPairs(D, k) \/ e.kids[k].len # Cardinality(EPairs(D, k)) }
  IN  IF ~e.parsed THEN [verdict |-> "VIOLATION", why |-> "a well-formed document was rejected", text |-> Render(EDoc(D))]
      ELSE IF Len(e.kids) # 3 THEN [verdict |-> "VIOLATION", why |-> "the document element does not have its three children", text |-> Render(EDoc(D))]
      ELSE IF bad # {} THEN
           [verdict |-> "VIOLATION",
            why |-> "an element does not have exactly the defaulted attributes declared for ITS element type (qualified name)",
            text |-> Render(EDoc(D)), child |-> CHOOSE k \in bad : TRUE, observed |-> e.kids]
      ELSE [verdict |-> "ok"]
\* {"event":"shared","ty":s,"order":"content-first"|"attr-first","parsed":b,"attr":[cp..],"content":[cp..]}
VerdictS(e) ==
  IF ~e.parsed THEN [verdict |-> "VIOLATION", why |-> "a well-formed document was rejected", text |-> SText(e.ty)]
  ELSE IF e.attr # SAttrValue(e.ty)
  THEN [verdict |-> "VIOLATION", why |-> "the value of an attribute holding an entity reference is not the normalized replacement text (3.3.3) - read " \o e.order,
        text |-> SText(e.ty), expected |-> SAttrValue(e.ty), observed |-> e.attr]
  ELSE IF e.content # SContent
  THEN [verdict |-> "VIOLATION", why |-> "the replacement text included in content is not the entity's replacement text - read " \o e.order,
        text |-> SText(e.ty), expected |-> SContent, observed |-> e.content]
  ELSE [verdict |-> "ok"]
VerdictAny(e) == IF e.event = "elemq" THEN VerdictE(e) ELSE IF e.event = "shared" THEN VerdictS(e) ELSE Verdict(e)
TInit == l = 1
TNext == /\ l <= Len(Rec)
         /\ LET v == VerdictAny(Rec[l]) IN IF v.verdict = "ok" THEN TRUE ELSE PrintT(<<"VERDICT", ToJson([i |-> l] @@ v)>>)
         /\ l' = l + 1
TSpec == TInit /\ [][TNext]_l
Done == TLCGet("stats").diameter = Len(Rec) + 1 \/ PrintT(<<"TRUNCATED", TLCGet("stats").diameter, Len(Rec)>>)
=============================================================================
