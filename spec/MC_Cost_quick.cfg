SPECIFICATION Spec
CONSTANT Dense = FALSE
INVARIANT Inv
PROPERTY Terminates
CHECK_DEADLOCK FALSE
