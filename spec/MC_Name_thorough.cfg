SPECIFICATION Spec
CONSTANT MaxLen = 4
INVARIANT Inv
CHECK_DEADLOCK FALSE
