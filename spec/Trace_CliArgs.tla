---------------------------- MODULE Trace_CliArgs ----------------------------
(***************************************************************************)
(* Trace validation of command lines given to the real xq / xe binaries    *)
(* (C17) against the scanner of CliArgs.tla.                               *)
(* Event: {"event":"args","tool","toks":[token..],"argv":[["lit",[cp..]] | *)
(*  ["file"]..] (what the harness passed, the file path abstracted),       *)
(*  "code","stderr_len","stdout":[cp..],"sel_out":[cp..],"renderable":b,   *)
(*  "expect_text":[cp..],"out":{ok,sig,ws},"exp":{ok,sig,ws}}              *)
(***************************************************************************)
EXTENDS CliArgs, TLC, Json, IOUtils

Rec == ndJsonDeserialize(IOEnv.TRACE)
VARIABLE l

OKV == [verdict |-> "ok"]
Crashed(e) == e.code \notin 0..100 \/ e.code = 101
CleanError(e) == e.code # 0 /\ ~Crashed(e) /\ e.stderr_len > 0

Verdict(e) ==
  LET toks == e.toks
      o == ArgsOutcome(e.tool, toks)
      s == Final(e.tool, toks)
  IN
  IF e.tool \notin Tools \/ \E k \in 1..Len(toks) : toks[k] \notin Tokens
  THEN [verdict |-> "VIOLATION", why |-> "not a command line of the model"]
  ELSE IF e.argv # Argv(e.tool, toks, "")
  THEN [verdict |-> "VIOLATION", why |-> "the run used other arguments than the specification gives"]
  ELSE IF Crashed(e) THEN [verdict |-> "VIOLATION", why |-> "the tool crashed on a command line (panic / signal / timeout)", code |-> e.code]
  ELSE IF o = "refuse" THEN
       IF CleanError(e) THEN OKV
       ELSE [verdict |-> "VIOLATION", why |-> "an unusable command line must end with a message and a non-zero status",
             code |-> e.code, reason |-> IF s.bad # "" THEN s.bad ELSE IF s.nsbad THEN "--setns value" ELSE IF s.missing THEN "no such file"
                                          ELSE IF s.expr = "none" THEN "no --xpath" ELSE IF s.expr # "path" THEN "the expression is a number" ELSE "no --value"]
  ELSE IF e.code # 0 THEN [verdict |-> "VIOLATION", why |-> "a usable command line was refused", code |-> e.code]
  ELSE IF e.tool = "xq" THEN
       IF s.expr = "number" THEN (IF e.stdout = <<78, 97, 78, 10>> THEN OKV
                                  ELSE [verdict |-> "VIOLATION", why |-> "xq number result: - - name is NaN on this document"])
       ELSE IF s.indent THEN (IF Len(e.stdout) > 0 THEN OKV ELSE [verdict |-> "VIOLATION", why |-> "xq printed nothing for a selected element"])
       ELSE IF ~e.renderable THEN [verdict |-> "VIOLATION", why |-> "the document does not parse to the specified tree"]
       ELSE IF e.stdout = e.sel_out THEN OKV
       ELSE [verdict |-> "VIOLATION", why |-> "xq did not print exactly the selected element"]
  ELSE \* xe
       IF ~e.out.ok THEN [verdict |-> "VIOLATION", why |-> "xe's output does not parse"]
       ELSE IF s.value # "frag" THEN OKV                       \* an option word taken as the replacement text: only status and well-formedness
       ELSE IF e.expect_text # ArgsExpect THEN [verdict |-> "VIOLATION", why |-> "harness used another expectation than the specification computes"]
       ELSE IF ~e.exp.ok THEN [verdict |-> "VIOLATION", why |-> "the expected document does not parse"]
       ELSE IF s.indent THEN (IF e.out.ws = e.exp.ws THEN OKV
                              ELSE [verdict |-> "VIOLATION", why |-> "xe's indented output differs from the expected document by more than white space"])
       ELSE IF e.out.sig = e.exp.sig THEN OKV
       ELSE [verdict |-> "VIOLATION", why |-> "xe's output is not the document with the selected element's children replaced"]

Init == l = 1
Next == /\ l <= Len(Rec)
        /\ LET v == Verdict(Rec[l])
           IN  IF v.verdict = "ok" THEN TRUE ELSE PrintT(<<"VERDICT", ToJson([i |-> l] @@ v)>>)
        /\ l' = l + 1
Spec == Init /\ [][Next]_l
Done == TLCGet("stats").diameter = Len(Rec) + 1 \/ PrintT(<<"TRUNCATED", TLCGet("stats").diameter, Len(Rec)>>)
=============================================================================
