SPECIFICATION Spec
CONSTANT PoolName = "n"
VIEW View
INVARIANT InvTree
INVARIANT InvOrder
INVARIANT InvNoForeign
INVARIANT InvEmit
PROPERTY AtomicFailure
CHECK_DEADLOCK FALSE
