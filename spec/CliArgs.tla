------------------------------- MODULE CliArgs -------------------------------
(***************************************************************************)
(* The command lines of xq and xe (C17: "both tools end with an error      *)
(* message and a non-zero status, never a crash, on unusable input"), as   *)
(* the README gives them:                                                  *)
(*   xq [--setns xmlns:<prefix>=<uri>]* [<file path>]? --xpath <EXPR> [--no-indent]                 *)
(*   xe [--setns xmlns:<prefix>=<uri>]* [<file path>]? --xpath <EXPR> --value <NODE> [--no-indent]  *)
(* A command line is a sequence of TOKENS; the scanner below is a state    *)
(* machine over them (one step per token, an option that takes a value     *)
(* consumes the following token whatever it looks like).  A token is one   *)
(* of the option words or "W", a word that is not an option: its text      *)
(* depends on the role the scanner gives it (a path expression, a          *)
(* replacement, a binding, the path of an existing file).                  *)
(***************************************************************************)
EXTENDS CliPool

Tokens == {"--xpath", "--value", "--setns", "--no-indent", "W"}
Tools == {"xq", "xe"}

\* options that take a value, per tool (xq has no --value: the word is then a file path like any other)
TakesValue(tool) == IF tool = "xe" THEN {"--xpath", "--value", "--setns"} ELSE {"--xpath", "--setns"}

\* scanner state: what has been seen so far
S0 == [expr |-> "none", value |-> "none", files |-> 0, missing |-> FALSE, indent |-> TRUE, bad |-> "", nsbad |-> FALSE]

\* one step: the state after the first token(s) of toks and the number of tokens consumed
StepArgs(tool, st, toks) ==
  LET t == toks[1] IN
  IF t \in TakesValue(tool) THEN
       IF Len(toks) = 1 THEN <<[st EXCEPT !.bad = "an option without its value"], 1>>
       ELSE LET v == toks[2] IN
            CASE t = "--xpath" -> IF st.expr # "none" THEN <<[st EXCEPT !.bad = "--xpath twice"], 2>>
                                  ELSE <<[st EXCEPT !.expr = IF v = "W" THEN "path" ELSE "number"], 2>>
              [] t = "--value" -> IF st.value # "none" THEN <<[st EXCEPT !.bad = "--value twice"], 2>>
                                  ELSE <<[st EXCEPT !.value = IF v = "W" THEN "frag" ELSE "text"], 2>>
              [] t = "--setns" -> IF v = "W" THEN <<st, 2>> ELSE <<[st EXCEPT !.nsbad = TRUE], 2>>
  ELSE IF t = "--no-indent" THEN <<[st EXCEPT !.indent = FALSE], 1>>
  ELSE \* a file path: "W" names an existing file, an option-like word (xq: --value) does not exist
       IF st.files > 0 THEN <<[st EXCEPT !.bad = "two file paths"], 1>>
       ELSE <<[st EXCEPT !.files = 1, !.missing = (t # "W")], 1>>

RECURSIVE Scan(_, _, _)
Scan(tool, st, toks) ==
  IF toks = <<>> \/ st.bad # "" THEN st
  ELSE LET r == StepArgs(tool, st, toks) IN Scan(tool, r[1], SubSeq(toks, r[2] + 1, Len(toks)))

Final(tool, toks) == Scan(tool, S0, toks)

\* "refuse": the tool must end with a message and a non-zero status; "run": it must do its work and end with status 0
ArgsOutcome(tool, toks) ==
  LET s == Final(tool, toks) IN
  IF s.bad # "" \/ s.nsbad \/ s.missing THEN "refuse"
  ELSE IF s.expr = "none" THEN "refuse"                    \* no --xpath
  ELSE IF tool = "xe" /\ s.value = "none" THEN "refuse"
  \* an option word taken as the expression IS an expression: "--value" reads - - value, a number (NaN here, the
  \* document has no such element); xq prints it, xe has nothing to replace in a number
  ELSE IF tool = "xe" /\ s.expr = "number" THEN "refuse"
  ELSE "run"

\* ---------------------------------------------------------------------------------------------
\* the texts of the words by role; the document is K1 (on standard input, and in the file when a path is given)
ArgDoc == 1
PathText == <<47, 97>>                                       \* /a
PathExpr == 2                                                \* its index in Exprs
FragIdx == 1                                                 \* "t"
BindText == <<120, 109, 108, 110, 115, 58, 113, 61, 117, 49>>      \* xmlns:q=u1
OptText(t) == CASE t = "--xpath" -> <<45, 45, 120, 112, 97, 116, 104>>
                [] t = "--value" -> <<45, 45, 118, 97, 108, 117, 101>>
                [] t = "--setns" -> <<45, 45, 115, 101, 116, 110, 115>>
                [] t = "--no-indent" -> <<45, 45, 110, 111, 45, 105, 110, 100, 101, 110, 116>>

\* the argument vector: each entry is <<"lit", text>> or <<"file">> (the harness puts the path of the document there)
RECURSIVE Argv(_, _, _)
Argv(tool, toks, role) ==      \* role: what the next token is ("" = scanned as an option / file)
  IF toks = <<>> THEN <<>>
  ELSE LET t == toks[1]
           rest == Tail(toks)
       IN  IF role # "" THEN
                <<IF t # "W" THEN <<"lit", OptText(t)>>
                  ELSE <<"lit", CASE role = "--xpath" -> PathText [] role = "--value" -> Frags[FragIdx].text [] role = "--setns" -> BindText>>>>
                \o Argv(tool, rest, "")
           ELSE IF t \in TakesValue(tool) THEN <<<<"lit", OptText(t)>>>> \o Argv(tool, rest, t)
           ELSE IF t = "W" THEN <<<<"file">>>> \o Argv(tool, rest, "")
           ELSE <<<<"lit", OptText(t)>>>> \o Argv(tool, rest, "")

\* what a run that must succeed produces: xe with the replacement "t" gives this document (compact or indented)
ArgsExpect == XeExpect(Docs[ArgDoc], ValOf(ArgDoc, PathExpr), Frags[FragIdx])

\* ---------------------------------------------------------------------------------------------
\* properties of the scanner (checked by TLC on every command line up to the bound)
UsableShape(tool, toks) ==
  ArgsOutcome(tool, toks) = "run" =>
     /\ Len(SelectSeq(toks, LAMBDA t : t = "--xpath")) >= 1
     /\ Final(tool, toks).files <= 1
     /\ (tool = "xe" => Final(tool, toks).value # "none")
\* adding --no-indent at the end never changes whether a command line is usable
IndentIrrelevant(tool, toks) == ArgsOutcome(tool, toks \o <<"--no-indent">>) = ArgsOutcome(tool, toks)
   \/ (Len(toks) > 0 /\ toks[Len(toks)] \in TakesValue(tool) /\ Final(tool, toks).bad = "an option without its value")
\* a prefix that is already refused for a duplicate stays refused
RefusalIsFinal(tool, toks) ==
  \A k \in 1..Len(toks) : Final(tool, SubSeq(toks, 1, k)).bad \in {"--xpath twice", "--value twice", "two file paths"}
                           => ArgsOutcome(tool, toks) = "refuse"
=============================================================================
