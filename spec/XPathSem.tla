------------------------------- MODULE XPathSem -------------------------------
(***************************************************************************)
(* XPath 1.0 data model and evaluation (W3C REC-xpath-19991116, sections   *)
(* 2-5) as TLA+ operators.                                                 *)
(*                                                                         *)
(* DOCUMENT.  A document is a record [prolog, nodes]; `nodes` is the       *)
(* sequence of all nodes of the XPath data model IN DOCUMENT ORDER (so the *)
(* index of a node is its document-order rank: root = 1; an element comes  *)
(* before its namespace nodes, these before its attribute nodes, these     *)
(* before its children).  Every node is a record                           *)
(*    k   : "root" | "elem" | "attr" | "ns" | "text" | "comment" | "pi"    *)
(*    p   : index of the parent (0 for the root; the owner element for     *)
(*          attribute and namespace nodes)                                 *)
(*    pre : prefix as written (code points; <<>> = none)                   *)
(*    loc : local name (element, attribute), target (pi), prefix (ns)      *)
(*    uri : namespace name of the expanded name (<<>> = null)              *)
(*    v   : data: text content, comment content, pi data, attribute value, *)
(*          namespace name of a namespace node                             *)
(*    raw : for text nodes optionally the markup to serialize instead of   *)
(*          the escaped data (CDATA sections, references), else <<>>       *)
(* Text is a sequence of code points, never a TLA+ string.                 *)
(*                                                                         *)
(* EXPRESSIONS (abstract syntax; XPathSyntax.tla renders them to text)     *)
(*   [t |-> "num",  n |-> Number]              number literal              *)
(*   [t |-> "str",  v |-> cps]                 string literal              *)
(*   [t |-> "neg",  e |-> E]                   unary minus                 *)
(*   [t |-> "bin",  op |-> o, l |-> E, r |-> E]   o in or and = != < <= >  *)
(*                                              >= + - * div mod |         *)
(*   [t |-> "fn",   name |-> s, args |-> <<E...>>]   core function call    *)
(*   [t |-> "path", abs |-> BOOLEAN, steps |-> <<Step...>>]  location path *)
(*   [t |-> "filt", e |-> E, preds |-> <<E...>>, steps |-> <<Step...>>]    *)
(*                                  (E)[p]...[p]/step/.../step             *)
(*   Step == [axis |-> a, test |-> T, preds |-> <<E...>>]                  *)
(*   T    == [k |-> "name", pre |-> cps, loc |-> cps] | [k |-> "any"]      *)
(*         | [k |-> "nsany", pre |-> cps] | [k |-> "type", ty |-> "node" | *)
(*           "text" | "comment" | "pi"] | [k |-> "pilit", target |-> cps]  *)
(* Abbreviations are not part of the abstract syntax: `//` is the step     *)
(* descendant-or-self::node(), `.` is self::node(), `..` parent::node(),   *)
(* `@n` attribute::n, a missing axis child:: (section 2.5).                *)
(*                                                                         *)
(* VALUES                                                                  *)
(*   [t |-> "nodes", v |-> <<i1 < i2 < ...>>]  node-set, document order    *)
(*   [t |-> "num", n |-> Number]  [t |-> "str", v |-> cps]                 *)
(*   [t |-> "bool", v |-> BOOLEAN]                                         *)
(*   [t |-> "err"]   the expression is in error (wrong arity, wrong        *)
(*                   argument type, unknown function, unbound prefix)      *)
(*   [t |-> "unk"]   not decided here (depends on an inexact number)       *)
(***************************************************************************)
EXTENDS Integers, Sequences, FiniteSets, ScalarFns

\* Deviations switched on (names of catalogued as-is behaviours); {} = XPath 1.0.
CONSTANT Dev

Err  == [t |-> "err"]
UnkV == [t |-> "unk"]
Bad(x) == x.t \in {"err", "unk"}
NodesV(s) == [t |-> "nodes", v |-> s]
NumV(n) == [t |-> "num", n |-> n]
StrV(s) == [t |-> "str", v |-> s]
BoolV(b) == [t |-> "bool", v |-> b]
FromB3(b) == IF b = "U" THEN UnkV ELSE BoolV(b = "T")

(***************************************************************************)
(* Tree navigation                                                         *)
(***************************************************************************)
N(d) == Len(d.nodes)
Kind(d, i) == d.nodes[i].k
Par(d, i) == d.nodes[i].p
IsAN(d, i) == Kind(d, i) \in {"attr", "ns"}

RECURSIVE Anc(_, _)
Anc(d, i) == IF Par(d, i) = 0 THEN {} ELSE {Par(d, i)} \cup Anc(d, Par(d, i))

\* the sequence of the elements of a finite set of integers in ascending order
\* (`f \o <<>>` is f: it only makes TLC evaluate a function constructor once instead of at every use)
SortedSeq(S) == [k \in 1..Cardinality(S) |-> CHOOSE x \in S : Cardinality({y \in S : y < x}) = k - 1] \o <<>>
RevSeq(s) == [k \in 1..Len(s) |-> s[Len(s) + 1 - k]] \o <<>>
RangeOf(s) == {s[k] : k \in 1..Len(s)}

Children(d, i) == {j \in (i + 1)..N(d) : Par(d, j) = i /\ ~IsAN(d, j)}
Desc(d, i) == {j \in (i + 1)..N(d) : i \in Anc(d, j) /\ ~IsAN(d, j)}

Axes == {"ancestor", "ancestor-or-self", "attribute", "child", "descendant", "descendant-or-self",
         "following", "following-sibling", "namespace", "parent", "preceding", "preceding-sibling", "self"}
ReverseAxes == {"ancestor", "ancestor-or-self", "preceding", "preceding-sibling"}

\* Catalogued deviation "namespace-nodes-shared" (as-is model): an element's namespace nodes are not nodes of
\* its own - the implementation hands out ONE object per declaration (and one for the implicit xml binding) to
\* every element in whose scope it is.  Such a node has no owner element, hence no parent, no ancestors and
\* nothing following or preceding it, and the namespace nodes that several elements inherit from one
\* declaration are one node wherever node-sets are merged (NsOrigin).
NsShared == "namespace-nodes-shared" \in Dev
DetachedNs(d, i) == NsShared /\ Kind(d, i) = "ns"
SameBinding(d, i, j) == Kind(d, j) = "ns" /\ d.nodes[j].loc = d.nodes[i].loc /\ d.nodes[j].v = d.nodes[i].v
RECURSIVE NsOrigin(_, _)
NsOrigin(d, i) ==
  IF Kind(d, i) # "ns" THEN i
  ELSE IF d.nodes[i].loc = <<120, 109, 108>>                          \* the implicit xml binding: one node per document
       THEN CHOOSE j \in 1..N(d) : SameBinding(d, i, j) /\ \A m \in 1..(j - 1) : ~SameBinding(d, i, m)
  ELSE LET e  == Par(d, i)
           pe == Par(d, e)
           up == IF pe = 0 THEN {} ELSE {j \in 1..N(d) : Par(d, j) = pe /\ SameBinding(d, i, j)}
       IN  IF up = {} THEN i ELSE NsOrigin(d, CHOOSE j \in up : TRUE)
Merge(d, S) == IF NsShared THEN {NsOrigin(d, i) : i \in S} ELSE S

AxisSet(d, ax, i) ==
  CASE ax = "child"              -> Children(d, i)
    [] ax = "descendant"         -> Desc(d, i)
    [] ax = "descendant-or-self" -> {i} \cup Desc(d, i)
    [] ax = "parent"             -> IF Par(d, i) = 0 \/ DetachedNs(d, i) THEN {} ELSE {Par(d, i)}
    [] ax = "ancestor"           -> IF DetachedNs(d, i) THEN {} ELSE Anc(d, i)
    [] ax = "ancestor-or-self"   -> IF DetachedNs(d, i) THEN {i} ELSE {i} \cup Anc(d, i)
    [] ax = "self"               -> {i}
    [] ax = "attribute"          -> {j \in (i + 1)..N(d) : Par(d, j) = i /\ Kind(d, j) = "attr"}
    [] ax = "namespace"          -> {j \in (i + 1)..N(d) : Par(d, j) = i /\ Kind(d, j) = "ns"}
    [] ax = "following-sibling"  -> IF IsAN(d, i) THEN {}
                                    ELSE {j \in (i + 1)..N(d) : Par(d, j) = Par(d, i) /\ ~IsAN(d, j)}
    [] ax = "preceding-sibling"  -> IF IsAN(d, i) THEN {}
                                    ELSE {j \in 1..(i - 1) : Par(d, j) = Par(d, i) /\ ~IsAN(d, j)}
    \* all nodes after the context node in document order, excluding descendants, attribute
    \* and namespace nodes (for an attribute context node this starts with the owner's children)
    [] ax = "following"          -> IF DetachedNs(d, i) THEN {} ELSE {j \in (i + 1)..N(d) : ~IsAN(d, j) /\ i \notin Anc(d, j)}
    [] ax = "preceding"          -> IF DetachedNs(d, i) THEN {} ELSE {j \in 1..(i - 1) : ~IsAN(d, j) /\ j \notin Anc(d, i)}

PrincipalKind(ax) == IF ax = "attribute" THEN "attr" ELSE IF ax = "namespace" THEN "ns" ELSE "elem"

\* namespace bindings of the expression context: a sequence of <<prefix, uri>> pairs
Bound(binds, pre) == \E k \in 1..Len(binds) : binds[k][1] = pre
UriOf(binds, pre) == binds[CHOOSE k \in 1..Len(binds) : binds[k][1] = pre][2]

\* a node test mentioning a prefix without a binding is an error (section 2.3)
TestOk(test, binds) ==
  CASE test.k = "name"  -> test.pre = <<>> \/ Bound(binds, test.pre)
    [] test.k = "nsany" -> Bound(binds, test.pre)
    [] OTHER            -> TRUE

TestHolds(d, ax, test, j, binds) ==
  LET nd == d.nodes[j] IN
  CASE test.k = "name"  -> /\ nd.k = PrincipalKind(ax)
                           /\ nd.loc = test.loc
                           /\ nd.uri = (IF test.pre = <<>> THEN <<>> ELSE UriOf(binds, test.pre))
    [] test.k = "any"   -> nd.k = PrincipalKind(ax)
    [] test.k = "nsany" -> nd.k = PrincipalKind(ax) /\ nd.uri = UriOf(binds, test.pre)
    [] test.k = "type"  -> (CASE test.ty = "node"    -> TRUE
                              [] test.ty = "text"    -> nd.k = "text"
                              [] test.ty = "comment" -> nd.k = "comment"
                              [] test.ty = "pi"      -> nd.k = "pi")
    [] test.k = "pilit" -> nd.k = "pi" /\ nd.loc = test.target

(***************************************************************************)
(* String-values (section 5) and conversions (section 4)                   *)
(***************************************************************************)
RECURSIVE ConcatData(_, _)
ConcatData(d, s) == IF Len(s) = 0 THEN <<>> ELSE d.nodes[Head(s)].v \o ConcatData(d, Tail(s))

StringValue(d, i) ==
  IF Kind(d, i) \in {"root", "elem"}
  THEN ConcatData(d, SortedSeq({j \in (i + 1)..N(d) : i \in Anc(d, j) /\ Kind(d, j) = "text"}))
  ELSE d.nodes[i].v

QNameOf(nd) == IF nd.pre = <<>> THEN nd.loc ELSE nd.pre \o <<58>> \o nd.loc

ToStr(d, x) ==
  CASE x.t = "str"   -> x
    [] x.t = "bool"  -> StrV(BoolStr(x.v))
    [] x.t = "num"   -> IF IsUnk(x.n) THEN UnkV
                        \* as-is "negative-zero-string": string(-0) is "-0" (XPath: both zeros are "0")
                        ELSE IF "negative-zero-string" \in Dev /\ x.n.cls = "nzero" THEN StrV(<<45, 48>>)
                        ELSE StrV(NumToStr(x.n))
    [] x.t = "nodes" -> IF Len(x.v) = 0 THEN StrV(<<>>) ELSE StrV(StringValue(d, x.v[1]))
    [] OTHER         -> x

ToNum(d, x) ==
  CASE x.t = "num"   -> x
    [] x.t = "bool"  -> NumV(IF x.v THEN OfInt(1) ELSE PZero)
    [] x.t = "str"   -> NumV(StrToNum(x.v))
    [] x.t = "nodes" -> NumV(StrToNum(ToStr(d, x).v))
    [] OTHER         -> x

ToBool(d, x) ==
  CASE x.t = "bool"  -> x
    [] x.t = "num"   -> IF IsUnk(x.n) THEN UnkV ELSE BoolV(~(IsZero(x.n) \/ IsNaN(x.n)))
    [] x.t = "str"   -> BoolV(Len(x.v) # 0)
    [] x.t = "nodes" -> BoolV(Len(x.v) # 0)
    [] OTHER         -> x

(***************************************************************************)
(* Comparisons (section 3.4)                                               *)
(***************************************************************************)
NumCmp(op, a, b) ==
  CASE op = "="  -> NumEq(a, b) [] op = "!=" -> NumNe(a, b)
    [] op = "<"  -> NumLt(a, b) [] op = "<=" -> NumLe(a, b)
    [] op = ">"  -> NumGt(a, b) [] op = ">=" -> NumGe(a, b)

\* both operands are strings/numbers/booleans
CmpScalar(d, op, a, b) ==
  IF op \in {"=", "!="}
  THEN IF a.t = "bool" \/ b.t = "bool"
       THEN LET x == ToBool(d, a)  y == ToBool(d, b)
            IN  IF Bad(x) THEN x ELSE IF Bad(y) THEN y ELSE BoolV((x.v = y.v) = (op = "="))
       ELSE IF a.t = "num" \/ b.t = "num"
       THEN FromB3(NumCmp(op, ToNum(d, a).n, ToNum(d, b).n))
       ELSE BoolV((a.v = b.v) = (op = "="))
  ELSE FromB3(NumCmp(op, ToNum(d, a).n, ToNum(d, b).n))

\* three-valued existential over a set of "T"/"F"/"U"
Exists3(S) == IF "T" \in S THEN BoolV(TRUE) ELSE IF "U" \in S THEN UnkV ELSE BoolV(FALSE)
AsB3(x) == IF x.t = "unk" THEN "U" ELSE IF x.v THEN "T" ELSE "F"

Compare(d, op, a, b) ==
  IF a.t = "nodes" /\ b.t = "nodes"
  THEN \* exists a pair of nodes whose string-values (relational: their numbers) compare true
       Exists3({ AsB3(IF op \in {"=", "!="}
                      THEN BoolV((StringValue(d, i) = StringValue(d, j)) = (op = "="))
                      ELSE FromB3(NumCmp(op, StrToNum(StringValue(d, i)), StrToNum(StringValue(d, j)))))
                 : i \in RangeOf(a.v), j \in RangeOf(b.v) })
  ELSE IF a.t = "nodes"
  THEN IF b.t = "bool" THEN CmpScalar(d, op, ToBool(d, a), b)
       ELSE IF b.t = "num"
       THEN Exists3({ NumCmp(op, StrToNum(StringValue(d, i)), b.n) : i \in RangeOf(a.v) })
       ELSE Exists3({ AsB3(CmpScalar(d, op, StrV(StringValue(d, i)), b)) : i \in RangeOf(a.v) })
  ELSE IF b.t = "nodes"
  THEN IF a.t = "bool" THEN CmpScalar(d, op, a, ToBool(d, b))
       ELSE IF a.t = "num"
       THEN Exists3({ NumCmp(op, a.n, StrToNum(StringValue(d, j))) : j \in RangeOf(b.v) })
       ELSE Exists3({ AsB3(CmpScalar(d, op, a, StrV(StringValue(d, j)))) : j \in RangeOf(b.v) })
  ELSE CmpScalar(d, op, a, b)

Arith(op, a, b) ==
  CASE op = "+" -> Add(a, b) [] op = "-" -> Sub(a, b) [] op = "*" -> Mul(a, b)
    [] op = "div" -> Div(a, b) [] op = "mod" -> Mod(a, b)

(***************************************************************************)
(* Core function library (section 4) except id()                           *)
(***************************************************************************)
FirstBad(av) == IF \E k \in 1..Len(av) : Bad(av[k])
                THEN av[CHOOSE k \in 1..Len(av) : Bad(av[k]) /\ \A m \in 1..(k - 1) : ~Bad(av[m])]
                ELSE [t |-> "none"]

Arity == [ last |-> {0}, position |-> {0}, count |-> {1}, string |-> {0, 1}, concat |-> {2, 3, 4, 5, 6},
           contains |-> {2}, substring |-> {2, 3}, translate |-> {3}, boolean |-> {1}, not |-> {1},
           true |-> {0}, false |-> {0}, lang |-> {1}, number |-> {0, 1}, sum |-> {1}, floor |-> {1},
           ceiling |-> {1}, round |-> {1}, name |-> {0, 1} ]
ArityOf(f) ==
  CASE f = "local-name" -> {0, 1} [] f = "namespace-uri" -> {0, 1} [] f = "starts-with" -> {2}
    [] f = "substring-before" -> {2} [] f = "substring-after" -> {2} [] f = "string-length" -> {0, 1}
    [] f = "normalize-space" -> {0, 1}
    [] f \in DOMAIN Arity -> Arity[f]
    [] OTHER -> {}                      \* unknown function (id() is outside the checked language)

RECURSIVE ConcatAll(_, _)
ConcatAll(d, av) == IF Len(av) = 0 THEN <<>> ELSE ToStr(d, Head(av)).v \o ConcatAll(d, Tail(av))
RECURSIVE SumAll(_, _)
SumAll(d, s) == IF Len(s) = 0 THEN PZero ELSE Add(StrToNum(StringValue(d, Head(s))), SumAll(d, Tail(s)))

XmlNsUri == <<104,116,116,112,58,47,47,119,119,119,46,119,51,46,111,114,103,47,88,77,76,47,49,57,57,56,47,
              110,97,109,101,115,112,97,99,101>>        \* http://www.w3.org/XML/1998/namespace
LangLoc == <<108, 97, 110, 103>>
\* xml:lang attribute of the nearest ancestor-or-self element carrying one (0 = none)
LangAttrs(d, e) == {j \in (e + 1)..N(d) : Par(d, j) = e /\ Kind(d, j) = "attr" /\ d.nodes[j].loc = LangLoc
                                           /\ d.nodes[j].uri = XmlNsUri}
RECURSIVE NearestLang(_, _)
NearestLang(d, i) ==
  IF i = 0 THEN 0
  ELSE IF Kind(d, i) = "elem" /\ LangAttrs(d, i) # {} THEN CHOOSE j \in LangAttrs(d, i) : TRUE
  ELSE NearestLang(d, Par(d, i))
LangMatches(have, want) ==
  LET h == LowerStr(have)  w == LowerStr(want)
  IN  h = w \/ (Len(h) > Len(w) /\ SubSeq(h, 1, Len(w)) = w /\ h[Len(w) + 1] = 45)

\* first node of the argument node-set, or the context node when the argument is omitted;
\* 0 = empty node-set, -1 = argument is not a node-set
TargetNode(av, c) == IF Len(av) = 0 THEN c.n
                     ELSE IF av[1].t # "nodes" THEN -1
                     ELSE IF Len(av[1].v) = 0 THEN 0 ELSE av[1].v[1]

Call(d, f, av, c) ==
  LET nargs == Len(av)
      bad   == FirstBad(av)
      ctxv  == NodesV(<<c.n>>)
      a1    == IF nargs >= 1 THEN av[1] ELSE ctxv          \* "defaults to the context node"
      s1    == ToStr(d, a1)
      s2    == IF nargs >= 2 THEN ToStr(d, av[2]) ELSE StrV(<<>>)
  IN
  IF nargs \notin ArityOf(f) THEN Err
  ELSE IF bad.t # "none" THEN bad
  ELSE CASE f = "last"     -> NumV(OfInt(c.size))
         [] f = "position" -> NumV(OfInt(c.pos))
         [] f = "count"    -> IF a1.t = "nodes" THEN NumV(OfInt(Len(a1.v))) ELSE Err
         [] f \in {"local-name", "namespace-uri", "name"} ->
              LET t == TargetNode(av, c) IN
              IF t = -1 THEN Err
              ELSE IF t = 0 THEN StrV(<<>>)
              ELSE LET nd == d.nodes[t] IN
                   IF nd.k \notin {"elem", "attr", "pi", "ns"} THEN StrV(<<>>)
                   ELSE IF f = "local-name" THEN StrV(nd.loc)
                   ELSE IF f = "namespace-uri" THEN StrV(IF nd.k \in {"elem", "attr"} THEN nd.uri ELSE <<>>)
                   ELSE StrV(IF nd.k \in {"elem", "attr"} THEN QNameOf(nd) ELSE nd.loc)
         [] f = "string"   -> s1
         [] f = "concat"   -> LET strs == [k \in 1..nargs |-> ToStr(d, av[k])] \o <<>>
                              IN  IF FirstBad(strs).t # "none" THEN FirstBad(strs) ELSE StrV(ConcatAll(d, av))
         [] f \in {"starts-with", "contains", "substring-before", "substring-after"} ->
              IF Bad(s1) THEN s1 ELSE IF Bad(s2) THEN s2
              ELSE (CASE f = "starts-with"      -> BoolV(StartsWith(s1.v, s2.v))
                      [] f = "contains"         -> BoolV(StrContains(s1.v, s2.v))
                      [] f = "substring-before" -> StrV(SubstringBefore(s1.v, s2.v))
                      [] f = "substring-after"  -> StrV(SubstringAfter(s1.v, s2.v)))
         [] f = "substring" ->
              IF Bad(s1) THEN s1
              ELSE LET r == Substring(s1.v, ToNum(d, av[2]).n,
                                      IF nargs = 3 THEN ToNum(d, av[3]).n ELSE PZero, nargs = 3)
                   IN  IF r.u THEN UnkV ELSE StrV(r.v)
         [] f = "string-length"   -> IF Bad(s1) THEN s1 ELSE NumV(StringLength(s1.v))
         [] f = "normalize-space" -> IF Bad(s1) THEN s1 ELSE StrV(NormalizeSpace(s1.v))
         [] f = "translate" ->
              LET s3 == ToStr(d, av[3]) IN
              IF Bad(s1) THEN s1 ELSE IF Bad(s2) THEN s2 ELSE IF Bad(s3) THEN s3
              ELSE StrV(Translate(s1.v, s2.v, s3.v))
         [] f = "boolean" -> ToBool(d, a1)
         [] f = "not"     -> LET b == ToBool(d, a1) IN IF Bad(b) THEN b ELSE BoolV(~b.v)
         [] f = "true"    -> BoolV(TRUE)
         [] f = "false"   -> BoolV(FALSE)
         [] f = "lang"    -> IF Bad(s1) THEN s1
                             ELSE LET a == NearestLang(d, IF IsAN(d, c.n) \/ Kind(d, c.n) # "elem"
                                                          THEN Par(d, c.n) ELSE c.n)
                                  IN  BoolV(a # 0 /\ LangMatches(d.nodes[a].v, s1.v))
         [] f = "number"  -> ToNum(d, a1)
         [] f = "sum"     -> IF a1.t = "nodes" THEN NumV(SumAll(d, a1.v)) ELSE Err
         [] f = "floor"   -> NumV(Floor(ToNum(d, a1).n))
         [] f = "ceiling" -> NumV(Ceiling(ToNum(d, a1).n))
         [] f = "round"   -> NumV(Round(ToNum(d, a1).n))

(***************************************************************************)
(* Evaluation                                                              *)
(*   c == [n |-> context node, pos |-> context position, size |-> context  *)
(*         size];  binds == namespace bindings of the expression context   *)
(***************************************************************************)
\* a predicate value selects the node: a number means position() = number (section 2.4)
PredHolds(d, x, pos) ==
  IF x.t = "num" THEN FromB3(NumEq(x.n, OfInt(pos))) ELSE ToBool(d, x)

UnionSeq(d, vals) == SortedSeq(Merge(d, UNION { RangeOf(vals[k].v) : k \in 1..Len(vals) }))

RECURSIVE Eval(_, _, _, _)
RECURSIVE Filter(_, _, _, _)
RECURSIVE ApplyPreds(_, _, _, _)
RECURSIVE EvalStep(_, _, _, _)
RECURSIVE EvalSteps(_, _, _, _)

\* seq: candidate nodes in the order that defines proximity positions; result: a "nodes" value whose
\* sequence keeps that order, or a bad value
Filter(d, seq, pred, binds) ==
  LET vals == [k \in 1..Len(seq) |->
                 PredHolds(d, Eval(d, pred, [n |-> seq[k], pos |-> k, size |-> Len(seq)], binds), k)] \o <<>>
      bad  == FirstBad(vals)
      ks   == SortedSeq({k \in 1..Len(seq) : vals[k].v})
  IN  IF bad.t # "none" THEN bad
      ELSE NodesV([m \in 1..Len(ks) |-> seq[ks[m]]] \o <<>>)

ApplyPreds(d, seq, preds, binds) ==
  IF Len(preds) = 0 THEN NodesV(seq)
  ELSE LET r == Filter(d, seq, Head(preds), binds)
       IN  IF Bad(r) THEN r ELSE ApplyPreds(d, r.v, Tail(preds), binds)

\* one step from one context node: node-set in document order (or a bad value)
EvalStep(d, step, i, binds) ==
  IF ~TestOk(step.test, binds) THEN Err
  ELSE LET cand == {j \in AxisSet(d, step.axis, i) : TestHolds(d, step.axis, step.test, j, binds)}
           fwd  == SortedSeq(cand)
           seq  == IF step.axis \in ReverseAxes THEN RevSeq(fwd) ELSE fwd
           r    == ApplyPreds(d, seq, step.preds, binds)
       IN  IF Bad(r) THEN r ELSE NodesV(SortedSeq(RangeOf(r.v)))

\* steps applied to a node-set given as an ascending sequence
EvalSteps(d, start, steps, binds) ==
  IF Len(steps) = 0 THEN NodesV(start)
  ELSE LET vals == [k \in 1..Len(start) |-> EvalStep(d, Head(steps), start[k], binds)] \o <<>>
           bad  == FirstBad(vals)
       IN  IF bad.t # "none" THEN bad
           ELSE EvalSteps(d, UnionSeq(d, vals), Tail(steps), binds)

Eval(d, e, c, binds) ==
  CASE e.t = "num" -> NumV(e.n)
    [] e.t = "str" -> StrV(e.v)
    [] e.t = "neg" -> LET a == ToNum(d, Eval(d, e.e, c, binds)) IN IF Bad(a) THEN a ELSE NumV(Neg(a.n))
    [] e.t = "bin" ->
         IF e.op \in {"or", "and"}
         THEN LET a == ToBool(d, Eval(d, e.l, c, binds)) IN
              IF Bad(a) THEN a
              ELSE IF a.v = (e.op = "or") THEN a        \* right operand is not evaluated
              ELSE ToBool(d, Eval(d, e.r, c, binds))
         ELSE LET a == Eval(d, e.l, c, binds)
                  b == Eval(d, e.r, c, binds)
              IN  IF Bad(a) THEN a ELSE IF Bad(b) THEN b
                  ELSE IF e.op = "|"
                  THEN IF a.t = "nodes" /\ b.t = "nodes" THEN NodesV(UnionSeq(d, <<a, b>>)) ELSE Err
                  ELSE IF e.op \in {"+", "-", "*", "div", "mod"}
                  THEN NumV(Arith(e.op, ToNum(d, a).n, ToNum(d, b).n))
                  ELSE Compare(d, e.op, a, b)
    [] e.t = "fn" -> Call(d, e.name, [k \in 1..Len(e.args) |-> Eval(d, e.args[k], c, binds)] \o <<>>, c)
    [] e.t = "path" -> EvalSteps(d, IF e.abs THEN <<1>> ELSE <<c.n>>, e.steps, binds)
    [] e.t = "filt" ->
         LET base == Eval(d, e.e, c, binds) IN
         IF Bad(base) THEN base
         ELSE IF Len(e.preds) = 0 /\ Len(e.steps) = 0 THEN base
         ELSE IF base.t # "nodes" THEN Err
         ELSE LET r == ApplyPreds(d, base.v, e.preds, binds)       \* document order (section 3.3)
              IN  IF Bad(r) THEN r ELSE EvalSteps(d, r.v, e.steps, binds)

\* the value of an expression evaluated as xml_xpath::query does: context node = root,
\* context position and size as the recommendation leaves them to the caller (1, 1)
TopCtx == [n |-> 1, pos |-> 1, size |-> 1]
EvalTop(d, e, binds) == Eval(d, e, TopCtx, binds)

(***************************************************************************)
(* Properties of node-set values (C07)                                     *)
(***************************************************************************)
StrictlySorted(s) == \A k \in 1..(Len(s) - 1) : s[k] < s[k + 1]
WellFormedValue(d, x) == x.t = "nodes" => StrictlySorted(x.v) /\ \A k \in 1..Len(x.v) : x.v[k] \in 1..N(d)

(***************************************************************************)
(* Structural sanity of a document record                                  *)
(***************************************************************************)
TreeOk(d) ==
  /\ N(d) >= 1 /\ Kind(d, 1) = "root" /\ Par(d, 1) = 0
  /\ \A i \in 2..N(d) :
       /\ Par(d, i) \in 1..(i - 1)
       /\ Kind(d, i) # "root"
       /\ Kind(d, Par(d, i)) \in {"root", "elem"}
       /\ IsAN(d, i) => Kind(d, Par(d, i)) = "elem"
       \* pre-order: everything between a node and its parent descends from the parent
       /\ \A j \in (Par(d, i) + 1)..(i - 1) : Par(d, i) \in Anc(d, j)
       \* namespace nodes, then attributes, then children
       /\ Kind(d, i) = "ns" => \A j \in (Par(d, i) + 1)..(i - 1) : Kind(d, j) = "ns"
       /\ Kind(d, i) = "attr" => \A j \in (Par(d, i) + 1)..(i - 1) : IsAN(d, j)
       \* text nodes are never empty and never adjacent
       /\ Kind(d, i) = "text" => /\ d.nodes[i].v # <<>>
                                 /\ \A j \in Children(d, Par(d, i)) : j < i /\ Kind(d, j) = "text"
                                      => \E m \in Children(d, Par(d, i)) : j < m /\ m < i
  /\ Cardinality({i \in Children(d, 1) : Kind(d, i) = "elem"}) = 1
  /\ \A i \in Children(d, 1) : Kind(d, i) \in {"elem", "comment", "pi"}
=============================================================================
