------------------------------- MODULE XmlChar -------------------------------
(***************************************************************************)
(* Character classes of XML 1.0 (Fifth Edition), transcribed from the      *)
(* recommendation:                                                         *)
(*   [2]  Char          [4]  NameStartChar   [4a] NameChar                 *)
(*   [13] PubidChar     [81] EncName (the characters allowed after the     *)
(*                            first letter; the first must be [A-Za-z])    *)
(* A character is a Unicode scalar value, i.e. an integer in 0..1114111    *)
(* that is not a surrogate.  Each class is a finite set of closed ranges.  *)
(***************************************************************************)
EXTENDS Integers, Sequences, FiniteSets

MaxCp == 1114111

IsSurrogate(c) == c >= 55296 /\ c <= 57343          \* #xD800-#xDFFF
IsScalar(c)    == c >= 0 /\ c <= MaxCp /\ ~IsSurrogate(c)

InRanges(c, R) == \E r \in R : r[1] <= c /\ c <= r[2]

\* [2] Char ::= #x9 | #xA | #xD | [#x20-#xD7FF] | [#xE000-#xFFFD] | [#x10000-#x10FFFF]
CharRanges ==
  { <<9, 9>>, <<10, 10>>, <<13, 13>>, <<32, 55295>>, <<57344, 65533>>, <<65536, 1114111>> }

\* [4] NameStartChar ::= ":" | [A-Z] | "_" | [a-z] | [#xC0-#xD6] | [#xD8-#xF6] | [#xF8-#x2FF]
\*      | [#x370-#x37D] | [#x37F-#x1FFF] | [#x200C-#x200D] | [#x2070-#x218F] | [#x2C00-#x2FEF]
\*      | [#x3001-#xD7FF] | [#xF900-#xFDCF] | [#xFDF0-#xFFFD] | [#x10000-#xEFFFF]
NameStartRanges ==
  { <<58, 58>>, <<65, 90>>, <<95, 95>>, <<97, 122>>,
    <<192, 214>>, <<216, 246>>, <<248, 767>>,
    <<880, 893>>, <<895, 8191>>, <<8204, 8205>>, <<8304, 8591>>,
    <<11264, 12271>>, <<12289, 55295>>, <<63744, 64975>>, <<65008, 65533>>,
    <<65536, 983039>> }

\* [4a] NameChar ::= NameStartChar | "-" | "." | [0-9] | #xB7 | [#x0300-#x036F] | [#x203F-#x2040]
NameExtraRanges ==
  { <<45, 45>>, <<46, 46>>, <<48, 57>>, <<183, 183>>, <<768, 879>>, <<8255, 8256>> }

\* [13] PubidChar ::= #x20 | #xD | #xA | [a-zA-Z0-9] | [-'()+,./:=?;!*#@$_%]
PubidRanges ==
  { <<32, 32>>, <<13, 13>>, <<10, 10>>, <<97, 122>>, <<65, 90>>, <<48, 57>>,
    <<45, 45>>, <<39, 39>>, <<40, 40>>, <<41, 41>>, <<43, 43>>, <<44, 44>>, <<46, 46>>,
    <<47, 47>>, <<58, 58>>, <<61, 61>>, <<63, 63>>, <<59, 59>>, <<33, 33>>, <<42, 42>>,
    <<35, 35>>, <<64, 64>>, <<36, 36>>, <<95, 95>>, <<37, 37>> }

\* [81] EncName ::= [A-Za-z] ([A-Za-z0-9._] | '-')*   -- the class of the continuation characters
EncNameRanges ==
  { <<65, 90>>, <<97, 122>>, <<48, 57>>, <<46, 46>>, <<95, 95>>, <<45, 45>> }

IsChar(c)      == InRanges(c, CharRanges)
IsNameStart(c) == InRanges(c, NameStartRanges)
IsNameChar(c)  == IsNameStart(c) \/ InRanges(c, NameExtraRanges)
IsPubid(c)     == InRanges(c, PubidRanges)
IsEncName(c)   == InRanges(c, EncNameRanges)
IsEncStart(c)  == (c >= 65 /\ c <= 90) \/ (c >= 97 /\ c <= 122)
IsWs(c)        == c \in {32, 9, 10, 13}

Classes == {"char", "namestart", "namechar", "pubid", "encname"}

\* Char as it applies inside the constructs that are made of Chars: the characters that can be written literally
\* (and come back unchanged) as character data [14], in an attribute value [10], a comment [15], PI data [16]
\* and a CDATA section [20] are the Chars except the ones the construct gives a meaning to.
CharRoles == {"char@text", "char@attr", "char@comment", "char@pi", "char@cdata"}
RoleExcept(cls) ==
  CASE cls = "char@text"    -> {60, 38}               \* < &
    [] cls = "char@attr"    -> {60, 38, 34}           \* < & "   (the value is written in double quotes)
    [] cls = "char@comment" -> {}                     \* a single '-' between two other characters is fine
    [] cls = "char@pi"      -> {}
    [] cls = "char@cdata"   -> {}

\* Sites of the grammar where ONE character class decides whether a document is accepted - the class as the
\* parser applies it there, not as a predicate of its own (the two can differ: a private fast path, the scanner of
\* a neighbouring production, a look-ahead with the wrong class):
\*   encname1@decl    <?xml version='1.0' encoding='Ca'?>     [81] first character: [A-Za-z]
\*   encname@decl     <?xml version='1.0' encoding='aCa'?>    [81] continuation
\*   versionnum@decl  <?xml version='1.C'?>                   [26] [0-9]+
\*   pubid@dq / @sq   <!DOCTYPE r PUBLIC "aCb" "s"> / 'aCb'   [12] [13] PubidChar (minus the delimiter)
\*   namestart@elem   <Ca/>                                   [4] minus ':' (element and attribute names are QNames)
\*   namechar@elem    <aCb xmlns:a='u'/>                      [4a]
\*   namestart@attr   <r Ca='v'/>                             [4] minus ':', or white space (then the name is a)
\*   namechar@attr    <r xmlns:a='u' aCb='v'/>                [4a]
\*   namechar@xmlns   <r xmlnsCa='u'/>                        [4a] (':' gives a declaration, anything else a longer name)
SiteClasses == {"encname1@decl", "encname@decl", "versionnum@decl", "pubid@dq", "pubid@sq", "namestart@elem",
                "namechar@elem", "namestart@attr", "namechar@attr", "namechar@xmlns"}
InSite(cls, c) ==
  CASE cls = "encname1@decl"   -> IsEncStart(c)
    [] cls = "encname@decl"    -> IsEncName(c)
    [] cls = "versionnum@decl" -> c >= 48 /\ c <= 57
    [] cls = "pubid@dq"        -> IsPubid(c) /\ c # 34
    [] cls = "pubid@sq"        -> IsPubid(c) /\ c # 39
    [] cls = "namestart@elem"  -> IsNameStart(c) /\ c # 58
    [] cls = "namestart@attr"  -> (IsNameStart(c) /\ c # 58) \/ IsWs(c)
    [] cls \in {"namechar@elem", "namechar@attr", "namechar@xmlns"} -> IsNameChar(c)
SiteRanges(cls) ==
  CASE cls = "encname1@decl"   -> {<<65, 90>>, <<97, 122>>}
    [] cls = "encname@decl"    -> EncNameRanges
    [] cls = "versionnum@decl" -> {<<48, 57>>}
    [] cls \in {"pubid@dq", "pubid@sq"} -> PubidRanges \cup {<<34, 34>>, <<39, 39>>}
    [] cls \in {"namestart@elem", "namestart@attr"} -> NameStartRanges \cup {<<9, 10>>, <<13, 13>>, <<32, 32>>}
    [] OTHER -> NameStartRanges \cup NameExtraRanges

InClass(cls, c) ==
  CASE cls \in SiteClasses -> InSite(cls, c)
    [] cls \in CharRoles -> IsChar(c) /\ c \notin RoleExcept(cls)
    [] cls = "char"      -> IsChar(c)
    [] cls = "namestart" -> IsNameStart(c)
    [] cls = "namechar"  -> IsNameChar(c)
    [] cls = "pubid"     -> IsPubid(c)
    [] cls = "encname"   -> IsEncName(c)

RangesOf(cls) ==
  CASE cls \in SiteClasses -> SiteRanges(cls)
    [] cls \in CharRoles -> CharRanges \cup { <<x, x>> : x \in RoleExcept(cls) }
    [] cls = "char"      -> CharRanges
    [] cls = "namestart" -> NameStartRanges
    [] cls = "namechar"  -> NameStartRanges \cup NameExtraRanges
    [] cls = "pubid"     -> PubidRanges
    [] cls = "encname"   -> EncNameRanges

(***************************************************************************)
(* Names (XML 1.0 [5], Namespaces in XML [4] [7]) over sequences of code   *)
(* points.                                                                  *)
(***************************************************************************)
Colon == 58

IsName(s) ==
  /\ Len(s) >= 1
  /\ IsNameStart(s[1])
  /\ \A i \in 2..Len(s) : IsNameChar(s[i])

IsNCName(s) == IsName(s) /\ \A i \in 1..Len(s) : s[i] # Colon

ColonPositions(s) == { i \in 1..Len(s) : s[i] = Colon }

IsQName(s) ==
  \/ IsNCName(s)
  \/ /\ Cardinality(ColonPositions(s)) = 1
     /\ LET k == CHOOSE i \in ColonPositions(s) : TRUE
        IN  /\ k > 1 /\ k < Len(s)
            /\ IsNCName(SubSeq(s, 1, k - 1))
            /\ IsNCName(SubSeq(s, k + 1, Len(s)))

IsNmtoken(s) == Len(s) >= 1 /\ \A i \in 1..Len(s) : IsNameChar(s[i])

\* "xml" in any case: the reserved PI target
IsXmlReserved(s) ==
  /\ Len(s) = 3
  /\ s[1] \in {120, 88} /\ s[2] \in {109, 77} /\ s[3] \in {108, 76}

IsPITarget(s) == IsName(s) /\ ~IsXmlReserved(s)

QPrefix(s) == IF ColonPositions(s) = {} THEN <<>>
              ELSE SubSeq(s, 1, (CHOOSE i \in ColonPositions(s) : TRUE) - 1)
QLocal(s)  == IF ColonPositions(s) = {} THEN s
              ELSE SubSeq(s, (CHOOSE i \in ColonPositions(s) : TRUE) + 1, Len(s))

(***************************************************************************)
(* Sanity theorems checked by TLC (MC_Char): the tables are consistent     *)
(* with the prose of the recommendation.                                   *)
(***************************************************************************)
NameStartSubsetOfNameChar == \A r \in NameStartRanges : \A c \in {r[1], r[2]} : IsNameChar(c)
NameCharSubsetOfChar ==
  \A r \in NameStartRanges \cup NameExtraRanges : IsChar(r[1]) /\ IsChar(r[2])
NoSurrogateIsChar == \A c \in {55296, 56000, 57343} : ~IsChar(c)
=============================================================================
