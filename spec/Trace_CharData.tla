---------------------------- MODULE Trace_CharData ----------------------------
(***************************************************************************)
(* Trace validation of CharacterData / Text calls on real nodes (C16) and  *)
(* of the serializability of the document after every successful edit     *)
(* (C15), against CharData.tla.                                            *)
(*                                                                         *)
(* Events (harness/src/domtext.rs):                                        *)
(*  {"event":"cd","kind":K,"variant":V,"pre":[cp..],"call":{op,o,c,a},     *)
(*   "out":{"ok":1,"n":..,"ret":[..]}|{"err":E}|{"panic":..},              *)
(*   "post":[cp..],"len":n,"sib":{adjacent,listed,same_parent}|null,       *)
(*   "live_sig":SIG,"re":{"ok":b,"sig":SIG}}     (the last two after a     *)
(*   successful mutating call: content of the live document and of the     *)
(*   re-parsed serialization)                                              *)
(*  {"event":"build","kind":K,"variant":V,"s":[cp..],"why":"refused:..|panic:.."} *)
(*  {"event":"factory","s":[cp..],"elem":{out,live_sig,re},"attr":..,"pi":..,"setattr":..} *)
(* The trace spec never blocks; it prints one VERDICT line per event that  *)
(* is not ideal for some property.                                         *)
(***************************************************************************)
EXTENDS CharData, TLC, Json, IOUtils

CONSTANT Open

Rec == ndJsonDeserialize(IOEnv.TRACE)

VARIABLE l

OKV == [v |-> "ok"]

\* the specification kind that governs what a variant's node can hold
KindOf(e) ==
  IF e.kind # "any" THEN e.kind
  ELSE CASE e.variant \in {"text/parsed", "text/created", "merged/parsed", "text/detached", "text/twins"} -> "text"
         [] e.variant = "attrtext/parsed" -> "attr"
         [] e.variant \in {"comment/parsed", "comment/created", "comment/detached"} -> "comment"
         [] e.variant \in {"cdata/parsed", "cdata/created", "cdata/detached"} -> "cdata"
         [] OTHER -> "text"

IsRead(op) == op \in {"length", "data", "substring"}
Detached(e) == e.variant \in {"text/detached", "cdata/detached", "comment/detached"}

AttrWs(d) == [i \in 1..Len(d) |-> IF d[i] \in {9, 10, 13} THEN 32 ELSE d[i]]
RECURSIVE StripLeadingWs(_)
StripLeadingWs(d) == IF d # <<>> /\ IsWs(d[1]) THEN StripLeadingWs(Tail(d)) ELSE d

\* ---------------------------------------------------------------------------------------------
\* C16 (and the data-setter part of C13): DOM semantics in characters, clipping, index errors, no panic,
\* a failing call changes nothing

C16Verdict(e) ==
  LET c == e.call
      out == e.out
      k == KindOf(e)
  IN
  IF "panic" \in DOMAIN out THEN [v |-> "VIOLATION", why |-> "panic", msg |-> out.panic]
  ELSE IF ~e.readable THEN [v |-> "VIOLATION", why |-> "data() failed or panicked"]
  ELSE
  LET r == CdApply(e.pre, c) IN
  IF "err" \in DOMAIN r
  THEN \* offset beyond the length: INDEX_SIZE_ERR, nothing changed
       IF "err" \notin DOMAIN out THEN [v |-> "VIOLATION", why |-> "offset beyond the length must be an index-size error"]
       ELSE IF out.err # "IndexSizeErr" THEN [v |-> "VIOLATION", why |-> "wrong exception class for an offset beyond the length", err |-> out.err]
       ELSE IF e.post # e.pre THEN [v |-> "VIOLATION", why |-> "a failing call changed the data"]
       ELSE OKV
  ELSE IF "err" \in DOMAIN out
  THEN \* a refusal is acceptable only for data this kind of node may refuse to hold
       IF e.post # e.pre THEN [v |-> "VIOLATION", why |-> "a failing call changed the data", err |-> out.err]
       ELSE IF IsRead(c.op) THEN [v |-> "VIOLATION", why |-> "a read with a valid offset failed", err |-> out.err]
       ELSE IF out.err = "IndexSizeErr" THEN [v |-> "VIOLATION", why |-> "index-size error although offset <= length (a count past the end must be clipped)", err |-> out.err]
       ELSE IF MayRefuse(k, r.data) \/ (c.op = "split" /\ MayRefuse(k, r.ret)) THEN OKV
       \* DOM Level 1 does not say what split_text does to a text node that has no parent
       ELSE IF c.op = "split" /\ Detached(e) THEN OKV
       ELSE [v |-> "VIOLATION", why |-> "storable data refused", err |-> out.err, expected |-> r.data]
  ELSE \* success: exact effect (a PI's data begins at the first non-blank character after the target, so an
       \* implementation that drops leading white space from the data it is given stores what the text can hold)
       \* (an attribute value given a literal TAB / LF / CR may read back with a space in its place: XML 1.0 3.3.3
       \* applied to values set through the DOM, which is what a re-parse of the serialization yields)
       IF e.post # r.data /\ ~(k = "pi" /\ e.post = StripLeadingWs(r.data)) /\ ~(k = "attr" /\ e.post = AttrWs(r.data)) THEN [v |-> "VIOLATION", why |-> "data after the call differs from DOM Level 1", expected |-> r.data]
       ELSE IF e.len # Len(e.post) THEN [v |-> "VIOLATION", why |-> "length() is not the number of characters", expected |-> Len(r.data)]
       ELSE IF c.op = "length" /\ out.n # r.n THEN [v |-> "VIOLATION", why |-> "length() result", expected |-> r.n]
       ELSE IF c.op \in {"data", "substring", "split"} /\ out.ret # r.ret THEN [v |-> "VIOLATION", why |-> "returned string", expected |-> r.ret]
       ELSE IF c.op = "split" /\ ~Detached(e) /\ ~(e.sib.adjacent /\ e.sib.listed /\ e.sib.same_parent)
            THEN [v |-> "VIOLATION", why |-> "split_text: the new node is not the next sibling under the same parent", sib |-> e.sib]
       ELSE OKV

\* C13 ("value and data setters ... either performs exactly the change DOM Level 1 specifies or fails with the specified
\* exception class (... index size ...); never panics; a call that fails leaves the document observably unchanged"): the
\* same judgement for the calls that are mutators; what length() answers is a read and stays with C16
\* Catalogued deviation "attr-value-setter-parses-references": Attr::set_value (and set_attribute) parse their argument
\* as the literal of an attribute value - references are expanded - where DOM Level 1 stores the string as it is
\* ("creates a Text node with the unparsed contents of the string").  As-is model for the arguments the machine
\* offers: the value afterwards is the argument with its references replaced.
RefDecoded(a) ==
  CASE a = <<38, 97, 109, 112, 59>> -> <<38>>                 \* &amp;   -> &
    [] a = <<38, 35, 54, 48, 59>> -> <<60>>                 \* &#60;   -> <
    [] a = <<97, 38, 97, 109, 112, 59, 98>> -> <<97, 38, 98>>         \* a&amp;b -> a&b
    [] OTHER -> a
C13CdVerdict(e) ==
  IF IsRead(e.call.op) THEN OKV
  ELSE LET v == C16Verdict(e)
       IN  IF v.v = "VIOLATION" /\ v.why = "length() is not the number of characters" THEN OKV
           ELSE IF /\ v.v = "VIOLATION" /\ "attr-value-setter-parses-references" \in Open
                   /\ e.variant = "attr/set" /\ e.call.op = "set" /\ "ok" \in DOMAIN e.out
                   /\ RefDecoded(e.call.a) # e.call.a /\ e.post = RefDecoded(e.call.a)
                THEN [v |-> "attr-value-setter-parses-references", a |-> e.call.a, post |-> e.post]
           ELSE v

\* ---------------------------------------------------------------------------------------------
\* C15: after a call that reports success the document serializes, parses, and denotes what the DOM reports

C15Verdict(e) ==
  IF "re" \notin DOMAIN e THEN OKV
  ELSE IF ~e.re.ok THEN [v |-> "VIOLATION", why |-> "after a successful edit the serialization is rejected by the parser", text |-> e.re.text]
  ELSE IF e.re.sig # e.live_sig THEN [v |-> "VIOLATION", why |-> "after a successful edit the serialization denotes other content than the DOM reports", text |-> e.re.text]
  ELSE OKV

\* a state of the ideal machine that the implementation cannot hold at all
\* Catalogued deviation "factory-panics-on-unstorable-data": create_text_node / create_comment /
\* create_cdata_section return a node, not a Result, and unwrap() the validation of their argument.  As-is
\* model: the call panics exactly when the data is data that this kind of node may refuse (MayRefuse); a panic on
\* storable data, or a panic of any other factory / setter, is a violation.
BuildVerdict(e) ==
  IF SubSeq(e.why, 1, 5) = "panic"
  THEN IF /\ "factory-panics-on-unstorable-data" \in Open
          /\ e.variant \in {"text/created", "comment/created", "cdata/created", "text/detached", "comment/detached",
                           "cdata/detached", "text/twins"}          \* every variant that is built with one of the factories
          /\ MayRefuse(KindOf(e), e.s)
       THEN [c13 |-> [v |-> "factory-panics-on-unstorable-data", s |-> e.s, variant |-> e.variant], c16 |-> OKV, c15 |-> OKV]
       ELSE [c13 |-> [v |-> "VIOLATION", why |-> "factory / setter panicked", msg |-> e.why, s |-> e.s], c16 |-> OKV, c15 |-> OKV]
  ELSE IF MayRefuse(KindOf(e), e.s) THEN [c13 |-> OKV, c16 |-> OKV, c15 |-> OKV]
  ELSE [c13 |-> OKV, c15 |-> OKV, c16 |-> [v |-> "VIOLATION", why |-> "storable data refused by a factory / setter", msg |-> e.why, s |-> e.s]]

\* ---------------------------------------------------------------------------------------------
\* factories taking names (C13: INVALID_CHARACTER_ERR exactly for non-names; C15: accepted names round-trip)

FactoryRole(e, role) ==
  LET x == e[role]
      want == CASE role \in {"elem", "attr", "setattr"} -> IsQName(e.s)
                [] role = "pi" -> IsPITarget(e.s)
      \* with a colon in a PI target Namespaces in XML says no, XML 1.0 says yes: either answer
      free == role = "pi" /\ IsPITarget(e.s) /\ \E i \in 1..Len(e.s) : e.s[i] = Colon
      \* names that begin with "xmlns" are namespace declarations, not ordinary attributes: either answer
      free2 == role \in {"attr", "setattr"} /\ Len(e.s) >= 5 /\ SubSeq(e.s, 1, 5) = <<120, 109, 108, 110, 115>>
  IN  IF "panic" \in DOMAIN x.out THEN [v |-> "VIOLATION", why |-> "panic", role |-> role, msg |-> x.out.panic]
      ELSE IF free \/ free2 THEN OKV
      ELSE IF want /\ "err" \in DOMAIN x.out THEN [v |-> "VIOLATION", why |-> "a valid name was refused", role |-> role, err |-> x.out.err]
      \* catalogued deviation "name-start-unchecked" (see Trace_Char.tla): production Name of the parser is
      \* (NameChar)+; as-is model: a PI target is accepted iff it is an Nmtoken that is not the reserved word
      ELSE IF /\ ~want /\ "ok" \in DOMAIN x.out /\ role = "pi" /\ "name-start-unchecked" \in Open
              /\ IsNmtoken(e.s) /\ ~IsXmlReserved(e.s)
           THEN [v |-> "name-start-unchecked", role |-> role, s |-> e.s]
      ELSE IF ~want /\ "ok" \in DOMAIN x.out THEN [v |-> "VIOLATION", why |-> "an invalid name was accepted", role |-> role]
      ELSE IF ~want /\ x.out.err # "InvalidCharacterErr" THEN [v |-> "VIOLATION", why |-> "wrong exception class for an invalid name", role |-> role, err |-> x.out.err]
      ELSE OKV
FactoryC15(e, role) ==
  LET x == e[role]
  IN  IF "re" \notin DOMAIN x THEN OKV
      ELSE IF ~x.re.ok THEN [v |-> "VIOLATION", why |-> "a name accepted by the API makes the document unparseable", role |-> role, text |-> x.re.text]
      ELSE IF x.re.sig # x.live_sig THEN [v |-> "VIOLATION", why |-> "a name accepted by the API does not survive the round trip", role |-> role, text |-> x.re.text]
      ELSE OKV
FRoles == <<"elem", "attr", "pi", "setattr">>
FirstBad(f(_, _), e) ==
  LET bad  == { i \in 1..4 : f(e, FRoles[i]).v # "ok" }
      viol == { i \in bad : f(e, FRoles[i]).v = "VIOLATION" }
      pick == IF viol # {} THEN viol ELSE bad
  IN  IF bad = {} THEN OKV ELSE f(e, FRoles[CHOOSE i \in pick : \A j \in pick : i <= j])

Verdict(e) ==
  IF e.event = "cd" THEN [c13 |-> C13CdVerdict(e), c16 |-> C16Verdict(e), c15 |-> C15Verdict(e)]
  ELSE IF e.event = "build" THEN BuildVerdict(e)
  ELSE IF e.event = "factory" THEN [c13 |-> FirstBad(FactoryRole, e), c16 |-> OKV, c15 |-> FirstBad(FactoryC15, e)]
  ELSE [c13 |-> OKV, c16 |-> OKV, c15 |-> OKV]

AllOk(v) == v.c13.v = "ok" /\ v.c16.v = "ok" /\ v.c15.v = "ok"

Init == l = 1
Next == /\ l <= Len(Rec)
        /\ LET v == Verdict(Rec[l])
           IN  IF AllOk(v) THEN TRUE ELSE PrintT(<<"VERDICT", ToJson([i |-> l] @@ v)>>)
        /\ l' = l + 1
Spec == Init /\ [][Next]_l

Done == TLCGet("stats").diameter = Len(Rec) + 1 \/
        PrintT(<<"TRUNCATED", TLCGet("stats").diameter, Len(Rec)>>)
=============================================================================
