------------------------------ MODULE XmlPrint ------------------------------
(***************************************************************************)
(* The canonical printer as a function of what a document IS: PrintDoc(st) *)
(* maps the final state of the token machine (the information set `tree`   *)
(* plus the declarations that are not information items but are part of    *)
(* the document: internal entities, attribute-list declarations) back to a *)
(* token sequence.  The theorem model-checked in MC_Doc (PrintInv):        *)
(*                                                                         *)
(*     Recognize(PrintDoc(st)) = [wf |-> TRUE, tree |-> st.tree]           *)
(*     and printing the re-recognised document gives the same tokens       *)
(*                                                                         *)
(* for every well-formed behaviour of the writer - i.e. a faithful printer *)
(* exists for every feature combination of the profile, one round reaches  *)
(* a fixpoint, and "equal document" means equality of these trees.  That   *)
(* is what C04 asks of the implementation's Display, up to re-parse.       *)
(***************************************************************************)
EXTENDS XmlDoc

RECURSIVE SetToSeq(_)
SetToSeq(S) == IF S = {} THEN <<>> ELSE LET x == CHOOSE x \in S : TRUE IN <<x>> \o SetToSeq(S \ {x})

\* character data that must survive re-parsing unchanged: CR only as a reference (2.11)
PrintChars(v) == [i \in 1..Len(v) |-> IF v[i] = 13 THEN RI(13) ELSE CI(v[i])]
\* a normalized attribute value: TAB / LF / CR can only have come from references (3.3.3)
PrintValue(v) == [i \in 1..Len(v) |-> IF v[i] \in {9, 10, 13} THEN RI(v[i]) ELSE CI(v[i])]

PrintAttrs(a) ==
  LET spec == SetToSeq({ x \in a : x.spec })
  IN [i \in 1..Len(spec) |-> [n |-> spec[i].n, v |-> PrintValue(spec[i].v)]]

NodeTok(nd) ==
  CASE nd.k = "elem" -> [k |-> "stag", n |-> nd.n, attrs |-> PrintAttrs(nd.a), lex |-> "ok"]
    [] nd.k = "chars" -> [k |-> "text", items |-> PrintChars(nd.v)]
    [] nd.k = "comment" -> [k |-> "comment", v |-> nd.v]
    [] nd.k = "pi" -> [k |-> "pi", n |-> nd.n, v |-> nd.v]

\* close the open elements (innermost first) until the parent of the next node is on top
RECURSIVE CloseTo(_, _, _)
CloseTo(nodes, open, p) ==
  IF open = <<>> \/ open[Len(open)] = p THEN <<>>
  ELSE <<[k |-> "etag", n |-> nodes[open[Len(open)]].n]>> \o CloseTo(nodes, SubSeq(open, 1, Len(open) - 1), p)
RECURSIVE PopTo(_, _)
PopTo(open, p) == IF open = <<>> \/ open[Len(open)] = p THEN open ELSE PopTo(SubSeq(open, 1, Len(open) - 1), p)

DoctypeToks(st) ==
  LET d == st.tree.doctype
      ents == [i \in 1..Len(st.ents) |-> [k |-> "entity", n |-> st.ents[i].n, v |-> st.ents[i].v]]
      nots == LET s == SetToSeq(d.nots)
              IN [i \in 1..Len(s) |-> [k |-> "notation", n |-> s[i].n,
                                        ext |-> IF ~s[i].haspub THEN "system" ELSE IF s[i].hassys THEN "public" ELSE "pubonly",
                                        pub |-> s[i].pub, sys |-> s[i].sys]]
      uents == LET s == SetToSeq(d.uents)
               IN [i \in 1..Len(s) |-> [k |-> "uentity", n |-> s[i].n, ext |-> IF s[i].haspub THEN "public" ELSE "system",
                                         pub |-> s[i].pub, sys |-> s[i].sys, ndata |-> s[i].ndata]]
      atts == [i \in 1..Len(st.attlists) |-> [k |-> "attlist", el |-> st.attlists[i].el, defs |-> st.attlists[i].defs]]
      pis == [i \in 1..Len(d.pis) |-> [k |-> "pi", n |-> d.pis[i].n, v |-> d.pis[i].v]]
      decls == ents \o nots \o uents \o atts \o pis
  IN IF ~d.present THEN <<>>
     ELSE <<[k |-> "doctype", n |-> d.n, ext |-> d.ext, pub |-> d.pub, sys |-> d.sys, subset |-> (decls # <<>>)]>>
          \o decls \o (IF decls # <<>> THEN <<[k |-> "dtdend"]>> ELSE <<>>)

\* i: next node; open: stack of open element indices; top: number of top-level nodes emitted
RECURSIVE Body(_, _, _, _)
Body(st, i, open, top) ==
  LET nodes == st.tree.nodes
      d == st.tree.doctype
  IN IF i > Len(nodes)
     THEN CloseTo(nodes, open, 0) \o (IF d.present /\ d.pos >= top THEN DoctypeToks(st) ELSE <<>>)
     ELSE LET nd == nodes[i]
              closing == CloseTo(nodes, open, nd.p)
              open1 == PopTo(open, nd.p)
              dt == IF nd.p = 0 /\ d.present /\ d.pos = top THEN DoctypeToks(st) ELSE <<>>
          IN closing \o dt \o <<NodeTok(nd)>>
             \o Body(st, i + 1, IF nd.k = "elem" THEN Append(open1, i) ELSE open1,
                     IF nd.p = 0 THEN top + 1 ELSE top)

PrintDoc(st) ==
  LET x == st.tree.xmldecl
  IN (IF x.present THEN <<[k |-> "xmldecl", ver |-> x.ver, enc |-> x.enc, sa |-> x.sa]>> ELSE <<>>)
     \o Body(st, 1, <<>>, 0) \o <<[k |-> "end"]>>

\* The theorem.  (Entities referenced in content are expanded in the tree, so the printed
\* document no longer references them; they are still declared.)
PrintRoundTrip(st) ==
  LET p  == PrintDoc(st)
      s2 == Fold(InitState, p)
  IN /\ \A i \in 1..Len(p) : TokenSane(p[i])
     /\ s2.wf /\ s2.phase = "accept"
     /\ s2.tree = st.tree
     /\ PrintDoc(s2) = p
=============================================================================
