------------------------------- MODULE MC_Session -------------------------------
(***************************************************************************)
(* C19: all sessions of at most MaxLen queries over an alphabet of 12      *)
(* queries (6 succeeding with 0-2 nested predicates, 6 failing at          *)
(* different depths) on one document and one context.  TLC explores the    *)
(* XPathSession machine (Begin / PushPredicate / PopPredicate / Return /   *)
(* Fail), checks StacksEmptyAtRest and ResultIsFunctionOfQuery, and prints *)
(* every complete session with the expected outcome of each query for      *)
(* replay on one real Context and one real document.                       *)
(* MC_Session_leaky.cfg sets Leaky = TRUE: TLC must refute the invariants  *)
(* (anti-vacuity; run by the thorough tier).                               *)
(***************************************************************************)
EXTENDS XPathSession, XPathDoc, XPathSyntax, TLC, Json, SequencesExt

FastSortedSeq(S) == SetToSeq(S)
CpTab == TLCEval([w \in CpWords |-> CpCase(w)])
FastCp(w) == CpTab[w]

Nd(k, p, pre, loc, uri, v) == [k |-> k, p |-> p, pre |-> pre, loc |-> loc, uri |-> uri, v |-> v, raw |-> <<>>]
El(p, n)   == Nd("elem", p, <<>>, Cp(n), <<>>, <<>>)
At(p, n, v) == Nd("attr", p, <<>>, Cp(n), <<>>, Cp(v))
Tx(p, v)   == Nd("text", p, <<>>, <<>>, <<>>, Cp(v))
\* <a x="1"><b>ab</b><!--c--><b y="2"><c/>12</b><?p s?></a>
McDoc == [prolog |-> <<>>, nodes |-> <<
  Nd("root", 0, <<>>, <<>>, <<>>, <<>>), El(1, "a"), At(2, "x", "1"), El(2, "b"), Tx(4, "ab"),
  Nd("comment", 2, <<>>, <<>>, <<>>, Cp("c")), El(2, "b"), At(7, "y", "2"), El(7, "c"), Tx(7, "12"),
  Nd("pi", 2, <<>>, Cp("p"), <<>>, Cp("s")) >>]

NumL(i)    == [t |-> "num", n |-> OfInt(i)]
Fn(f, args) == [t |-> "fn", name |-> f, args |-> args]
Bin(o, l, r) == [t |-> "bin", op |-> o, l |-> l, r |-> r]
NameT(n)   == [k |-> "name", pre |-> <<>>, loc |-> Cp(n)]
Step(ax, test, preds) == [axis |-> ax, test |-> test, preds |-> preds]
Dos  == Step("descendant-or-self", [k |-> "type", ty |-> "node"], <<>>)
Rel(steps) == [t |-> "path", abs |-> FALSE, steps |-> steps]
AbsP(steps) == [t |-> "path", abs |-> TRUE, steps |-> steps]
ChP(n, preds) == Step("child", NameT(n), preds)
NoFunc == Fn("nofunc", <<>>)
McBinds == <<>>

McQueries == <<
  AbsP(<<Dos, ChP("b", <<>>)>>),                                                        \* //b
  AbsP(<<Dos, ChP("b", <<Rel(<<ChP("c", <<>>)>>)>>)>>),                                 \* //b[c]
  AbsP(<<Dos, Step("child", [k |-> "any"], <<Rel(<<ChP("b", <<Rel(<<Step("attribute", NameT("y"), <<>>)>>)>>)>>)>>)>>),  \* //*[b[@y]]
  Fn("position", <<>>),
  Fn("last", <<>>),
  Fn("count", <<AbsP(<<Dos, ChP("b", <<Bin("=", Fn("position", <<>>), Fn("last", <<>>))>>)>>)>>),
  AbsP(<<Dos, ChP("b", <<NoFunc>>)>>),                                                  \* //b[nofunc()]
  AbsP(<<Dos, ChP("a", <<Rel(<<ChP("b", <<Rel(<<Step("child", [k |-> "name", pre |-> Cp("q"), loc |-> Cp("c")], <<>>)>>)>>)>>)>>)>>),  \* //a[b[q:c]]
  [t |-> "filt", e |-> AbsP(<<Dos, ChP("b", <<>>)>>), preds |-> <<Fn("count", <<NumL(1)>>)>>, steps |-> <<>>],   \* (//b)[count(1)]
  NoFunc,
  AbsP(<<Dos, ChP("b", <<Rel(<<ChP("c", <<>>)>>), NoFunc>>)>>),                         \* //b[c][nofunc()]
  AbsP(<<Dos, ChP("a", <<Rel(<<ChP("b", <<Rel(<<ChP("c", <<NoFunc>>)>>)>>)>>)>>)>>)      \* //a[b[c[nofunc()]]]
>>

\* The answers are a function of (query, position, size) and only two contexts can arise: empty (0, 0)
\* and leaked (1, 3).  They are tabulated once, in the initial state, in the auxiliary variable `tab`
\* (TLC does not cache a constant definition that involves RECURSIVE operators); cfg: OutcomeAt <- FastOutcomeAt.
VARIABLE tab
OutTab == [q \in 1..Len(McQueries), c \in {<<0, 0>>, <<1, 3>>} |->
             Eval(McDoc, McQueries[q], [n |-> 1, pos |-> c[1], size |-> c[2]], <<>>)]
FastOutcomeAt(q, p, s) == tab[q, <<p, s>>]
McInit == Init /\ tab = TLCEval(OutTab)
McSpec == McInit /\ [][Next /\ UNCHANGED tab]_<<svars, tab>>

ASSUME TreeOk(McDoc)
ASSUME \A q \in 1..6 : OutTab[q, <<0, 0>>].t # "err"
ASSUME \A q \in 7..12 : OutTab[q, <<0, 0>>].t = "err"
ASSUME PDepth(McQueries[1]) = 0 /\ PDepth(McQueries[2]) = 1 /\ PDepth(McQueries[3]) = 2 /\ PDepth(McQueries[12]) = 3

Complete == phase = "rest" /\ Len(log) = MaxLen
Emit == Complete => PrintT(<<"REPLAY", ToJson([k |-> "session", qs |-> [i \in 1..Len(log) |-> log[i].q],
                                                exp |-> [i \in 1..Len(log) |-> log[i].outcome]])>>)
Inv == StacksEmptyAtRest /\ ResultIsFunctionOfQuery /\ Emit
\* without the REPLAY output (leaky run: the invariant is expected to be violated)
InvQuiet == StacksEmptyAtRest /\ ResultIsFunctionOfQuery

ASSUME PrintT(<<"DOC", ToJson([k |-> "sdoc", tree |-> McDoc, text |-> Ser(McDoc), binds |-> <<>>, asts |-> McQueries,
                               exprs |-> [q \in 1..Len(McQueries) |-> Unparse(McQueries[q], Canonical)]])>>)
=============================================================================
