SPECIFICATION Spec
CONSTANT Texts = {1, 2, 3, 4, 5, 6}
CONSTANT MaxLen = 4
INVARIANT InvEmit
CHECK_DEADLOCK FALSE
