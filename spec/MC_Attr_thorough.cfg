SPECIFICATION Spec
CONSTANT MaxItems = 4
CONSTANT FullLen = 3
INVARIANT Inv
CHECK_DEADLOCK FALSE
