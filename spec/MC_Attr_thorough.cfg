SPECIFICATION Spec
CONSTANT MaxItems = 4
CONSTANT FullLen = 3
CONSTANT McTypes = {"CDATA", "ID", "IDREF", "IDREFS", "ENTITY", "ENTITIES", "NMTOKEN", "NMTOKENS", "ENUM", "NOTATION"}
INVARIANT Inv
CHECK_DEADLOCK FALSE
