SPECIFICATION Spec
CONSTANT Kind = "any"
CONSTANT Alphabet <- AlphaC16
CONSTANT MaxLen = 3
CONSTANT Args <- ArgsC16
CONSTANT Ops <- OpsAll
VIEW View
INVARIANT InvSerializable
INVARIANT InvAlgebra
INVARIANT InvEmit
CHECK_DEADLOCK FALSE
