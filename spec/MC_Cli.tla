------------------------------- MODULE MC_Cli -------------------------------
(***************************************************************************)
(* Bounded model of the xq / xe tools: every (document, expression,        *)
(* fragment) triple of CliPool.  TLC checks the design-level properties of *)
(* Cli.tla on every triple and prints one REPLAY line per run to perform.  *)
(***************************************************************************)
EXTENDS CliPool, TLC, Json

VARIABLES di, ei, fi
vars == <<di, ei, fi>>

Init == di \in 1..Len(Docs) /\ ei \in 1..Len(Exprs) /\ fi \in 0..Len(Frags) /\ RunsOn(di, ei)     \* fi = 0: an xq run
Next == UNCHANGED vars
Spec == Init /\ [][Next]_vars

D == Docs[di]
V == ValOf(di, ei)

InvIdentity == fi > 0 => XeIdentity(D, Frags[fi])
InvOuterWins == (fi > 0 /\ V.t = "nodes") => XeOuterWins(D, V, Frags[fi])
\* a usable run selects only containers, and its expectation differs from the input only if something is selected
InvUsable == (fi > 0 /\ XeUsable(D, V, Frags[fi]) = "yes" /\ Len(V.v) = 0) => XeExpect(D, V, Frags[fi]) = Ser(D)
InvDocsOk == TreeOk(D)
ASSUME FlatIsChain

Case ==
  IF fi = 0
  THEN [k |-> "xq", di |-> di, ei |-> ei, fi |-> 0, text |-> Ser(D), tree |-> D, expr |-> ExprText(ei), value |-> V,
        setns |-> SetnsOf(ei)]
  ELSE [k |-> "xe", di |-> di, ei |-> ei, fi |-> fi, text |-> Ser(D), tree |-> D, expr |-> ExprText(ei),
        frag |-> Frags[fi].text, usable |-> XeUsable(D, V, Frags[fi]), setns |-> SetnsOf(ei),
        expect |-> IF V.t = "nodes" THEN XeExpect(D, V, Frags[fi]) ELSE <<>>]

InvEmit == PrintT(<<"REPLAY", ToJson(Case)>>)
=============================================================================
