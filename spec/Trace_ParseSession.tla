-------------------------- MODULE Trace_ParseSession --------------------------
(***************************************************************************)
(* Trace validation of parse sessions (C19).                               *)
(* Line 1: {"event":"fresh","outcomes":[{ok,ser:[cp..]}..]} - every text of *)
(*         the pool parsed once in a thread of its own.                    *)
(* Then:   {"event":"session","texts":[i..],"outcomes":[{ok,ser}..]} - one  *)
(*         session in ONE thread; outcome k must be fresh[texts[k]].       *)
(***************************************************************************)
EXTENDS ParseSession, TLC, Json, IOUtils
CONSTANT Open
Rec == ndJsonDeserialize(IOEnv.TRACE)
VARIABLE l
Fresh == Rec[1].outcomes

Verdict(e) ==
  LET bad == { k \in 1..Len(e.texts) : e.outcomes[k] # Ideal(Fresh, e.texts, k) }
      \* "parsing the same text twice yields equal documents with equal serializations": the second parse made right
      \* after the first compares equal (the library's ==) and prints the same
      neq == { k \in 1..Len(e.texts) : e.outcomes[k].ok /\ ~e.outcomes[k].eq }
  IN  IF neq # {} THEN [verdict |-> "VIOLATION", why |-> "two parses of the same text are not equal documents (==) with equal serializations",
                        session |-> e.texts, position |-> CHOOSE k \in neq : TRUE]
      ELSE IF bad = {} THEN [verdict |-> "ok"]
      ELSE LET k == CHOOSE k \in bad : \A j \in bad : k <= j
           IN  [verdict |-> "VIOLATION",
                why |-> "the outcome of parsing a text depends on what was parsed before it",
                session |-> e.texts, position |-> k, fresh_ok |-> Fresh[e.texts[k]].ok, ok |-> e.outcomes[k].ok]

TInit == l = 2 /\ log = <<>>
TNext == /\ l <= Len(Rec)
         /\ LET v == Verdict(Rec[l]) IN IF v.verdict = "ok" THEN TRUE ELSE PrintT(<<"VERDICT", ToJson([i |-> l] @@ v)>>)
         /\ l' = l + 1 /\ UNCHANGED log
TSpec == TInit /\ [][TNext]_<<l, log>>
Done == TLCGet("stats").diameter = Len(Rec) \/ PrintT(<<"TRUNCATED", TLCGet("stats").diameter, Len(Rec)>>)
=============================================================================
