SPECIFICATION Spec
CONSTANT Open = {}
POSTCONDITION Done
CHECK_DEADLOCK FALSE
