------------------------------ MODULE ElemAttrs ------------------------------
(***************************************************************************)
(* The attributes of one element as a state machine (part of C13:          *)
(* "attribute set/remove"; DOM Level 1 Element.setAttribute,               *)
(* removeAttribute, getAttribute, Attr.specified; with the DTD's default   *)
(* values, XML 1.0 3.3.2).                                                 *)
(*                                                                         *)
(* State: am[n] = [present, v, spec] for every name n of the model.        *)
(* Def[n] is the default value the DTD declares for n, or NoDef.           *)
(***************************************************************************)
EXTENDS Integers, Sequences, FiniteSets

CONSTANTS Names, Values, Def        \* Def: [Names -> Values \cup {NoDef}]
NoDef == "#none"

Absent == [present |-> FALSE, v |-> "", spec |-> FALSE]
Defaulted(n) == IF Def[n] = NoDef THEN Absent ELSE [present |-> TRUE, v |-> Def[n], spec |-> FALSE]

Init0 == [n \in Names |-> Defaulted(n)]

\* the outcome of a call in state am: [ok, ret (string returned), am (state afterwards)] or [err]
Apply(am, c) ==
  CASE c.op = "set_attribute"    -> [ok |-> TRUE, ret |-> "", am |-> [am EXCEPT ![c.n] = [present |-> TRUE, v |-> c.v, spec |-> TRUE]]]
    [] c.op = "remove_attribute" -> [ok |-> TRUE, ret |-> "", am |-> [am EXCEPT ![c.n] = Defaulted(c.n)]]
    [] c.op = "get_attribute"    -> [ok |-> TRUE, ret |-> IF am[c.n].present THEN am[c.n].v ELSE "", am |-> am]
    \* Attr.set_value through the node obtained with get_attribute_node: the value changes, it is now specified
    [] c.op = "set_value"        -> IF am[c.n].present
                                    THEN [ok |-> TRUE, ret |-> "", am |-> [am EXCEPT ![c.n] = [present |-> TRUE, v |-> c.v, spec |-> TRUE]]]
                                    ELSE [ok |-> TRUE, ret |-> "absent", am |-> am]          \* no node to call it on
    \* NamedNodeMap.removeNamedItem: NOT_FOUND_ERR iff there is no such attribute node
    [] c.op = "remove_named_item" -> IF am[c.n].present
                                     THEN [ok |-> TRUE, ret |-> "", am |-> [am EXCEPT ![c.n] = Defaulted(c.n)]]
                                     ELSE [err |-> "NotFoundErr"]

Calls == { [op |-> op, n |-> n, v |-> v] : op \in {"set_attribute", "set_value"}, n \in Names, v \in Values }
         \cup { [op |-> op, n |-> n, v |-> ""] : op \in {"remove_attribute", "get_attribute", "remove_named_item"}, n \in Names }

\* properties of the design
NamesPresent(am) == { n \in Names : am[n].present }
\* an attribute with a declared default never disappears; an unspecified attribute always carries the default
DefaultInv(am) == \A n \in Names : /\ (Def[n] # NoDef => am[n].present)
                                   /\ (am[n].present /\ ~am[n].spec => am[n].v = Def[n])
=============================================================================
