------------------------------- MODULE XPathDoc -------------------------------
(***************************************************************************)
(* Serialization of a document record (XPathSem.tla) to XML text, as a     *)
(* sequence of code points: the documents the evaluator is run on are      *)
(* produced by the specification; the harness only parses this text.       *)
(* Namespace nodes are turned back into declarations: a declaration is     *)
(* written on an element for every namespace node it has that its parent   *)
(* element does not have (the implicit xml binding is never declared), and *)
(* xmlns="" where the parent has a default namespace and the element none. *)
(***************************************************************************)
EXTENDS XPathSem, XPathChars

RECURSIVE EscText(_)
EscText(v) == IF Len(v) = 0 THEN <<>>
              ELSE (CASE Head(v) = 60 -> <<38, 108, 116, 59>>             \* &lt;
                      [] Head(v) = 38 -> <<38, 97, 109, 112, 59>>         \* &amp;
                      [] Head(v) = 62 -> <<38, 103, 116, 59>>             \* &gt;
                      [] OTHER -> <<Head(v)>>) \o EscText(Tail(v))
RECURSIVE EscAttr(_)
EscAttr(v) == IF Len(v) = 0 THEN <<>>
              ELSE (CASE Head(v) = 60 -> <<38, 108, 116, 59>>
                      [] Head(v) = 38 -> <<38, 97, 109, 112, 59>>
                      [] Head(v) = 34 -> <<38, 113, 117, 111, 116, 59>>   \* &quot;
                      [] Head(v) = 9  -> <<38, 35, 57, 59>>               \* &#9;
                      [] Head(v) = 10 -> <<38, 35, 49, 48, 59>>           \* &#10;
                      [] Head(v) = 13 -> <<38, 35, 49, 51, 59>>           \* &#13;
                      [] OTHER -> <<Head(v)>>) \o EscAttr(Tail(v))

XmlPre == <<120, 109, 108>>
NsNodes(d, e) == {j \in (e + 1)..N(d) : Par(d, j) = e /\ Kind(d, j) = "ns"}
HasNs(d, e, loc, uri) == Kind(d, e) = "elem" /\ \E j \in NsNodes(d, e) : d.nodes[j].loc = loc /\ d.nodes[j].v = uri
HasDefaultNs(d, e) == Kind(d, e) = "elem" /\ \E j \in NsNodes(d, e) : d.nodes[j].loc = <<>>

NsDecl(loc, uri) == <<32>> \o Cp("x") \o <<109, 108, 110, 115>>                  \* ' xmlns'
                    \o (IF loc = <<>> THEN <<>> ELSE <<58>> \o loc) \o <<61, 34>> \o EscAttr(uri) \o <<34>>

RECURSIVE SerSeq(_, _)
RECURSIVE SerNode(_, _)
RECURSIVE SerDecls(_, _, _)
RECURSIVE SerAttrs(_, _)

SerDecls(d, e, s) ==
  IF Len(s) = 0 THEN <<>>
  ELSE LET nd == d.nodes[Head(s)]
       IN  (IF nd.loc = XmlPre \/ HasNs(d, Par(d, e), nd.loc, nd.v) THEN <<>> ELSE NsDecl(nd.loc, nd.v))
           \o SerDecls(d, e, Tail(s))

SerAttrs(d, s) ==
  IF Len(s) = 0 THEN <<>>
  ELSE LET nd == d.nodes[Head(s)]
       IN  <<32>> \o QNameOf(nd) \o <<61, 34>> \o EscAttr(nd.v) \o <<34>> \o SerAttrs(d, Tail(s))

SerSeq(d, s) == IF Len(s) = 0 THEN <<>> ELSE SerNode(d, Head(s)) \o SerSeq(d, Tail(s))

SerNode(d, i) ==
  LET nd == d.nodes[i] IN
  CASE nd.k = "root"    -> d.prolog \o SerSeq(d, SortedSeq(Children(d, i)))
    [] nd.k = "text"    -> IF Len(nd.raw) > 0 THEN nd.raw ELSE EscText(nd.v)
    [] nd.k = "comment" -> <<60, 33, 45, 45>> \o nd.v \o <<45, 45, 62>>
    [] nd.k = "pi"      -> <<60, 63>> \o nd.loc \o (IF Len(nd.v) = 0 THEN <<>> ELSE <<32>> \o nd.v) \o <<63, 62>>
    [] nd.k = "elem"    ->
         LET kids == SortedSeq(Children(d, i))
             open == <<60>> \o QNameOf(nd)
                     \o SerDecls(d, i, SortedSeq(NsNodes(d, i)))
                     \o (IF HasDefaultNs(d, Par(d, i)) /\ ~HasDefaultNs(d, i) THEN NsDecl(<<>>, <<>>) ELSE <<>>)
                     \o SerAttrs(d, SortedSeq(AxisSet(d, "attribute", i)))
         IN  IF Len(kids) = 0 THEN open \o <<47, 62>>
             ELSE open \o <<62>> \o SerSeq(d, kids) \o <<60, 47>> \o QNameOf(nd) \o <<62>>

Ser(d) == SerNode(d, 1)
=============================================================================
