----------------------------- MODULE MC_CharData -----------------------------
(***************************************************************************)
(* One character-data node as a state machine: the state is its data, one  *)
(* action per CharacterData / Text call.  TLC explores every string up to  *)
(* MaxLen over the alphabet, checks the algebra of the operations and the  *)
(* Serializable invariant of the ideal machine (which refuses exactly the  *)
(* results no node of its kind could hold), and dumps the labelled         *)
(* transition relation: one NODE line per state with the specified         *)
(* outcome of every call.  The harness fires every edge on real nodes of   *)
(* every kind and walks the graph for multi-call histories.                *)
(***************************************************************************)
EXTENDS CharData, TLC, Json, FiniteSets

CONSTANTS Kind,        \* "text" | "attr" | "comment" | "cdata" | "pi" | "any" (C16: no refusals modelled)
          Alphabet,    \* set of code points
          MaxLen,      \* data strings up to this length
          Args,        \* set of argument strings
          Ops          \* set of operation names

VARIABLES data, last

\* instantiations (cfg files substitute these for the constants)
AlphaC16 == {97, 233, 26085, 128512, 769}                     \* a  e-acute  CJK  astral  combining acute
ArgsC16  == {<<>>, <<97>>, <<128512, 769>>, <<26085>>, <<60>>}      \* (the last one is refused by a text node: a failing call changes nothing)
OpsAll   == {"length", "data", "substring", "append", "insert", "delete", "replace", "split", "set"}
OpsNoSplit == OpsAll \ {"split"}
OpsMut   == {"append", "insert", "delete", "replace", "split", "set"}
OpsMutNoSplit == OpsMut \ {"split"}
OpsSet   == {"set"}
\* C15: per kind the characters whose combinations are dangerous for that kind, plus a harmless one
AlphaText    == {97, 60, 38, 93, 62, 1}                       \* a < & ] > U+0001 (not a Char: must be refused)
AlphaAttr    == {97, 60, 38, 39, 34, 9, 10, 1}                \* a < & ' " TAB LF (a literal TAB/LF in a value reads back as a space) U+0001 (not a Char: must be refused)
AlphaComment == {97, 45, 62}                                  \* a - >
AlphaCData   == {97, 93, 62}                                  \* a ] >
AlphaPI      == {97, 63, 62, 32}                              \* a ? > space
RECURSIVE StringsOver(_, _)
StringsOver(A, n) == IF n = 0 THEN {<<>>} ELSE LET S == StringsOver(A, n - 1) IN S \cup { Append(s, ch) : s \in S, ch \in A }
Args2(A) == StringsOver(A, 2)
\* arguments that are COMPLETE constructs of the surrounding syntax (a reference, an element, a comment): stored
\* verbatim they would print as markup - they must be refused or escaped like a lone < or &
MarkupArgs == { <<38, 97, 109, 112, 59>>,   \* &amp;
                <<38, 35, 54, 48, 59>>,   \* &#60;
                <<60, 98, 47, 62>>,   \* <b/>
                <<60, 33, 45, 45, 99, 45, 45, 62>>,   \* <!--c-->
                <<97, 38, 97, 109, 112, 59, 98>>,   \* a&amp;b
                <<38, 101, 59>> }  \* &e;
ArgsText == Args2(AlphaText) \cup MarkupArgs   ArgsAttr == Args2(AlphaAttr) \cup MarkupArgs   ArgsComment == Args2(AlphaComment)
ArgsCData == Args2(AlphaCData) ArgsPI == Args2(AlphaPI)

Offsets(s) == 0..(Len(s) + 1) \cup {MAXC}
Counts(s)  == 0..(Len(s) + 1) \cup {MAXC}

CallsAt(s) ==
       { [op |-> op, o |-> 0, c |-> 0, a |-> <<>>] : op \in Ops \cap {"length", "data"} }
  \cup { [op |-> "substring", o |-> o, c |-> c, a |-> <<>>] : o \in Offsets(s), c \in Counts(s) }
  \cup { [op |-> op, o |-> 0, c |-> 0, a |-> a] : op \in Ops \cap {"append", "set"}, a \in Args }
  \cup { [op |-> "insert", o |-> o, c |-> 0, a |-> a] : o \in Offsets(s), a \in Args }
  \cup { [op |-> "delete", o |-> o, c |-> c, a |-> <<>>] : o \in Offsets(s), c \in Counts(s) }
  \cup { [op |-> "replace", o |-> o, c |-> c, a |-> a] : o \in Offsets(s), c \in Counts(s), a \in Args }
  \cup { [op |-> "split", o |-> o, c |-> 0, a |-> <<>>] : o \in Offsets(s) \cap (IF "split" \in Ops THEN Offsets(s) ELSE {}) }

Calls(s) == { c \in CallsAt(s) : c.op \in Ops }

\* the ideal machine: the DOM result, refused when the node could not hold it
Ideal(s, c) ==
  LET r == CdApply(s, c)
  IN  IF "err" \in DOMAIN r THEN r
      ELSE IF Kind # "any" /\ MustRefuse(Kind, r.data) THEN [err |-> "refused"]
      ELSE IF Kind # "any" /\ c.op = "split" /\ MustRefuse(Kind, r.ret) THEN [err |-> "refused"]
      ELSE r

RECURSIVE Strings(_)
Strings(n) == IF n = 0 THEN {<<>>} ELSE LET S == Strings(n - 1) IN S \cup { Append(s, ch) : s \in S, ch \in Alphabet }

Init == /\ data \in { s \in Strings(MaxLen) : Kind = "any" \/ Serializable(Kind, s) }
        /\ last = "init"

Step(c) == LET r == Ideal(data, c)
           IN  /\ data' = IF "err" \in DOMAIN r THEN data ELSE r.data
               /\ Len(data') <= MaxLen
               /\ last' = c.op

Next == \E c \in Calls(data) : Step(c)
Spec == Init /\ [][Next]_<<data, last>>
View == data

\* ---------------------------------------------------------------------------------------------
\* properties of the design

InvSerializable == Kind = "any" \/ Serializable(Kind, data)

\* algebra of the operations (checked in every state, for every call)
InvAlgebra ==
  \A c \in Calls(data) :
    LET r == CdApply(data, c)
    IN  IF "err" \in DOMAIN r THEN c.o > Len(data)
        ELSE /\ c.op = "substring" => /\ Len(r.ret) <= Len(data) - c.o
                                      /\ (c.c <= Len(data) - c.o => Len(r.ret) = c.c)
             /\ c.op = "delete"  => r.data = Sub(data, 0, c.o) \o Sub(data, c.o + Len(CdApply(data, [c EXCEPT !.op = "substring"]).ret), Len(data))
             /\ c.op = "replace" => r.data = CdApply(CdApply(data, [c EXCEPT !.op = "delete"]).data, [c EXCEPT !.op = "insert"]).data
             /\ c.op = "split"   => r.data \o r.ret = data
             /\ c.op = "insert"  => Len(r.data) = Len(data) + Len(c.a)

\* dump: per state, the outcome of every call; calls whose result exceeds MaxLen are still replayed (the
\* implementation does not know about the bound) but do not lead to a state of the graph
EmitNode ==
  PrintT(<<"NODE", ToJson([s |-> data, kind |-> Kind,
                           edges |-> { [call |-> c, dom |-> CdApply(data, c), ideal |-> Ideal(data, c)] : c \in Calls(data) }])>>)
InvEmit == EmitNode
=============================================================================
