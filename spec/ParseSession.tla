----------------------------- MODULE ParseSession -----------------------------
(***************************************************************************)
(* Parsing is a function of the text (C19: "parsing the same text twice    *)
(* yields equal documents with equal serializations").  The system is a    *)
(* state machine only in the degenerate sense that it has NO state: a      *)
(* session is a series of Parse(t) calls in one process and thread; the    *)
(* outcome of each call must be the outcome the same text gets in a fresh  *)
(* thread, whatever was parsed - accepted or refused - before.             *)
(* An implementation has hidden state all the same (thread-local depth     *)
(* counters, per-document hash maps, caches); this module is what binds it *)
(* to "no state".                                                          *)
(***************************************************************************)
EXTENDS Integers, Sequences

CONSTANTS Texts,          \* indices of the text pool
          MaxLen

VARIABLE log              \* sequence of text indices parsed so far in this session

Init == log = <<>>
Parse(t) == Len(log) < MaxLen /\ log' = Append(log, t)
Next == \E t \in Texts : Parse(t)
Spec == Init /\ [][Next]_log

\* the ideal outcome of the k-th call of a session: the fresh outcome of its text
Ideal(fresh, session, k) == fresh[session[k]]
=============================================================================
