------------------------------- MODULE MC_Name -------------------------------
(***************************************************************************)
(* The name recogniser as a state machine (one Feed action per character)  *)
(* and its agreement with the declarative definitions of XmlChar.tla.      *)
(* Every reachable state is a string over the representative alphabet;     *)
(* TLC checks the invariants on all of them and prints one REPLAY line per *)
(* string, which the harness replays into the real parser in five          *)
(* syntactic roles (element, attribute, PI target, entity, doctype name).  *)
(***************************************************************************)
EXTENDS XmlChar, TLC, Json

CONSTANTS MaxLen

\* representatives: every class that the productions distinguish, including
\* one code point from the highest interval of each table row that has ever
\* been mistyped in an implementation (U+2FEF, U+EFFFF, U+2040, U+B7).
Alphabet ==
  { 97, 120, 109, 108, 88,        \* a x m l X
    12271, 983039, 95,            \* U+2FEF  U+EFFFF  _
    58,                           \* :
    45, 46, 49, 183, 8256,        \* - . 1 U+B7 U+2040   (NameChar, not NameStartChar)
    32, 60, 215, 12272 }          \* space < U+D7 U+2FF0 (not NameChar)

VARIABLES s, q      \* s: characters fed so far; q: automaton state

\* automaton for QName:  start -(NS-':')-> p1 -(NC-':')*-> p1 -':'-> colon -(NS-':')-> p2 -(NC-':')*-> p2
QStep(st, c) ==
  CASE st = "start" -> IF IsNameStart(c) /\ c # Colon THEN "p1" ELSE "dead"
    [] st = "p1"    -> IF c = Colon THEN "colon"
                       ELSE IF IsNameChar(c) THEN "p1" ELSE "dead"
    [] st = "colon" -> IF IsNameStart(c) /\ c # Colon THEN "p2" ELSE "dead"
    [] st = "p2"    -> IF IsNameChar(c) /\ c # Colon THEN "p2" ELSE "dead"
    [] OTHER        -> "dead"

Init == s = <<>> /\ q = "start"

Feed(c) == /\ Len(s) < MaxLen
           /\ s' = Append(s, c)
           /\ q' = QStep(q, c)

Next == \E c \in Alphabet : Feed(c)

Spec == Init /\ [][Next]_<<s, q>>

AutomatonAcceptsQName == q \in {"p1", "p2"}

\* the two independent definitions agree on every string
AutomatonMatchesDeclarative == AutomatonAcceptsQName <=> IsQName(s)
Hierarchy == /\ (IsNCName(s) => IsQName(s))
             /\ (IsQName(s) => IsName(s))
             /\ (IsName(s) => IsNmtoken(s))
             /\ (IsPITarget(s) => IsName(s))

Case == [s |-> s, name |-> IsName(s), ncname |-> IsNCName(s), qname |-> IsQName(s),
         pitarget |-> IsPITarget(s),
         prefix |-> IF IsQName(s) THEN QPrefix(s) ELSE <<>>,
         local  |-> IF IsQName(s) THEN QLocal(s) ELSE <<>>]

Emit == Len(s) >= 1 => PrintT(<<"REPLAY", ToJson(Case)>>)

Inv == AutomatonMatchesDeclarative /\ Hierarchy /\ Emit
=============================================================================
