------------------------------- MODULE MC_Cost -------------------------------
(***************************************************************************)
(* Model checking of Cost.tla: TLC enumerates the family members (f, n) of *)
(* the configured density, runs the call machine on each of them, checks   *)
(* the design-level invariants (the input is linear in n and balanced; the *)
(* machine's only terminal states are Returned / Errored; every call ends) *)
(* and prints one REPLAY line per member with the rendered text, which the *)
(* harness feeds to the real pipeline in a worker process.                 *)
(***************************************************************************)
EXTENDS Cost, TLC, Json

CONSTANT Dense      \* FALSE: about a dozen n per family incl. the bound; TRUE: see Cost!Sample

Members == MembersOf(Dense)

Next == (\E m \in Members : Call(m)) \/ Return \/ Error
vars == <<pc, inp>>
Spec == Init /\ [][Next]_vars /\ WF_vars(Return \/ Error)

Text == Render(inp.family, inp.n)

\* evaluated once per member, in the state right after Call
Emit == pc = "called" =>
          LET t == Text IN
          /\ Len(t) <= MaxLen(inp.family, inp.n)
          /\ (inp.family \notin {"Odd", "LongCData"} => Balanced(t))   \* LongCData holds literal '<'s
          /\ \A i \in 1..Len(t) : t[i] \in 9..126
          /\ inp.n <= MaxN(inp.family)
          /\ PrintT(<<"REPLAY", ToJson([family |-> inp.family, n |-> inp.n, text |-> t,
                                         must |-> "finish"])>>)

\* the only states without a successor are the two terminal ones, and they are observable as ok / err
OnlyTerminalStatesEnd == (~ ENABLED Next) <=> (pc \in Terminal)
ObservableOk == /\ (pc \in Terminal => Observable(pc) \in {"ok", "err"})
                /\ Producible = {"ok", "err"}
                /\ {"panic", "abort", "timeout"} \cap Producible = {}

Inv == TypeOK /\ OnlyTerminalStatesEnd /\ ObservableOk /\ Emit

\* every call ends (by Return or Error)
Terminates == [](pc = "called" => <>(pc \in Terminal))
=============================================================================
