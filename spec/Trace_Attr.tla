------------------------------ MODULE Trace_Attr ------------------------------
(***************************************************************************)
(* Trace validation for C11.  The harness records one event per document:  *)
(*   {"k":"mc",  "abs":ABS, ["text":[cp..]], "views":[VIEW,VIEW]}          *)
(*        a case of MC_Attr.tla (ABS = items, ty, dk, layout, written)     *)
(*   {"k":"rnd", "doc":DOC, "text":[cp..],   "views":[VIEW,VIEW]}          *)
(*        a random abstract document rendered by the harness               *)
(*   VIEW = {"view":"raw"|"exp", "parse":"ok"|"err"|"rest"|"noroot"|       *)
(*           "panic", "els":[EL..]}   (from_raw / text_expanded context)   *)
(*   EL   = {"st":"ok"|"noattrs"|"panic", "len":attributes().length(),     *)
(*           "attrs":[{"n":name,"v":value,"st":"ok"|"err"|"panic",         *)
(*                     "spec":"T"|"F"|"panic"}..],                         *)
(*           "get":[{"n":name,"v":get_attribute(name),"st":"ok"|"panic"}], *)
(*           "xp":{"st":..,"count":<count of @* >,"str":[{"n","v":string(@n),*)
(*                  "st"}..]}}      (xp: text-expanded view only)          *)
(* Every event is judged against AttrNorm.tla: the expected effective      *)
(* attributes are RE-COMPUTED from the abstract case (an `expect` field is *)
(* never read).  The recorded text must be the specification's rendering   *)
(* of the abstract case.  The trace spec never blocks: one state per       *)
(* event, one VERDICT line per event that is not ideal.                    *)
(***************************************************************************)
EXTENDS AttrSurface, TLC, Json, IOUtils

CONSTANT Open            \* names of the catalogued deviations (known_findings.jsonl, status open)

Rec == ndJsonDeserialize(IOEnv.TRACE)

VARIABLE l

DocOf(e) == IF e.k = "mc" THEN McDoc(e.abs) ELSE e.doc
CaseOk(e) == IF e.k = "mc" THEN AbsOk(e.abs) /\ DocOk(McDoc(e.abs)) ELSE DocOk(e.doc)

ObsAttrs(o) == { [n |-> o.attrs[i].n, v |-> o.attrs[i].v, spec |-> (o.attrs[i].spec = "T")] : i \in 1..Len(o.attrs) }
Asked(o) == { o.get[i].n : i \in 1..Len(o.get) }

\* one element observed as `o` against the set `want` of effective attributes
ElementIs(o, want, ask) ==
  /\ o.st = "ok"
  /\ \A i \in 1..Len(o.attrs) : o.attrs[i].st = "ok" /\ o.attrs[i].spec \in {"T", "F"}
  /\ ObsAttrs(o) = want
  /\ Len(o.attrs) = Cardinality(want)          \* no attribute is reported twice
  /\ o.len = Cardinality(want)
  /\ \A i \in 1..Len(o.get) : o.get[i].st = "ok" /\ o.get[i].v = Lookup(want, o.get[i].n)
  /\ ask \subseteq Asked(o)

\* the XPath data model of the same element (text-expanded view only, the way xq evaluates):
\* count of all attributes and string(@name); defaulted attributes are attributes like the others
XPathIs(o, want, ask) ==
  /\ "xp" \in DOMAIN o
  /\ o.xp.st = "ok"
  /\ o.xp.count = Cardinality(want)
  /\ \A i \in 1..Len(o.xp.str) : o.xp.str[i].st = "ok" /\ o.xp.str[i].v = Lookup(want, o.xp.str[i].n)
  /\ ask \subseteq { o.xp.str[i].n : i \in 1..Len(o.xp.str) }

\* W(doc, i) = the set of effective attributes demanded of element i
ViewIs(doc, view, W(_, _)) ==
  /\ view.parse = "ok"
  /\ Len(view.els) = Len(doc.els)
  /\ \A i \in 1..Len(doc.els) : ElementIs(view.els[i], W(doc, i), AskNames(doc, i))
  /\ (view.view = "exp" => \A i \in 1..Len(doc.els) : XPathIs(view.els[i], W(doc, i), AskNames(doc, i)))

EventIs(e, W(_, _)) == \A k \in 1..Len(e.views) : ViewIs(DocOf(e), e.views[k], W)

Ideal(e) == Len(e.views) = 2 /\ EventIs(e, Expected)

(***************************************************************************)
(* Catalogue of open deviations: each entry is an exact as-is model - an   *)
(* alternative definition of the effective attributes that applies under   *)
(* an exact condition.  An event that is not ideal gets the name of the    *)
(* entry whose as-is model reproduces the whole observation (both views,   *)
(* every element, values, specified flags, length, get_attribute, XPath); a*)
(* different wrong answer matches nothing and is a VIOLATION.              *)
(*                                                                         *)
(* "required-attribute-materialized": XmlElement::attributes() adds an     *)
(* attribute for every binding definition that is not #IMPLIED, so an      *)
(* unwritten #REQUIRED attribute is reported with the empty value and      *)
(* specified = false (it has no default value to take).  Pinned by the     *)
(* repository's own test info::tests::test_attribute_specified_required,   *)
(* so it cannot be repaired with the test suite unedited.                  *)
(***************************************************************************)
Catalogue == {"required-attribute-materialized"}

RequiredUnwritten(doc, i) ==
  LET d == DefsFor(doc.attlists, doc.els[i].el)
  IN { n \in { d[k].n : k \in 1..Len(d) } \ WrittenNames(doc.els[i].written) :
          BindingDef(doc.attlists, doc.els[i].el, n).dk = "REQUIRED" }

AsIs(name, doc, i) ==
  CASE name = "required-attribute-materialized" ->
         Expected(doc, i) \cup { [n |-> n, v |-> <<>>, spec |-> FALSE] : n \in RequiredUnwritten(doc, i) }
    [] OTHER -> Expected(doc, i)

Applies(name, doc) ==
  CASE name = "required-attribute-materialized" -> \E i \in 1..Len(doc.els) : RequiredUnwritten(doc, i) # {}
    [] OTHER -> FALSE

Matching(e) ==
  { name \in Catalogue \cap Open :
       LET W(d, i) == AsIs(name, d, i)
       IN Applies(name, DocOf(e)) /\ Len(e.views) = 2 /\ EventIs(e, W) }

\* a compact description of the first disagreement, for the replay file
Why(e) ==
  LET doc == DocOf(e)
      bad == { k \in 1..Len(e.views) : ~ViewIs(doc, e.views[k], Expected) }
      k   == CHOOSE x \in bad : \A y \in bad : x <= y
      v   == e.views[k]
  IN IF v.parse # "ok" THEN [view |-> v.view, what |-> "parse", got |-> v.parse]
     ELSE IF Len(v.els) # Len(doc.els) THEN [view |-> v.view, what |-> "elements", got |-> Len(v.els)]
     ELSE LET be == { i \in 1..Len(doc.els) : ~ElementIs(v.els[i], Expected(doc, i), AskNames(doc, i)) }
          IN IF be = {} THEN [view |-> v.view, what |-> "xpath", want |-> [i \in 1..Len(doc.els) |-> Expected(doc, i)],
                              got |-> [i \in 1..Len(doc.els) |-> IF "xp" \in DOMAIN v.els[i] THEN v.els[i].xp ELSE [st |-> "missing"]]]
             ELSE LET i == CHOOSE x \in be : \A y \in be : x <= y
                  IN [view |-> v.view, what |-> "attributes", el |-> i, want |-> Expected(doc, i), got |-> v.els[i]]

Verdict(e) ==
  IF ~CaseOk(e) THEN [verdict |-> "TOOL-BAD-CASE"]
  ELSE IF "text" \in DOMAIN e /\ e.text # Render(DocOf(e))
       THEN [verdict |-> "TOOL-RENDER-MISMATCH", want |-> Render(DocOf(e))]
  ELSE IF Ideal(e) THEN [verdict |-> "ok"]
  ELSE LET m == Matching(e)
       IN IF Cardinality(m) = 1 THEN [verdict |-> CHOOSE n \in m : TRUE, why |-> Why(e)]
          ELSE [verdict |-> "VIOLATION", why |-> Why(e), text |-> Render(DocOf(e))]

Init == l = 1
Next == /\ l <= Len(Rec)
        /\ LET v == Verdict(Rec[l])
           IN  IF v.verdict = "ok" THEN TRUE ELSE PrintT(<<"VERDICT", ToJson([i |-> l] @@ v)>>)
        /\ l' = l + 1
Spec == Init /\ [][Next]_l

Done == TLCGet("stats").diameter = Len(Rec) + 1 \/
        PrintT(<<"TRUNCATED", TLCGet("stats").diameter, Len(Rec)>>)
=============================================================================
