------------------------------ MODULE Trace_Attr ------------------------------
(***************************************************************************)
(* Trace validation for C11.  The harness records one event per document:  *)
(*   {"k":"mc",  "abs":ABS, ["text":[cp..]], "views":[VIEW,VIEW]}          *)
(*        a case of MC_Attr.tla (ABS = items, ty, dk, layout, written)     *)
(*   {"k":"rnd", "doc":DOC, "text":[cp..],   "views":[VIEW,VIEW]}          *)
(*        a random abstract document rendered by the harness               *)
(*   VIEW = {"view":"raw"|"exp", "parse":"ok"|"err"|"rest"|"noroot"|       *)
(*           "panic", "els":[EL..]}   (from_raw / text_expanded context)   *)
(*   EL   = {"st":"ok"|"noattrs"|"panic", "len":attributes().length(),     *)
(*           "attrs":[{"n":name,"v":value,"st":"ok"|"err"|"panic",         *)
(*                     "spec":"T"|"F"|"panic"}..],                         *)
(*           "get":[{"n":name,"v":get_attribute(name),"st":"ok"|"panic"}], *)
(*           "xp":{"st":..,"count":<count of @* >,"str":[{"n","v":string(@n),*)
(*                  "st"}..]}}      (xp: text-expanded view only)          *)
(* Every event is judged against AttrNorm.tla: the expected effective      *)
(* attributes are RE-COMPUTED from the abstract case (an `expect` field is *)
(* never read).  The recorded text must be the specification's rendering   *)
(* of the abstract case.  The trace spec never blocks: one state per       *)
(* event, one VERDICT line per event that is not ideal.                    *)
(***************************************************************************)
EXTENDS AttrNormSurface, TLC, Json, IOUtils

CONSTANT Open            \* names of the catalogued deviations (known_findings.jsonl, status open)

Rec == ndJsonDeserialize(IOEnv.TRACE)

VARIABLE l

DocOf(e) == IF e.k = "mc" THEN McDoc(e.abs) ELSE e.doc
CaseOk(e) == IF e.k = "mc" THEN AbsOk(e.abs) /\ DocOk(McDoc(e.abs)) ELSE DocOk(e.doc)

ObsAttrs(o) == { [n |-> o.attrs[i].n, v |-> o.attrs[i].v, spec |-> (o.attrs[i].spec = "T")] : i \in 1..Len(o.attrs) }
Asked(o) == { o.get[i].n : i \in 1..Len(o.get) }

\* one element observed as `o` against the set `want` of effective attributes
ElementIs(o, want, ask) ==
  /\ o.st = "ok"
  /\ \A i \in 1..Len(o.attrs) : o.attrs[i].st = "ok" /\ o.attrs[i].spec \in {"T", "F"}
  /\ ObsAttrs(o) = want
  /\ Len(o.attrs) = Cardinality(want)          \* no attribute is reported twice
  /\ o.len = Cardinality(want)
  /\ \A i \in 1..Len(o.get) : o.get[i].st = "ok" /\ o.get[i].v = Lookup(want, o.get[i].n)
  /\ ask \subseteq Asked(o)

\* the XPath data model of the same element (text-expanded view only, the way xq evaluates):
\* count of all attributes (`cnt`) and string(@name); defaulted attributes are attributes like the others
XPathIs(o, want, cnt, ask) ==
  /\ "xp" \in DOMAIN o
  /\ o.xp.st = "ok"
  /\ o.xp.count = cnt
  /\ \A i \in 1..Len(o.xp.str) : o.xp.str[i].st = "ok" /\ o.xp.str[i].v = Lookup(want, o.xp.str[i].n)
  /\ ask \subseteq { o.xp.str[i].n : i \in 1..Len(o.xp.str) }

\* W(doc, i) = the set of effective attributes demanded of element i, K(doc, i) = their number in XPath
ViewIs(doc, view, W(_, _), K(_, _)) ==
  /\ view.parse = "ok"
  /\ Len(view.els) = Len(doc.els)
  /\ \A i \in 1..Len(doc.els) : ElementIs(view.els[i], W(doc, i), AskNames(doc, i))
  /\ (view.view = "exp" => \A i \in 1..Len(doc.els) : XPathIs(view.els[i], W(doc, i), K(doc, i), AskNames(doc, i)))

EventIs(e, W(_, _), K(_, _)) ==
  /\ Len(e.views) = 2 /\ e.views[1].view = "raw" /\ e.views[2].view = "exp"
  /\ \A k \in 1..Len(e.views) : ViewIs(DocOf(e), e.views[k], W, K)

ExpectedCount(doc, i) == Cardinality(Expected(doc, i))
Ideal(e) == EventIs(e, Expected, ExpectedCount)

(***************************************************************************)
(* Catalogue of open deviations.  Each entry is an exact as-is model: an   *)
(* exact condition under which it applies and the exact wrong outcome.     *)
(* The models compose: D(e) is the set of open entries whose condition     *)
(* holds for the event's document; an event that is not ideal is a known   *)
(* finding only if the as-is model under D(e) reproduces the WHOLE         *)
(* observation (both views, every element, names, values, specified flags, *)
(* length, get_attribute, XPath count and strings).  Then one VERDICT per  *)
(* entry of D(e) is printed.  A different wrong answer matches nothing and *)
(* is a VIOLATION; an entry that is not in Open is never applied.          *)
(*                                                                         *)
(* "required-attribute-materialized": XmlElement::attributes() adds an     *)
(* attribute for every binding definition that is not #IMPLIED, so an      *)
(* unwritten #REQUIRED attribute is reported with the empty value and      *)
(* specified = false.  Pinned by the repository's own test                 *)
(* info::tests::test_attribute_specified_required.                         *)
(*                                                                         *)
(* "defaulted-attributes-collapse-in-xpath": attributes supplied by the    *)
(* DTD all carry id 0 / order 0 (same test pins that), and XPath node-sets *)
(* are deduplicated by that key: when an element has two or more           *)
(* unspecified attributes the attribute axis keeps one of them, so the     *)
(* count is (#specified + 1); string(@name) is not affected (a name test   *)
(* selects at most one of them).  DOM observations are not affected.       *)
(***************************************************************************)
Catalogue == {"required-attribute-materialized", "defaulted-attributes-collapse-in-xpath"}

RequiredUnwritten(doc, i) ==
  LET d == DefsFor(doc.attlists, doc.els[i].el)
  IN { n \in { d[k].n : k \in 1..Len(d) } \ WrittenNames(doc.els[i].written) :
          BindingDef(doc.attlists, doc.els[i].el, n).dk = "REQUIRED" }

AsIsAttrs(D, doc, i) ==
  Expected(doc, i) \cup
  (IF "required-attribute-materialized" \in D
   THEN { [n |-> n, v |-> <<>>, spec |-> FALSE] : n \in RequiredUnwritten(doc, i) } ELSE {})

AsIsCount(D, doc, i) ==
  LET as == AsIsAttrs(D, doc, i)
      un == Cardinality({ x \in as : ~x.spec })
  IN IF "defaulted-attributes-collapse-in-xpath" \in D /\ un >= 2
     THEN Cardinality(as) - un + 1 ELSE Cardinality(as)

\* the open entries whose condition holds for this document
Active(doc) ==
  LET R == IF "required-attribute-materialized" \in Open
              /\ \E i \in 1..Len(doc.els) : RequiredUnwritten(doc, i) # {}
           THEN {"required-attribute-materialized"} ELSE {}
      C == IF "defaulted-attributes-collapse-in-xpath" \in Open
              /\ \E i \in 1..Len(doc.els) : Cardinality({ x \in AsIsAttrs(R, doc, i) : ~x.spec }) >= 2
           THEN {"defaulted-attributes-collapse-in-xpath"} ELSE {}
  IN (R \cup C) \cap Catalogue

MatchesAsIs(e) ==
  LET D == Active(DocOf(e))
      W(d, i) == AsIsAttrs(D, d, i)
      K(d, i) == AsIsCount(D, d, i)
  IN D # {} /\ EventIs(e, W, K)

\* a compact description of the first disagreement with the ideal, for the replay file
Why(e) ==
  LET doc == DocOf(e)
      bad == { k \in 1..Len(e.views) : ~ViewIs(doc, e.views[k], Expected, ExpectedCount) }
  IN IF bad = {} THEN [what |-> "views"]
     ELSE
      LET k == CHOOSE x \in bad : \A y \in bad : x <= y
          v == e.views[k]
      IN IF v.parse # "ok" THEN [view |-> v.view, what |-> "parse", got |-> v.parse]
         ELSE IF Len(v.els) # Len(doc.els) THEN [view |-> v.view, what |-> "elements", got |-> Len(v.els)]
         ELSE LET be == { i \in 1..Len(doc.els) : ~ElementIs(v.els[i], Expected(doc, i), AskNames(doc, i)) }
              IN IF be = {}
                 THEN [view |-> v.view, what |-> "xpath", want |-> [i \in 1..Len(doc.els) |-> Expected(doc, i)],
                       got |-> [i \in 1..Len(doc.els) |-> IF "xp" \in DOMAIN v.els[i] THEN v.els[i].xp ELSE [st |-> "missing"]]]
                 ELSE LET i == CHOOSE x \in be : \A y \in be : x <= y
                      IN [view |-> v.view, what |-> "attributes", el |-> i, want |-> Expected(doc, i), got |-> v.els[i]]

\* the set of verdict records of an event (empty = ideal)
Verdicts(e) ==
  IF ~CaseOk(e) THEN { [verdict |-> "TOOL-BAD-CASE"] }
  ELSE IF "text" \in DOMAIN e /\ e.text # Render(DocOf(e))
       THEN { [verdict |-> "TOOL-RENDER-MISMATCH", want |-> Render(DocOf(e))] }
  ELSE IF Ideal(e) THEN {}
  ELSE IF MatchesAsIs(e) THEN { [verdict |-> n, why |-> Why(e)] : n \in Active(DocOf(e)) }
  ELSE { [verdict |-> "VIOLATION", why |-> Why(e), text |-> Render(DocOf(e)), active |-> Active(DocOf(e))] }

Init == l = 1
Next == /\ l <= Len(Rec)
        /\ \A v \in Verdicts(Rec[l]) : PrintT(<<"VERDICT", ToJson([i |-> l] @@ v)>>)
        /\ l' = l + 1
Spec == Init /\ [][Next]_l

Done == TLCGet("stats").diameter = Len(Rec) + 1 \/
        PrintT(<<"TRUNCATED", TLCGet("stats").diameter, Len(Rec)>>)
=============================================================================
