--------------------------- MODULE MC_QuerySession ---------------------------
(***************************************************************************)
(* Every session of exactly MaxLen queries over the pool of each document  *)
(* of QuerySessionPool is emitted for replay on one real document and one  *)
(* real Context (and, in a second variant, on one document with a fresh    *)
(* Context per query).                                                     *)
(***************************************************************************)
EXTENDS Integers, Sequences, TLC, Json, QuerySessionPool
CONSTANT MaxLen
VARIABLES d, log
S == INSTANCE QuerySession
\* (document 5 - expressions nested about as deep as an implementation accepts - is expensive per query: its sessions
\* stay at length 3 in every tier)
LenOf(doc) == IF doc = 5 /\ MaxLen > 3 THEN 3 ELSE MaxLen
Init == d \in 1..Len(QDocs) /\ log = <<>>
Next == Len(log) < LenOf(d) /\ S!Next(Len(QDocs[d].queries)) /\ UNCHANGED d
Spec == Init /\ [][Next]_<<d, log>>
InvEmit == Len(log) = LenOf(d) => PrintT(<<"REPLAY", ToJson([k |-> "qsession", d |-> d, qs |-> log])>>)
ASSUME \A i \in 1..Len(QDocs) :
         PrintT(<<"DOC", ToJson([k |-> "qdoc", d |-> i, text |-> QDocs[i].text, binds |-> QDocs[i].binds, queries |-> QDocs[i].queries])>>)
=============================================================================
