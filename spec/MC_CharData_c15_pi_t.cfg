SPECIFICATION Spec
CONSTANT Kind = "pi"
CONSTANT Alphabet <- AlphaPI
CONSTANT MaxLen = 3
CONSTANT Args <- ArgsPI
CONSTANT Ops <- OpsSet
VIEW View
INVARIANT InvSerializable
INVARIANT InvAlgebra
INVARIANT InvEmit
CHECK_DEADLOCK FALSE
