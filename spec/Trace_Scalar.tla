------------------------------ MODULE Trace_Scalar ------------------------------
(***************************************************************************)
(* Trace validation for C09.  A scalar application is an expression event  *)
(* on the document <r/>: the events have the format of Trace_XPath.tla and *)
(* are judged by the same operators (re-rendering of the expression with   *)
(* XPathSyntax!Unparse, re-computation of the value with XPathSem!Eval on  *)
(* top of ScalarFns.tla, as-is models of the open catalogue entries); the  *)
(* cfg sets Prop = "C09".                                                  *)
(***************************************************************************)
EXTENDS Trace_XPath
ScalarSpec == Spec
=============================================================================
