---------------------------- MODULE AttrNormSurface ----------------------------
(***************************************************************************)
(* C11: the surface syntax of the documents used to exercise attribute     *)
(* normalization and defaulting, and the expected observation.             *)
(*                                                                         *)
(* An abstract document (all JSON friendly, text = Seq of code points):    *)
(*   [ents     |-> Ents      (AttrNorm format, rendered first),            *)
(*    attlists |-> Attlists  (AttrNorm format, rendered after the ents),   *)
(*    els      |-> Seq of [el |-> name, written |-> Seq of [n, v: Items]]] *)
(* els[1] is the document element, els[2..] are its (empty) children in    *)
(* order.  Render(doc) is the document text; all of the surface syntax is  *)
(* here, the harness only encodes code points as UTF-8.                    *)
(* Tool neutral: no TLC / Json operators here.                             *)
(***************************************************************************)
EXTENDS AttrNorm

T_DoctypeOpen == <<60, 33, 68, 79, 67, 84, 89, 80, 69, 32>>          \* '<!DOCTYPE '
T_SubsetOpen  == <<32, 91, 10>>                                      \* ' [\n'
T_SubsetClose == <<93, 62>>                                          \* ']>'
T_EntityOpen  == <<60, 33, 69, 78, 84, 73, 84, 89, 32>>              \* '<!ENTITY '
T_AttlistOpen == <<60, 33, 65, 84, 84, 76, 73, 83, 84, 32>>          \* '<!ATTLIST '
T_DeclClose   == <<62, 10>>                                          \* '>\n'
T_Implied     == <<35, 73, 77, 80, 76, 73, 69, 68>>                  \* '#IMPLIED'
T_Required    == <<35, 82, 69, 81, 85, 73, 82, 69, 68>>              \* '#REQUIRED'
T_Fixed       == <<35, 70, 73, 88, 69, 68, 32>>                      \* '#FIXED '
T_CDATA       == <<67, 68, 65, 84, 65>>
T_ID          == <<73, 68>>
T_IDREF       == <<73, 68, 82, 69, 70>>
T_IDREFS      == <<73, 68, 82, 69, 70, 83>>
T_ENTITY      == <<69, 78, 84, 73, 84, 89>>
T_ENTITIES    == <<69, 78, 84, 73, 84, 73, 69, 83>>
T_NMTOKEN     == <<78, 77, 84, 79, 75, 69, 78>>
T_NMTOKENS    == <<78, 77, 84, 79, 75, 69, 78, 83>>
T_ENUM        == <<40, 97, 124, 98, 124, 100, 41>>                   \* '(a|b|d)'
T_NOTATION    == <<78, 79, 84, 65, 84, 73, 79, 78, 32, 40, 97, 124, 98, 41>>  \* 'NOTATION (a|b)'

SP == 32  QUOT == 34  AMP == 38  LT == 60  GT == 62  SLASH == 47  EQ == 61  SEMI == 59  HASH == 35

RECURSIVE Digits(_)
Digits(n) == IF n < 10 THEN <<48 + n>> ELSE Digits(n \div 10) \o <<48 + (n % 10)>>
HexDigit(d) == IF d < 10 THEN 48 + d ELSE 55 + d
RECURSIVE Hex(_)
Hex(n) == IF n < 16 THEN <<HexDigit(n)>> ELSE Hex(n \div 16) \o <<HexDigit(n % 16)>>

\* character references: decimal below 64, hexadecimal from 64 on (both notations are exercised)
RenderItem(it) ==
  CASE it.t = "c" -> <<it.c>>
    [] it.t = "r" -> IF it.c >= 64 THEN <<AMP, HASH, 120>> \o Hex(it.c) \o <<SEMI>>
                     ELSE <<AMP, HASH>> \o Digits(it.c) \o <<SEMI>>
    [] it.t = "e" -> <<AMP>> \o it.n \o <<SEMI>>

RECURSIVE RenderItems(_)
RenderItems(items) == IF items = <<>> THEN <<>> ELSE RenderItem(Head(items)) \o RenderItems(Tail(items))

Quoted(items) == <<QUOT>> \o RenderItems(items) \o <<QUOT>>

RenderEnt(e) == T_EntityOpen \o e.n \o <<SP>> \o Quoted(e.v) \o T_DeclClose

TypeText(ty) ==
  CASE ty = "CDATA" -> T_CDATA [] ty = "ID" -> T_ID [] ty = "IDREF" -> T_IDREF [] ty = "IDREFS" -> T_IDREFS
    [] ty = "ENTITY" -> T_ENTITY [] ty = "ENTITIES" -> T_ENTITIES [] ty = "NMTOKEN" -> T_NMTOKEN
    [] ty = "NMTOKENS" -> T_NMTOKENS [] ty = "ENUM" -> T_ENUM [] ty = "NOTATION" -> T_NOTATION

DefaultText(d) ==
  CASE d.dk = "IMPLIED" -> T_Implied [] d.dk = "REQUIRED" -> T_Required
    [] d.dk = "VALUE" -> Quoted(d.dv) [] d.dk = "FIXED" -> T_Fixed \o Quoted(d.dv)

RenderDef(d) == <<SP>> \o d.n \o <<SP>> \o TypeText(d.ty) \o <<SP>> \o DefaultText(d)

RECURSIVE RenderDefs(_)
RenderDefs(ds) == IF ds = <<>> THEN <<>> ELSE RenderDef(Head(ds)) \o RenderDefs(Tail(ds))

RenderAttlist(a) == T_AttlistOpen \o a.el \o RenderDefs(a.defs) \o T_DeclClose

RECURSIVE RenderEnts(_)
RenderEnts(es) == IF es = <<>> THEN <<>> ELSE RenderEnt(Head(es)) \o RenderEnts(Tail(es))
RECURSIVE RenderAttlists(_)
RenderAttlists(as) == IF as = <<>> THEN <<>> ELSE RenderAttlist(Head(as)) \o RenderAttlists(Tail(as))

RenderAttr(w) == <<SP>> \o w.n \o <<EQ>> \o Quoted(w.v)
RECURSIVE RenderAttrs(_)
RenderAttrs(ws) == IF ws = <<>> THEN <<>> ELSE RenderAttr(Head(ws)) \o RenderAttrs(Tail(ws))

RenderEmpty(e) == <<LT>> \o e.el \o RenderAttrs(e.written) \o <<SLASH, GT>>
RECURSIVE RenderChildren(_)
RenderChildren(es) == IF es = <<>> THEN <<>> ELSE RenderEmpty(Head(es)) \o RenderChildren(Tail(es))

RenderBody(els) ==
  IF Len(els) = 1 THEN RenderEmpty(els[1])
  ELSE <<LT>> \o els[1].el \o RenderAttrs(els[1].written) \o <<GT>>
       \o RenderChildren(Tail(els))
       \o <<LT, SLASH>> \o els[1].el \o <<GT>>

Render(doc) ==
  T_DoctypeOpen \o doc.els[1].el \o T_SubsetOpen
  \o RenderEnts(doc.ents) \o RenderAttlists(doc.attlists) \o T_SubsetClose
  \o RenderBody(doc.els)

(***************************************************************************)
(* The abstract document is inside the profile the renderer is sound for:  *)
(* literal characters are not markup, every reference is declared and      *)
(* acyclic, no '<' reaches an attribute value through an entity, entity    *)
(* values do not build references out of character references (4.4.5: a    *)
(* '&#38;' in an entity value becomes a literal '&' that is re-parsed -    *)
(* AttrNorm does not model that), attribute names are unique per tag.      *)
(***************************************************************************)
PlainChar(c) == (c \notin {LT, AMP, QUOT} /\ c >= 32) \/ c \in {9, 10, 13}
ItemsOk(items, ents) ==
  /\ \A i \in 1..Len(items) : items[i].t = "c" => PlainChar(items[i].c)
  /\ Acyclic(ents, items)
EntValueOk(items, ents) ==
  /\ \A i \in 1..Len(items) :
        /\ (items[i].t = "c" => PlainChar(items[i].c) /\ items[i].c # 37)
        /\ (items[i].t = "r" => items[i].c \notin {AMP, LT, 37})
  /\ Acyclic(ents, items)
UniqueNames(ws) == \A i, j \in 1..Len(ws) : ws[i].n = ws[j].n => i = j
DocOk(doc) ==
  /\ Len(doc.els) >= 1
  /\ \A i, j \in 1..Len(doc.ents) : doc.ents[i].n = doc.ents[j].n => i = j
  /\ \A i \in 1..Len(doc.ents) : doc.ents[i].n \notin PredefinedNames /\ EntValueOk(doc.ents[i].v, doc.ents)
  /\ \A i \in 1..Len(doc.attlists) : \A k \in 1..Len(doc.attlists[i].defs) :
        LET d == doc.attlists[i].defs[k]
        IN d.ty \in AttTypes /\ d.dk \in DefaultKinds /\ ItemsOk(d.dv, doc.ents)
  /\ \A i \in 1..Len(doc.els) :
        /\ UniqueNames(doc.els[i].written)
        /\ \A k \in 1..Len(doc.els[i].written) : ItemsOk(doc.els[i].written[k].v, doc.ents)

\* expected observation: per element the set of effective attributes
Expected(doc, i) == Effective(doc.attlists, doc.ents, doc.els[i].el, doc.els[i].written)

\* names an observer should ask for with get_attribute: everything written or declared for the element
AskNames(doc, i) ==
  LET d == DefsFor(doc.attlists, doc.els[i].el)
  IN WrittenNames(doc.els[i].written) \cup { d[k].n : k \in 1..Len(d) }

Lookup(attrs, n) == IF \E a \in attrs : a.n = n THEN (CHOOSE a \in attrs : a.n = n).v ELSE <<>>

(***************************************************************************)
(* The MC_Attr case family: one attribute `a` of element `r`, the literal  *)
(* `items`, declared type ty ("" = undeclared), default kind dk ("" when   *)
(* undeclared), written or not, and the ATTLIST layout:                    *)
(*   "none"   no ATTLIST at all                       (undeclared only)    *)
(*   "other"  an ATTLIST of another element type q declares a  (undecl.)   *)
(*   "one"    <!ATTLIST r a TY DK>                                         *)
(*   "two"    the same followed by a second ATTLIST of r that redefines a  *)
(*            (ignored: the first definition binds) and adds b "bv"        *)
(*   "second" a first ATTLIST of r declares only c #IMPLIED, the second    *)
(*            one holds the definition of a                                *)
(* The default value is the literal itself when the attribute is not       *)
(* written or the default is #FIXED, else the fixed literal "d  v".        *)
(***************************************************************************)
NmR == <<114>>  NmQ == <<113>>  NmA == <<97>>  NmB == <<98>>  NmC == <<99>>
NmE1 == <<101, 49>>  NmE2 == <<101, 50>>  NmE3 == <<101, 51>>

\* e1 has a literal CR LF (2.11 inside an entity value; reached directly and, through e3, nested),
\* e2 a character reference to LF (4.5: literal in the replacement text, so a space in the value)
McEnts == << [n |-> NmE1, v |-> <<CI(13), CI(10), CI(120), CI(32)>>],  \* "<CR><LF>x "
             [n |-> NmE2, v |-> <<CI(97), RI(10), CI(98)>>],           \* "a&#10;b"
             [n |-> NmE3, v |-> <<EI(NmE1), CI(9), CI(122)>>] >>       \* "&e1;<TAB>z"

DV0 == <<CI(100), CI(32), CI(32), CI(118)>>                            \* "d  v"
ZZ  == <<CI(122), CI(122)>>
BV  == <<CI(98), CI(118)>>

McDef(abs) ==
  [n |-> NmA, ty |-> abs.ty, dk |-> abs.dk,
   dv |-> IF abs.dk \in {"VALUE", "FIXED"}
          THEN (IF ~abs.written \/ abs.dk = "FIXED" THEN abs.items ELSE DV0)
          ELSE <<>>]

McAttlists(abs) ==
  CASE abs.layout = "none"   -> <<>>
    [] abs.layout = "other"  -> << [el |-> NmQ, defs |-> << [n |-> NmA, ty |-> "NMTOKENS", dk |-> "VALUE", dv |-> ZZ] >>] >>
    [] abs.layout = "one"    -> << [el |-> NmR, defs |-> << McDef(abs) >>] >>
    [] abs.layout = "two"    -> << [el |-> NmR, defs |-> << McDef(abs) >>],
                                   [el |-> NmR, defs |-> << [n |-> NmA, ty |-> "CDATA", dk |-> "VALUE", dv |-> ZZ],
                                                            [n |-> NmB, ty |-> "CDATA", dk |-> "VALUE", dv |-> BV] >>] >>
    [] abs.layout = "second" -> << [el |-> NmR, defs |-> << [n |-> NmC, ty |-> "CDATA", dk |-> "IMPLIED", dv |-> <<>>] >>],
                                   [el |-> NmR, defs |-> << McDef(abs) >>] >>

McDoc(abs) ==
  [ents |-> McEnts,
   attlists |-> McAttlists(abs),
   els |-> << [el |-> NmR, written |-> IF abs.written THEN << [n |-> NmA, v |-> abs.items] >> ELSE <<>>] >>]

AbsOk(abs) ==
  /\ abs.written \in BOOLEAN
  /\ IF abs.ty = "" THEN abs.dk = "" /\ abs.layout \in {"none", "other"}
     ELSE abs.ty \in AttTypes /\ abs.dk \in DefaultKinds /\ abs.layout \in {"one", "two", "second"}
=============================================================================
