----------------------------- MODULE XmlSurface -----------------------------
(***************************************************************************)
(* The surface syntax: Render(toks, style) = the document text as a        *)
(* sequence of code points.  The harness only encodes the code points as   *)
(* UTF-8, so every surface-syntax decision is made here.                   *)
(*                                                                         *)
(* style = [quote   : "dq" | "sq" | "mixed"     quote characters           *)
(*          tagws   : 0 | 1 | 2                 optional white space in    *)
(*                                              tags and declarations      *)
(*          eqws    : BOOLEAN                   white space around '='     *)
(*          empty   : "tag" | "pair"            <a/> vs <a></a>            *)
(*          chars   : Seq of "lit"|"dec"|"hex"|"ent"|"cdata"  (cycled by   *)
(*                    token index) how characters are written              *)
(*          order   : "fwd" | "rev"             attribute order            *)
(*          declws  : 0 | 1]                    line breaks between        *)
(*                                              top-level items            *)
(* These are exactly the choices C01 names.  Every choice preserves what   *)
(* XmlDoc says the tokens denote:                                          *)
(*  - a literal "c" item is escaped only where the escaped form denotes    *)
(*    the same character: never white space (2.11 / 3.3.3 treat literal    *)
(*    and referenced white space differently), always '<' '&' (and the     *)
(*    active quote in attribute values, '>' in content);                   *)
(*  - "r" items are always references, "e" items always entity references, *)
(*    "x" fragments are copied verbatim;                                   *)
(*  - <a/> is used only for a start-tag immediately followed by the        *)
(*    end-tag of the same name.                                            *)
(***************************************************************************)
EXTENDS XmlDoc

S_XMLDECL == <<60, 63, 120, 109, 108>>   \* <?xml
S_VERSION == <<118, 101, 114, 115, 105, 111, 110>>   \* version
S_ENCODING == <<101, 110, 99, 111, 100, 105, 110, 103>>   \* encoding
S_STANDALONE == <<115, 116, 97, 110, 100, 97, 108, 111, 110, 101>>   \* standalone
S_YES == <<121, 101, 115>>   \* yes
S_NO == <<110, 111>>   \* no
S_PIEND == <<63, 62>>   \* ?>
S_PISTART == <<60, 63>>   \* <?
S_COMSTART == <<60, 33, 45, 45>>   \* <!--
S_COMEND == <<45, 45, 62>>   \* -->
S_DOCTYPE == <<60, 33, 68, 79, 67, 84, 89, 80, 69>>   \* <!DOCTYPE
S_SYSTEM == <<83, 89, 83, 84, 69, 77>>   \* SYSTEM
S_PUBLIC == <<80, 85, 66, 76, 73, 67>>   \* PUBLIC
S_NDATA == <<78, 68, 65, 84, 65>>   \* NDATA
S_ENTITY == <<60, 33, 69, 78, 84, 73, 84, 89>>   \* <!ENTITY
S_NOTATION == <<60, 33, 78, 79, 84, 65, 84, 73, 79, 78>>   \* <!NOTATION
S_ATTLIST == <<60, 33, 65, 84, 84, 76, 73, 83, 84>>   \* <!ATTLIST
S_ELEMENT == <<60, 33, 69, 76, 69, 77, 69, 78, 84>>   \* <!ELEMENT
S_CDSTART == <<60, 33, 91, 67, 68, 65, 84, 65, 91>>   \* <![CDATA[
S_CDEND == <<93, 93, 62>>   \* ]]>
S_ETAGO == <<60, 47>>   \* </
S_EMPTYC == <<47, 62>>   \* />
S_IMPLIED == <<35, 73, 77, 80, 76, 73, 69, 68>>   \* #IMPLIED
S_REQUIRED == <<35, 82, 69, 81, 85, 73, 82, 69, 68>>   \* #REQUIRED
S_FIXED == <<35, 70, 73, 88, 69, 68>>   \* #FIXED
S_NOTATIONTY == <<78, 79, 84, 65, 84, 73, 79, 78>>   \* NOTATION

TypeKeyword(ty) ==
  CASE ty = "CDATA" -> <<67, 68, 65, 84, 65>>
    [] ty = "ID" -> <<73, 68>>
    [] ty = "IDREF" -> <<73, 68, 82, 69, 70>>
    [] ty = "IDREFS" -> <<73, 68, 82, 69, 70, 83>>
    [] ty = "ENTITY" -> <<69, 78, 84, 73, 84, 89>>
    [] ty = "ENTITIES" -> <<69, 78, 84, 73, 84, 73, 69, 83>>
    [] ty = "NMTOKEN" -> <<78, 77, 84, 79, 75, 69, 78>>
    [] ty = "NMTOKENS" -> <<78, 77, 84, 79, 75, 69, 78, 83>>
    [] OTHER -> <<>>

RECURSIVE DecDigits(_)
DecDigits(n) == IF n < 10 THEN <<48 + n>> ELSE DecDigits(n \div 10) \o <<48 + (n % 10)>>
HexDigit(d) == IF d < 10 THEN 48 + d ELSE 65 + (d - 10)
RECURSIVE HexDigits(_)
HexDigits(n) == IF n < 16 THEN <<HexDigit(n)>> ELSE HexDigits(n \div 16) \o <<HexDigit(n % 16)>>

DecRef(c) == <<38, 35>> \o DecDigits(c) \o <<59>>
HexRef(c) == <<38, 35, 120>> \o HexDigits(c) \o <<59>>
\* the same references with leading zeros ([66]: [0-9]+ / [0-9a-fA-F]+ - any number of digits)
Zeros6 == <<48, 48, 48, 48, 48, 48>>
DecRefZ(c) == <<38, 35>> \o Zeros6 \o DecDigits(c) \o <<59>>
HexRefZ(c) == <<38, 35, 120>> \o Zeros6 \o HexDigits(c) \o <<59>>
EntRef(n) == <<38>> \o n \o <<59>>

RECURSIVE Flat(_)
Flat(ss) == IF ss = <<>> THEN <<>> ELSE Head(ss) \o Flat(Tail(ss))

Reverse(s) == [i \in 1..Len(s) |-> s[Len(s) + 1 - i]]

Opt(style) == CASE style.tagws = 0 -> <<>> [] style.tagws = 1 -> <<32>> [] OTHER -> <<10, 9>>
Req(style) == CASE style.tagws = 0 -> <<32>> [] style.tagws = 1 -> <<32>> [] OTHER -> <<32, 10>>
Eq(style)  == IF style.eqws THEN Opt(style) \o <<61>> \o <<32>> ELSE <<61>>

\* quote character of the j-th quoted literal of a token
QuoteCh(style, j) == CASE style.quote = "dq" -> 34 [] style.quote = "sq" -> 39
                       [] OTHER -> IF j % 2 = 1 THEN 34 ELSE 39
\* a literal that cannot escape its content (system / public identifiers, version ...):
\* take the other quote when the preferred one occurs in it
PlainQuoted(s, style, j) ==
  LET q0 == QuoteCh(style, j)
      q  == IF q0 \in SeqToSet(s) THEN (IF q0 = 34 THEN 39 ELSE 34) ELSE q0
  IN <<q>> \o s \o <<q>>

Mode(style, i) == style.chars[(i % Len(style.chars)) + 1]

Predefined(c) == CASE c = 60 -> <<108, 116>> [] c = 62 -> <<103, 116>> [] c = 38 -> <<97, 109, 112>>
                   [] c = 39 -> <<97, 112, 111, 115>> [] c = 34 -> <<113, 117, 111, 116>>

\* a literal character that MUST be escaped (must) or MAY be escaped (mode)
Escaped(c, mode) ==
  CASE mode = "dec" -> DecRef(c)
    [] mode = "hex" -> HexRef(c)
    [] mode = "decz" -> DecRefZ(c)
    [] mode = "hexz" -> HexRefZ(c)
    [] OTHER -> IF c \in {60, 62, 38, 39, 34} THEN EntRef(Predefined(c)) ELSE DecRef(c)

LitChar(c, must, mode) ==
  IF IsWs(c) \/ ~IsChar(c) THEN <<c>>            \* never escaped: see module header / not expressible
  ELSE IF must THEN Escaped(c, mode)
  ELSE CASE mode \in {"dec", "hex", "decz", "hexz"} -> Escaped(c, mode)
         [] mode = "ent" /\ c \in {62, 39, 34} -> Escaped(c, mode)
         [] OTHER -> <<c>>

RefItem(it, mode) == CASE mode = "hex" -> HexRef(it.c) [] mode = "hexz" -> HexRefZ(it.c) [] mode = "decz" -> DecRefZ(it.c)
                       [] OTHER -> DecRef(it.c)

\* attribute value / default value / entity value items inside quote q.  In an entity value
\* the characters that must be escaped are written as DECIMAL CHARACTER REFERENCES (4.5 turns
\* them back into the literal character of the replacement text) and optional escaping never
\* uses the predefined entities (that would put an entity reference into the replacement text).
ValueItem(it, q, mode, inEntityValue) ==
  LET m == IF mode = "cdata" \/ (inEntityValue /\ mode = "ent") THEN "lit" ELSE mode
  IN CASE it.t = "c" -> IF inEntityValue /\ it.c \in {60, 38, 37, q} /\ IsChar(it.c) THEN DecRef(it.c)
                        ELSE LitChar(it.c, it.c \in {60, 38, q}, m)
       [] it.t = "r" -> RefItem(it, m)
       [] it.t = "e" -> EntRef(it.n)
       [] OTHER -> it.s
Value(items, q, mode, inEntityValue) ==
  <<q>> \o Flat([i \in 1..Len(items) |-> ValueItem(items[i], q, mode, inEntityValue)]) \o <<q>>

\* content items
TextItem(it, mode) ==
  CASE it.t = "c" -> LitChar(it.c, it.c \in {60, 38, 62}, IF mode = "cdata" THEN "lit" ELSE mode)
    [] it.t = "r" -> RefItem(it, mode)
    [] it.t = "e" -> EntRef(it.n)
    [] OTHER -> it.s

\* "cdata" mode: maximal runs of literal Char items other than ']' become CDATA sections
\* (']' is written as a reference outside, so "]]>" can never arise inside)
CdataOk(it) == it.t = "c" /\ IsChar(it.c) /\ it.c # 93
RECURSIVE CdataText(_, _)
CdataText(items, inside) ==
  IF items = <<>> THEN (IF inside THEN S_CDEND ELSE <<>>)
  ELSE LET h == Head(items)
       IN IF CdataOk(h)
          THEN (IF inside THEN <<>> ELSE S_CDSTART) \o <<h.c>> \o CdataText(Tail(items), TRUE)
          ELSE (IF inside THEN S_CDEND ELSE <<>>)
               \o (IF h.t = "c" /\ h.c = 93 THEN DecRef(93) ELSE TextItem(h, "lit"))
               \o CdataText(Tail(items), FALSE)

TextTok(tok, mode) ==
  IF mode = "cdata" /\ ~IsSText(tok) THEN CdataText(tok.items, FALSE)
  ELSE Flat([i \in 1..Len(tok.items) |-> TextItem(tok.items[i], mode)])

ExtId(tok, style) ==
  CASE tok.ext = "system"  -> S_SYSTEM \o Req(style) \o PlainQuoted(tok.sys, style, 1)
    [] tok.ext = "public"  -> S_PUBLIC \o Req(style) \o PlainQuoted(tok.pub, style, 1)
                              \o Req(style) \o PlainQuoted(tok.sys, style, 2)
    [] tok.ext = "pubonly" -> S_PUBLIC \o Req(style) \o PlainQuoted(tok.pub, style, 1)
    [] OTHER -> <<>>

Enumeration(en, style) ==
  <<40>> \o Opt(style)
  \o Flat([j \in 1..Len(en) |-> (IF j > 1 THEN Opt(style) \o <<124>> \o Opt(style) ELSE <<>>) \o en[j]])
  \o Opt(style) \o <<41>>

AttDef(d, style, i, j) ==
  Req(style) \o d.n \o Req(style)
  \o (CASE d.ty = "ENUM" -> Enumeration(d.en, style)
        [] d.ty = "NOTATION" -> S_NOTATIONTY \o Req(style) \o Enumeration(d.en, style)
        [] OTHER -> TypeKeyword(d.ty))
  \o Req(style)
  \o (CASE d.dk = "IMPLIED" -> S_IMPLIED
        [] d.dk = "REQUIRED" -> S_REQUIRED
        [] d.dk = "FIXED" -> S_FIXED \o Req(style) \o Value(d.dv, QuoteCh(style, j), Mode(style, i + j), FALSE)
        [] OTHER -> Value(d.dv, QuoteCh(style, j), Mode(style, i + j), FALSE))

\* attributes of a start-tag, in the order the style asks for
Attrs(tok, style, i) ==
  LET as == IF style.order = "rev" THEN Reverse(tok.attrs) ELSE tok.attrs
  IN Flat([j \in 1..Len(as) |->
             (IF tok.lex = "nospace" /\ j = 2 THEN <<>> ELSE Req(style))
             \o as[j].n \o Eq(style)
             \o (IF tok.lex = "unquoted" /\ j = 1
                 THEN LET v == Value(as[j].v, 34, "lit", FALSE) IN SubSeq(v, 2, Len(v) - 1)
                 ELSE Value(as[j].v, QuoteCh(style, j), Mode(style, i + j), FALSE))])

PseudoAttr(name, val, style, j) == Req(style) \o name \o Eq(style) \o PlainQuoted(val, style, j)
\* the lexical variant "mismatch" of an XML declaration: the version literal opens with one quotation mark and closes
\* with the other ([24] VersionInfo: the same mark on both sides)
XLex(tok) == IF "lex" \in DOMAIN tok THEN tok.lex ELSE "ok"
MismatchQuoted(s, style, j) == LET q == QuoteCh(style, j) IN <<q>> \o s \o <<IF q = 34 THEN 39 ELSE 34>>
PseudoAttrX(name, val, style, j, lex) ==
  IF lex = "mismatch" THEN Req(style) \o name \o Eq(style) \o MismatchQuoted(val, style, j) ELSE PseudoAttr(name, val, style, j)

Tok(tok, style, i, asEmptyTag) ==
  LET k == tok.k
  IN CASE k = "xmldecl" ->
            S_XMLDECL \o PseudoAttrX(S_VERSION, tok.ver, style, 1, XLex(tok))
            \o (IF tok.enc # <<>> THEN PseudoAttr(S_ENCODING, tok.enc, style, 2) ELSE <<>>)
            \o (IF tok.sa # "none" THEN PseudoAttr(S_STANDALONE, IF tok.sa = "yes" THEN S_YES ELSE S_NO, style, 3) ELSE <<>>)
            \o Opt(style) \o S_PIEND
       [] k = "ws" -> tok.v
       [] k = "comment" -> S_COMSTART \o tok.v \o S_COMEND
       [] k = "pi" -> S_PISTART \o tok.n \o (IF tok.v # <<>> THEN Req(style) \o tok.v ELSE Opt(style)) \o S_PIEND
       [] k = "doctype" ->
            S_DOCTYPE \o Req(style) \o tok.n
            \o (IF tok.ext # "none" THEN Req(style) \o ExtId(tok, style) ELSE <<>>)
            \o Opt(style) \o (IF tok.subset THEN <<91>> ELSE <<62>>)
       [] k = "dtdend" -> <<93>> \o Opt(style) \o <<62>>
       [] k = "entity" ->
            S_ENTITY \o Req(style) \o tok.n \o Req(style)
            \o Value(tok.v, QuoteCh(style, i), Mode(style, i), TRUE)
            \o Opt(style) \o <<62>>
       [] k = "uentity" ->
            S_ENTITY \o Req(style) \o tok.n \o Req(style) \o ExtId(tok, style)
            \o (IF tok.ndata # <<>> THEN Req(style) \o S_NDATA \o Req(style) \o tok.ndata ELSE <<>>)
            \o Opt(style) \o <<62>>
       [] k = "notation" ->
            S_NOTATION \o Req(style) \o tok.n \o Req(style) \o ExtId(tok, style) \o Opt(style) \o <<62>>
       [] k = "attlist" ->
            S_ATTLIST \o Req(style) \o tok.el
            \o Flat([j \in 1..Len(tok.defs) |-> AttDef(tok.defs[j], style, i, j)])
            \o Opt(style) \o <<62>>
       [] k = "elemdecl" -> S_ELEMENT \o Req(style) \o tok.n \o Req(style) \o tok.v \o Opt(style) \o <<62>>
       [] k = "stag" -> <<60>> \o tok.n \o Attrs(tok, style, i) \o Opt(style)
                        \o (IF asEmptyTag THEN S_EMPTYC ELSE <<62>>)
       [] k = "etag" -> S_ETAGO \o tok.n \o Opt(style) \o <<62>>
       [] k = "text" -> TextTok(tok, Mode(style, i))
       [] k = "cdata" -> S_CDSTART \o tok.v \o S_CDEND
       [] OTHER -> <<>>

\* the entity-value quoting above escapes the quote and '%' by a character reference, which 4.5
\* turns back into the literal character of the replacement text - the same entity.

RECURSIVE RenderFrom(_, _, _, _)
RenderFrom(toks, style, i, depth) ==
  IF i > Len(toks) THEN <<>>
  ELSE LET t == toks[i]
           collapse == /\ t.k = "stag" /\ style.empty = "tag" /\ i < Len(toks)
                       /\ toks[i+1].k = "etag" /\ toks[i+1].n = t.n
           sep == IF depth = 0 /\ i > 1 /\ style.declws = 1 THEN <<10>> ELSE <<>>
       IN sep \o
          (IF collapse THEN Tok(t, style, i, TRUE) \o RenderFrom(toks, style, i + 2, depth)
           ELSE Tok(t, style, i, FALSE)
                \o RenderFrom(toks, style, i + 1,
                              CASE t.k = "stag" -> depth + 1
                                [] t.k = "etag" /\ depth > 0 -> depth - 1
                                [] OTHER -> depth))

Render(toks, style) == RenderFrom(toks, style, 1, 0)

StyleOK(style) ==
  /\ style.quote \in {"dq", "sq", "mixed"} /\ style.tagws \in 0..2 /\ style.eqws \in BOOLEAN
  /\ style.empty \in {"tag", "pair"} /\ style.order \in {"fwd", "rev"} /\ style.declws \in 0..1
  /\ style.chars # <<>> /\ \A i \in 1..Len(style.chars) : style.chars[i] \in {"lit", "dec", "hex", "ent", "cdata", "decz", "hexz"}
=============================================================================
