SPECIFICATION Spec
CONSTANT Kind = "comment"
CONSTANT Alphabet <- AlphaComment
CONSTANT MaxLen = 2
CONSTANT Args <- ArgsComment
CONSTANT Ops <- OpsMutNoSplit
VIEW View
INVARIANT InvSerializable
INVARIANT InvAlgebra
INVARIANT InvEmit
CHECK_DEADLOCK FALSE
