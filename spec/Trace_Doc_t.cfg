SPECIFICATION Spec
CONSTANT Prop = "RENDER"
CONSTANT Open = {}
POSTCONDITION Done
CHECK_DEADLOCK FALSE
