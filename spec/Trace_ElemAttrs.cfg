SPECIFICATION Spec
CONSTANT Names <- NamesM
CONSTANT Values <- ValuesM
CONSTANT Def <- DefM
CONSTANT Open = {}
POSTCONDITION Done
CHECK_DEADLOCK FALSE
