SPECIFICATION Spec
CONSTANT Sizes = {1, 2, 3, 4, 5, 6, 7, 8, 9, 10, 12, 14, 16, 18, 20, 22, 24, 26, 28, 30, 32, 34, 36, 38, 40}
CONSTANT DeepSizes = {100, 150, 1000, 3000, 20000}
CONSTANT Cp <- FastCp
INVARIANT Inv
CHECK_DEADLOCK FALSE
