----------------------------- MODULE MC_AttrQName -----------------------------
EXTENDS AttrQName, TLC, Json
VARIABLE c
\* attribute-name cases are records, element-type cases are sets of declared types
Init == c \in Cases \cup { [D |-> D] : D \in ECases } \cup { [sty |-> ty] : ty \in STypes }
Next == UNCHANGED c
Spec == Init /\ [][Next]_c
InvDesign == DesignInv /\ DesignInvE
WSeq(x) == [k \in 1..3 |-> k \in x.w]
InvEmit ==
  IF "sty" \in DOMAIN c
  THEN PrintT(<<"REPLAY", ToJson([kind |-> "shared", ty |-> c.sty, text |-> SText(c.sty)])>>)
  ELSE IF "D" \in DOMAIN c
  THEN PrintT(<<"REPLAY", ToJson([kind |-> "elem", decl |-> [k \in 1..3 |-> k \in c.D], text |-> Render(EDoc(c.D))])>>)
  ELSE PrintT(<<"REPLAY", ToJson([kind |-> "attr", d |-> c.d, dk |-> c.dk, w |-> WSeq(c), text |-> Render(QDoc(c))])>>)
=============================================================================
