----------------------------- MODULE MC_AttrQName -----------------------------
EXTENDS AttrQName, TLC, Json
VARIABLE c
Init == c \in Cases
Next == UNCHANGED c
Spec == Init /\ [][Next]_c
InvDesign == DesignInv
WSeq(x) == [k \in 1..3 |-> k \in x.w]
InvEmit == PrintT(<<"REPLAY", ToJson([d |-> c.d, dk |-> c.dk, w |-> WSeq(c), text |-> Render(QDoc(c))])>>)
=============================================================================
