------------------------------- MODULE XPathCost -------------------------------
(***************************************************************************)
(* C06: totality of xml_xpath::query.                                      *)
(*                                                                         *)
(* The only actions of a query are Call -> Return(value) | Error: there is *)
(* NO Panic, Abort or Timeout action, so an observed panic, abort (signal) *)
(* or timeout matches no action of this specification.  For the hostile    *)
(* input families F(n) the CPU time of a call is bounded by a polynomial   *)
(* MaxMs(F, n) (generous: it only has to separate polynomial from          *)
(* exponential growth; n <= 40 and a 2^n algorithm needs hours at n = 40). *)
(* The module also produces the family members as text (code points).      *)
(***************************************************************************)
EXTENDS Integers, Sequences, XPathChars

VARIABLES pc,        \* "idle" | "called"
          input,     \* the pending call: [fam, n, allow]
          result     \* outcome class of the last call: "none" | "ok" | "err"
cvars == <<pc, input, result>>

\* what the statement prescribes about the KIND of answer:
\*   "any"          a value or an error
\*   "err"          unsupported construct: must be an error
\*   "err-or-empty" unsupported construct or a step that selects nothing: an error or an empty node-set
Allows == {"any", "err", "err-or-empty"}

CInit == pc = "idle" /\ input = [fam |-> "-", n |-> 0, allow |-> "any"] /\ result = "none"
Call(i) == pc = "idle" /\ pc' = "called" /\ input' = i /\ UNCHANGED result
Return(empty) == /\ pc = "called"
                 /\ input.allow = "any" \/ (input.allow = "err-or-empty" /\ empty)
                 /\ pc' = "idle" /\ result' = "ok" /\ UNCHANGED input
Error == pc = "called" /\ pc' = "idle" /\ result' = "err" /\ UNCHANGED input

\* an observed outcome is acceptable iff some action of the machine produces it
Accepts(allow, outcome, empty) ==
  \/ outcome = "err"
  \/ outcome = "ok" /\ (allow = "any" \/ (allow = "err-or-empty" /\ empty))

\* (n <= 40 for the exhaustive sizes; the deep members are linear-time or refused)
MaxMs(fam, n) == IF n <= 100 THEN 1000 + n * n ELSE IF n <= 20000 THEN 4000 ELSE 10000

(***************************************************************************)
(* Hostile families                                                        *)
(***************************************************************************)
RECURSIVE Rep(_, _)
Rep(s, n) == IF n = 0 THEN <<>>
             ELSE IF n % 2 = 0 THEN LET h == Rep(s, n \div 2) IN h \o h
             ELSE s \o Rep(s, n - 1)
RepSep(s, sep, n) == IF n = 0 THEN <<>> ELSE s \o Rep(sep \o s, n - 1)

AllAxes == <<"ancestor", "ancestor-or-self", "attribute", "child", "descendant", "descendant-or-self", "following",
             "following-sibling", "namespace", "parent", "preceding", "preceding-sibling", "self">>
\* contexts in PrologDoc: the document, the leading comment, the PI after the DOCTYPE, the root element, an inner element,
\* an attribute, a text node, the trailing comment
PrologCtxs == << Cp("/"),
                 Cp("/") \o Cp("comment") \o Cp("(") \o Cp(")") \o Cp("[") \o Cp("1") \o Cp("]"),
                 Cp("/") \o Cp("processing-instruction") \o Cp("(") \o Cp(")") \o Cp("[") \o Cp("1") \o Cp("]"),
                 Cp("/") \o Cp("r"), Cp("//") \o Cp("x"), Cp("//") \o Cp("@") \o Cp("x"),
                 Cp("/") \o Cp("r") \o Cp("/") \o Cp("text") \o Cp("(") \o Cp(")"),
                 Cp("/") \o Cp("comment") \o Cp("(") \o Cp(")") \o Cp("[") \o Cp("2") \o Cp("]") >>
PrologMembers == Len(AllAxes) * Len(PrologCtxs)
\* <!--c--><!DOCTYPE r [<!ATTLIST r x CDATA #IMPLIED>]><?p q?><r x="v">t<x/>u</r><!--d--><?e f?>
PrologDoc == <<60, 33, 45, 45, 99, 45, 45, 62, 60, 33, 68, 79, 67, 84, 89, 80, 69, 32, 114, 32, 91, 60, 33, 65, 84, 84, 76, 73, 83, 84, 32, 114, 32, 120, 32, 67, 68, 65, 84, 65, 32, 35, 73, 77, 80, 76, 73, 69, 68, 62, 93, 62, 60, 63, 112, 32, 113, 63, 62, 60, 114, 32, 120, 61, 34, 118, 34, 62, 116, 60, 120, 47, 62, 117, 60, 47, 114, 62, 60, 33, 45, 45, 100, 45, 45, 62, 60, 63, 101, 32, 102, 63, 62>>
FamilyNames == {"parens", "preds", "steps", "dsteps", "unions", "minus", "deeppred", "selfpred", "args", "parenpath", "ors", "filters", "updown", "deepdsteps", "updownaxes", "prologaxes"}
Member(fam, n) ==
  CASE fam = "parens"    -> Rep(Cp("("), n) \o Cp("1") \o Rep(Cp(")"), n)                   \* ((((1))))
    [] fam = "parenpath" -> Rep(Cp("("), n) \o Cp("//") \o Cp("b") \o Rep(Cp(")"), n)       \* ((((//b))))
    [] fam = "preds"     -> Cp("//") \o Cp("*") \o Rep(Cp("[") \o Cp("1") \o Cp("]"), n)    \* //*[1][1]...
    [] fam = "steps"     -> Cp("/") \o RepSep(Cp("*"), Cp("/"), n)                          \* /*/*/...
    [] fam = "dsteps"    -> Rep(Cp("//") \o Cp("*"), n)                                     \* //*//*//*...
    [] fam = "unions"    -> RepSep(Cp("//") \o Cp("b"), Cp("|"), n)                         \* //b|//b|...
    [] fam = "minus"     -> Rep(Cp("-"), n) \o Cp("1")                                      \* ----1
    [] fam = "deeppred"  -> Rep(Cp("*") \o Cp("["), n) \o Cp("1") \o Rep(Cp("]"), n)        \* *[*[*[1]]]
    \* predicates nested in predicates that all HOLD (a nested child step on a shallow document stops at once)
    [] fam = "selfpred"  -> Cp("/") \o Cp("*") \o Rep(Cp("[") \o Cp("self") \o Cp("::") \o Cp("*"), n) \o Rep(Cp("]"), n)   \* /*[self::*[self::*[...]]]
    [] fam = "args"      -> Rep(Cp("string") \o Cp("("), n) \o Cp("1") \o Rep(Cp(")"), n)   \* string(string(1))
    [] fam = "ors"       -> RepSep(Cp("1"), Cp("sp") \o Cp("or") \o Cp("sp"), n)            \* 1 or 1 or ...
    \* a step's result is a node-SET: going up and down again must not double the work per repetition (2^n)
    [] fam = "updown"    -> Cp("/") \o Cp("a") \o Cp("/") \o Cp("b") \o Rep(Cp("/") \o Cp("..") \o Cp("/") \o Cp("b"), n)   \* /a/b/../b/../b...
    [] fam = "updownaxes" -> Cp("//") \o Cp("b") \o Rep(Cp("/") \o Cp("ancestor-or-self") \o Cp("::") \o Cp("*") \o Cp("/") \o Cp("descendant-or-self") \o Cp("::") \o Cp("*"), n)
    \* on a DEEP document (DeepDoc: a chain of DeepDocDepth elements) every //* reaches each node along many routes
    [] fam = "deepdsteps" -> Rep(Cp("//") \o Cp("*"), n)
    \* every axis from every kind of node of a document with a prolog, a DOCTYPE and an epilog (member n = context x axis)
    [] fam = "prologaxes" -> LET c == PrologCtxs[((n - 1) \div Len(AllAxes)) + 1]
                                 a == AllAxes[((n - 1) % Len(AllAxes)) + 1]
                             IN  c \o (IF c = Cp("/") THEN <<>> ELSE Cp("/")) \o Cp(a) \o Cp("::") \o Cp("node") \o Cp("(") \o Cp(")")
    [] fam = "filters"   -> Rep(Cp("("), n) \o Cp("//") \o Cp("b") \o Rep(Cp(")") \o Cp("[") \o Cp("1") \o Cp("]"), n)  \* (((//b)[1])[1])

DeepDocDepth == 24
DeepDoc == Rep(<<60>> \o Cp("c") \o <<62>>, DeepDocDepth) \o Rep(<<60, 47>> \o Cp("c") \o <<62>>, DeepDocDepth)     \* <c><c>...</c></c>
=============================================================================
