SPECIFICATION Spec
CONSTANT Open = {"required-attribute-materialized"}
POSTCONDITION Done
CHECK_DEADLOCK FALSE
