----------------------------- MODULE MC_CliArgs -----------------------------
(* command lines built from up to MaxItems ITEMS for both tools (an item is what one scanner step consumes: an   *)
(* option with its value, a flag, a file path, or an option left dangling / followed by another option word):     *)
(* design properties of the scanner + REPLAY emission.  Three items reach "--xpath E --xpath E --value V".        *)
EXTENDS CliArgs, TLC, Json

CONSTANTS MaxItems, Items
VARIABLES tool, toks, n
vars == <<tool, toks, n>>

ItemsQ == { <<"--xpath", "W">>, <<"--value", "W">>, <<"--setns", "W">>, <<"--no-indent">>, <<"W">>,
            <<"--xpath">>, <<"--xpath", "--value">>, <<"--setns", "--xpath">> }
ItemsT == ItemsQ \cup { <<"--value">>, <<"--setns">>, <<"--value", "--no-indent">>, <<"--xpath", "--no-indent">> }

Init == tool \in Tools /\ toks = <<>> /\ n = 0
Next == n < MaxItems /\ \E it \in Items : toks' = toks \o it /\ n' = n + 1 /\ UNCHANGED tool
Spec == Init /\ [][Next]_vars
\* the same command line reached with different item counts is one case (breadth-first: the smaller count is kept)
ViewToks == <<tool, toks>>

InvShape == UsableShape(tool, toks)
InvIndent == IndentIrrelevant(tool, toks)
InvFinal == RefusalIsFinal(tool, toks)
\* both outcomes occur (anti-vacuity is checked by the driver from the emitted cases)
Case == [k |-> "args", tool |-> tool, toks |-> toks, argv |-> Argv(tool, toks, ""), outcome |-> ArgsOutcome(tool, toks),
         indent |-> Final(tool, toks).indent, frag |-> Final(tool, toks).value,
         text |-> Ser(Docs[ArgDoc]), tree |-> Docs[ArgDoc], sel |-> ValOf(ArgDoc, PathExpr).v, expect |-> ArgsExpect]
InvEmit == PrintT(<<"REPLAY", ToJson(Case)>>)
=============================================================================
