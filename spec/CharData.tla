------------------------------ MODULE CharData ------------------------------
(***************************************************************************)
(* DOM Level 1 CharacterData / Text operations on sequences of Unicode     *)
(* scalar values (C16), and the conditions under which character data can  *)
(* be held by a node of a given kind so that the document still            *)
(* serializes to text that parses back to the same content (C15).          *)
(*                                                                         *)
(* Offsets and counts are in characters.  A call is a record               *)
(*    [op, o, c, a]   (offset, count, argument string; unused ones are 0   *)
(*                     or <<>>)                                            *)
(* and its specified result is either [err |-> "IndexSizeErr"] or          *)
(*    [ok |-> TRUE, n |-> number returned, ret |-> string returned,        *)
(*     data |-> the node's data afterwards]                                *)
(* For split_text `data` is what the receiver keeps and `ret` the data of  *)
(* the new next sibling.                                                   *)
(***************************************************************************)
EXTENDS Integers, Sequences, XmlChar

MAXC == 2147483647          \* stands for usize::MAX in a count or offset

\* 0-based half-open slice s[a..b)
Sub(s, a, b) == SubSeq(s, a + 1, b)

\* end of the range that starts at o and has c characters, clipped to the end (no overflow: c may be MAXC)
ClipEnd(s, o, c) == IF c >= Len(s) - o THEN Len(s) ELSE o + c

IndexErr == [err |-> "IndexSizeErr"]
Ok(n, ret, data) == [ok |-> TRUE, n |-> n, ret |-> ret, data |-> data]

CdApply(s, c) ==
  CASE c.op = "length"    -> Ok(Len(s), <<>>, s)
    [] c.op = "data"      -> Ok(0, s, s)
    [] c.op = "substring" -> IF c.o > Len(s) THEN IndexErr
                             ELSE Ok(0, Sub(s, c.o, ClipEnd(s, c.o, c.c)), s)
    [] c.op = "append"    -> Ok(0, <<>>, s \o c.a)
    [] c.op = "insert"    -> IF c.o > Len(s) THEN IndexErr
                             ELSE Ok(0, <<>>, Sub(s, 0, c.o) \o c.a \o Sub(s, c.o, Len(s)))
    [] c.op = "delete"    -> IF c.o > Len(s) THEN IndexErr
                             ELSE Ok(0, <<>>, Sub(s, 0, c.o) \o Sub(s, ClipEnd(s, c.o, c.c), Len(s)))
    [] c.op = "replace"   -> IF c.o > Len(s) THEN IndexErr
                             ELSE Ok(0, <<>>, Sub(s, 0, c.o) \o c.a \o Sub(s, ClipEnd(s, c.o, c.c), Len(s)))
    [] c.op = "set"       -> Ok(0, <<>>, c.a)
    [] c.op = "split"     -> IF c.o > Len(s) THEN IndexErr
                             ELSE Ok(0, Sub(s, c.o, Len(s)), Sub(s, 0, c.o))

\* ---------------------------------------------------------------------------------------------
\* C15: what a node of a kind can hold

HasSub(d, pat) == \E i \in 1..(Len(d) - Len(pat) + 1) : SubSeq(d, i, i + Len(pat) - 1) = pat
HasAny(d, cs)  == \E i \in 1..Len(d) : d[i] \in cs
AllChar(d)     == \A i \in 1..Len(d) : IsChar(d[i])

Dash == 45   Lt == 60   Amp == 38   Gt == 62   RBr == 93   Quest == 63   Apos == 39   Quot == 34

\* No serialization of a node of this kind can denote this data: a faithful implementation MUST refuse it
\* (kinds: "text" character data of an element, "attr" the value of an attribute, "comment", "cdata", "pi"
\* the data of a processing instruction)
MustRefuse(kind, d) ==
  \/ ~AllChar(d)
  \/ CASE kind = "comment" -> HasSub(d, <<Dash, Dash>>) \/ (Len(d) > 0 /\ d[Len(d)] = Dash)
       [] kind = "cdata"   -> HasSub(d, <<RBr, RBr, Gt>>)
       [] kind = "pi"      -> HasSub(d, <<Quest, Gt>>) \/ (Len(d) > 0 /\ IsWs(d[1]))
       [] OTHER            -> FALSE

\* Data that can only be held by escaping it when printing: an implementation that stores character data
\* verbatim MAY refuse it instead (C15: "stored so that they survive a round trip or refused")
MayRefuse(kind, d) ==
  \/ MustRefuse(kind, d)
  \/ CASE kind = "text" -> HasAny(d, {Lt, Amp}) \/ HasSub(d, <<RBr, RBr, Gt>>)
       [] kind = "attr" -> HasAny(d, {Lt, Amp}) \/ (HasAny(d, {Apos}) /\ HasAny(d, {Quot}))
       [] OTHER         -> FALSE

\* the invariant of the ideal machine
Serializable(kind, d) == ~MustRefuse(kind, d)
=============================================================================
