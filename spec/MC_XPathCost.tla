------------------------------ MODULE MC_XPathCost ------------------------------
(***************************************************************************)
(* C06: TLC walks the Call -> Return | Error machine over the hostile      *)
(* families F(n), n <= MaxN, and over the constructs the statement names   *)
(* (unsupported features, steps that select nothing, ill-typed and         *)
(* out-of-range arguments), and prints one REPLAY line per call with the   *)
(* expression text, the kind of answer the statement allows and the time   *)
(* bound.  Invariant: the machine never reaches any state but idle/called  *)
(* (there is no crash state to reach).                                     *)
(***************************************************************************)
EXTENDS XPathCost, TLC, Json

CONSTANT Sizes,         \* the values of n
         DeepSizes      \* far larger n for the families that nest (recursion depth of parser/evaluator)

CpTab == TLCEval([w \in CpWords |-> CpCase(w)])
FastCp(w) == CpTab[w]

\* documents (text): 1 plain, 2 with DOCTYPE (for id()), 3 with a namespace declaration
Docs == << Cp("<") \o Cp("a") \o <<32>> \o Cp("x") \o <<61, 34, 49, 34, 62>> \o Cp("<") \o Cp("b") \o <<47, 62>> \o Cp("<") \o Cp("b") \o <<62, 49, 60, 47>> \o Cp("b") \o <<62, 60, 47>> \o Cp("a") \o <<62>>,
           <<60,33,68,79,67,84,89,80,69,32,97,32,91,60,33,65,84,84,76,73,83,84,32,97,32,105,32,73,68,32,35,73,77,80,76,73,69,68,62,93,62,60,97,32,105,61,34,120,34,47,62>>,
           <<60,97,32,120,109,108,110,115,58,112,61,34,117,34,62,60,112,58,98,32,112,58,120,61,34,49,34,47,62,60,47,97,62>>,
           <<60,114,32,120,109,108,58,108,97,110,103,61,34,26085,26412,35486,34,62,60,112,47,62,60,47,114,62>> >>
\* 1: <a x="1"><b/><b>1</b></a>   2: <!DOCTYPE a [<!ATTLIST a i ID #IMPLIED>]><a i="x"/>   3: <a xmlns:p="u"><p:b p:x="1"/></a>
\* 4: <r xml:lang="(three CJK characters)"><p/></r>   - a language tag of multi-byte characters

\* named constructs: <<text as a TLA+ string key, allow>>; the texts are given as code points below
S(str) == str
Named ==
  << [x |-> <<36, 118>>,                                   allow |-> "err",          d |-> 1],   \* $v
     [x |-> <<36, 112, 58, 118>>,                          allow |-> "err",          d |-> 1],   \* $p:v
     [x |-> <<105,100,40,39,120,39,41>>,                   allow |-> "err-or-empty", d |-> 1],   \* id('x')
     [x |-> <<105,100,40,39,120,39,41>>,                   allow |-> "err-or-empty", d |-> 2],   \* id('x') with DTD
     [x |-> <<47,47,42,91,105,100,40,39,120,39,41,93>>,    allow |-> "err-or-empty", d |-> 2],   \* //*[id('x')]
     [x |-> <<47,47,42,91,105,100,40,39,120,39,41,93>>,    allow |-> "err-or-empty", d |-> 1],
     [x |-> <<47,47,112,114,111,99,101,115,115,105,110,103,45,105,110,115,116,114,117,99,116,105,111,110,40,39,116,39,41>>, allow |-> "err-or-empty", d |-> 1],  \* //processing-instruction('t')
     [x |-> <<112,114,111,99,101,115,115,105,110,103,45,105,110,115,116,114,117,99,116,105,111,110,40,39,116,39,41>>, allow |-> "err-or-empty", d |-> 1],
     [x |-> <<47, 46, 46>>,                                allow |-> "err-or-empty", d |-> 1],   \* /..
     [x |-> <<46, 46>>,                                    allow |-> "err-or-empty", d |-> 1],   \* ..
     [x |-> <<112,97,114,101,110,116,58,58,110,111,100,101,40,41>>, allow |-> "err-or-empty", d |-> 1],  \* parent::node()
     [x |-> <<97,110,99,101,115,116,111,114,58,58,42>>,    allow |-> "err-or-empty", d |-> 1],   \* ancestor::*
     [x |-> <<47,42,47,64,120,47,46,46>>,                  allow |-> "any",          d |-> 1],   \* /*/@x/..   (the element, an error or nothing)
     [x |-> <<47,47,64,120,47,46,46>>,                     allow |-> "any",          d |-> 1],   \* //@x/..
     [x |-> <<47,47,64,42,47,112,97,114,101,110,116,58,58,42>>, allow |-> "any",     d |-> 3],   \* //@*/parent::*
     [x |-> <<47,47,110,97,109,101,115,112,97,99,101,58,58,42,47,46,46>>, allow |-> "any", d |-> 1],  \* //namespace::*/..
     [x |-> <<47,47,110,97,109,101,115,112,97,99,101,58,58,42,47,46,46>>, allow |-> "any", d |-> 3],
     [x |-> <<47,47,110,97,109,101,115,112,97,99,101,58,58,42,47,47,42>>, allow |-> "any", d |-> 3],  \* //namespace::*//*
     [x |-> <<47,47,64,120,47,102,111,108,108,111,119,105,110,103,58,58,42>>, allow |-> "any", d |-> 1],  \* //@x/following::*
     [x |-> <<47,47,64,120,47,112,114,101,99,101,100,105,110,103,58,58,110,111,100,101,40,41>>, allow |-> "any", d |-> 1],  \* //@x/preceding::node()
     [x |-> <<47,47,64,120,91,47,47,98,93>>,               allow |-> "any",          d |-> 1],   \* //@x[//b]
     [x |-> <<47,47,110,97,109,101,115,112,97,99,101,58,58,42,91,47,47,42,93>>, allow |-> "any", d |-> 3],  \* //namespace::*[//*]
     [x |-> <<115,117,98,115,116,114,105,110,103,40,39,97,98,99,39,44,48,41>>, allow |-> "any", d |-> 1],  \* substring('abc',0)
     [x |-> <<115,117,98,115,116,114,105,110,103,40,39,26085,26412,39,44,50,41>>, allow |-> "any", d |-> 1],  \* substring('日本',2)
     [x |-> <<115,117,98,115,116,114,105,110,103,40,39,97,39,44,48,32,100,105,118,32,48,44,49,32,100,105,118,32,48,41>>, allow |-> "any", d |-> 1],  \* substring('a',0 div 0,1 div 0)
     [x |-> <<99,111,117,110,116,40,49,41>>,               allow |-> "any",          d |-> 1],   \* count(1)
     [x |-> <<115,117,109,40,39,120,39,41>>,               allow |-> "any",          d |-> 1],   \* sum('x')
     [x |-> <<115,117,109,40,47,47,42,41>>,                allow |-> "any",          d |-> 1],   \* sum(//*)
     [x |-> <<49,32,124,32,50>>,                           allow |-> "any",          d |-> 1],   \* 1 | 2
     [x |-> <<40,49,41,91,49,93>>,                         allow |-> "any",          d |-> 1],   \* (1)[1]
     [x |-> <<40,49,41,47,97>>,                            allow |-> "any",          d |-> 1],   \* (1)/a
     [x |-> <<39,97,39,47,97>>,                            allow |-> "any",          d |-> 1],   \* 'a'/a
     [x |-> <<45,47,47,98>>,                               allow |-> "any",          d |-> 1],   \* -//b
     [x |-> <<47,47,98,32,43,32,47,47,64,120>>,            allow |-> "any",          d |-> 1],   \* //b + //@x
     [x |-> <<108,97,110,103,40,39,101,110,39,41>>,        allow |-> "any",          d |-> 1],   \* lang('en')
     [x |-> <<47,47,116,101,120,116,40,41,91,108,97,110,103,40,39,101,110,39,41,93>>, allow |-> "any", d |-> 1],  \* //text()[lang('en')]
     [x |-> <<47,47,112,91,108,97,110,103,40,39,101,110,39,41,93>>, allow |-> "any", d |-> 4],   \* //p[lang('en')]   (argument shorter, in bytes, than one character of the tag)
     [x |-> <<47,47,112,91,108,97,110,103,40,39,97,39,41,93>>,      allow |-> "any", d |-> 4],   \* //p[lang('a')]
     [x |-> <<47,47,112,91,108,97,110,103,40,39,26085,39,41,93>>,   allow |-> "any", d |-> 4],   \* //p[lang('<first character of the tag>')]
     [x |-> <<47,47,113,58,98>>,                           allow |-> "any",          d |-> 3],   \* //q:b  (unbound prefix)
     [x |-> <<113,58,102,40,41>>,                          allow |-> "any",          d |-> 1],   \* q:f()
     [x |-> <<110,97,109,101,40,47,47,110,97,109,101,115,112,97,99,101,58,58,42,41>>, allow |-> "any", d |-> 3],  \* name(//namespace::*)
     [x |-> <<47, 97, 47, 99, 111, 109, 109, 101, 110, 116, 40, 39, 120, 39, 41>>, allow |-> "any", d |-> 1],   \* /a/comment('x')
     [x |-> <<47, 47, 116, 101, 120, 116, 40, 34, 116, 34, 41>>, allow |-> "any", d |-> 1],   \* //text("t")
     [x |-> <<47, 97, 47, 110, 111, 100, 101, 40, 32, 39, 97, 39, 32, 41>>, allow |-> "any", d |-> 1],   \* /a/node( 'a' )
     [x |-> <<99, 111, 109, 109, 101, 110, 116, 40, 39, 39, 41>>, allow |-> "any", d |-> 1],   \* comment('')
     [x |-> <<115, 117, 98, 115, 116, 114, 105, 110, 103, 40, 39, 49, 50, 51, 52, 53, 39, 44, 32, 52, 44, 32, 45, 50, 41>>, allow |-> "any", d |-> 1],   \* substring('12345', 4, -2)
     [x |-> <<115, 117, 98, 115, 116, 114, 105, 110, 103, 40, 47, 97, 44, 32, 51, 44, 32, 45, 49, 32, 100, 105, 118, 32, 48, 41>>, allow |-> "any", d |-> 1],   \* substring(/a, 3, -1 div 0)
     [x |-> <<115, 117, 98, 115, 116, 114, 105, 110, 103, 40, 39, 49, 50, 51, 52, 53, 39, 44, 32, 50, 44, 32, 45, 49, 41>>, allow |-> "any", d |-> 1],   \* substring('12345', 2, -1)
     [x |-> <<115, 117, 98, 115, 116, 114, 105, 110, 103, 40, 39, 49, 50, 51, 52, 53, 39, 44, 32, 49, 32, 100, 105, 118, 32, 48, 44, 32, 45, 49, 32, 100, 105, 118, 32, 48, 41>>, allow |-> "any", d |-> 1],   \* substring('12345', 1 div 0, -1 div 0)
     [x |-> <<115, 117, 98, 115, 116, 114, 105, 110, 103, 40, 39, 49, 50, 51, 52, 53, 39, 44, 32, 45, 49, 32, 100, 105, 118, 32, 48, 44, 32, 49, 32, 100, 105, 118, 32, 48, 41>>, allow |-> "any", d |-> 1],   \* substring('12345', -1 div 0, 1 div 0)
     [x |-> <<115, 117, 98, 115, 116, 114, 105, 110, 103, 40, 39, 49, 50, 51, 52, 53, 39, 44, 32, 53, 44, 32, 45, 53, 41>>, allow |-> "any", d |-> 1],   \* substring('12345', 5, -5)
     [x |-> <<115, 117, 98, 115, 116, 114, 105, 110, 103, 40, 39, 26085, 26412, 35486, 39, 44, 32, 51, 44, 32, 45, 49, 41>>, allow |-> "any", d |-> 1],   \* substring('日本語', 3, -1)
     [x |-> <<116, 114, 97, 110, 115, 108, 97, 116, 101, 40, 39, 97, 98, 99, 97, 98, 99, 39, 44, 39, 97, 98, 97, 39, 44, 39, 88, 89, 90, 39, 41>>, allow |-> "any", d |-> 1],   \* translate('abcabc','aba','XYZ')
     [x |-> <<116, 114, 97, 110, 115, 108, 97, 116, 101, 40, 39, 98, 97, 110, 97, 110, 97, 39, 44, 39, 97, 110, 97, 39, 44, 39, 120, 39, 41>>, allow |-> "any", d |-> 1],   \* translate('banana','ana','x')
     [x |-> <<>>,                                          allow |-> "any",          d |-> 1],   \* empty string
     [x |-> <<47, 47>>,                                    allow |-> "any",          d |-> 1],   \* //
     [x |-> <<49,101,51>>,                                 allow |-> "any",          d |-> 1],   \* 1e3
     [x |-> <<57,57,57,57,57,57,57,57,57,57,57,57,57,57,57,57,57,57,57,57,57,57,57,57,57,57,57,57,57,57>>, allow |-> "any", d |-> 1],
     [x |-> <<47,47,42,91,57,57,57,57,57,57,57,57,57,57,57,57,57,57,57,57,57,57,57,57,57,57,57,57,57,57,93>>, allow |-> "any", d |-> 1],
     [x |-> <<115,117,98,115,116,114,105,110,103,40,39,97,98,39,44,45,57,57,57,57,57,57,57,57,57,57,57,57,57,57,57,57,57,57,57,57,44,57,57,57,57,57,57,57,57,57,57,57,57,57,57,57,57,57,57,57,57,57,41>>, allow |-> "any", d |-> 1] >>

vars == cvars
\* nesting families (recursion depth grows with n) get every deep size; the flat ones (linear work per
\* repetition, about 0.1 ms each) only sizes whose linear cost stays far below the 5 s limit of a call
NestingFamilies == {"parens", "deeppred", "selfpred", "minus", "args", "filters", "parenpath"}
FlatFamilies == {"preds", "steps", "ors", "unions"}
Inputs == { [fam |-> f, n |-> n, allow |-> "any"] : f \in FamilyNames \ {"prologaxes"}, n \in Sizes }
          \cup { [fam |-> "prologaxes", n |-> n, allow |-> "any"] : n \in 1..PrologMembers }
          \cup { [fam |-> f, n |-> n, allow |-> "any"] : f \in NestingFamilies, n \in DeepSizes }
          \cup { [fam |-> f, n |-> n, allow |-> "any"] : f \in FlatFamilies, n \in {m \in DeepSizes : m <= 3000} }
          \* linear in n and never nested by the grammar's own depth guard: a run of 100 000 unary minus signs
          \cup { [fam |-> "minus", n |-> 100000, allow |-> "any"] }
          \cup { [fam |-> "named", n |-> k, allow |-> Named[k].allow] : k \in 1..Len(Named) }
Next == (\E i \in Inputs : Call(i)) \/ (\E e \in BOOLEAN : Return(e)) \/ Error
Spec == CInit /\ [][Next]_vars

TextOf(i) == IF i.fam = "named" THEN Named[i.n].x ELSE Member(i.fam, i.n)
DocOf(i)  == IF i.fam = "named" THEN Docs[Named[i.n].d] ELSE IF i.fam = "deepdsteps" THEN DeepDoc ELSE IF i.fam = "prologaxes" THEN PrologDoc ELSE Docs[1]

TypeOk == pc \in {"idle", "called"} /\ result \in {"none", "ok", "err"} /\ input.allow \in Allows
\* every call can complete, and only by Return or Error
Completes == pc = "called" => ENABLED Error
Emit == (pc = "called" /\ result = "none") =>
          PrintT(<<"REPLAY", ToJson([k |-> "call", fam |-> input.fam, n |-> input.n, allow |-> input.allow,
                                     maxms |-> MaxMs(input.fam, input.n), doc |-> DocOf(input), expr |-> TextOf(input)])>>)
Inv == TypeOk /\ Emit
=============================================================================
