SPECIFICATION Spec
CONSTANT Tier = "quick"
CONSTANT Dev = {}
CONSTANT SortedSeq <- FastSortedSeq
CONSTANT Cp <- FastCp
INVARIANT Inv
CHECK_DEADLOCK FALSE
