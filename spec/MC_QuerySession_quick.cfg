SPECIFICATION Spec
CONSTANT MaxLen = 3
INVARIANT InvEmit
CHECK_DEADLOCK FALSE
