SPECIFICATION Spec
INVARIANT InvDesign
INVARIANT InvEmit
CHECK_DEADLOCK FALSE
