SPECIFICATION Spec
CONSTANT Dev = {}
CONSTANT Tier = "quick"
INVARIANT InvTree
INVARIANT InvScope
INVARIANT InvRenameDoc
INVARIANT InvRenameCaller
INVARIANT InvAttrNoDefault
INVARIANT InvEmit
CHECK_DEADLOCK FALSE
