SPECIFICATION Spec
CONSTANT Prop = "TEXT"
CONSTANT Open = {}
POSTCONDITION Done
CHECK_DEADLOCK FALSE
