SPECIFICATION Spec
CONSTANT Tier = "thorough"
CONSTANT Dev = {}
CONSTANT SortedSeq <- FastSortedSeq
CONSTANT Cp <- FastCp
INVARIANT Inv
CHECK_DEADLOCK FALSE
