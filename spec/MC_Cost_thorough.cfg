SPECIFICATION Spec
CONSTANT Dense = TRUE
INVARIANT Inv
PROPERTY Terminates
CHECK_DEADLOCK FALSE
