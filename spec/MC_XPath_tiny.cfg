SPECIFICATION Spec
CONSTANT Tier = "tiny"
CONSTANT Dev = {}
CONSTANT SortedSeq <- FastSortedSeq
CONSTANT Cp <- FastCp
INVARIANT Inv
CHECK_DEADLOCK FALSE
