------------------------------ MODULE Namespaces ------------------------------
(***************************************************************************)
(* Namespaces in XML 1.0 (C10): from the declarations written on elements  *)
(* to expanded names and in-scope namespaces.                              *)
(*                                                                         *)
(* A namespace-level document ("ns tree") is a sequence of element records *)
(* in document order:                                                      *)
(*    p     : index of the parent element (0 = the document element)       *)
(*    pre   : prefix of the element's name as written (<<>> = none)        *)
(*    loc   : local part                                                   *)
(*    decls : sequence of <<prefix, uri>> written on the element           *)
(*            (<<>> as prefix = xmlns="..."; <<>> as uri = xmlns="")       *)
(*    attrs : sequence of [pre, loc, v] ordinary attributes                *)
(* Two independent definitions are given and checked against each other by *)
(* TLC: the recursive scope computation (Scope) and the declarative        *)
(* "nearest enclosing declaration" (Nearest).  Resolve turns an ns tree    *)
(* into a document of the XPath data model (XPathSem.tla), so that name    *)
(* tests are evaluated by the specification's evaluator.                   *)
(***************************************************************************)
EXTENDS XPathDoc

XmlUri == <<104,116,116,112,58,47,47,119,119,119,46,119,51,46,111,114,103,47,88,77,76,47,49,57,57,56,47,110,97,109,101,115,112,97,99,101>>
                                      \* http://www.w3.org/XML/1998/namespace

NE(t) == Len(t)

\* ---------------------------------------------------------------------------------------------
\* scope as a function prefix -> uri over the finite set of prefixes that occur; "none" = unbound

PrefixesOf(t) ==
  {XmlPre, <<>>} \cup { t[k].pre : k \in 1..NE(t) }
  \cup UNION { { t[k].decls[j][1] : j \in 1..Len(t[k].decls) } : k \in 1..NE(t) }
  \cup UNION { { t[k].attrs[j].pre : j \in 1..Len(t[k].attrs) } : k \in 1..NE(t) }
NoneU == <<0>>                        \* marks "no binding" (not a URI: URIs here are sequences of code points > 0)

RECURSIVE ApplyDecls(_, _)
ApplyDecls(sc, ds) ==
  IF Len(ds) = 0 THEN sc
  ELSE LET d == Head(ds)
           sc1 == [sc EXCEPT ![d[1]] = IF d[2] = <<>> THEN NoneU ELSE d[2]]
       IN  ApplyDecls(sc1, Tail(ds))

RECURSIVE Scope(_, _, _)
Scope(t, P, k) ==                     \* P: the set of prefixes (the domain)
  LET base == IF t[k].p = 0 THEN [x \in P |-> IF x = XmlPre THEN XmlUri ELSE NoneU] ELSE Scope(t, P, t[k].p)
  IN  ApplyDecls(base, t[k].decls)

\* declarative: the nearest ancestor-or-self that declares the prefix decides
RECURSIVE AncOrSelf(_, _)
AncOrSelf(t, k) == IF t[k].p = 0 THEN <<k>> ELSE <<k>> \o AncOrSelf(t, t[k].p)     \* nearest first
Declares(t, k, x) == \E j \in 1..Len(t[k].decls) : t[k].decls[j][1] = x
\* the last declaration of x written on element k (a tag cannot repeat an attribute name, so there is one)
DeclOf(t, k, x) == t[k].decls[CHOOSE j \in 1..Len(t[k].decls) : t[k].decls[j][1] = x][2]
Nearest(t, k, x) ==
  IF x = XmlPre THEN XmlUri
  ELSE LET chain == AncOrSelf(t, k)
           hits == { i \in 1..Len(chain) : Declares(t, chain[i], x) }
       IN  IF hits = {} THEN NoneU
           ELSE LET u == DeclOf(t, chain[CHOOSE i \in hits : \A j \in hits : i <= j], x)
                IN  IF u = <<>> THEN NoneU ELSE u

\* expanded names (Namespaces in XML section 6): the default namespace applies to unprefixed ELEMENT names
\* only; an unprefixed attribute is in no namespace
ElemUri(t, P, k) == LET u == Scope(t, P, k)[t[k].pre] IN IF u = NoneU THEN <<>> ELSE u
AttrUri(t, P, k, a) == IF a.pre = <<>> THEN <<>> ELSE LET u == Scope(t, P, k)[a.pre] IN IF u = NoneU THEN <<>> ELSE u

\* namespace well-formed: every prefix that is used is bound; xmlns="" only for the default; xml not re-bound
NsWf(t) ==
  LET P == PrefixesOf(t) IN
  \A k \in 1..NE(t) :
    /\ (t[k].pre # <<>> => Scope(t, P, k)[t[k].pre] # NoneU)
    /\ \A j \in 1..Len(t[k].attrs) : t[k].attrs[j].pre # <<>> => Scope(t, P, k)[t[k].attrs[j].pre] # NoneU
    /\ \A j \in 1..Len(t[k].decls) : /\ (t[k].decls[j][2] = <<>> => t[k].decls[j][1] = <<>>)
                                     /\ t[k].decls[j][1] # XmlPre
    /\ \A i, j \in 1..Len(t[k].decls) : i # j => t[k].decls[i][1] # t[k].decls[j][1]
    \* no two attributes with one expanded name
    /\ \A i, j \in 1..Len(t[k].attrs) : i # j =>
         <<AttrUri(t, P, k, t[k].attrs[i]), t[k].attrs[i].loc>> # <<AttrUri(t, P, k, t[k].attrs[j]), t[k].attrs[j].loc>>
    /\ (t[k].p = 0 <=> k = 1) /\ (k > 1 => t[k].p \in 1..(k - 1))

ScopeAgrees(t) ==                     \* the two definitions coincide (checked by TLC on every tree)
  LET P == PrefixesOf(t) IN \A k \in 1..NE(t) : \A x \in P : Scope(t, P, k)[x] = Nearest(t, k, x)

\* ---------------------------------------------------------------------------------------------
\* the XPath data model of an ns tree

\* in-scope prefixes of element k in a fixed order (xml, default, then the others as they first occur)
RECURSIVE SeqOfSet(_, _)
SeqOfSet(order, S) == IF Len(order) = 0 THEN <<>>
                      ELSE (IF Head(order) \in S THEN <<Head(order)>> ELSE <<>>) \o SeqOfSet(Tail(order), S)
InScope(t, P, k) == { x \in P : Scope(t, P, k)[x] # NoneU }

NdRec(k, p, pre, loc, uri, v) == [k |-> k, p |-> p, pre |-> pre, loc |-> loc, uri |-> uri, v |-> v, raw |-> <<>>]

\* nodes contributed by element k: itself, its namespace nodes, its attributes (parent indices filled in later)
Block(t, P, order, k) ==
  LET sc == Scope(t, P, k)
      pres == SeqOfSet(order, InScope(t, P, k))
  IN  <<NdRec("elem", 0, t[k].pre, t[k].loc, ElemUri(t, P, k), <<>>)>>
      \o [j \in 1..Len(pres) |-> NdRec("ns", -1, <<>>, pres[j], <<>>, sc[pres[j]])]
      \o [j \in 1..Len(t[k].attrs) |-> NdRec("attr", -1, t[k].attrs[j].pre, t[k].attrs[j].loc,
                                             AttrUri(t, P, k, t[k].attrs[j]), t[k].attrs[j].v)]

\* index (in the document's node sequence) of element k: 1 (root) + the blocks before it + 1
RECURSIVE BlockLens(_, _, _, _)
BlockLens(t, P, order, k) == IF k = 0 THEN 0 ELSE BlockLens(t, P, order, k - 1) + Len(Block(t, P, order, k))
ElemIndex(t, P, order, k) == 2 + BlockLens(t, P, order, k - 1)

RECURSIVE Blocks(_, _, _, _)
Blocks(t, P, order, k) ==
  IF k > NE(t) THEN <<>>
  ELSE LET me == ElemIndex(t, P, order, k)
           par == IF t[k].p = 0 THEN 1 ELSE ElemIndex(t, P, order, t[k].p)
           b == Block(t, P, order, k)
       IN  [j \in 1..Len(b) |-> IF j = 1 THEN [b[1] EXCEPT !.p = par] ELSE [b[j] EXCEPT !.p = me]]
           \o Blocks(t, P, order, k + 1)

Resolve(t, order) ==
  [prolog |-> <<>>, nodes |-> <<NdRec("root", 0, <<>>, <<>>, <<>>, <<>>)>> \o Blocks(t, PrefixesOf(t), order, 1)]

\* ---------------------------------------------------------------------------------------------
\* edits through the DOM: a namespace declaration is an attribute, so set_attribute("xmlns:p", u) REPLACES the
\* declaration of p written on the element (or adds one), remove_attribute removes it, and an element that is moved
\* takes its declarations along and resolves the rest in its new place

\* The text of a case is the serialization of the RESOLVED document, which writes on every element exactly the
\* bindings that differ from its parent's scope (XPathDoc!SerDecls): the tree "as written" is this canonical one.
CanonDecls(t, P, order, k) ==
  LET sc  == Scope(t, P, k)
      psc == IF t[k].p = 0 THEN [x \in P |-> IF x = XmlPre THEN XmlUri ELSE NoneU] ELSE Scope(t, P, t[k].p)
      ch  == SeqOfSet(order, { x \in P : x # XmlPre /\ sc[x] # psc[x] })
  IN  [j \in 1..Len(ch) |-> <<ch[j], IF sc[ch[j]] = NoneU THEN <<>> ELSE sc[ch[j]]>>]
Canon(t, order) == LET P == PrefixesOf(t) IN [k \in 1..NE(t) |-> [t[k] EXCEPT !.decls = CanonDecls(t, P, order, k)]]

SetDecl(t, k, x, u) ==
  [t EXCEPT ![k].decls = IF Declares(t, k, x)
                         THEN [j \in 1..Len(@) |-> IF @[j][1] = x THEN <<x, u>> ELSE @[j]]
                         ELSE Append(@, <<x, u>>)]
RemoveDecl(t, k, x) == [t EXCEPT ![k].decls = SelectSeq(@, LAMBDA dd : dd[1] # x)]
\* the LAST element (no element follows it, so document order is unchanged) becomes the last child of element k
MoveLastUnder(t, k) == [t EXCEPT ![NE(t)].p = k]

\* ---------------------------------------------------------------------------------------------
\* consistent renaming of prefixes in the document (sigma: a bijection on prefixes fixing xml and the default)

RenameTree(t, s) ==
  [k \in 1..NE(t) |->
     [t[k] EXCEPT !.pre = s[t[k].pre],
                  !.decls = [j \in 1..Len(t[k].decls) |-> <<s[t[k].decls[j][1]], t[k].decls[j][2]>>],
                  !.attrs = [j \in 1..Len(t[k].attrs) |-> [t[k].attrs[j] EXCEPT !.pre = s[t[k].attrs[j].pre]]]]]
=============================================================================
