SPECIFICATION Spec
CONSTANT MaxLen = 4
INVARIANT DesignInv
INVARIANT InvEmit
CHECK_DEADLOCK FALSE
