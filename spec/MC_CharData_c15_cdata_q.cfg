SPECIFICATION Spec
CONSTANT Kind = "cdata"
CONSTANT Alphabet <- AlphaCData
CONSTANT MaxLen = 2
CONSTANT Args <- ArgsCData
CONSTANT Ops <- OpsMut
VIEW View
INVARIANT InvSerializable
INVARIANT InvAlgebra
INVARIANT InvEmit
CHECK_DEADLOCK FALSE
