SPECIFICATION Spec
CONSTANT Kind = "attr"
CONSTANT Alphabet <- AlphaAttr
CONSTANT MaxLen = 2
CONSTANT Args <- ArgsAttr
CONSTANT Ops <- OpsMut
VIEW View
INVARIANT InvSerializable
INVARIANT InvAlgebra
INVARIANT InvEmit
CHECK_DEADLOCK FALSE
