SPECIFICATION Spec
CONSTANT Exhaustive = FALSE
POSTCONDITION Done
CHECK_DEADLOCK FALSE
