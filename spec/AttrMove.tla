------------------------------- MODULE AttrMove -------------------------------
(***************************************************************************)
(* One attribute node moved between elements whose DTD declares different  *)
(* types for its name (C11: "for attributes declared with a type other     *)
(* than CDATA leading and trailing spaces are dropped and runs collapsed") *)
(* The value reported for the node is a function of its literal and of the *)
(* type declared for its CURRENT owner element - whatever was read or      *)
(* where it was before.                                                    *)
(*   state:  owner in {"a", "b", "c", "none"}                              *)
(*   <!ATTLIST a x NMTOKENS #IMPLIED> <!ATTLIST b x CDATA #IMPLIED>, c has *)
(*   no declaration; the literal is " p  q " (written on <a>).             *)
(***************************************************************************)
EXTENDS AttrNorm

CONSTANT MaxLen
Owners == {"a", "b", "c", "none"}
TyOf(o) == CASE o = "a" -> "NMTOKENS" [] o = "b" -> "CDATA" [] OTHER -> ""
Lit == << CI(32), CI(112), CI(32), CI(32), CI(113), CI(32) >>          \* " p  q "

Value(o) == Normalize(Lit, TyOf(o), <<>>)

VARIABLES owner, hist
Init == owner = "a" /\ hist = <<>>
Read == /\ Len(hist) < MaxLen /\ hist' = Append(hist, [op |-> "read", to |-> ""]) /\ UNCHANGED owner
Move(to) == /\ Len(hist) < MaxLen /\ to \in {"a", "b", "c"} /\ to # owner
            /\ owner' = to /\ hist' = Append(hist, [op |-> "move", to |-> to])
Detach == /\ Len(hist) < MaxLen /\ owner # "none" /\ owner' = "none" /\ hist' = Append(hist, [op |-> "detach", to |-> ""])
Next == Read \/ Detach \/ \E to \in {"a", "b", "c"} : Move(to)
Spec == Init /\ [][Next]_<<owner, hist>>

\* the owner after a history (for the trace specification)
RECURSIVE OwnerAfter(_, _)
OwnerAfter(h, k) == IF k = 0 THEN "a"
                    ELSE IF h[k].op = "move" THEN h[k].to
                    ELSE IF h[k].op = "detach" THEN "none"
                    ELSE OwnerAfter(h, k - 1)

\* design: tokenized and CDATA normalization really differ on this literal, and detached = undeclared = CDATA
DesignInv == Value("a") # Value("b") /\ Value("c") = Value("b") /\ Value("none") = Value("b")
=============================================================================
