------------------------------- MODULE CliPool -------------------------------
(***************************************************************************)
(* Documents, selecting expressions and replacement fragments of the C17   *)
(* model; shared by MC_Cli (model checking, REPLAY emission) and Trace_Cli *)
(* (trace validation), which address them by index.                        *)
(***************************************************************************)
EXTENDS Cli

Nd(k, p, pre, loc, uri, v) == [k |-> k, p |-> p, pre |-> pre, loc |-> loc, uri |-> uri, v |-> v, raw |-> <<>>]
RootN      == Nd("root", 0, <<>>, <<>>, <<>>, <<>>)
El(p, n)   == Nd("elem", p, <<>>, Cp(n), <<>>, <<>>)
At(p, n, v) == Nd("attr", p, <<>>, Cp(n), <<>>, Cp(v))
Tx(p, v)   == Nd("text", p, <<>>, <<>>, <<>>, Cp(v))
TxRaw(p, v, raw) == [Nd("text", p, <<>>, <<>>, <<>>, v) EXCEPT !.raw = raw]
Cm(p, v)   == Nd("comment", p, <<>>, <<>>, <<>>, Cp(v))
Pi(p, t, v) == Nd("pi", p, <<>>, Cp(t), <<>>, IF v = "" THEN <<>> ELSE Cp(v))

\* <a x="1"><b>ab</b><!--c--><b y="2"><c/>12</b><?p s?></a>
K1 == [prolog |-> <<>>, nodes |-> <<
  RootN, El(1, "a"), At(2, "x", "1"), El(2, "b"), Tx(4, "ab"), Cm(2, "c"), El(2, "b"), At(7, "y", "2"),
  El(7, "c"), Tx(7, "12"), Pi(2, "p", "s") >>]
\* <a><a><a/>1</a><b><a x="1" y="2"/><b>2</b></b></a>          (selections nested in selections)
K2 == [prolog |-> <<>>, nodes |-> <<
  RootN, El(1, "a"), El(2, "a"), El(3, "a"), Tx(3, "1"), El(2, "b"), El(6, "a"), At(7, "x", "1"), At(7, "y", "2"),
  El(6, "b"), Tx(10, "2") >>]
\* <!DOCTYPE a [<!ENTITY e "12">]><a>1<![CDATA[2]]>&#97;<b/>&e;</a>   (merged text runs "12a" and "12")
K3 == [prolog |-> <<60,33,68,79,67,84,89,80,69,32,97,32,91,60,33,69,78,84,73,84,89,32,101,32,34,49,50,34,62,93,62>>,
       nodes |-> << RootN, El(1, "a"),
                    TxRaw(2, <<49, 50, 97>>, <<49,60,33,91,67,68,65,84,65,91,50,93,93,62,38,35,57,55,59>>),
                    El(2, "b"), TxRaw(2, <<49, 50>>, <<38, 101, 59>>) >>]
\* <!--c--><a><b/><?p s?>1</a><?p?>                             (comments and PIs around the root element)
K4 == [prolog |-> <<>>, nodes |-> <<
  RootN, Cm(1, "c"), El(1, "a"), El(3, "b"), Pi(3, "p", "s"), Tx(3, "1"), Pi(1, "p", "") >>]

\* <r><a>t<?p s?>u</a><b x="1">u</b><b>v</b><c><b>u</b><b>v</b></c></r>
\*   (a PI between two runs of character data; attribute present / absent; children with differing values)
K5 == [prolog |-> <<>>, nodes |-> <<
  RootN, El(1, "r"), El(2, "a"), Tx(3, "t"), Pi(3, "p", "s"), Tx(3, "u"), El(2, "b"), At(7, "x", "1"), Tx(7, "u"),
  El(2, "b"), Tx(10, "v"), El(2, "c"), El(12, "b"), Tx(13, "u"), El(12, "b"), Tx(15, "v") >>]

\* <r xml:lang="(three CJK characters)" x="1"><b/><c><b/></c></r>
\*   (a language tag of multi-byte characters; an attribute on the DOCUMENT element; one node reached from several others)
K6 == [prolog |-> <<>>, nodes |-> <<
  RootN, El(1, "r"),
  Nd("attr", 2, Cp("xml"), <<108, 97, 110, 103>>, XmlNsUri, <<26085, 26412, 35486>>), At(2, "x", "1"),
  El(2, "b"), El(2, "c"), El(6, "b") >>]

\* <r xmlns:p="u1" x="1"><p:b p:x="2"/><b>t</b></r>
\*   (a prefix the DOCUMENT declares: the expression may only use the prefixes given with --setns)
NsN(p, pre, uri) == Nd("ns", p, <<>>, pre, <<>>, uri)
XmlNs(p) == NsN(p, Cp("xml"), XmlNsUri)
K7 == [prolog |-> <<>>, nodes |-> <<
  RootN, El(1, "r"), XmlNs(2), NsN(2, Cp("p"), Cp("u1")), At(2, "x", "1"),
  Nd("elem", 2, Cp("p"), Cp("b"), Cp("u1"), <<>>), XmlNs(6), NsN(6, Cp("p"), Cp("u1")),
  Nd("attr", 6, Cp("p"), Cp("x"), Cp("u1"), Cp("2")),
  El(2, "b"), XmlNs(10), NsN(10, Cp("p"), Cp("u1")), Tx(10, "t") >>]

Docs == <<K1, K2, K3, K4, K5, K6, K7>>

\* ---------------------------------------------------------------------------------------------
NumL(i)    == [t |-> "num", n |-> OfInt(i)]
StrL(s)    == [t |-> "str", v |-> Cp(s)]
Fn1(f, a)  == [t |-> "fn", name |-> f, args |-> <<a>>]
Bin(o, l, r) == [t |-> "bin", op |-> o, l |-> l, r |-> r]
NameT(n)   == [k |-> "name", pre |-> <<>>, loc |-> Cp(n)]
TypeT(ty)  == [k |-> "type", ty |-> ty]
Step(ax, test, preds) == [axis |-> ax, test |-> test, preds |-> preds]
AbsP(steps) == [t |-> "path", abs |-> TRUE, steps |-> steps]
Dos  == Step("descendant-or-self", TypeT("node"), <<>>)
Ch(n) == Step("child", NameT(n), <<>>)
AtS(n) == Step("attribute", NameT(n), <<>>)
Rel(steps) == [t |-> "path", abs |-> FALSE, steps |-> steps]
Fn0(f) == [t |-> "fn", name |-> f, args |-> <<>>]
Raw(s) == [t |-> "raw", text |-> s]          \* an expression given as text (not an expression at all)

\* an expression together with the --setns arguments of the run: the bindings they establish for the expression
\* context, the arguments as text, and whether one of them is not of the documented form (the tool must refuse)
WithNs(e, binds, args, bad) == [t |-> "withns", e |-> e, binds |-> binds, args |-> args, bad |-> bad]
B(pre, uri) == <<Cp(pre), Cp(uri)>>
SetNs(pre, uri) == <<120, 109, 108, 110, 115, 58>> \o Cp(pre) \o <<61>> \o Cp(uri)
QN(pre, n) == [k |-> "name", pre |-> Cp(pre), loc |-> Cp(n)]

\* a LONG flat expression, given as text: true() and true() and ... (n calls).  TLC's stack does not take rendering an
\* abstract syntax tree of that size, so the text is built directly; that it IS the spelling of the left-deep chain and
\* that the chain's value is true is checked for every n <= 24 (ASSUME FlatIsChain in MC_Cli), the long member is the
\* same family further out.
TrueCall == Cp("true") \o <<40, 41>>
RECURSIVE FlatAnd(_)
FlatAnd(n) == IF n = 1 THEN TrueCall        \* halves: the recursion is log n deep; the spelling without optional white space, true()and true()
              ELSE LET h == n \div 2 IN FlatAnd(h) \o Cp("and") \o <<32>> \o FlatAnd(n - h)
RECURSIVE LeftChain(_)
LeftChain(n) == IF n = 1 THEN Fn0("true") ELSE Bin("and", LeftChain(n - 1), Fn0("true"))
Flat(n) == [t |-> "flat", n |-> n, text |-> FlatAnd(n)]

NumHalf(k) == [t |-> "num", n |-> Fin(512 * k)]       \* k/2
RECURSIVE AndChain(_)
AndChain(n) == IF n = 1 THEN Fn0("true") ELSE Bin("and", AndChain(n \div 2), AndChain(n - (n \div 2)))   \* balanced: depth log n

Exprs == <<
  AbsP(<<>>),                                          \* 1   /
  AbsP(<<Ch("a")>>),                                   \* 2   /a
  AbsP(<<Dos, Ch("b")>>),                              \* 3   //b
  AbsP(<<Dos, Ch("a")>>),                              \* 4   //a        (nested in K2)
  AbsP(<<Dos, Ch("c")>>),                              \* 5   //c
  AbsP(<<Dos, AtS("x")>>),                             \* 6   //@x
  AbsP(<<Dos, Ch("b"), AtS("y")>>),                    \* 7   //b/@y
  AbsP(<<Dos, Ch("nofunc")>>),                         \* 8   selects nothing
  AbsP(<<Dos, Step("child", TypeT("text"), <<>>)>>),   \* 9   //text()   (not a container)
  AbsP(<<Dos, Step("child", TypeT("comment"), <<>>)>>),\* 10  //comment()
  Fn1("count", AbsP(<<Dos, Ch("b")>>)),                \* 11  a number
  Bin("|", AbsP(<<Dos, Ch("c")>>), AbsP(<<Dos, Ch("b")>>)),     \* 12  //c | //b
  AbsP(<<Ch("a"), Step("child", NameT("b"), <<NumL(1)>>)>>),    \* 13  /a/b[1]
  Fn1("string", AbsP(<<Ch("a")>>)),                    \* 14  a string
  Bin("=", AbsP(<<Dos, Ch("b")>>), StrL("ab")),        \* 15  a boolean
  Bin("|", AbsP(<<Dos, AtS("x")>>), AbsP(<<Dos, Ch("a")>>)),    \* 16  attributes and elements together
  Raw(<<47, 47, 91>>),                                 \* 17  "//["  syntax error
  Raw(<<>>),                                           \* 18  ""     empty expression
  Fn1("nofunc", NumL(1)),                              \* 19  unknown function
  \* 20  //b[c[@y] or position()=last()]   an inner step whose predicate empties it, then last() in the outer scope
  AbsP(<<Dos, Step("child", NameT("b"),
                   <<Bin("or", Rel(<<Step("child", NameT("c"), <<Rel(<<AtS("y")>>)>>)>>),
                               Bin("=", Fn0("position"), Fn0("last")))>>)>>),
  \* 21  //b[not(c[@y])][last()]           the same inner step inside a function, then a second predicate
  AbsP(<<Dos, Step("child", NameT("b"),
                   <<Fn1("not", Rel(<<Step("child", NameT("c"), <<Rel(<<AtS("y")>>)>>)>>)), Fn0("last")>>)>>),
  AbsP(<<Dos, Ch("a"), Step("child", TypeT("node"), <<>>)>>),                                     \* 22  //a/node()   (text, PI, text)
  AbsP(<<Dos, Step("child", NameT("a"), <<Rel(<<Step("child", TypeT("text"), <<NumL(2)>>)>>)>>)>>),   \* 23  //a[text()[2]]
  AbsP(<<Dos, Step("child", NameT("b"), <<Bin("!=", Rel(<<AtS("x")>>), StrL("1"))>>)>>),            \* 24  //b[@x != '1']   (false without @x)
  AbsP(<<Dos, Step("child", NameT("c"), <<Bin("!=", Rel(<<Ch("b")>>), StrL("u"))>>)>>),             \* 25  //c[b != 'u']    (some b differs)
  AbsP(<<Dos, Ch("c"), Step("attribute", [k |-> "name", pre |-> Cp("q"), loc |-> Cp("x")], <<>>)>>), \* 26  //c/@q:x   unbound prefix, empty axis
  AbsP(<<Dos, AtS("x"), Step("parent", TypeT("node"), <<>>)>>),                                     \* 27  //@x/..    (also from the document element's attribute)
  Fn1("count", AbsP(<<Dos, AtS("x"), Step("ancestor", [k |-> "any"], <<>>)>>)),                      \* 28  count(//@x/ancestor::*)
  Bin("|", AbsP(<<Dos, Ch("b"), Step("ancestor", [k |-> "any"], <<>>)>>), AbsP(<<Dos, Ch("nofunc")>>)),   \* 29  //b/ancestor::* | //nofunc  (one operand empty, the other reaches a node twice)
  AbsP(<<Dos, Step("child", [k |-> "any"], <<Fn1("lang", [t |-> "str", v |-> <<106, 97>>])>>)>>),    \* 30  //*[lang('ja')]
  AbsP(<<Dos, Step("child", [k |-> "any"], <<Fn1("lang", [t |-> "str", v |-> <<26085>>])>>)>>),      \* 31  //*[lang('<first character of the tag>')]
  AbsP(<<Dos, Step("child", NameT("b"), <<NumHalf(3)>>)>>),                                          \* 32  //b[1.5]   selects nothing
  AbsP(<<Dos, Step("child", NameT("b"), <<Bin("div", Fn0("last"), NumL(2))>>)>>),                    \* 33  //b[last() div 2]
  Fn1("number", [t |-> "str", v |-> <<49, 101, 51>>]),                                               \* 34  number('1e3')   NaN: no exponents in XPath 1.0
  Bin(">", [t |-> "str", v |-> <<105, 110, 102>>], NumL(1)),                                         \* 35  'inf' > 1       false
  AndChain(24),                                                                                      \* 36  true() and (true() and ...) - 24 zero-argument calls, balanced (see 48 for the long flat one)
  \* ---- expressions that come with --setns arguments (README: --setns xmlns:<prefix>=<uri>) ----
  WithNs(AbsP(<<Dos, Step("child", QN("q", "b"), <<>>)>>), <<B("q", "u1")>>, <<SetNs("q", "u1")>>, FALSE),         \* 37  //q:b       q = u1: the document calls it p
  WithNs(AbsP(<<Dos, Step("child", QN("q", "b"), <<>>)>>), <<B("q", "u2")>>, <<SetNs("q", "u2")>>, FALSE),         \* 38  //q:b       q = u2: selects nothing
  WithNs(AbsP(<<Dos, Step("attribute", QN("q", "x"), <<>>)>>), <<B("q", "u1")>>, <<SetNs("q", "u1")>>, FALSE),     \* 39  //@q:x
  WithNs(Bin("|", AbsP(<<Dos, Step("child", QN("q", "b"), <<>>)>>), AbsP(<<Dos, Ch("b")>>)),
         <<B("q", "u1"), B("z", "u2")>>, <<SetNs("q", "u1"), SetNs("z", "u2")>>, FALSE),                           \* 40  //q:b | //b   two bindings
  WithNs(AbsP(<<Dos, Step("child", QN("q", "b"), <<>>)>>), <<>>, <<<<113, 61, 117, 49>>>>, TRUE),                            \* 41  --setns q=u1        not the documented form
  WithNs(AbsP(<<Dos, Ch("b")>>), <<>>, <<<<120, 109, 108, 110, 115, 58, 113>>>>, TRUE),                                                   \* 42  --setns xmlns:q     no '='
  WithNs(AbsP(<<Dos, Ch("b")>>), <<>>, <<<<102, 111, 111, 58, 113, 61, 117>>>>, TRUE),                                                   \* 43  --setns foo:q=u     not xmlns
  WithNs(AbsP(<<Dos, Step("child", [k |-> "nsany", pre |-> Cp("q")], <<>>)>>), <<B("q", "u1")>>, <<SetNs("q", "u1")>>, FALSE),   \* 44  //q:*
  AbsP(<<Dos, Step("child", QN("p", "b"), <<>>)>>),                                                                \* 45  //p:b without --setns: the document's own prefix is not part of the expression context
  WithNs(AbsP(<<Dos, Step("child", QN("q", "b"), <<>>)>>), <<B("q", "u1")>>, <<SetNs("q", "u2"), SetNs("q", "u1")>>, FALSE),     \* 46  the same prefix twice: the later binding holds
  WithNs(AbsP(<<Dos, Step("child", QN("q", "b"), <<Rel(<<Step("attribute", QN("q", "x"), <<>>)>>)>>)>>),
         <<B("q", "u1")>>, <<SetNs("q", "u1")>>, FALSE),                                                           \* 47  //q:b[@q:x]
  WithNs(AbsP(<<Dos, Step("child", QN("p", "b"), <<>>)>>), <<B("p", "u2")>>, <<SetNs("p", "u2")>>, FALSE),         \* 48  //p:b with p = u2: the DOCUMENT's p is u1 - the caller's binding counts, nothing is selected
  WithNs(Fn1("count", AbsP(<<Dos, Step("attribute", QN("p", "x"), <<>>)>>)), <<B("p", "u2")>>, <<SetNs("p", "u2")>>, FALSE),  \* 49  count(//@p:x) with p = u2: 0
  Flat(140)                                                                                                        \* 50  true() and true() and ... : 140 zero-argument calls in ONE flat expression
>>

\* ---------------------------------------------------------------------------------------------
LT == 60  GT == 62  SL == 47  QU == 34  EQ == 61  SP == 32  AMP == 38  SEMI == 59  EXCL == 33  DASH == 45  QM == 63
Frags == <<
  Frag(Cp("t"), TRUE, {"text"}, 0, Cp("t"), FALSE),                                               \* 1  t
  Frag(<<LT>> \o Cp("z") \o <<SL, GT>>, TRUE, {"elem"}, 1, <<>>, FALSE),                          \* 2  <z/>
  Frag(<<LT>> \o Cp("z") \o <<SP>> \o Cp("a") \o <<EQ, QU>> \o Cp("b") \o <<QU, GT>> \o Cp("t")
       \o <<LT, SL>> \o Cp("z") \o <<GT>> \o Cp("u"), TRUE, {"elem", "text"}, 1, <<>>, FALSE),    \* 3  <z a="b">t</z>u
  Frag(<<LT, EXCL, DASH, DASH>> \o Cp("c") \o <<DASH, DASH, GT>> \o Cp("t"), TRUE, {"comment", "text"}, 0, <<>>, FALSE), \* 4  <!--c-->t
  Frag(<<>>, TRUE, {}, 0, <<>>, FALSE),                                                           \* 5  (empty)
  Frag(Cp("a") \o <<LT>> \o Cp("b"), FALSE, {}, 0, <<>>, FALSE),                                  \* 6  a<b   ill-formed
  Frag(<<LT, QM>> \o Cp("p") \o <<SP>> \o Cp("x") \o <<QM, GT>>, TRUE, {"pi"}, 0, <<>>, TRUE),    \* 7  <?p x?>
  Frag(<<AMP, 108, 116, SEMI>>, TRUE, {"text"}, 0, <<LT>>, TRUE),                                 \* 8  &lt;
  Frag(<<LT, EXCL, 91, 67, 68, 65, 84, 65, 91, LT, 93, 93, GT>>, TRUE, {"cdata"}, 0, <<>>, FALSE),\* 9  <![CDATA[<]]>
  Frag(Cp("c") \o <<QU>> \o Cp("d"), TRUE, {"text"}, 0, Cp("c") \o <<QU>> \o Cp("d"), FALSE),     \* 10 c"d
  Frag(<<LT>> \o Cp("z") \o <<SL, GT, LT>> \o Cp("z") \o <<SL, GT>>, TRUE, {"elem"}, 2, <<>>, FALSE), \* 11 <z/><z/>
  Frag(<<LT>> \o Cp("z") \o <<GT>> \o Cp("t") \o <<LT>> \o Cp("y") \o <<SL, GT, LT, SL>> \o Cp("z") \o <<GT>>,
       TRUE, {"elem"}, 1, <<>>, FALSE),                                                           \* 12 <z>t<y/></z>
  Frag(Cp("c") \o <<QU>> \o Cp("d") \o <<39>> \o Cp("e"), TRUE, {"text"}, 0,
       Cp("c") \o <<QU>> \o Cp("d") \o <<39>> \o Cp("e"), FALSE),                                   \* 13 c"d'e  (both quotes)
  \* 14 <q:z xmlns:q="k" q:w="1">x</q:z>   a replacement with a prefix, its declaration and a prefixed attribute
  Frag(<<60, 113, 58, 122, 32, 120, 109, 108, 110, 115, 58, 113, 61, 34, 107, 34, 32, 113, 58, 119, 61, 34, 49, 34, 62, 120, 60, 47, 113, 58, 122, 62>>, TRUE, {"elem"}, 1, <<>>, FALSE),
  Frag(<<LT>> \o Cp("z") \o <<SL, GT, SP, LT>> \o Cp("y") \o <<SL, GT>>, TRUE, {"elem", "text"}, 2, <<>>, FALSE),   \* 15 <z/> <y/>   white space only BETWEEN two elements is character data like any other
  Frag(<<SP>>, TRUE, {"text"}, 0, <<SP>>, FALSE),                                                      \* 16 one space
  \* 17 <z xmlns="k"><y xmlns=""/></z>   the default namespace declared and, inside, undeclared again
  Frag(<<60, 122, 32, 120, 109, 108, 110, 115, 61, 34, 107, 34, 62, 60, 121, 32, 120, 109, 108, 110, 115, 61, 34, 34, 47, 62, 60, 47, 122, 62>>, TRUE, {"elem"}, 1, <<>>, FALSE)
>>

ValOf(di, ei) ==
  LET x == Exprs[ei] IN
  IF x.t = "raw" THEN Err
  ELSE IF x.t = "flat" THEN [t |-> "bool", v |-> TRUE]
  ELSE IF x.t = "withns" THEN (IF x.bad THEN Err ELSE EvalTop(Docs[di], x.e, x.binds))
  ELSE EvalTop(Docs[di], x, <<>>)
ExprText(ei) ==
  LET x == Exprs[ei] IN
  IF x.t \in {"raw", "flat"} THEN x.text
  ELSE Unparse(IF x.t = "withns" THEN x.e ELSE x, [abbrev |-> TRUE, ws |-> 0, parens |-> FALSE])
\* the --setns arguments of a run, in order
SetnsOf(ei) == IF Exprs[ei].t = "withns" THEN Exprs[ei].args ELSE <<>>
\* documents a --setns expression is run on (the pool is a product otherwise)
NsExprs == {e \in 1..Len(Exprs) : Exprs[e].t = "withns"} \cup {45}
RunsOn(di, ei) == (ei \in NsExprs => di \in {1, 7}) /\ (Exprs[ei].t = "flat" => di = 1) /\ (di = 7 => ei \in NsExprs \cup {1, 2, 3, 6, 8, 13, 17, 26, 27})
\* the text of the flat family is the spelling of the left-deep chain, whose value is true (small members)
FlatIsChain == \A n \in 1..24 : /\ FlatAnd(n) = Unparse(LeftChain(n), [abbrev |-> TRUE, ws |-> 0, parens |-> FALSE])
                                 /\ EvalTop(Docs[1], LeftChain(n), <<>>) = [t |-> "bool", v |-> TRUE]
=============================================================================
