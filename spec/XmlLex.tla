------------------------------- MODULE XmlLex -------------------------------
(***************************************************************************)
(* A character-level scanner for XML text, in TLA+: Lex(text) turns a      *)
(* sequence of code points back into tokens of XmlDoc.tla.  Together with  *)
(* the token machine it is a complete recogniser for text:                 *)
(*       RecognizeText(text) == Recognize(Lex(text))                       *)
(* Its purpose is to CHECK THE RENDERER (stage 2 of DESIGN section 4 C01): *)
(* MC_Doc verifies, for every well-formed behaviour and every style, that  *)
(*       RecognizeText(Render(toks, style)).tree = tree(toks)              *)
(* i.e. that no surface-syntax choice changes what the text denotes, with  *)
(* the text read back by an independent definition of the syntax           *)
(* (productions [1]-[88] as a scanner) rather than by construction.        *)
(* The scanner is total: anything it cannot read becomes a "lexerror"      *)
(* token, which the machine rejects (BadToken).  Parameter entities (a     *)
(* declaration <!ENTITY % ..> or a reference %name; in the internal        *)
(* subset) are outside what this specification models: they become a       *)
(* "peref" token, the scan stops, and the machine labels the document      *)
(* "ParameterEntity" - a label no property draws a conclusion from.        *)
(***************************************************************************)
EXTENDS XmlDoc

At(s, i) == IF i >= 1 /\ i <= Len(s) THEN s[i] ELSE -1
Has(s, i, lit) == i + Len(lit) - 1 <= Len(s) /\ SubSeq(s, i, i + Len(lit) - 1) = lit

RECURSIVE SkipWs(_, _)
SkipWs(s, i) == IF i <= Len(s) /\ IsWs(s[i]) THEN SkipWs(s, i + 1) ELSE i

\* end (exclusive) of the maximal run of NameChars starting at i
RECURSIVE NameEnd(_, _)
NameEnd(s, i) == IF i <= Len(s) /\ IsNameChar(s[i]) THEN NameEnd(s, i + 1) ELSE i

\* first index >= i where lit occurs, or 0
RECURSIVE Find(_, _, _)
Find(s, i, lit) == IF i + Len(lit) - 1 > Len(s) THEN 0 ELSE IF Has(s, i, lit) THEN i ELSE Find(s, i + 1, lit)

RECURSIVE FindCh(_, _, _)
FindCh(s, i, c) == IF i > Len(s) THEN 0 ELSE IF s[i] = c THEN i ELSE FindCh(s, i + 1, c)

RECURSIVE DecVal(_, _)
DecVal(ds, acc) == IF ds = <<>> THEN acc
                   ELSE IF acc > 100000000 THEN acc ELSE DecVal(Tail(ds), acc * 10 + (Head(ds) - 48))
HexDig(c) == IF c >= 48 /\ c <= 57 THEN c - 48 ELSE IF c >= 65 /\ c <= 70 THEN c - 55 ELSE IF c >= 97 /\ c <= 102 THEN c - 87 ELSE -1
RECURSIVE HexVal(_, _)
HexVal(ds, acc) == IF ds = <<>> THEN acc
                   ELSE IF acc > 100000000 THEN acc ELSE HexVal(Tail(ds), acc * 16 + HexDig(Head(ds)))

\* items of character data / literal between i and e (exclusive): references and characters.
\* A reference that cannot be read becomes a raw "x" item (always ill-formed).
RECURSIVE Items(_, _, _, _)
Items(s, i, e, ctx) ==
  IF i >= e THEN <<>>
  ELSE IF s[i] = 38
       THEN LET semi == FindCh(s, i, 59)
            IN IF semi = 0 \/ semi >= e THEN <<[t |-> "x", s |-> <<38, 32>>, why |-> "BareAmp"]>> \o Items(s, i + 1, e, ctx)
               ELSE LET body == SubSeq(s, i + 1, semi - 1)
                    IN (IF Len(body) >= 3 /\ body[1] = 35 /\ body[2] = 120 /\ \A k \in 3..Len(body) : HexDig(body[k]) >= 0
                        THEN <<RI(HexVal(SubSeq(body, 3, Len(body)), 0))>>
                        ELSE IF Len(body) >= 2 /\ body[1] = 35 /\ \A k \in 2..Len(body) : IsDigit(body[k])
                        THEN <<RI(DecVal(SubSeq(body, 2, Len(body)), 0))>>
                        ELSE IF body # <<>> /\ NameEnd(body, 1) = Len(body) + 1
                        THEN <<EI(body)>>
                        ELSE <<[t |-> "x", s |-> <<38, 32>>, why |-> "BareAmp"]>>)
                       \o Items(s, semi + 1, e, ctx)
       ELSE IF ctx = "text" /\ i + 2 <= e - 1 /\ s[i] = 93 /\ s[i + 1] = 93 /\ s[i + 2] = 62   \* [14] CharData
       THEN <<[t |-> "x", s |-> <<93, 93, 62>>, why |-> "CDEndInText"]>> \o Items(s, i + 3, e, ctx)
       ELSE IF ctx = "attr" /\ s[i] = 60                                                  \* [10] AttValue
       THEN <<[t |-> "x", s |-> <<60>>, why |-> "LtInAttr"]>> \o Items(s, i + 1, e, ctx)
       ELSE <<CI(s[i])>> \o Items(s, i + 1, e, ctx)

\* a quoted literal starting at i (s[i] is the quote): [ok, body start, body end (exclusive), next]
Quoted(s, i) ==
  LET q == At(s, i)
      close == IF q \in {34, 39} THEN FindCh(s, i + 1, q) ELSE 0
  IN [ok |-> close # 0, b |-> i + 1, e |-> close, next |-> close + 1]

LexError(why) == [k |-> "lexerror", why |-> why]

\* pseudo-attributes of the XML declaration between i and the closing "?>" at e
XmlDeclTok(s, i, e) ==
  LET Pseudo(j, name) ==   \* [ok, b, e, next] of  S name Eq quoted
        LET j1 == SkipWs(s, j)
            j2 == j1 + Len(name)
            j3 == SkipWs(s, j2)
            j4 == SkipWs(s, j3 + 1)
            q  == Quoted(s, j4)
        IN IF j1 > j /\ Has(s, j1, name) /\ At(s, j3) = 61 /\ q.ok
           THEN [ok |-> TRUE, b |-> q.b, e |-> q.e, next |-> q.next]
           ELSE [ok |-> FALSE, b |-> 0, e |-> 0, next |-> j]
      v == Pseudo(i, <<118, 101, 114, 115, 105, 111, 110>>)
      en == Pseudo(v.next, <<101, 110, 99, 111, 100, 105, 110, 103>>)
      sa == Pseudo(en.next, <<115, 116, 97, 110, 100, 97, 108, 111, 110, 101>>)
      sav == IF sa.ok THEN SubSeq(s, sa.b, sa.e - 1) ELSE <<>>
  IN IF ~v.ok \/ SkipWs(s, sa.next) # e \/ (sa.ok /\ sav \notin {<<121, 101, 115>>, <<110, 111>>})
     THEN LexError("xmldecl")
     ELSE [k |-> "xmldecl", ver |-> SubSeq(s, v.b, v.e - 1),
           enc |-> IF en.ok THEN SubSeq(s, en.b, en.e - 1) ELSE <<>>,
           sa |-> IF ~sa.ok THEN "none" ELSE IF sav = <<121, 101, 115>> THEN "yes" ELSE "no"]

\* external identifier at i: [ok, ext, pub, sys, next]; allowPubOnly for NOTATION
ExtIdAt(s, i, allowPubOnly) ==
  IF Has(s, i, <<83, 89, 83, 84, 69, 77>>)
  THEN LET q == Quoted(s, SkipWs(s, i + 6))
       IN [ok |-> q.ok /\ IsWs(At(s, i + 6)), ext |-> "system", pub |-> <<>>,
           sys |-> IF q.ok THEN SubSeq(s, q.b, q.e - 1) ELSE <<>>, next |-> q.next]
  ELSE IF Has(s, i, <<80, 85, 66, 76, 73, 67>>)
  THEN LET q1 == Quoted(s, SkipWs(s, i + 6))
           j  == IF q1.ok THEN SkipWs(s, q1.next) ELSE 0
           q2 == IF q1.ok /\ j > q1.next THEN Quoted(s, j) ELSE [ok |-> FALSE, b |-> 0, e |-> 0, next |-> 0]
       IN IF q1.ok /\ q2.ok
          THEN [ok |-> IsWs(At(s, i + 6)), ext |-> "public", pub |-> SubSeq(s, q1.b, q1.e - 1),
                sys |-> SubSeq(s, q2.b, q2.e - 1), next |-> q2.next]
          ELSE [ok |-> q1.ok /\ allowPubOnly /\ IsWs(At(s, i + 6)), ext |-> "pubonly",
                pub |-> IF q1.ok THEN SubSeq(s, q1.b, q1.e - 1) ELSE <<>>, sys |-> <<>>, next |-> q1.next]
  ELSE [ok |-> FALSE, ext |-> "none", pub |-> <<>>, sys |-> <<>>, next |-> i]

TypeOf(kw) ==
  CASE kw = <<67, 68, 65, 84, 65>> -> "CDATA" [] kw = <<73, 68>> -> "ID" [] kw = <<73, 68, 82, 69, 70>> -> "IDREF"
    [] kw = <<73, 68, 82, 69, 70, 83>> -> "IDREFS" [] kw = <<69, 78, 84, 73, 84, 89>> -> "ENTITY"
    [] kw = <<69, 78, 84, 73, 84, 73, 69, 83>> -> "ENTITIES" [] kw = <<78, 77, 84, 79, 75, 69, 78>> -> "NMTOKEN"
    [] kw = <<78, 77, 84, 79, 75, 69, 78, 83>> -> "NMTOKENS" [] kw = <<78, 79, 84, 65, 84, 73, 79, 78>> -> "NOTATION"
    [] OTHER -> ""

\* "(" S? tok (S? "|" S? tok)* S? ")" at i: [ok, en, next]
RECURSIVE EnumToks(_, _)
EnumToks(s, i) ==
  LET j == SkipWs(s, i)
      e == NameEnd(s, j)
      k == SkipWs(s, e)
  IN IF e = j THEN [ok |-> FALSE, en |-> <<>>, next |-> i]
     ELSE IF At(s, k) = 41 THEN [ok |-> TRUE, en |-> <<SubSeq(s, j, e - 1)>>, next |-> k + 1]
     ELSE IF At(s, k) = 124
          THEN LET r == EnumToks(s, k + 1) IN [ok |-> r.ok, en |-> <<SubSeq(s, j, e - 1)>> \o r.en, next |-> r.next]
     ELSE [ok |-> FALSE, en |-> <<>>, next |-> i]

\* attribute definitions of an ATTLIST from i up to the closing '>' : [ok, defs, next (after '>')]
RECURSIVE AttDefs(_, _)
AttDefs(s, i) ==
  LET j == SkipWs(s, i)
  IN IF At(s, j) = 62 THEN [ok |-> TRUE, defs |-> <<>>, next |-> j + 1]
     ELSE IF j = i THEN [ok |-> FALSE, defs |-> <<>>, next |-> i]
     ELSE
     LET ne == NameEnd(s, j)
         t0 == SkipWs(s, ne)
         isEnum == At(s, t0) = 40
         kwe == NameEnd(s, t0)
         ty0 == IF isEnum THEN "ENUM" ELSE TypeOf(SubSeq(s, t0, kwe - 1))
         en == IF isEnum THEN EnumToks(s, t0 + 1)
               ELSE IF ty0 = "NOTATION" /\ At(s, SkipWs(s, kwe)) = 40 THEN EnumToks(s, SkipWs(s, kwe) + 1)
               ELSE [ok |-> ty0 # "NOTATION", en |-> <<>>, next |-> kwe]
         d0 == SkipWs(s, en.next)
         fixed == Has(s, d0, <<35, 70, 73, 88, 69, 68>>)
         d1 == IF fixed THEN SkipWs(s, d0 + 6) ELSE d0
         q == Quoted(s, d1)
         dk == IF Has(s, d0, <<35, 73, 77, 80, 76, 73, 69, 68>>) THEN "IMPLIED"
               ELSE IF Has(s, d0, <<35, 82, 69, 81, 85, 73, 82, 69, 68>>) THEN "REQUIRED"
               ELSE IF fixed THEN "FIXED" ELSE "VALUE"
         after == CASE dk = "IMPLIED" -> d0 + 8 [] dk = "REQUIRED" -> d0 + 9 [] OTHER -> q.next
         okHere == /\ ne > j /\ t0 > ne /\ ty0 # "" /\ en.ok /\ d0 > en.next
                   /\ (dk \in {"VALUE", "FIXED"} => q.ok)
     IN IF ~okHere THEN [ok |-> FALSE, defs |-> <<>>, next |-> i]
        ELSE LET r == AttDefs(s, after)
             IN [ok |-> r.ok,
                 defs |-> <<[n |-> SubSeq(s, j, ne - 1), ty |-> ty0, en |-> en.en, dk |-> dk,
                             dv |-> IF dk \in {"VALUE", "FIXED"} THEN Items(s, q.b, q.e, "attr") ELSE <<>>]>> \o r.defs,
                 next |-> r.next]

\* attributes of a tag from i: [ok, attrs, next (at '>' or '/')]
RECURSIVE TagAttrs(_, _)
TagAttrs(s, i) ==
  LET j == SkipWs(s, i)
  IN IF At(s, j) \in {62, 47} THEN [ok |-> TRUE, attrs |-> <<>>, next |-> j]
     ELSE LET ne == NameEnd(s, j)
              e1 == SkipWs(s, ne)
              q == Quoted(s, SkipWs(s, e1 + 1))
          IN IF j = i \/ ne = j \/ At(s, e1) # 61 \/ ~q.ok THEN [ok |-> FALSE, attrs |-> <<>>, next |-> i]
             ELSE LET r == TagAttrs(s, q.next)
                  IN [ok |-> r.ok, attrs |-> <<[n |-> SubSeq(s, j, ne - 1), v |-> Items(s, q.b, q.e, "attr")]>> \o r.attrs,
                      next |-> r.next]

\* one piece of markup starting at i with s[i] = '<' : [toks, next]
Markup(s, i, indtd) ==
  IF Has(s, i, <<60, 33, 45, 45>>)
  THEN LET e == Find(s, i + 4, <<45, 45, 62>>)
       IN IF e = 0 THEN [toks |-> <<LexError("comment")>>, next |-> Len(s) + 1]
          ELSE [toks |-> <<[k |-> "comment", v |-> SubSeq(s, i + 4, e - 1)]>>, next |-> e + 3]
  ELSE IF Has(s, i, <<60, 63>>)
  THEN LET e == Find(s, i + 2, <<63, 62>>)
           ne == NameEnd(s, i + 2)
           name == SubSeq(s, i + 2, ne - 1)
       IN IF e = 0 \/ ne = i + 2 \/ ne > e THEN [toks |-> <<LexError("pi")>>, next |-> Len(s) + 1]
          ELSE IF name = <<120, 109, 108>> THEN [toks |-> <<XmlDeclTok(s, ne, e)>>, next |-> e + 2]
          ELSE IF ne = e THEN [toks |-> <<[k |-> "pi", n |-> name, v |-> <<>>]>>, next |-> e + 2]
          ELSE IF ~IsWs(s[ne]) THEN [toks |-> <<LexError("pi")>>, next |-> e + 2]
          ELSE [toks |-> <<[k |-> "pi", n |-> name, v |-> SubSeq(s, SkipWs(s, ne), e - 1)]>>, next |-> e + 2]
  ELSE IF Has(s, i, <<60, 33, 91, 67, 68, 65, 84, 65, 91>>)
  THEN LET e == Find(s, i + 9, <<93, 93, 62>>)
       IN IF e = 0 THEN [toks |-> <<LexError("cdata")>>, next |-> Len(s) + 1]
          ELSE [toks |-> <<[k |-> "cdata", v |-> SubSeq(s, i + 9, e - 1)]>>, next |-> e + 3]
  ELSE IF Has(s, i, <<60, 33, 68, 79, 67, 84, 89, 80, 69>>)
  THEN LET j == SkipWs(s, i + 9)
           ne == NameEnd(s, j)
           k0 == SkipWs(s, ne)
           x == ExtIdAt(s, k0, FALSE)
           k1 == SkipWs(s, IF x.ok THEN x.next ELSE ne)
       IN IF j = i + 9 \/ ne = j \/ (x.ok /\ k0 = ne) \/ At(s, k1) \notin {91, 62}
          THEN [toks |-> <<LexError("doctype")>>, next |-> Len(s) + 1]
          ELSE [toks |-> <<[k |-> "doctype", n |-> SubSeq(s, j, ne - 1), ext |-> IF x.ok THEN x.ext ELSE "none",
                            pub |-> IF x.ok THEN x.pub ELSE <<>>, sys |-> IF x.ok THEN x.sys ELSE <<>>,
                            subset |-> (At(s, k1) = 91)]>>, next |-> k1 + 1]
  ELSE IF Has(s, i, <<60, 33, 69, 78, 84, 73, 84, 89>>) /\ At(s, SkipWs(s, i + 8)) = 37
  THEN [toks |-> <<[k |-> "peref"]>>, next |-> Len(s) + 1]     \* <!ENTITY % ...: parameter entity
  ELSE IF Has(s, i, <<60, 33, 69, 78, 84, 73, 84, 89>>)
  THEN LET j == SkipWs(s, i + 8)
           ne == NameEnd(s, j)
           k0 == SkipWs(s, ne)
           q == Quoted(s, k0)
           x == ExtIdAt(s, k0, FALSE)
           n0 == SkipWs(s, x.next)
           hasNd == x.ok /\ Has(s, n0, <<78, 68, 65, 84, 65>>)
           nd0 == SkipWs(s, n0 + 5)
           nde == NameEnd(s, nd0)
           close == SkipWs(s, IF q.ok THEN q.next ELSE IF hasNd THEN nde ELSE x.next)
       IN IF j = i + 8 \/ ne = j \/ k0 = ne \/ ~(q.ok \/ x.ok) \/ At(s, close) # 62
          THEN [toks |-> <<LexError("entity")>>, next |-> Len(s) + 1]
          ELSE IF q.ok THEN [toks |-> <<[k |-> "entity", n |-> SubSeq(s, j, ne - 1), v |-> Items(s, q.b, q.e, "entity")]>>, next |-> close + 1]
          ELSE [toks |-> <<[k |-> "uentity", n |-> SubSeq(s, j, ne - 1), ext |-> x.ext, pub |-> x.pub, sys |-> x.sys,
                            ndata |-> IF hasNd THEN SubSeq(s, nd0, nde - 1) ELSE <<>>]>>, next |-> close + 1]
  ELSE IF Has(s, i, <<60, 33, 78, 79, 84, 65, 84, 73, 79, 78>>)
  THEN LET j == SkipWs(s, i + 10)
           ne == NameEnd(s, j)
           k0 == SkipWs(s, ne)
           x == ExtIdAt(s, k0, TRUE)
           close == SkipWs(s, x.next)
       IN IF j = i + 10 \/ ne = j \/ k0 = ne \/ ~x.ok \/ At(s, close) # 62
          THEN [toks |-> <<LexError("notation")>>, next |-> Len(s) + 1]
          ELSE [toks |-> <<[k |-> "notation", n |-> SubSeq(s, j, ne - 1), ext |-> x.ext, pub |-> x.pub, sys |-> x.sys]>>,
                next |-> close + 1]
  ELSE IF Has(s, i, <<60, 33, 65, 84, 84, 76, 73, 83, 84>>)
  THEN LET j == SkipWs(s, i + 9)
           ne == NameEnd(s, j)
           r == AttDefs(s, ne)
       IN IF j = i + 9 \/ ne = j \/ ~r.ok THEN [toks |-> <<LexError("attlist")>>, next |-> Len(s) + 1]
          ELSE [toks |-> <<[k |-> "attlist", el |-> SubSeq(s, j, ne - 1), defs |-> r.defs]>>, next |-> r.next]
  ELSE IF Has(s, i, <<60, 33, 69, 76, 69, 77, 69, 78, 84>>)
  THEN LET j == SkipWs(s, i + 9)
           ne == NameEnd(s, j)
           k0 == SkipWs(s, ne)
           close == FindCh(s, k0, 62)
           \* the content spec: up to the closing '>' without trailing white space
           RECURSIVE TrimEnd(_)
           TrimEnd(e) == IF e > k0 /\ IsWs(s[e - 1]) THEN TrimEnd(e - 1) ELSE e
       IN IF j = i + 9 \/ ne = j \/ k0 = ne \/ close = 0 THEN [toks |-> <<LexError("elemdecl")>>, next |-> Len(s) + 1]
          ELSE [toks |-> <<[k |-> "elemdecl", n |-> SubSeq(s, j, ne - 1), v |-> SubSeq(s, k0, TrimEnd(close) - 1)]>>,
                next |-> close + 1]
  ELSE IF Has(s, i, <<60, 47>>)
  THEN LET ne == NameEnd(s, i + 2)
           close == SkipWs(s, ne)
       IN IF ne = i + 2 \/ At(s, close) # 62 THEN [toks |-> <<LexError("etag")>>, next |-> Len(s) + 1]
          ELSE [toks |-> <<[k |-> "etag", n |-> SubSeq(s, i + 2, ne - 1)]>>, next |-> close + 1]
  ELSE LET ne == NameEnd(s, i + 1)
           r == TagAttrs(s, ne)
           name == SubSeq(s, i + 1, ne - 1)
       IN IF ne = i + 1 \/ ~r.ok THEN [toks |-> <<LexError("stag")>>, next |-> Len(s) + 1]
          ELSE IF At(s, r.next) = 62
               THEN [toks |-> <<[k |-> "stag", n |-> name, attrs |-> r.attrs, lex |-> "ok"]>>, next |-> r.next + 1]
          ELSE IF Has(s, r.next, <<47, 62>>)
               THEN [toks |-> <<[k |-> "stag", n |-> name, attrs |-> r.attrs, lex |-> "ok"], [k |-> "etag", n |-> name]>>,
                     next |-> r.next + 2]
          ELSE [toks |-> <<LexError("stag")>>, next |-> Len(s) + 1]

\* end (exclusive) of the character data starting at i
RECURSIVE TextEnd(_, _)
TextEnd(s, i) == IF i > Len(s) \/ s[i] = 60 THEN i ELSE TextEnd(s, i + 1)

\* depth: open elements; indtd: inside the internal subset
RECURSIVE LexFrom(_, _, _, _)
LexFrom(s, i, depth, indtd) ==
  IF i > Len(s) THEN <<[k |-> "end"]>>
  ELSE IF s[i] = 60
  THEN LET m == Markup(s, i, indtd)
           k == m.toks[1].k
           d1 == depth + (IF k = "stag" THEN 1 ELSE 0)
                       - Cardinality({ j \in 1..Len(m.toks) : m.toks[j].k = "etag" })
       IN m.toks \o LexFrom(s, m.next, IF d1 < 0 THEN 0 ELSE d1,
                            IF k = "doctype" THEN m.toks[1].subset ELSE indtd)
  ELSE IF indtd /\ depth = 0 /\ s[i] = 37
  THEN <<[k |-> "peref"], [k |-> "end"]>>                       \* %name; in the internal subset
  ELSE IF indtd /\ depth = 0 /\ s[i] = 93 /\ At(s, SkipWs(s, i + 1)) = 62
  THEN <<[k |-> "dtdend"]>> \o LexFrom(s, SkipWs(s, i + 1) + 1, depth, FALSE)
  ELSE LET e == TextEnd(s, i)
           e1 == IF indtd /\ depth = 0 /\ FindCh(s, i, 93) # 0 /\ FindCh(s, i, 93) < e THEN FindCh(s, i, 93) ELSE e
           e2 == IF e1 = i THEN i + 1 ELSE e1
           run == SubSeq(s, i, e2 - 1)
       IN (IF depth = 0 /\ AllWs(run) THEN <<[k |-> "ws", v |-> run]>>
           ELSE <<[k |-> "text", items |-> Items(s, i, e2, "text")]>>)
          \o LexFrom(s, e2, depth, indtd)

Lex(text) == LexFrom(text, 1, 0, FALSE)
RecognizeText(text) == Recognize(Lex(text))
=============================================================================
