SPECIFICATION Spec
CONSTANTS MaxTokens = 4
 MaxDepth = 2
 MaxBad = 1
 MaxTop = 2
 MaxDtd = 2
 MaxTrunc = 2
 Wide = FALSE
 NStylesGood = 4
 NStylesBad = 2
INVARIANT MachineInv
CHECK_DEADLOCK FALSE
