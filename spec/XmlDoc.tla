------------------------------- MODULE XmlDoc -------------------------------
(***************************************************************************)
(* The XML 1.0 document as a TOKEN MACHINE (DESIGN.md Appendix C).         *)
(*                                                                         *)
(* A document is written as a sequence of tokens; the machine consumes one *)
(* token per step.  For every (state, token) there is exactly one          *)
(* transition: the GOOD action of the token kind when all guards           *)
(* (productions / well-formedness constraints) hold, otherwise the BAD     *)
(* action named after the first violated guard.  The machine is total, so  *)
(* the same definition serves the writer (MC_Doc: TLC enumerates           *)
(* behaviours), the recogniser (Recognize = fold) and trace validation.    *)
(*                                                                         *)
(* What the document denotes is the `tree` built by the good actions (the  *)
(* information set of DESIGN 2.1, flattened: nodes in document order with  *)
(* a parent index; character data as maximal runs after reference          *)
(* expansion).  The concrete text is produced from the tokens by           *)
(* XmlSurface!Render(toks, style); the tree does not mention the style.    *)
(*                                                                         *)
(* Tokens (records; text = sequence of code points; names too):            *)
(*  [k|->"xmldecl", ver, enc, sa]      sa in {"yes","no","none"}, enc <<>> = none *)
(*  [k|->"ws", v]                      literal white space                 *)
(*  [k|->"comment", v]   [k|->"pi", n, v]                                  *)
(*  [k|->"doctype", n, ext, pub, sys, subset]  ext in {"none","system","public"} *)
(*  [k|->"entity", n, v]               internal general entity, v: Items   *)
(*  [k|->"uentity", n, ext, pub, sys, ndata]   external (unparsed if ndata # <<>>) *)
(*  [k|->"notation", n, ext, pub, sys] ext in {"system","public","pubonly"}*)
(*  [k|->"attlist", el, defs]          defs: Seq [n, ty, en, dk, dv]       *)
(*  [k|->"elemdecl", n, v]             v: content spec, code points        *)
(*  [k|->"dtdend"]                                                         *)
(*  [k|->"stag", n, attrs, lex]        attrs: Seq [n, v: Items]; lex in    *)
(*                                     {"ok","unquoted","nospace"}         *)
(*  [k|->"etag", n]   [k|->"text", items]   [k|->"cdata", v]   [k|->"end"] *)
(* Items (AttrNorm): "c" literal source character, "r" character           *)
(* reference, "e" entity reference, plus "x" = a raw ill-formed fragment   *)
(* [t|->"x", s|->cps, why|->label] (only fragments of RawTable).           *)
(***************************************************************************)
EXTENDS XmlChar, AttrNorm

(***************************************************************************)
(* helpers on code-point sequences                                         *)
(***************************************************************************)
HasSub(s, sub) == \E i \in 1..(Len(s) - Len(sub) + 1) : SubSeq(s, i, i + Len(sub) - 1) = sub
StartsWith(s, p) == Len(s) >= Len(p) /\ SubSeq(s, 1, Len(p)) = p
AllChar(s) == \A i \in 1..Len(s) : IsChar(s[i])
AllWs(s) == \A i \in 1..Len(s) : IsWs(s[i])
SeqToSet(s) == { s[i] : i \in 1..Len(s) }

\* 2.11 on plain code points
RECURSIVE Eol(_)
Eol(s) == IF s = <<>> THEN <<>>
          ELSE IF Head(s) = 13
               THEN IF Len(s) >= 2 /\ s[2] = 10 THEN <<10>> \o Eol(Tail(Tail(s)))
                    ELSE <<10>> \o Eol(Tail(s))
               ELSE <<Head(s)>> \o Eol(Tail(s))

RECURSIVE DropWs(_)
DropWs(s) == IF s # <<>> /\ IsWs(Head(s)) THEN DropWs(Tail(s)) ELSE s

C_xmlns == <<120, 109, 108, 110, 115>>
C_xml   == <<120, 109, 108>>
IsNsAttrName(n) == n = C_xmlns \/ (IsQName(n) /\ QPrefix(n) = C_xmlns)

\* [23]-[26] version "1." digits ; [81] EncName
IsDigit(c) == c >= 48 /\ c <= 57
IsVersionNum(s) == Len(s) >= 3 /\ s[1] = 49 /\ s[2] = 46 /\ \A i \in 3..Len(s) : IsDigit(s[i])
IsEncNameStr(s) == Len(s) >= 1 /\ IsEncStart(s[1]) /\ \A i \in 2..Len(s) : IsEncName(s[i])
AllPubid(s) == \A i \in 1..Len(s) : IsPubid(s[i])

\* content specs the writer may use in <!ELEMENT ...> (not information items; representative
\* spellings of [46]-[51]); anything else is outside what the token stands for.
KnownSpecs == {
  <<69,77,80,84,89>>,                               \* EMPTY
  <<65,78,89>>,                                     \* ANY
  <<40,35,80,67,68,65,84,65,41>>,                   \* (#PCDATA)
  <<40,35,80,67,68,65,84,65,124,97,124,98,41,42>>,  \* (#PCDATA|a|b)*
  <<40,97,44,98,63,41>>,                            \* (a,b?)
  <<40,40,97,124,98,41,42,44,99,43,41>>,            \* ((a|b)*,c+)
  <<40,97,124,98,41,42>> }                          \* (a|b)*
\* content specs that are NOT derivable from [46]-[51]: a mixed-content model that lists names must end in ")*" [51];
\* a group mixes "," and "|" [49] [50]; an occurrence indicator is doubled [48]; a group is empty
BadSpecs == {
  <<40,35,80,67,68,65,84,65,124,97,41>>,   \* (#PCDATA|a)
  <<40,35,80,67,68,65,84,65,124,97,124,98,41>>,   \* (#PCDATA|a|b)
  <<40,35,80,67,68,65,84,65,124,97,41,43>>,   \* (#PCDATA|a)+
  <<40,97,44,98,124,99,41>>,   \* (a,b|c)
  <<40,97,124,98,41,42,63>>,   \* (a|b)*?
  <<40,41>> }  \* ()

\* raw fragments: each one makes the text ill-formed wherever the item may occur, whatever
\* follows (the argument is next to each entry).
RawTable == {
  [s |-> <<60>>,         why |-> "LtInAttr", ctx |-> "attr"],   \* '<' is excluded from AttValue [10]
  [s |-> <<38, 32>>,     why |-> "BareAmp",  ctx |-> "attr"],   \* '&' must start Reference [67]: Name or '#' follows, never ' '
  [s |-> <<60, 32>>,     why |-> "LtInText", ctx |-> "text"],   \* '<' + ' ' starts no markup [39],[43]; CharData excludes '<' [14]
  [s |-> <<38, 32>>,     why |-> "BareAmp",  ctx |-> "text"],   \* as above
  [s |-> <<38, 97, 32>>, why |-> "BareAmp",  ctx |-> "text"],   \* '&a ' - EntityRef needs ';' right after the Name [68]
  [s |-> <<93, 93, 62>>, why |-> "CDEndInText", ctx |-> "text"] }\* CharData excludes ']]>' [14]

(***************************************************************************)
(* State                                                                   *)
(***************************************************************************)
NoXmlDecl == [present |-> FALSE, ver |-> <<>>, enc |-> <<>>, sa |-> "none"]
NoDoctype == [present |-> FALSE, n |-> <<>>, ext |-> "none", pub |-> <<>>, sys |-> <<>>, pos |-> 0,
              uents |-> {}, nots |-> {}, pis |-> <<>>]

InitState ==
  [phase |-> "start", stack |-> <<>>, open |-> <<>>, seenDoctype |-> FALSE, extSubset |-> FALSE,
   ents |-> <<>>, unparsed |-> {}, external |-> {}, attlists |-> <<>>, pendingCr |-> FALSE,
   eol |-> TRUE,      \* 2.11 line-end handling on (FALSE only in the as-is model of a catalogued finding)
   tree |-> [xmldecl |-> NoXmlDecl, doctype |-> NoDoctype, nodes |-> <<>>],
   wf |-> TRUE, inprofile |-> TRUE, viol |-> <<>>]

Node(k, p, n, v, a) == [k |-> k, p |-> p, n |-> n, v |-> v, a |-> a]
CurParent(st) == IF st.open = <<>> THEN 0 ELSE st.open[Len(st.open)]
TopCount(st) == Cardinality({ i \in 1..Len(st.tree.nodes) : st.tree.nodes[i].p = 0 })

AddNode(st, node) == [st EXCEPT !.tree.nodes = Append(@, node), !.pendingCr = FALSE]

\* append already-denoted characters (no line-end processing) to the current run
AddChars(st, cs) ==
  IF cs = <<>> THEN st
  ELSE LET ns == st.tree.nodes
           p  == CurParent(st)
       IN IF ns # <<>> /\ ns[Len(ns)].k = "chars" /\ ns[Len(ns)].p = p
          THEN [st EXCEPT !.tree.nodes[Len(ns)].v = @ \o cs]
          ELSE [st EXCEPT !.tree.nodes = Append(@, Node("chars", p, <<>>, cs, {}))]

\* one literal source character of content: 2.11 across item and token boundaries
AddLiteral1(st, c) ==
  IF ~st.eol THEN AddChars(st, <<c>>)
  ELSE IF c = 13 THEN [AddChars(st, <<10>>) EXCEPT !.pendingCr = TRUE]
  ELSE IF c = 10 /\ st.pendingCr THEN [st EXCEPT !.pendingCr = FALSE]
  ELSE [AddChars(st, <<c>>) EXCEPT !.pendingCr = FALSE]

RECURSIVE AddLiteral(_, _)
AddLiteral(st, cs) == IF cs = <<>> THEN st ELSE AddLiteral(AddLiteral1(st, Head(cs)), Tail(cs))

(***************************************************************************)
(* Entities in content (4.4 Included): the replacement text, recursively;  *)
(* no white-space normalization.  Total (fuel), see AttrNorm.              *)
(***************************************************************************)
\* replacement text with (eol) or without 2.11 applied to the literal entity value
ReplText(ents, n, eol) ==
  IF eol \/ ~Declared(ents, n) THEN ReplacementText(ents, n)
  ELSE LET v == ents[EntIndex(ents, n)].v
       IN [i \in 1..Len(v) |-> IF v[i].t = "r" THEN CI(v[i].c) ELSE v[i]]

RECURSIVE ExpandItems(_, _, _, _)
ExpandItems(items, ents, fuel, eol) ==
  IF items = <<>> THEN <<>>
  ELSE LET h == Head(items)
       IN (CASE h.t = "c" -> <<h.c>>
             [] h.t = "r" -> <<h.c>>
             [] h.t = "e" -> IF fuel = 0 \/ ~Known(ents, h.n) THEN <<>>
                             ELSE ExpandItems(ReplText(ents, h.n, eol), ents, fuel - 1, eol)
             [] OTHER -> <<>>)
          \o ExpandItems(Tail(items), ents, fuel, eol)
ExpandEntity(ents, n, eol) == ExpandItems(<<EI(n)>>, ents, Len(ents) + 1, eol)

\* does the (recursive) replacement text reachable from items contain '<' as data?
RECURSIVE HasLt(_, _, _)
HasLt(items, ents, fuel) ==
  \E i \in 1..Len(items) :
     LET h == items[i]
     IN \/ (h.t = "e" /\ fuel > 0 /\ Declared(ents, h.n)
                /\ LET v == ents[EntIndex(ents, h.n)].v
                   IN \/ \E j \in 1..Len(v) : v[j].t \in {"c", "r"} /\ v[j].c = 60
                      \/ HasLt(v, ents, fuel - 1))

(***************************************************************************)
(* Guards: first violated constraint of a token, "" when none.             *)
(***************************************************************************)
First(labels) == IF \E i \in 1..Len(labels) : labels[i] # ""
                 THEN labels[CHOOSE i \in 1..Len(labels) : labels[i] # "" /\ \A j \in 1..(i-1) : labels[j] = ""]
                 ELSE ""
If(c, label) == IF c THEN label ELSE ""

NameViol(n, qname) ==
  IF qname THEN (IF IsQName(n) THEN "" ELSE IF IsName(n) THEN "TwoColons" ELSE "BadName")
  ELSE (IF IsName(n) THEN "" ELSE "BadName")

\* items of an attribute value or of content; ctx in {"attr", "text", "default"}
\* entsAtUse: entity table against which references are resolved
\* An internal general entity referenced in CONTENT is well-formed only if its replacement text matches the production
\* content [43] (4.3.2): this machine does not parse replacement texts, but it knows a few that certainly do not -
\* a start-tag without its end-tag, an end-tag alone, a tag cut short.
BadReplacement == { <<60, 98, 62>>,    \* <b>
                <<60, 47, 98, 62>>,    \* </b>
                <<60, 98>>,    \* <b
                <<97, 60, 98, 62, 99>> }   \* a<b>c
EntValueOf(ents, n) == LET ix == { i \in 1..Len(ents) : ents[i].n = n }
                       IN  IF ix = {} THEN <<>> ELSE ents[CHOOSE i \in ix : \A j \in ix : i <= j].v
LitOf(v) == IF \A i \in 1..Len(v) : v[i].t \in {"c", "r"} THEN [i \in 1..Len(v) |-> v[i].c] ELSE <<>>

ItemViol(it, ctx, st, entsAtUse) ==
  CASE it.t = "c" -> If(~IsChar(it.c), "BadChar")
    [] it.t = "r" -> If(~IsChar(it.c), "BadCharRef")
    [] it.t = "x" -> it.why
    [] it.t = "e" ->
         IF ~IsName(it.n) THEN "BadName"
         ELSE IF it.n \in st.unparsed /\ ~Declared(entsAtUse, it.n) THEN "UnparsedEntityRef"
         ELSE IF it.n \in st.external /\ ~Declared(entsAtUse, it.n)
              THEN If(ctx # "text", "ExternalEntityInAttr")
         ELSE IF ~Known(entsAtUse, it.n)
              THEN If(~st.extSubset, "UndeclaredEntity")
         ELSE IF ~Acyclic(entsAtUse, <<it>>) THEN "EntityCycleOrUndeclared"
         ELSE IF ctx = "text" /\ LitOf(EntValueOf(entsAtUse, it.n)) \in BadReplacement THEN "ReplacementNotContent"
         ELSE If(ctx # "text" /\ HasLt(<<it>>, entsAtUse, Len(entsAtUse) + 1), "LtInAttr")

ItemsViol(items, ctx, st, entsAtUse) ==
  First([i \in 1..Len(items) |-> ItemViol(items[i], ctx, st, entsAtUse)])

\* an entity value literal [9]: characters and references; general-entity references are
\* bypassed (need not be declared here)
EntityValueViol(items) ==
  First([i \in 1..Len(items) |->
           CASE items[i].t = "c" -> If(~IsChar(items[i].c), "BadChar")
             [] items[i].t = "r" -> If(~IsChar(items[i].c), "BadCharRef")
             [] items[i].t = "e" -> If(~IsName(items[i].n), "BadName")
             [] OTHER -> items[i].why])

AttrsViol(tok, st) ==
  LET as == tok.attrs
  IN First(
       [i \in 1..Len(as) |-> NameViol(as[i].n, TRUE)]
       \o <<If(\E i, j \in 1..Len(as) : i < j /\ as[i].n = as[j].n, "DupAttr")>>
       \o [i \in 1..Len(as) |-> ItemsViol(as[i].v, "attr", st, st.ents)]
       \o <<If(tok.lex = "unquoted" /\ Len(as) >= 1, "UnquotedAttr"),
            If(tok.lex = "nospace" /\ Len(as) >= 2, "MissingSpaceBetweenAttrs")>>)

ExtIdViol(tok) ==
  First(<<If(tok.ext \in {"public", "pubonly"} /\ ~AllPubid(tok.pub), "BadPubidChar"),
          If(tok.ext \in {"system", "public"} /\ ~AllChar(tok.sys), "BadChar")>>)

DefViol(d, st) ==
  First(<<NameViol(d.n, TRUE),
          If(d.dk \in {"VALUE", "FIXED"}, ItemsViol(d.dv, "default", st, st.ents))>>)

\* a text token made of literal white space only (always rendered literally) is S outside content
IsSText(tok) == \A i \in 1..Len(tok.items) : tok.items[i].t = "c" /\ IsWs(tok.items[i].c)

InMarkupPhase(st) == st.phase \in {"start", "prolog", "afterDtd", "content", "epilog"}

Viol(st, tok) ==
  LET ph == st.phase k == tok.k
  IN
  CASE k = "xmldecl" ->
         First(<<If(ph # "start", "LateXmlDecl"),
                 If(~IsVersionNum(tok.ver), "BadXmlDecl"),
                 If("lex" \in DOMAIN tok /\ tok.lex = "mismatch", "BadXmlDecl"),
                 If(tok.enc # <<>> /\ ~IsEncNameStr(tok.enc), "BadXmlDecl")>>)
    [] k = "ws" ->
         First(<<If(tok.v = <<>> \/ ~AllWs(tok.v), "BadToken"), If(ph = "accept", "AfterEnd")>>)
    [] k = "comment" ->
         First(<<If(ph = "accept", "AfterEnd"),
                 If(~AllChar(tok.v), "BadChar"),
                 If(HasSub(tok.v, <<45, 45>>) \/ (tok.v # <<>> /\ tok.v[Len(tok.v)] = 45),
                    "DashDashInComment")>>)
    [] k = "pi" ->
         First(<<If(ph = "accept", "AfterEnd"),
                 NameViol(tok.n, FALSE),
                 If(IsXmlReserved(tok.n), "ReservedPITarget"),
                 If(~AllChar(tok.v), "BadChar")>>)
    [] k = "doctype" ->
         First(<<If(st.seenDoctype, "SecondDoctype"),
                 If(ph \notin {"start", "prolog"}, "MisplacedDoctype"),
                 NameViol(tok.n, TRUE), ExtIdViol(tok)>>)
    [] k \in {"entity", "uentity", "notation", "attlist", "elemdecl"} ->
         First(<<If(ph # "dtd", "DeclOutsideDtd"),
                 CASE k = "entity"   -> First(<<NameViol(tok.n, FALSE), EntityValueViol(tok.v)>>)
                   [] k = "uentity"  -> First(<<NameViol(tok.n, FALSE), ExtIdViol(tok),
                                                If(tok.ndata # <<>>, NameViol(tok.ndata, FALSE))>>)
                   [] k = "notation" -> First(<<NameViol(tok.n, FALSE), ExtIdViol(tok)>>)
                   [] k = "attlist"  -> First(<<NameViol(tok.el, TRUE)>>
                                              \o [i \in 1..Len(tok.defs) |-> DefViol(tok.defs[i], st)])
                   [] k = "elemdecl" -> First(<<NameViol(tok.n, TRUE), If(tok.v \in BadSpecs, "BadContentSpec")>>)>>)
    [] k = "dtdend" -> If(ph \notin {"dtd", "content"}, "StrayDtdEnd")   \* in content "]>" is character data
    [] k = "stag" ->
         First(<<If(ph = "dtd", "MarkupInDtd"), If(ph = "epilog", "SecondRoot"),
                 If(ph = "accept", "AfterEnd"),
                 NameViol(tok.n, TRUE), AttrsViol(tok, st)>>)
    [] k = "etag" ->
         First(<<If(ph # "content", "ETagUnopened"),
                 NameViol(tok.n, TRUE),
                 If(st.stack # <<>> /\ st.stack[Len(st.stack)] # tok.n, "ETagMismatch")>>)
    [] k = "text" ->
         IF IsSText(tok) /\ ph \notin {"content", "accept"} THEN ""   \* it is S there
         ELSE First(<<If(ph = "dtd", "MarkupInDtd"),
                      If(ph # "content", "TextAtTopLevel"),
                      ItemsViol(tok.items, "text", st, st.ents)>>)
    [] k = "cdata" ->
         First(<<If(ph = "dtd", "MarkupInDtd"), If(ph # "content", "TextAtTopLevel"),
                 If(~AllChar(tok.v), "BadChar")>>)
    [] k = "end" ->
         CASE ph = "content" -> "Unclosed"
           [] ph = "dtd" -> "DtdUnclosed"
           [] ph \in {"start", "prolog", "afterDtd"} -> "NoRoot"
           [] ph = "accept" -> "AfterEnd"
           [] OTHER -> ""
    [] k = "peref" -> "ParameterEntity"     \* not modelled (XmlLex): no conclusion is drawn
    [] OTHER -> "BadToken"

(***************************************************************************)
(* The token really stands for what the machine thinks (the text/token     *)
(* correspondence that XmlSurface relies on).  Generators only produce     *)
(* sane tokens; trace validation reports an insane one as a tool error.    *)
(***************************************************************************)
ScalarSeq(s) == \A i \in 1..Len(s) : IsScalar(s[i])
ItemsSane(items, ctx) ==
  \A i \in 1..Len(items) :
     LET it == items[i]
     IN CASE it.t = "c" -> IsScalar(it.c)
          [] it.t = "r" -> it.c >= 0
          [] it.t = "e" -> ScalarSeq(it.n) /\ it.n # <<>> /\ \A j \in 1..Len(it.n) : it.n[j] \notin {59, 60, 38, 34, 39}
          [] it.t = "x" -> \E r \in RawTable : r.s = it.s /\ r.why = it.why /\ r.ctx = ctx
          [] OTHER -> FALSE
NameSane(n) == n # <<>> /\ ScalarSeq(n) /\ \A i \in 1..Len(n) : ~IsWs(n[i]) /\ n[i] \notin {60, 62, 47, 61, 34, 39, 38, 63, 33, 91, 93, 37, 59, 40, 41, 124, 35}
LiteralSane(s) == ScalarSeq(s) /\ ~(34 \in SeqToSet(s) /\ 39 \in SeqToSet(s))

TokenSane(tok) ==
  LET k == tok.k
  IN CASE k = "xmldecl" -> LiteralSane(tok.ver) /\ LiteralSane(tok.enc) /\ tok.ver # <<>>
                           /\ tok.sa \in {"yes", "no", "none"}
                           /\ ("lex" \in DOMAIN tok => tok.lex \in {"ok", "mismatch"})
                           /\ 34 \notin SeqToSet(tok.ver \o tok.enc) /\ 39 \notin SeqToSet(tok.ver \o tok.enc)
       [] k = "ws" -> tok.v # <<>> /\ AllWs(tok.v) /\ tok.v[Len(tok.v)] # 13   \* CR LF never straddles two tokens
       [] k = "comment" -> ScalarSeq(tok.v) /\ ~HasSub(tok.v, <<45, 45, 62>>)
       [] k = "pi" -> NameSane(tok.n) /\ ScalarSeq(tok.v) /\ ~HasSub(tok.v, <<63, 62>>)
                      /\ (tok.v # <<>> => ~IsWs(tok.v[1]))
                      /\ (tok.n # <<>> => tok.n[Len(tok.n)] # 63)
       [] k = "doctype" -> NameSane(tok.n) /\ tok.ext \in {"none", "system", "public"}
                           /\ LiteralSane(tok.pub) /\ LiteralSane(tok.sys) /\ tok.subset \in BOOLEAN
       [] k = "entity" -> NameSane(tok.n) /\ ItemsSane(tok.v, "entity")
                          \* '&' and '%' would start references inside the replacement text (not modelled); a
                          \* literal '<' neither, but `&#60;` is: the replacement text then holds markup, which makes
                          \* a content reference out of profile and an attribute reference a violation (LtInAttr)
                          /\ \A i \in 1..Len(tok.v) : /\ (tok.v[i].t = "c" => tok.v[i].c \notin {60, 38, 37})
                                                      /\ (tok.v[i].t = "r" => tok.v[i].c \notin {38, 37})
       [] k = "uentity" -> NameSane(tok.n) /\ tok.ext \in {"system", "public"} /\ LiteralSane(tok.pub)
                           /\ LiteralSane(tok.sys) /\ (tok.ndata = <<>> \/ NameSane(tok.ndata))
       [] k = "notation" -> NameSane(tok.n) /\ tok.ext \in {"system", "public", "pubonly"}
                            /\ LiteralSane(tok.pub) /\ LiteralSane(tok.sys)
       [] k = "attlist" -> NameSane(tok.el)
                           /\ \A i \in 1..Len(tok.defs) :
                                LET d == tok.defs[i]
                                IN /\ NameSane(d.n) /\ d.ty \in AttTypes /\ d.dk \in DefaultKinds
                                   /\ ItemsSane(d.dv, "attr")
                                   /\ (d.ty \in {"ENUM", "NOTATION"} =>
                                         d.en # <<>> /\ \A j \in 1..Len(d.en) : IsNmtoken(d.en[j])
                                                     /\ (d.ty = "NOTATION" => IsName(d.en[j])))
       [] k = "elemdecl" -> NameSane(tok.n) /\ tok.v \in KnownSpecs \cup BadSpecs
       [] k = "dtdend" -> TRUE
       [] k = "stag" -> NameSane(tok.n) /\ tok.lex \in {"ok", "unquoted", "nospace"}
                        /\ \A i \in 1..Len(tok.attrs) : NameSane(tok.attrs[i].n) /\ ItemsSane(tok.attrs[i].v, "attr")
       [] k = "etag" -> NameSane(tok.n)
       [] k = "text" -> tok.items # <<>> /\ ItemsSane(tok.items, "text")
                        /\ ~(tok.items[Len(tok.items)].t = "c" /\ tok.items[Len(tok.items)].c = 13)
       [] k = "cdata" -> ScalarSeq(tok.v) /\ ~HasSub(tok.v, <<93, 93, 62>>)
       [] k = "end" -> TRUE
       [] OTHER -> FALSE

(***************************************************************************)
(* Effects (total; they keep the phase structure going after a bad token   *)
(* so that later tokens are judged in a sensible context).                 *)
(***************************************************************************)
EolIf(st, s) == IF st.eol THEN Eol(s) ELSE s
LeaveStart(st) == IF st.phase = "start" THEN [st EXCEPT !.phase = "prolog"] ELSE st

NonNs(attrs) == SelectSeq(attrs, LAMBDA a : ~IsNsAttrName(a.n))
StripX(items) == SelectSeq(items, LAMBDA it : it.t # "x")
CleanAttrs(attrs) == [i \in 1..Len(attrs) |-> [n |-> attrs[i].n, v |-> StripX(attrs[i].v)]]

ElementAttrs(st, tok) ==
  { a \in Effective(st.attlists, st.ents, tok.n, NonNs(CleanAttrs(tok.attrs))) : ~IsNsAttrName(a.n) }

RECURSIVE ApplyItems(_, _)
ApplyItems(st, items) ==
  IF items = <<>> THEN st
  ELSE LET h == Head(items)
           st1 == CASE h.t = "c" -> AddLiteral1(st, h.c)
                    [] h.t = "r" -> [AddChars(st, IF IsScalar(h.c) THEN <<h.c>> ELSE <<>>) EXCEPT !.pendingCr = FALSE]
                    [] h.t = "e" -> [AddChars(st, ExpandEntity(st.ents, h.n, st.eol)) EXCEPT !.pendingCr = FALSE]
                    [] OTHER -> [st EXCEPT !.pendingCr = FALSE]
       IN ApplyItems(st1, Tail(items))

\* references the C01 profile does not cover: an external parsed entity in content, an entity that
\* only an (unread) external subset could declare
OutOfProfile(st, items) ==
  \E i \in 1..Len(items) :
     /\ items[i].t = "e"
     /\ \/ (items[i].n \in st.external /\ ~Declared(st.ents, items[i].n))
        \/ (st.extSubset /\ ~Known(st.ents, items[i].n) /\ items[i].n \notin st.unparsed)
        \* an entity whose replacement text holds '<': included in content it is markup, which this machine
        \* does not parse (in an attribute value it is the violation LtInAttr, see ItemViol)
        \/ HasLt(<<items[i]>>, st.ents, Len(st.ents) + 1)

DeclaredAny(st, n) == Declared(st.ents, n) \/ n \in st.unparsed \/ n \in st.external

Apply(st, tok) ==
  LET k == tok.k
  IN
  CASE k = "xmldecl" ->
         [LeaveStart(st) EXCEPT !.tree.xmldecl = [present |-> TRUE, ver |-> tok.ver, enc |-> tok.enc, sa |-> tok.sa],
                                !.pendingCr = FALSE]
    [] k = "ws" -> IF st.phase = "content" THEN AddLiteral(st, tok.v) ELSE LeaveStart(st)
    [] k = "comment" ->
         IF st.phase = "dtd" THEN st
         ELSE AddNode(LeaveStart(st), Node("comment", CurParent(st), <<>>, EolIf(st, tok.v), {}))
    [] k = "pi" ->
         IF st.phase = "dtd"
         THEN [st EXCEPT !.tree.doctype.pis = Append(@, [n |-> tok.n, v |-> EolIf(st, DropWs(tok.v))])]
         ELSE AddNode(LeaveStart(st), Node("pi", CurParent(st), tok.n, EolIf(st, DropWs(tok.v)), {}))
    [] k = "doctype" ->
         [st EXCEPT !.phase = IF tok.subset THEN "dtd" ELSE "afterDtd",
                    !.seenDoctype = TRUE,
                    !.extSubset = (tok.ext # "none"),
                    !.tree.doctype = [present |-> TRUE, n |-> tok.n, ext |-> tok.ext,
                                      pub |-> IF tok.ext = "public" THEN tok.pub ELSE <<>>,
                                      sys |-> IF tok.ext = "none" THEN <<>> ELSE tok.sys,
                                      pos |-> TopCount(st), uents |-> {}, nots |-> {}, pis |-> <<>>]]
    [] k = "entity" ->
         IF DeclaredAny(st, tok.n) THEN st   \* the first declaration binds (4.2)
         ELSE [st EXCEPT !.ents = Append(@, [n |-> tok.n, v |-> StripX(tok.v)])]
    [] k = "uentity" ->
         IF DeclaredAny(st, tok.n) THEN st
         ELSE IF tok.ndata = <<>> THEN [st EXCEPT !.external = @ \cup {tok.n}]
         ELSE [st EXCEPT !.unparsed = @ \cup {tok.n},
                         !.tree.doctype.uents = @ \cup {[n |-> tok.n,
                                 pub |-> IF tok.ext = "public" THEN tok.pub ELSE <<>>,
                                 haspub |-> (tok.ext = "public"),
                                 sys |-> tok.sys, ndata |-> tok.ndata]}]
    [] k = "notation" ->
         IF \E x \in st.tree.doctype.nots : x.n = tok.n THEN [st EXCEPT !.inprofile = FALSE]
         ELSE [st EXCEPT !.tree.doctype.nots = @ \cup {[n |-> tok.n,
                                 pub |-> IF tok.ext = "system" THEN <<>> ELSE tok.pub,
                                 haspub |-> (tok.ext # "system"),
                                 sys |-> IF tok.ext = "pubonly" THEN <<>> ELSE tok.sys,
                                 hassys |-> (tok.ext # "pubonly")]}]
    [] k = "attlist" ->
         [st EXCEPT !.inprofile = @ /\ \A i \in 1..Len(tok.defs) : ~OutOfProfile(st, tok.defs[i].dv),
                    !.attlists = Append(@, [el |-> tok.el,
                       defs |-> [i \in 1..Len(tok.defs) |->
                                   [n |-> tok.defs[i].n, ty |-> tok.defs[i].ty, en |-> tok.defs[i].en,
                                    dk |-> tok.defs[i].dk, dv |-> StripX(tok.defs[i].dv)]]])]
    [] k = "elemdecl" -> st
    [] k = "dtdend" -> IF st.phase = "dtd" THEN [st EXCEPT !.phase = "afterDtd"]
                       \* as character data it denotes "]", the style's white space, ">": not a
                       \* function of the tokens alone, so the document leaves the C01 profile
                       ELSE IF st.phase = "content" THEN [st EXCEPT !.inprofile = FALSE, !.pendingCr = FALSE]
                       ELSE st
    [] k = "stag" ->
         LET st1 == AddNode(st, Node("elem", CurParent(st), tok.n, <<>>, ElementAttrs(st, tok)))
         IN [st1 EXCEPT !.phase = "content", !.stack = Append(@, tok.n),
                        !.open = Append(@, Len(st1.tree.nodes)),
                        !.inprofile = @ /\ \A i \in 1..Len(tok.attrs) : ~OutOfProfile(st, tok.attrs[i].v)]
    [] k = "etag" ->
         IF st.stack = <<>> THEN st
         ELSE LET st1 == [st EXCEPT !.stack = SubSeq(@, 1, Len(@) - 1), !.open = SubSeq(@, 1, Len(@) - 1),
                                    !.pendingCr = FALSE]
              IN IF st1.stack = <<>> THEN [st1 EXCEPT !.phase = "epilog"] ELSE st1
    [] k = "text" -> IF st.phase = "content"
                     THEN [ApplyItems(st, tok.items) EXCEPT !.inprofile = @ /\ ~OutOfProfile(st, tok.items)]
                     ELSE LeaveStart(st)
    [] k = "cdata" -> IF st.phase = "content" THEN [AddLiteral([st EXCEPT !.pendingCr = FALSE], tok.v) EXCEPT !.pendingCr = FALSE]
                      ELSE LeaveStart(st)
    [] k = "end" -> [st EXCEPT !.phase = "accept"]
    [] OTHER -> st

(***************************************************************************)
(* One step: the good action of the token kind, or the bad action named    *)
(* after the violated constraint.                                          *)
(***************************************************************************)
Good(st, tok) == Viol(st, tok) = ""

Step(st, tok) ==
  LET v == Viol(st, tok)
      st1 == Apply(st, tok)
  IN IF v = "" THEN st1
     ELSE [st1 EXCEPT !.wf = FALSE, !.viol = Append(st.viol, v)]

RECURSIVE Fold(_, _)
Fold(st, toks) == IF toks = <<>> THEN st ELSE Fold(Step(st, Head(toks)), Tail(toks))

\* the recogniser: what a token sequence (ending with "end") denotes
RecognizeFrom(init, toks) ==
  LET st == Fold(init, toks)
  IN [wf |-> st.wf /\ st.phase = "accept", viol |-> st.viol, inprofile |-> st.inprofile, tree |-> st.tree]
Recognize(toks) ==
  LET st == Fold(InitState, toks)
  IN [wf |-> st.wf /\ st.phase = "accept", viol |-> st.viol, inprofile |-> st.inprofile, tree |-> st.tree]

(***************************************************************************)
(* Structural invariants of the machine (checked by TLC in MC_Doc).        *)
(***************************************************************************)
TypeOK(st) ==
  /\ st.phase \in {"start", "prolog", "dtd", "afterDtd", "content", "epilog", "accept"}
  /\ Len(st.stack) = Len(st.open)
  /\ (st.phase = "content" <=> st.stack # <<>>) \/ ~st.wf
  /\ \A i \in 1..Len(st.tree.nodes) :
        LET nd == st.tree.nodes[i]
        IN /\ nd.p < i
           /\ (nd.p > 0 => st.tree.nodes[nd.p].k = "elem")
           /\ (nd.k = "chars" => nd.v # <<>>)
  \* maximal runs: no two adjacent sibling chars nodes
  /\ \A i \in 1..(Len(st.tree.nodes) - 1) :
        ~(st.tree.nodes[i].k = "chars" /\ st.tree.nodes[i+1].k = "chars"
          /\ st.tree.nodes[i].p = st.tree.nodes[i+1].p)
  \* a well-formed accepted document has exactly one root element
  /\ (st.wf /\ st.phase \in {"epilog", "accept"} =>
        Cardinality({ i \in 1..Len(st.tree.nodes) : st.tree.nodes[i].p = 0 /\ st.tree.nodes[i].k = "elem" }) = 1)
=============================================================================
