------------------------------ MODULE Trace_Cli ------------------------------
(***************************************************************************)
(* Trace validation of xq / xe runs (C17) against Cli.tla.                 *)
(* Event: {"event":"xq"|"xe","di","ei","fi","indent":b,"setns":[[cp..]..],*)
(*  "code":exit code                                                       *)
(*  (-1 signal, -2 timeout),"stderr_len":n,"utf8":b, and                   *)
(*  xq: "stdout":[cp..],"num":{cls,v},"sel_out":[cp..] (the library's own  *)
(*      serialization of the nodes the specification selects)              *)
(*  xe: "expect_text":[cp..] (the text the harness parsed for "exp"),       *)
(*      "out":{ok,sig} (parse of stdout), "exp":{ok,sig} (parse of the     *)
(*      expected text)}                                                    *)
(* The expectation is re-computed here from the pools by index.            *)
(***************************************************************************)
EXTENDS CliPool, TLC, Json, IOUtils

CONSTANT Open

Rec == ndJsonDeserialize(IOEnv.TRACE)
VARIABLE l

OKV == [verdict |-> "ok"]
Crashed(e) == e.code \notin 0..100 \/ e.code = 101     \* Rust: 101 = panic; negative = signal / timeout
CleanError(e) == e.code # 0 /\ ~Crashed(e) /\ e.stderr_len > 0

XqVerdict(e) ==
  LET v == ValOf(e.di, e.ei) IN
  IF Crashed(e) THEN [verdict |-> "VIOLATION", why |-> "xq crashed (panic / signal / timeout)", code |-> e.code]
  ELSE IF v.t = "err" THEN
       IF CleanError(e) THEN OKV ELSE [verdict |-> "VIOLATION", why |-> "xq must end with a message and a non-zero status", code |-> e.code]
  ELSE IF v.t = "unk" THEN OKV
  ELSE IF e.code # 0 THEN [verdict |-> "VIOLATION", why |-> "xq failed on a usable query", code |-> e.code]
  ELSE IF e.indent THEN OKV                      \* pretty-printed output: only the status is specified here
  ELSE CASE v.t = "nodes" -> IF ~e.renderable THEN [verdict |-> "VIOLATION", why |-> "the document does not parse to the specified tree"]
                              ELSE IF e.stdout = e.sel_out THEN OKV
                              ELSE [verdict |-> "VIOLATION", why |-> "xq did not print exactly the selected nodes in document order", expected |-> v.v]
         [] v.t = "str"   -> IF e.stdout = v.v \o <<10>> THEN OKV ELSE [verdict |-> "VIOLATION", why |-> "xq string result", expected |-> v.v]
         [] v.t = "bool"  -> IF e.stdout = (IF v.v THEN <<116, 114, 117, 101, 10>> ELSE <<102, 97, 108, 115, 101, 10>>) THEN OKV
                             ELSE [verdict |-> "VIOLATION", why |-> "xq boolean result", expected |-> v.v]
         [] v.t = "num"   -> IF e.num.cls = v.n.cls /\ (v.n.cls # "fin" \/ e.num.v = v.n.v) THEN OKV
                             ELSE [verdict |-> "VIOLATION", why |-> "xq number result", expected |-> v.n]

XeVerdict(e) ==
  LET d == Docs[e.di]
      v == ValOf(e.di, e.ei)
      f == Frags[e.fi]
      u == XeUsable(d, v, f)
      exp == IF v.t = "nodes" THEN XeExpect(d, v, f) ELSE <<>>
      good == e.code = 0 /\ e.out.ok /\ e.exp.ok /\ e.out.sig = e.exp.sig
  IN
  IF Crashed(e) THEN [verdict |-> "VIOLATION", why |-> "xe crashed (panic / signal / timeout)", code |-> e.code, usable |-> u]
  ELSE IF v.t = "unk" THEN OKV
  ELSE IF u # "no" /\ e.expect_text # exp THEN [verdict |-> "VIOLATION", why |-> "harness used another expectation than the specification computes"]
  ELSE IF u = "no" THEN
       IF CleanError(e) THEN OKV
       ELSE [verdict |-> "VIOLATION", why |-> "xe must refuse this run with a message and a non-zero status", code |-> e.code]
  ELSE IF e.code # 0 THEN
       IF u = "either" /\ CleanError(e) THEN OKV
       ELSE [verdict |-> "VIOLATION", why |-> "xe failed on a usable run", code |-> e.code]
  \* indented output: well-formed, and the same document up to white space in character data
  ELSE IF e.indent THEN (IF ~e.out.ok THEN [verdict |-> "VIOLATION", why |-> "xe's indented output does not parse"]
                         ELSE IF e.exp.ok /\ e.out.ws # e.exp.ws
                         THEN [verdict |-> "VIOLATION", why |-> "xe's indented output differs from the expected document by more than white space", expected |-> exp]
                         ELSE OKV)
  ELSE IF ~e.exp.ok THEN [verdict |-> "VIOLATION", why |-> "the expected document does not parse (parser defect or specification error)"]
  ELSE IF ~e.out.ok THEN [verdict |-> "VIOLATION", why |-> "xe's compact output does not parse"]
  ELSE IF good THEN OKV
  ELSE [verdict |-> "VIOLATION", why |-> "xe's output is not the document with exactly the selected nodes' children replaced", expected |-> exp]

Verdict(e) ==
  IF e.setns # SetnsOf(e.ei) THEN [verdict |-> "VIOLATION", why |-> "the run used other --setns arguments than the specification gives"]
  ELSE IF e.event = "xq" THEN XqVerdict(e) ELSE XeVerdict(e)

Init == l = 1
Next == /\ l <= Len(Rec)
        /\ LET v == Verdict(Rec[l])
           IN  IF v.verdict = "ok" THEN TRUE ELSE PrintT(<<"VERDICT", ToJson([i |-> l] @@ v)>>)
        /\ l' = l + 1
Spec == Init /\ [][Next]_l
Done == TLCGet("stats").diameter = Len(Rec) + 1 \/ PrintT(<<"TRUNCATED", TLCGet("stats").diameter, Len(Rec)>>)
=============================================================================
