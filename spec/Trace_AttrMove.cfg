SPECIFICATION TSpec
CONSTANT MaxLen = 6
CONSTANT Open = {}
POSTCONDITION Done
CHECK_DEADLOCK FALSE
