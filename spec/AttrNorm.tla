------------------------------ MODULE AttrNorm ------------------------------
(***************************************************************************)
(* XML 1.0 (5th ed.) attribute-value normalization (3.3.3), replacement    *)
(* text of internal general entities (4.5), line-end handling (2.11) and   *)
(* attribute defaulting (3.3.2) - DESIGN.md Appendix D, transcribed.       *)
(*                                                                         *)
(* Data (all JSON friendly; text is a sequence of code points):            *)
(*   Items  = Seq of  [t |-> "c", c |-> cp]   a character written literally *)
(*                    [t |-> "r", c |-> cp]   a character reference to cp   *)
(*                    [t |-> "e", n |-> name] a general-entity reference    *)
(*   Ents   = Seq of  [n |-> name, v |-> Items]  internal general entities  *)
(*            in document order (the first declaration of a name binds);   *)
(*            the five predefined entities are implicit.                   *)
(*   Attlists = Seq of [el |-> name, defs |-> Seq of                       *)
(*                 [n |-> name, ty |-> TYPE, dk |-> KIND, dv |-> Items]]   *)
(*            TYPE in AttTypes, KIND in {"IMPLIED","REQUIRED","VALUE",     *)
(*            "FIXED"}; in document order.                                 *)
(*   name   = Seq of code points.                                          *)
(* Tool neutral: no TLC / Json operators here.                             *)
(***************************************************************************)
EXTENDS Naturals, Sequences, FiniteSets

AttTypes == {"CDATA", "ID", "IDREF", "IDREFS", "ENTITY", "ENTITIES", "NMTOKEN", "NMTOKENS",
             "ENUM", "NOTATION"}
DefaultKinds == {"IMPLIED", "REQUIRED", "VALUE", "FIXED"}

CI(c) == [t |-> "c", c |-> c]
RI(c) == [t |-> "r", c |-> c]
EI(n) == [t |-> "e", n |-> n]

\* code points of the predefined entity names
N_lt   == <<108, 116>>
N_gt   == <<103, 116>>
N_amp  == <<97, 109, 112>>
N_apos == <<97, 112, 111, 115>>
N_quot == <<113, 117, 111, 116>>
PredefinedNames == {N_lt, N_gt, N_amp, N_apos, N_quot}
PredefinedChar(n) == CASE n = N_lt -> 60 [] n = N_gt -> 62 [] n = N_amp -> 38
                       [] n = N_apos -> 39 [] n = N_quot -> 34

IsWsCp(c) == c \in {32, 9, 10, 13}

(***************************************************************************)
(* 2.11  End-of-line handling, applied to the literal characters of the    *)
(* source before anything else: CR LF -> LF, lone CR -> LF.  Character     *)
(* references are not affected (a "r" item is never a literal CR).         *)
(***************************************************************************)
RECURSIVE LineEnds(_)
LineEnds(items) ==
  IF items = <<>> THEN <<>>
  ELSE LET h == Head(items) t == Tail(items)
       IN IF h.t = "c" /\ h.c = 13
          THEN IF t # <<>> /\ Head(t).t = "c" /\ Head(t).c = 10
               THEN <<CI(10)>> \o LineEnds(Tail(t))
               ELSE <<CI(10)>> \o LineEnds(t)
          ELSE <<h>> \o LineEnds(t)

(***************************************************************************)
(* Entity table                                                            *)
(***************************************************************************)
Declared(ents, n) == \E i \in 1..Len(ents) : ents[i].n = n
EntIndex(ents, n) == CHOOSE i \in 1..Len(ents) : ents[i].n = n /\ \A j \in 1..(i-1) : ents[j].n # n
Known(ents, n) == Declared(ents, n) \/ n \in PredefinedNames

(***************************************************************************)
(* 4.5  Replacement text of an internal entity: the literal value with     *)
(* character references replaced by the character (which thereby becomes   *)
(* literal data of the replacement text) and general-entity references     *)
(* left as they are.  A declared entity overrides a predefined one; the    *)
(* predefined ones stand for the character as data (4.6: "&#38;#60;" etc.  *)
(* - the doubly escaped form makes the character data, never markup; in an *)
(* attribute value that is the same as a character reference).             *)
(***************************************************************************)
ReplacementText(ents, n) ==
  IF Declared(ents, n)
  THEN LET v == LineEnds(ents[EntIndex(ents, n)].v)
       IN [i \in 1..Len(v) |-> IF v[i].t = "r" THEN CI(v[i].c) ELSE v[i]]
  ELSE <<RI(PredefinedChar(n))>>

(***************************************************************************)
(* No recursion (WFC): following entity references from `items` never      *)
(* reaches an entity that is already being expanded; every referenced      *)
(* entity is known.                                                        *)
(***************************************************************************)
RefsOf(items) == { items[i].n : i \in { j \in 1..Len(items) : items[j].t = "e" } }

RECURSIVE AcyclicFrom(_, _, _)
AcyclicFrom(ents, items, open) ==
  \A n \in RefsOf(items) :
     /\ n \notin open
     /\ Known(ents, n)
     /\ (Declared(ents, n) => AcyclicFrom(ents, ents[EntIndex(ents, n)].v, open \cup {n}))
Acyclic(ents, items) == AcyclicFrom(ents, items, {})

(***************************************************************************)
(* 3.3.3  Normalization.  Total: `fuel` bounds the inclusion depth (a      *)
(* well-formed document needs at most Len(ents)+1 levels; on a cyclic or   *)
(* unknown reference the expansion contributes nothing - such inputs are   *)
(* not well-formed and their value is never compared).                     *)
(***************************************************************************)
RECURSIVE NormFuel(_, _, _)
NormFuel(items, ents, fuel) ==
  IF items = <<>> THEN <<>>
  ELSE LET h == Head(items)
           rest == NormFuel(Tail(items), ents, fuel)
       IN CASE h.t = "r" -> <<h.c>> \o rest
            [] h.t = "c" -> <<(IF IsWsCp(h.c) THEN 32 ELSE h.c)>> \o rest
            [] h.t = "e" -> (IF fuel = 0 \/ ~Known(ents, h.n) THEN <<>>
                             ELSE NormFuel(ReplacementText(ents, h.n), ents, fuel - 1)) \o rest
            [] OTHER -> rest    \* items of other kinds (XmlDoc's raw ill-formed fragments) contribute nothing

\* strip leading/trailing #x20, collapse runs of #x20 (only #x20)
RECURSIVE Collapse(_, _)
Collapse(s, pendingSpace) ==   \* pendingSpace: a space is owed before the next non-space
  IF s = <<>> THEN <<>>
  ELSE IF Head(s) = 32 THEN Collapse(Tail(s), TRUE)
  ELSE (IF pendingSpace THEN <<32>> ELSE <<>>) \o <<Head(s)>> \o Collapse(Tail(s), FALSE)

RECURSIVE DropLeading(_)
DropLeading(s) == IF s # <<>> /\ Head(s) = 32 THEN DropLeading(Tail(s)) ELSE s

Tokenize(s) == LET t == DropLeading(s)
               IN IF t = <<>> THEN <<>> ELSE <<Head(t)>> \o Collapse(Tail(t), FALSE)

\* items: the attribute value literal as written; ty: declared type or "" when undeclared
Normalize(items, ty, ents) ==
  LET v == NormFuel(LineEnds(items), ents, Len(ents) + 1)
  IN IF ty \in {"", "CDATA"} THEN v ELSE Tokenize(v)

(***************************************************************************)
(* 3.3  Attribute-list declarations: all ATTLISTs of the element type, in  *)
(* document order, all definitions in order; the first definition of an    *)
(* attribute name is binding.                                              *)
(***************************************************************************)
RECURSIVE DefsFor(_, _)
DefsFor(attlists, el) ==
  IF attlists = <<>> THEN <<>>
  ELSE (IF Head(attlists).el = el THEN Head(attlists).defs ELSE <<>>) \o DefsFor(Tail(attlists), el)

HasDef(attlists, el, an) == \E i \in 1..Len(DefsFor(attlists, el)) : DefsFor(attlists, el)[i].n = an
BindingDef(attlists, el, an) ==
  LET d == DefsFor(attlists, el)
      i == CHOOSE k \in 1..Len(d) : d[k].n = an /\ \A j \in 1..(k-1) : d[j].n # an
  IN d[i]
DeclaredType(attlists, el, an) == IF HasDef(attlists, el, an) THEN BindingDef(attlists, el, an).ty ELSE ""

(***************************************************************************)
(* Effective attributes of an element: written ones (specified) plus the   *)
(* ones whose binding definition has a default value and that were not     *)
(* written (not specified).  #IMPLIED / #REQUIRED ones appear only when    *)
(* written.  `written` = Seq of [n |-> name, v |-> Items].                 *)
(* Result: a set of [n |-> name, v |-> Seq(cp), spec |-> BOOLEAN].         *)
(***************************************************************************)
WrittenNames(written) == { written[i].n : i \in 1..Len(written) }

Effective(attlists, ents, el, written) ==
  LET d == DefsFor(attlists, el)
      names == { d[i].n : i \in 1..Len(d) }
  IN { [n |-> written[i].n,
        v |-> Normalize(written[i].v, DeclaredType(attlists, el, written[i].n), ents),
        spec |-> TRUE] : i \in 1..Len(written) }
     \cup
     { [n |-> an,
        v |-> Normalize(BindingDef(attlists, el, an).dv, BindingDef(attlists, el, an).ty, ents),
        spec |-> FALSE] :
          an \in { x \in names \ WrittenNames(written) :
                     BindingDef(attlists, el, x).dk \in {"VALUE", "FIXED"} } }

(***************************************************************************)
(* Theorems of the design, checked by TLC in MC_Attr over the bounded      *)
(* literal space:                                                          *)
(*   normalized values contain no TAB/LF/CR except through character refs, *)
(*   tokenized values have no leading/trailing/double space,               *)
(*   normalization is idempotent on its own output (as literal items).     *)
(***************************************************************************)
AsLiteral(s) == [i \in 1..Len(s) |-> CI(s[i])]
NoEdgeOrDoubleSpace(s) ==
  /\ (s # <<>> => s[1] # 32 /\ s[Len(s)] # 32)
  /\ \A i \in 1..(Len(s) - 1) : ~(s[i] = 32 /\ s[i+1] = 32)
=============================================================================
