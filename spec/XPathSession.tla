----------------------------- MODULE XPathSession -----------------------------
(***************************************************************************)
(* C19: one evaluation context (xml_xpath::eval::model::Context) and one   *)
(* document used for a series of queries.                                  *)
(*                                                                         *)
(* The context keeps two stacks, context size and context position; the    *)
(* evaluator pushes a frame on each when it starts evaluating a predicate  *)
(* for a candidate node and pops it afterwards.  The machine below has the *)
(* evaluator's grain: Begin(q), PushPredicate, PopPredicate, and the two   *)
(* ways a query ends, Return(value) and Fail.  The ideal Fail unwinds      *)
(* every frame the query pushed; with Leaky = TRUE it models the defect    *)
(* "an error inside a predicate leaves the frames on the stacks" (used to  *)
(* show that the invariants below are not vacuous: TLC refutes them).      *)
(*                                                                         *)
(* What a query answers is XPathSem!Eval with the context position/size    *)
(* found on top of the stacks when the query begins (0 and 0 on an empty   *)
(* context, which is what Context::default() provides): position() and     *)
(* last() at the top level read exactly that.                              *)
(***************************************************************************)
EXTENDS XPathSem

CONSTANTS SDoc,        \* the document
          SQueries,    \* sequence of abstract expressions (the query alphabet)
          SBinds,      \* namespace bindings of the context
          MaxLen,      \* sessions of at most MaxLen queries
          Leaky        \* FALSE: ideal machine

VARIABLES szStack, posStack,    \* the context's stacks (sequences of naturals)
          phase,                \* "rest" | "run"
          cur,                  \* index of the running query (0 at rest)
          base,                 \* stack height when the running query began
          ctx0,                 \* <<position, size>> seen by the running query at its top level
          log                   \* sequence of [q |-> index, outcome |-> value]
svars == <<szStack, posStack, phase, cur, base, ctx0, log>>

Top(s) == IF Len(s) = 0 THEN 0 ELSE s[Len(s)]

\* nesting depth of predicates in an expression: how many frames a query can hold at once
RECURSIVE PDepth(_)
RECURSIVE PDepthSeq(_)
RECURSIVE PDepthSteps(_)
PDepthSeq(es) == IF Len(es) = 0 THEN 0
                 ELSE LET a == PDepth(Head(es))  b == PDepthSeq(Tail(es)) IN IF a > b THEN a ELSE b
PDepthSteps(ss) == IF Len(ss) = 0 THEN 0
                   ELSE LET a == (IF Len(Head(ss).preds) = 0 THEN 0 ELSE 1 + PDepthSeq(Head(ss).preds))
                            b == PDepthSteps(Tail(ss)) IN IF a > b THEN a ELSE b
PDepth(e) ==
  CASE e.t \in {"num", "str"} -> 0
    [] e.t = "neg" -> PDepth(e.e)
    [] e.t = "bin" -> PDepthSeq(<<e.l, e.r>>)
    [] e.t = "fn"  -> PDepthSeq(e.args)
    [] e.t = "path" -> PDepthSteps(e.steps)
    [] e.t = "filt" -> LET a == PDepth(e.e)
                           b == IF Len(e.preds) = 0 THEN 0 ELSE 1 + PDepthSeq(e.preds)
                           c == PDepthSteps(e.steps)
                       IN  IF a >= b /\ a >= c THEN a ELSE IF b >= c THEN b ELSE c

\* the answer of query q when the context it starts with shows position p and size s
OutcomeAt(q, p, s) == Eval(SDoc, SQueries[q], [n |-> 1, pos |-> p, size |-> s], SBinds)
FreshOutcome(q) == OutcomeAt(q, 0, 0)
Fails(q) == FreshOutcome(q).t = "err"

Init == /\ szStack = <<>> /\ posStack = <<>> /\ phase = "rest" /\ cur = 0 /\ base = 0
        /\ ctx0 = <<0, 0>> /\ log = <<>>

Begin(q) == /\ phase = "rest" /\ Len(log) < MaxLen
            /\ phase' = "run" /\ cur' = q /\ base' = Len(szStack)
            /\ ctx0' = <<Top(posStack), Top(szStack)>>
            /\ UNCHANGED <<szStack, posStack, log>>

\* a predicate is evaluated for the candidate at position 1 of 3 (any values would do; they are only
\* observable through a leak)
PushPredicate == /\ phase = "run" /\ Len(szStack) - base < PDepth(SQueries[cur])
                 /\ szStack' = Append(szStack, 3) /\ posStack' = Append(posStack, 1)
                 /\ UNCHANGED <<phase, cur, base, ctx0, log>>

PopPredicate == /\ phase = "run" /\ Len(szStack) > base
                /\ szStack' = SubSeq(szStack, 1, Len(szStack) - 1)
                /\ posStack' = SubSeq(posStack, 1, Len(posStack) - 1)
                /\ UNCHANGED <<phase, cur, base, ctx0, log>>

Return == /\ phase = "run" /\ Len(szStack) = base /\ ~(OutcomeAt(cur, ctx0[1], ctx0[2]).t = "err")
          /\ log' = Append(log, [q |-> cur, outcome |-> OutcomeAt(cur, ctx0[1], ctx0[2])])
          /\ phase' = "rest" /\ cur' = 0
          /\ UNCHANGED <<szStack, posStack, base, ctx0>>

\* an error may surface at any depth; the ideal evaluator unwinds what this query pushed
Fail == /\ phase = "run" /\ OutcomeAt(cur, ctx0[1], ctx0[2]).t = "err"
        /\ log' = Append(log, [q |-> cur, outcome |-> Err])
        /\ phase' = "rest" /\ cur' = 0
        /\ IF Leaky THEN UNCHANGED <<szStack, posStack>>
           ELSE /\ szStack' = SubSeq(szStack, 1, base)
                /\ posStack' = SubSeq(posStack, 1, base)
        /\ UNCHANGED <<base, ctx0>>

Next == (\E q \in 1..Len(SQueries) : Begin(q)) \/ PushPredicate \/ PopPredicate \/ Return \/ Fail
SessionSpec == Init /\ [][Next]_svars

(***************************************************************************)
(* C19 as invariants / action properties                                   *)
(***************************************************************************)
StacksEmptyAtRest == phase = "rest" => (szStack = <<>> /\ posStack = <<>>)
\* every query got the answer it gets on a fresh context, whatever ran before it
ResultIsFunctionOfQuery == \A i \in 1..Len(log) : log[i].outcome = FreshOutcome(log[i].q)
\* the document is a constant of the machine: no action can change it (QueryIsPure holds by construction;
\* on the implementation side it is observed: serialization, projection, order keys)
=============================================================================
