SPECIFICATION Spec
CONSTANT Open = {"factory-panics-on-unstorable-data", "name-start-unchecked", "set-value-on-defaulted-attribute-lost"}
POSTCONDITION Done
CHECK_DEADLOCK FALSE
