SPECIFICATION Spec
CONSTANT MaxLen = 6
INVARIANT DesignInv
INVARIANT InvEmit
CHECK_DEADLOCK FALSE
