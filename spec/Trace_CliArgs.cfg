SPECIFICATION Spec
CONSTANT Dev = {}
POSTCONDITION Done
CHECK_DEADLOCK FALSE
