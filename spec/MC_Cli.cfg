SPECIFICATION Spec
CONSTANT Dev = {}
INVARIANT InvDocsOk
INVARIANT InvIdentity
INVARIANT InvOuterWins
INVARIANT InvUsable
INVARIANT InvEmit
CHECK_DEADLOCK FALSE
