-------------------------------- MODULE MC_Ns --------------------------------
(***************************************************************************)
(* Bounded model of namespace resolution (C10).  TLC enumerates            *)
(* declaration layouts over a two- or three-level element tree, checks     *)
(* that the recursive scope and the "nearest declaration" definitions      *)
(* agree, that a consistent renaming of the document's prefixes or of the  *)
(* caller's prefixes leaves every name test's selection unchanged, and     *)
(* prints one REPLAY line per document with the expected expanded names,   *)
(* in-scope namespaces and name-test results.                              *)
(***************************************************************************)
EXTENDS Namespaces, XPathSyntax, TLC, Json

CONSTANT Tier

U1 == Cp("u1")  U2 == <<117, 38, 50>>      \* u1 and u&2: a namespace name is the NORMALIZED value of its declaration (written u&amp;2)
PP == Cp("p")   QQ == Cp("q")   II == Cp("e")   JJ == Cp("d")      \* document prefixes p q; caller prefixes e d
Order == <<XmlPre, <<>>, PP, QQ>>

DefaultDecls == { <<>>, <<<< <<>>, U1 >>>>, <<<< <<>>, <<>> >>>> }       \* none, xmlns="u1", xmlns=""
PDecls == { <<>>, <<<<PP, U1>>>>, <<<<PP, U2>>>> }
QDecls == { <<>>, <<<<QQ, U1>>>> }
DeclSets == { a \o b \o c : a \in DefaultDecls, b \in PDecls, c \in QDecls }
At(pre, v) == [pre |-> pre, loc |-> Cp("x"), v |-> Cp(v)]
AttrSets == { <<>>, <<At(<<>>, "1")>>, <<At(PP, "2")>>, <<At(<<>>, "1"), At(PP, "2")>>, <<At(QQ, "1")>>,
              <<At(XmlPre, "2")>> }                      \* xml:x - the xml prefix is bound without any declaration
Prefs == { <<>>, PP, QQ }
El(p, pre, decls, attrs) == [p |-> p, pre |-> pre, loc |-> Cp("a"), decls |-> decls, attrs |-> attrs]

RootVariants == { El(0, pre, d, <<>>) : pre \in {<<>>, PP},
                                        d \in { <<>>, <<<< <<>>, U1 >>>>, <<<<PP, U1>>>>, <<<< <<>>, U2 >>, <<PP, U1>>, <<QQ, U2>>>> } }
ChildVariants == { El(1, pre, d, a) : pre \in Prefs, d \in DeclSets, a \in AttrSets }
GrandVariants == { El(2, pre, d, a) : pre \in Prefs, d \in { <<>>, <<<< <<>>, <<>> >>>>, <<<<PP, U2>>>> },
                                      a \in { <<>>, <<At(PP, "2")>> } }

VARIABLES t, stage
\* one initial state per root variant; the children are added by Next, so that TLC's workers share the cases
Init == t \in { <<r>> : r \in RootVariants } /\ stage = 1
Next == \/ /\ stage = 1 /\ stage' = 2
           /\ t' \in { t \o <<c>> : c \in ChildVariants }
           /\ NsWf(t')
        \/ /\ stage = 2 /\ Tier = "thorough" /\ stage' = 3
           /\ t' \in { t \o <<g>> : g \in GrandVariants }
           /\ NsWf(t')
Spec == Init /\ [][Next]_<<t, stage>>

\* ---------------------------------------------------------------------------------------------
D == Resolve(t, Order)
P == PrefixesOf(t)

NameT(pre, n) == [k |-> "name", pre |-> pre, loc |-> Cp(n)]
Dos  == [axis |-> "descendant-or-self", test |-> [k |-> "type", ty |-> "node"], preds |-> <<>>]
AbsP(steps) == [t |-> "path", abs |-> TRUE, steps |-> steps]
St(ax, test) == [axis |-> ax, test |-> test, preds |-> <<>>]
Tests(pre) ==
  << AbsP(<<Dos, St("child", NameT(<<>>, "a"))>>),                       \* //a      (null namespace only)
     AbsP(<<Dos, St("child", NameT(pre, "a"))>>),                        \* //e:a
     AbsP(<<Dos, St("child", [k |-> "nsany", pre |-> pre])>>),           \* //e:*
     AbsP(<<Dos, St("child", [k |-> "any"])>>),                          \* //*
     AbsP(<<Dos, St("attribute", NameT(<<>>, "x"))>>),                   \* //@x     (never the default namespace)
     AbsP(<<Dos, St("attribute", NameT(pre, "x"))>>),                    \* //@e:x
     AbsP(<<Dos, St("attribute", [k |-> "any"])>>),                      \* //@*
     AbsP(<<St("child", [k |-> "any"]), St("namespace", [k |-> "any"])>>),                          \* /*/namespace::*
     [t |-> "filt", e |-> AbsP(<<Dos, St("child", [k |-> "any"])>>), preds |-> <<[t |-> "fn", name |-> "last", args |-> <<>>]>>,
      steps |-> <<St("namespace", [k |-> "any"])>>] >>                                             \* (//*)[last()]/namespace::*                    \* //namespace::*
Bindings == << <<<<II, U1>>>>, <<<<II, U2>>>>, <<<<II, XmlUri>>>> >>
Sty == [abbrev |-> TRUE, ws |-> 0, parens |-> FALSE]

Results(d, pre, binds) == [q \in 1..Len(Tests(pre)) |-> EvalTop(d, Tests(pre)[q], binds)]

\* ---------------------------------------------------------------------------------------------
\* theorems of the design
InvScope == ScopeAgrees(t)
InvTree == TreeOk(D)
\* renaming the document's prefixes p <-> q consistently changes no selection (node indices are stable because
\* the namespace nodes are listed in the renamed order)
Swap == [x \in P \cup {PP, QQ} |-> IF x = PP THEN QQ ELSE IF x = QQ THEN PP ELSE x]
InvRenameDoc ==
  LET t2 == RenameTree(t, Swap)
      d2 == Resolve(t2, [k \in 1..Len(Order) |-> Swap[Order[k]]])
  IN  \A b \in 1..Len(Bindings) : Results(D, II, Bindings[b]) = Results(d2, II, Bindings[b])
\* renaming the caller's prefix (e -> d) in expression and bindings changes no selection
InvRenameCaller ==
  \A b \in 1..Len(Bindings) : Results(D, II, Bindings[b]) = Results(D, JJ, <<<<JJ, Bindings[b][1][2]>>>>)
\* the default namespace never reaches an attribute: //@x selects exactly the unprefixed attributes named x
InvAttrNoDefault ==
  LET r == EvalTop(D, Tests(II)[5], <<>>)
  IN  RangeOf(r.v) = { i \in 1..N(D) : Kind(D, i) = "attr" /\ D.nodes[i].pre = <<>> /\ D.nodes[i].loc = Cp("x") }

\* ---------------------------------------------------------------------------------------------
ElemIdx == [k \in 1..NE(t) |-> ElemIndex(t, P, Order, k)]
Case ==
  [t |-> t, text |-> Ser(D), tree |-> D,
   elems |-> [k \in 1..NE(t) |-> [idx |-> ElemIdx[k], uri |-> ElemUri(t, P, k), loc |-> t[k].loc, pre |-> t[k].pre,
                                   scope |-> { <<x, Scope(t, P, k)[x]>> : x \in InScope(t, P, k) }]],
   queries |-> [b \in 1..Len(Bindings) |->
                  [binds |-> Bindings[b],
                   exprs |-> [q \in 1..Len(Tests(II)) |-> Unparse(Tests(II)[q], Sty)],
                   expect |-> Results(D, II, Bindings[b])]],
   \* the same tests with NO caller binding (what a context answers after its binding was removed again)
   nobind |-> Results(D, II, <<>>),
   text2 |-> Ser(Resolve(RenameTree(t, Swap), [k \in 1..Len(Order) |-> Swap[Order[k]]])),
   tree2 |-> Resolve(RenameTree(t, Swap), [k \in 1..Len(Order) |-> Swap[Order[k]]])]
InvEmit == PrintT(<<"REPLAY", ToJson(Case)>>)
=============================================================================
