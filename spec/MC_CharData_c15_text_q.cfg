SPECIFICATION Spec
CONSTANT Kind = "text"
CONSTANT Alphabet <- AlphaText
CONSTANT MaxLen = 2
CONSTANT Args <- ArgsText
CONSTANT Ops <- OpsMut
VIEW View
INVARIANT InvSerializable
INVARIANT InvAlgebra
INVARIANT InvEmit
CHECK_DEADLOCK FALSE
