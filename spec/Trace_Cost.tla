------------------------------ MODULE Trace_Cost ------------------------------
(***************************************************************************)
(* Trace validation for C03.  The harness records one event per call of    *)
(* the pipeline, made in a worker process with an 8 MiB stack and a hard   *)
(* wall-clock limit:                                                       *)
(*   {"event":"call","family":f,"n":n,"len":code points,"outcome":o,       *)
(*    "signal":s,"ms":t,"text":[cp...] (inline when short),                *)
(*    "text_prefix":[first 200 cp] (when the text is omitted), ...}        *)
(* o is ok | err | panic | abort | timeout.  Every event is matched        *)
(* against the call machine of Cost.tla: the observation must be one that  *)
(* some behaviour Call ; (Return | Error) produces.  panic / abort /       *)
(* timeout are produced by no action, hence VIOLATION - unless an OPEN     *)
(* catalogued finding's exact as-is model reproduces the observation.      *)
(* For family members the event must be about the specification's own      *)
(* rendering (length and prefix are re-computed here), and every member of *)
(* the configured sample must occur in the trace (a missing member is a    *)
(* tool error, not a pass).  The trace spec never blocks.                  *)
(***************************************************************************)
EXTENDS Cost, TLC, Json, IOUtils

CONSTANTS Dense,          \* which sample of each family the run was asked to exercise
          Open,           \* names of the catalogued deviations (known_findings.jsonl, status open)
          RequireFamilies \* TRUE in a full run; FALSE when a single stored case is replayed

Rec == ndJsonDeserialize(IOEnv.TRACE)

VARIABLE l

Min(a, b) == IF a < b THEN a ELSE b

\* the recorded text (all of it when it was short enough to be inlined)
TextOf(e) == IF e.text_omitted THEN e.text_prefix ELSE e.text

-----------------------------------------------------------------------------
(* predicates over recorded inputs, used by the as-is models               *)

\* does pattern p occur in t at position i
At(t, p, i) == i + Len(p) - 1 <= Len(t) /\ \A k \in 1..Len(p) : t[i + k - 1] = p[k]
Contains(t, p) == \E i \in 1..Len(t) : At(t, p, i)

\* Depth of element nesting that the text asks a parser to descend to: a start of a tag
\* ('<' followed by something that is not '/', '!' or '?') opens a level unless the tag ends in "/>",
\* "</" closes one.  Evaluated left to right; the maximum over all prefixes.
IsOpen(t, i)  == t[i] = 60 /\ i < Len(t) /\ t[i + 1] \notin {47, 33, 63}
IsClose(t, i) == t[i] = 60 /\ i < Len(t) /\ t[i + 1] = 47
IsEmptyEnd(t, i) == t[i] = 47 /\ i < Len(t) /\ t[i + 1] = 62
RECURSIVE DepthScan(_, _, _, _)
DepthScan(t, i, cur, best) ==
  IF i > Len(t) THEN best
  ELSE LET c == IF IsOpen(t, i) THEN cur + 1
                ELSE IF (IsClose(t, i) \/ IsEmptyEnd(t, i)) /\ cur > 0 THEN cur - 1 ELSE cur
       IN  DepthScan(t, i + 1, c, IF c > best THEN c ELSE best)
NestingDepth(t) == DepthScan(t, 1, 0, 0)

-----------------------------------------------------------------------------
(* catalogued deviations: exact condition + exact wrong outcome            *)

\* (No finding of C03 is open at present: Open = {} and every crash is a VIOLATION.  The model below
\* describes the pinned tree before the nesting limit of commit 01f1c54 and is selected only if a
\* finding of that name is open in known_findings.jsonl.)
\* "deep-nesting-stack-overflow": element / content / Display / drop recurse once per nesting level;
\* beyond DeepSafe levels the 8 MiB stack of the worker is exhausted and the process is killed by
\* SIGABRT (Rust's stack-overflow handler) or SIGSEGV.  Nothing else is excused: a panic or a
\* timeout on a deep input, or an abort on a shallow one, stays a VIOLATION.
DeepSafe == 1000
AsIsDeepNesting(e) ==
  /\ e.outcome = "abort"
  /\ e.signal \in {6, 11}
  /\ IF e.family = "Deep" THEN e.n > DeepSafe
     ELSE ~e.text_omitted /\ NestingDepth(e.text) > DeepSafe

AsIsName(e) ==
  IF "deep-nesting-stack-overflow" \in Open /\ AsIsDeepNesting(e) THEN "deep-nesting-stack-overflow"
  ELSE "VIOLATION"

-----------------------------------------------------------------------------
\* the event is about the family member the specification rendered
RenderOk(e) ==
  IF e.family \notin Families THEN TRUE
  ELSE /\ e.n \in 1..MaxN(e.family)
       /\ LET t == Render(e.family, e.n)
              k == Min(Len(t), Len(TextOf(e)))
          IN  /\ e.len = Len(t)
              /\ (e.text_omitted \/ Len(e.text) = Len(t))
              /\ k = Min(Len(t), IF e.text_omitted THEN 200 ELSE Len(t))
              /\ \A i \in 1..k : TextOf(e)[i] = t[i]

Verdict(e) ==
  IF ~RenderOk(e)
  THEN [verdict |-> "TOOL-RENDER-MISMATCH", family |-> e.family, n |-> e.n, len |-> e.len]
  ELSE IF e.outcome \in Producible
  THEN [verdict |-> "ok"]
  ELSE LET name == AsIsName(e) IN
       [verdict |-> name, family |-> e.family, n |-> e.n, outcome |-> e.outcome, signal |-> e.signal,
        why |-> IF name = "VIOLATION"
                THEN "the call ended in a way no action of Cost.tla produces (only Return and Error exist)"
                ELSE "as-is model of the catalogued finding"]

\* One state per event.  The machine's variables show the composite step Call ; (Return | Error)
\* when the observation is producible, and stay at "called" (no action applies) when it is not.
TInit == l = 1 /\ pc = "idle" /\ inp = NoInput
TNext == /\ l <= Len(Rec)
        /\ LET e == Rec[l]
               v == Verdict(e)
           IN  /\ inp' = [family |-> e.family, n |-> e.n]
               /\ pc' = IF e.outcome \in Producible
                        THEN CHOOSE p \in Terminal : Observable(p) = e.outcome
                        ELSE "called"
               /\ IF v.verdict = "ok" THEN TRUE ELSE PrintT(<<"VERDICT", ToJson([i |-> l] @@ v)>>)
        /\ l' = l + 1
Spec == TInit /\ [][TNext]_<<l, pc, inp>>

\* completeness of the family run
Seen == { <<Rec[i].family, Rec[i].n>> : i \in 1..Len(Rec) }
Missing == IF RequireFamilies
           THEN { m \in MembersOf(Dense) : <<m.family, m.n>> \notin Seen }
           ELSE {}

Done == /\ (TLCGet("stats").diameter = Len(Rec) + 1 \/
            PrintT(<<"TRUNCATED", TLCGet("stats").diameter, Len(Rec)>>))
        /\ (Missing = {} \/ PrintT(<<"MISSING", ToJson(Missing)>>))
=============================================================================
