-------------------------- MODULE Trace_QuerySession --------------------------
(***************************************************************************)
(* Trace validation of query sessions (C19).                               *)
(* {"event":"ser","k":n,"text":[cp..]} - the n-th DISTINCT serialization seen   *)
(*    in this run (the recorder interns them: "ser"/"sers" below are indices) *)
(* {"event":"fresh","d":i,"answers":[a..],"ser":k}  - every query of         *)
(*    document i answered on a parse of its own with a context of its own. *)
(* {"event":"session","d":i,"variant":s,"qs":[q..],"answers":[a..],        *)
(*  "sers":[k..]} - one document, one context (variant "shared") or a       *)
(*    fresh context per query (variant "percall"), the queries in series.  *)
(* Answer k must be IdealAnswer(fresh[d], qs, k) and the serialization     *)
(* after call k must be IdealSer(fresh[d]).  Answers are opaque values     *)
(* (node-sets as lists of structural paths): only equality is used.        *)
(***************************************************************************)
EXTENDS Integers, Sequences, TLC, Json, IOUtils
CONSTANT Open
Rec == ndJsonDeserialize(IOEnv.TRACE)
VARIABLE l
Q == INSTANCE QuerySession WITH MaxLen <- 0, log <- <<>>

FreshIdx == { i \in 1..Len(Rec) : Rec[i].event = "fresh" }
FreshOf(doc) == Rec[CHOOSE i \in FreshIdx : Rec[i].d = doc]

Verdict(e) ==
  IF e.event \in {"fresh", "ser"} THEN [verdict |-> "ok"]
  ELSE IF \A i \in FreshIdx : Rec[i].d # e.d THEN [verdict |-> "TOOL-no-fresh-answers"]
  ELSE
  LET fr == FreshOf(e.d)
      badA == { k \in 1..Len(e.qs) : e.answers[k] # Q!IdealAnswer(fr, e.qs, k) }
      badS == { k \in 1..Len(e.qs) : e.sers[k] # Q!IdealSer(fr) }
  IN  IF badA # {} THEN
        LET k == CHOOSE k \in badA : \A j \in badA : k <= j
        IN  [verdict |-> "VIOLATION",
             why |-> "the answer to a query depends on the queries evaluated before it (same document, " \o e.variant \o " context)",
             d |-> e.d, session |-> e.qs, position |-> k, fresh |-> fr.answers[e.qs[k]], observed |-> e.answers[k]]
      ELSE IF badS # {} THEN
        LET k == CHOOSE k \in badS : \A j \in badS : k <= j
        IN  [verdict |-> "VIOLATION", why |-> "evaluating a query changed the serialization of the document",
             d |-> e.d, session |-> e.qs, position |-> k]
      ELSE [verdict |-> "ok"]

TInit == l = 1
TNext == /\ l <= Len(Rec)
         /\ LET v == Verdict(Rec[l]) IN IF v.verdict = "ok" THEN TRUE ELSE PrintT(<<"VERDICT", ToJson([i |-> l] @@ v)>>)
         /\ l' = l + 1
TSpec == TInit /\ [][TNext]_l
Done == TLCGet("stats").diameter = Len(Rec) + 1 \/ PrintT(<<"TRUNCATED", TLCGet("stats").diameter, Len(Rec)>>)
=============================================================================
