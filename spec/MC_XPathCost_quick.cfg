SPECIFICATION Spec
CONSTANT Sizes = {1, 2, 3, 5, 8, 12, 16, 20, 25, 30, 35, 40}
CONSTANT DeepSizes = {150, 3000}
CONSTANT Cp <- FastCp
INVARIANT Inv
CHECK_DEADLOCK FALSE
