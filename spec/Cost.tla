-------------------------------- MODULE Cost --------------------------------
(***************************************************************************)
(* C03 - parsing and printing are total.                                   *)
(*                                                                         *)
(* 1. The call as a state machine.  A call of the pipeline                 *)
(*        parse -> information set -> compact print -> pretty print        *)
(*        -> read every lazily computed value                              *)
(*    on an input is started by Call(input) and can only end by Return (a  *)
(*    value) or Error (an error value).  There is NO Panic, Abort or       *)
(*    Timeout action: an observed call that ends in one of those ways has  *)
(*    no matching transition, and that is what makes it a violation.       *)
(*                                                                         *)
(* 2. The hostile input families.  F(n) is rendered to text - a sequence   *)
(*    of code points - here, in the specification; the harness only        *)
(*    encodes code points as UTF-8.  For every family the specification    *)
(*    fixes the bound MaxN(F): "the call on F(n) ends by Return or Error   *)
(*    within the worker's limits, for every n <= MaxN(F)".  The bound is   *)
(*    chosen so that an algorithm that is exponential in n cannot meet it  *)
(*    (2^40 steps for Groups(40)), while MaxLen(F, n) - checked by TLC -   *)
(*    shows that the input itself is only linear in n.  There are no       *)
(*    timing ratios: the only time-related observation is the hard wall    *)
(*    clock limit of the worker.                                           *)
(***************************************************************************)
EXTENDS Integers, Sequences, FiniteSets

-----------------------------------------------------------------------------
(* text helpers: strings of printable ASCII -> code points                 *)

Ascii == " !\"#$%&'()*+,-./0123456789:;<=>?@ABCDEFGHIJKLMNOPQRSTUVWXYZ[\\]^_`abcdefghijklmnopqrstuvwxyz{|}~"
Ord(c) == 31 + CHOOSE i \in 1..95 : SubSeq(Ascii, i, i) = c
Cps(str) == [i \in 1..Len(str) |-> Ord(SubSeq(str, i, i))]

\* The fixed pieces of markup the families are built from.  S(str) looks the piece up in a table that
\* is computed once (Cps walks the string character by character, which is too slow to repeat for
\* every element of a 100 000 character text).
Markup ==
  { "<!DOCTYPE r [", "]>", "<a>", "</a>", "<r>", "<a/>",
    "</r>", " a", "=\"v\"", "<r", "/>", "x",
    "<r><!--", "--></r>", "<r a=\"", "x ", "\"/>", "<r><![CDATA[",
    "<&", "]]></r>", "&#65;&lt;", "\">", "&#x42;&amp;", "<!ELEMENT r ",
    ">", "<r/>", "(", "a", "|b)", "(b|",
    ")", ",b)", "(b,", "((", "|b)*,b)+", "<!ENTITY e",
    " \"&e", ";\">", "<r>&e0001;</r>", "<r a=\"&e0001;\"/>", " \"v\">", ";&e",
    "<a b=\"1\" c='2'>x", "y</a>", "</b>", "&e", ";", "<!ATTLIST r a", " CDATA \"v\">", "<!ATTLIST zz a CDATA \"&e0001;\">",
    "<!ENTITY e0000 \"", "<r>&e0000;</r>", "<!ENTITY e9999 \"v\">" }
STab == [str \in Markup |-> Cps(str)]
S(str) == STab[str]

\* x repeated n times, built without recursion (n may be 200 000)
Rep(x, n) == [i \in 1..(n * Len(x)) |-> x[((i - 1) % Len(x)) + 1]]

\* four decimal digits of k (0 <= k <= 9999), so that numbered names have a fixed width
Digit(k, p) == 48 + ((k \div p) % 10)
D4(k) == << Digit(k, 1000), Digit(k, 100), Digit(k, 10), Digit(k, 1) >>

\* concatenation of n >= 1 pieces of equal length, piece(j) for j in 1..n, without recursion
Pieces(n, piece(_)) ==
  LET tab == [j \in 1..n |-> piece(j)]
      L   == Len(tab[1])
  IN  [i \in 1..(n * L) |-> tab[((i - 1) \div L) + 1][((i - 1) % L) + 1]]

Lt == 60
Gt == 62
LParen == 40
RParen == 41
Count(t, c) == Cardinality({ i \in 1..Len(t) : t[i] = c })

-----------------------------------------------------------------------------
(* the families                                                            *)

DtdOpen  == S("<!DOCTYPE r [")
DtdClose == S("]>")

\* n nested elements
Deep(n) == Rep(S("<a>"), n) \o Rep(S("</a>"), n)

\* n nested elements that carry attributes and text
DeepMixed(n) == Rep(S("<a b=\"1\" c='2'>x"), n) \o Rep(S("y</a>"), n)

\* n start tags that are never closed; n start tags closed by the wrong end tags
Unclosed(n) == Rep(S("<a>"), n)
Mismatch(n) == Rep(S("<a>"), n) \o Rep(S("</b>"), n)

\* n children / n attributes / long character data
ManyChildren(n) == S("<r>") \o Rep(S("<a/>"), n) \o S("</r>")
AttrPiece(j) == S(" a") \o D4(j) \o S("=\"v\"")                       \* 10 code points
ManyAttrs(n) == S("<r") \o Pieces(n, AttrPiece) \o S("/>")
LongText(n) == S("<r>") \o Rep(S("x"), n) \o S("</r>")
LongComment(n) == S("<r><!--") \o Rep(S("x"), n) \o S("--></r>")
LongAttr(n) == S("<r a=\"") \o Rep(S("x "), n) \o S("\"/>")
LongCData(n) == S("<r><![CDATA[") \o Rep(S("<&"), n) \o S("]]></r>")
ManyRefs(n) == S("<r a=\"") \o Rep(S("&#65;&lt;"), n) \o S("\">") \o Rep(S("&#x42;&amp;"), n) \o S("</r>")

\* content-model groups of nesting depth n: (((a|b)|b)|b) ... and the mirror image (b|(b|(b|a)))
ElemDecl(model) == DtdOpen \o S("<!ELEMENT r ") \o model \o S(">") \o DtdClose \o S("<r/>")
GroupsL(n)    == ElemDecl(Rep(S("("), n) \o S("a") \o Rep(S("|b)"), n))
GroupsR(n)    == ElemDecl(Rep(S("(b|"), n) \o S("a") \o Rep(S(")"), n))
SeqGroupsL(n) == ElemDecl(Rep(S("("), n) \o S("a") \o Rep(S(",b)"), n))
SeqGroupsR(n) == ElemDecl(Rep(S("(b,"), n) \o S("a") \o Rep(S(")"), n))
\* alternating choice / sequence with occurrence indicators: (((a|b)*,b)+|b)? ...
MixGroupsL(n) == ElemDecl(Rep(S("(("), n) \o S("a") \o Rep(S("|b)*,b)+"), n))
Parens(n)     == ElemDecl(Rep(S("("), n) \o S("a") \o Rep(S(")"), n))

\* k general entities e0001 -> e0002 -> ... -> e000k; the last one refers to `last`
EntPiece(k, last, j) ==
  S("<!ENTITY e") \o D4(j) \o S(" \"&e") \o D4(IF j = k THEN last ELSE j + 1) \o S(";\">")            \* 25
EntDecls(k, last) == Pieces(k, LAMBDA j : EntPiece(k, last, j))
UseInContent == S("<r>&e0001;</r>")
UseInAttr    == S("<r a=\"&e0001;\"/>")
\* the last entity refers back to the first: a cycle of length k
CycleContent(k) == DtdOpen \o EntDecls(k, 1) \o DtdClose \o UseInContent
CycleAttr(k)    == DtdOpen \o EntDecls(k, 1) \o DtdClose \o UseInAttr
\* a chain: the last entity (number n+1) is plain text
ChainDecls(n) == EntDecls(n, n + 1) \o S("<!ENTITY e") \o D4(n + 1) \o S(" \"v\">")
ChainContent(n) == DtdOpen \o ChainDecls(n) \o DtdClose \o UseInContent
ChainAttr(n)    == DtdOpen \o ChainDecls(n) \o DtdClose \o UseInAttr
\* n "ladders" of 100 entities each: ladder i ends in a reference to the START of ladder i-1 (the first one in plain
\* text), and the root entity e0000 refers to the starts of all ladders in turn - so when ladder i is looked at, everything
\* below it has been seen already.  The nesting of references is 100 * n deep.
LadderLen == 100
LadderPiece(j) ==            \* (all pieces have one length: the first ladder ends in a reference to the plain entity e9999)
  S("<!ENTITY e") \o D4(j) \o S(" \"&e")
  \o D4(IF j % LadderLen # 0 THEN j + 1 ELSE IF j = LadderLen THEN 9999 ELSE j - 2 * LadderLen + 1) \o S(";\">")
LadderRootPiece(i) == S("&e") \o D4((i - 1) * LadderLen + 1) \o S(";")
Ladders(n) == DtdOpen \o Pieces(n * LadderLen, LadderPiece) \o S("<!ENTITY e9999 \"v\">")
              \o S("<!ENTITY e0000 \"") \o Pieces(n, LadderRootPiece) \o S("\">") \o DtdClose \o S("<r>&e0000;</r>")
\* n independent entities, each referenced once; n ATTLIST declarations for the same element
PlainEntPiece(j) == S("<!ENTITY e") \o D4(j) \o S(" \"v\">")
EntRefPiece(j)   == S("&e") \o D4(j) \o S(";")
ManyEntities(n)  == DtdOpen \o Pieces(n, PlainEntPiece) \o DtdClose
                    \o S("<r>") \o Pieces(n, EntRefPiece) \o S("</r>")
AttlistPiece(j)  == S("<!ATTLIST r a") \o D4(j) \o S(" CDATA \"v\">")
ManyAttlists(n)  == DtdOpen \o Pieces(n, AttlistPiece) \o DtdClose \o S("<r/>")

\* doubling chain ("billion laughs" with base 2): the value of e0001 has 2^n characters
LaughPiece(j) ==
  S("<!ENTITY e") \o D4(j) \o S(" \"&e") \o D4(j + 1) \o S(";&e") \o D4(j + 1) \o S(";\">")            \* 32
Laughs(n) == DtdOpen \o Pieces(n, LaughPiece) \o S("<!ENTITY e") \o D4(n + 1) \o S(" \"v\">")
             \o DtdClose \o UseInAttr
\* the same doubling chain, referenced only from the default value of an attribute of an element type that does
\* not occur: nothing ever has to expand it (2^n characters), but every reference has to be CHECKED (declared, no
\* recursion, no '<') - once per entity, not once per path through the chain
LaughsUnused(n) == DtdOpen \o Pieces(n, LaughPiece) \o S("<!ENTITY e") \o D4(n + 1) \o S(" \"v\">")
                   \o S("<!ATTLIST zz a CDATA \"&e0001;\">") \o DtdClose \o S("<r/>")

\* constructs the library does not support, or odd ones: they must surface as Return or Error
OddDocs == <<
  Cps("<!DOCTYPE r [<!ENTITY % p \"x\">]><r/>"),                               \* PE declaration
  Cps("<!DOCTYPE r [<!ENTITY % p \"x\">%p;]><r/>"),                            \* PE declaration + reference
  Cps("<!DOCTYPE r [%p;]><r/>"),                                               \* PE reference, undeclared
  Cps("<!DOCTYPE r [ %p; ]><r a=\"1\">x</r>"),
  Cps("<!DOCTYPE r [<!ENTITY e \"%p;\">]><r/>"),                               \* PE reference in an entity value
  Cps("<!DOCTYPE r [<!ENTITY e \"%p;\">]><r a=\"&e;\"/>"),                     \*   ... read through an attribute
  Cps("<!DOCTYPE r [<!ENTITY e \"%p;\">]><r>&e;</r>"),                         \*   ... read through content
  Cps("<!DOCTYPE r [<!ENTITY % p \"x\"><!ENTITY e \"a%p;b\">]><r a=\"&e;\">&e;</r>"),
  Cps("<!DOCTYPE r [<!ENTITY % p SYSTEM \"p.ent\">%p;]><r/>"),                 \* external PE
  Cps("<!DOCTYPE r [<!ENTITY % p PUBLIC \"pub\" \"p.ent\">]><r/>"),
  Cps("<!DOCTYPE r [<![INCLUDE[<!ELEMENT r ANY>]]>]><r/>"),                    \* conditional sections
  Cps("<!DOCTYPE r [<![IGNORE[<!ELEMENT r ANY>]]>]><r/>"),
  Cps("<!DOCTYPE r [<![%p;[<!ELEMENT r ANY>]]>]><r/>"),
  Cps("<!DOCTYPE r SYSTEM \"r.dtd\"><r/>"),                                    \* external subset
  Cps("<!DOCTYPE r PUBLIC \"-//X//Y\" \"r.dtd\" [<!ENTITY x SYSTEM \"x.xml\">]><r>&x;</r>"),  \* external entity used
  Cps("<!DOCTYPE r [<!ENTITY x SYSTEM \"x.xml\">]><r a=\"&x;\"/>"),            \*   ... in an attribute
  Cps("<!DOCTYPE r [<!NOTATION n SYSTEM \"n\"><!ENTITY u SYSTEM \"u\" NDATA n>]><r a=\"&u;\">&u;</r>"), \* unparsed entity used
  Cps("<!DOCTYPE r [<!ENTITY u SYSTEM \"u\" NDATA nn>]><r/>"),                 \* undeclared notation
  Cps("<!DOCTYPE r [<!ELEMENT r (%p;)>]><r/>"),                                \* PE reference inside a declaration
  Cps("<!DOCTYPE r [<!ATTLIST r a %t; #IMPLIED>]><r/>"),
  Cps("<!DOCTYPE r [<!ATTLIST r a CDATA \"&u;\">]><r/>"),                      \* default with undeclared entity
  Cps("<!DOCTYPE r [<!ENTITY e \"&e;\"><!ATTLIST r a CDATA \"&e;\">]><r/>"),   \* default with a cyclic entity
  Cps("<!DOCTYPE r [<!ENTITY e \"<r>\">]><r>&e;</r>"),                         \* unbalanced replacement text
  Cps("<!DOCTYPE r [<!ENTITY e \"&#60;\">]><r a=\"&e;\">&e;</r>"),             \* '<' via a character reference
  Cps("<!DOCTYPE r [<!ENTITY e \"&#38;e;\">]><r a=\"&e;\">&e;</r>"),           \* '&e;' via a character reference
  Cps("<!DOCTYPE r [<!ENTITY e \"&#x110000;\">]><r a=\"&e;\">&e;</r>"),        \* not a character
  Cps("<r a=\"&#x110000;\">&#99999999999999999999;</r>"),
  Cps("<r a=\"&u;\">&u;</r>"),                                                 \* undeclared entity
  Cps("<!DOCTYPE r [<!ENTITY e \"v\">]><r>&e</r>"),
  Cps("<!DOCTYPE r [<!ELEMENT r (a,,b)>]><r/>"),
  Cps("<!DOCTYPE r [<!ELEMENT r ()>]><r/>"),
  Cps("<!DOCTYPE r [<!ELEMENT r (a|b,c)>]><r/>"),
  Cps("<!DOCTYPE r [<!ELEMENT r (#PCDATA|a)>]><r/>"),
  Cps("<!DOCTYPE r [<!ATTLIST r>]><r/>"),
  Cps("<!DOCTYPE r [<!ATTLIST r a NOTATION (n) #IMPLIED>]><r a=\"n\"/>"),
  Cps("<!DOCTYPE r [<!ATTLIST r a (x|y) #FIXED \"z\">]><r/>"),
  Cps("<!DOCTYPE r [<!ATTLIST q a CDATA \"d\"><!ATTLIST r a CDATA \"d\" a CDATA \"e\">]><r/>"),
  Cps("<!DOCTYPE r [<!ATTLIST r xmlns CDATA \"u\" xmlns:p CDATA \"v\" p:a CDATA \"w\">]><r/>"),
  Cps("<!DOCTYPE r []>"),                                                      \* no root element
  Cps("<!DOCTYPE r ["),
  Cps("<?xml version=\"1.0\"?>"),
  Cps("<?xml version=\"1.1\" encoding=\"UTF-16\" standalone=\"maybe\"?><r/>"),
  Cps("<r xmlns:p=\"\"><p:a q:b=\"1\"/></r>"),                                 \* unbound / undeclared prefixes
  Cps("<r xmlns:xmlns=\"u\" xmlns:xml=\"v\" xml:a=\"1\"/>"),
  Cps("<p:r/>"),
  Cps("<r a=\"1\" a=\"2\"/>"),
  Cps("<r><![CDATA[]]]]><![CDATA[>]]></r>"),
  Cps("<r><!----><!-- - --><?p?><?p ??></r>"),
  Cps("") >>
Odd(n) == OddDocs[n]

-----------------------------------------------------------------------------
(* the table: family name -> renderer, bound N, declared length bound      *)

Families == { "Deep", "DeepMixed", "Unclosed", "Mismatch", "ManyEntities", "ManyAttlists", "ManyChildren", "ManyAttrs", "LongText", "LongComment", "LongAttr", "LongCData",
              "ManyRefs", "GroupsL", "GroupsR", "SeqGroupsL", "SeqGroupsR", "MixGroupsL", "Parens",
              "CycleContent", "CycleAttr", "ChainContent", "ChainAttr", "Ladders", "Laughs", "LaughsUnused", "Odd" }

Render(f, n) ==
  CASE f = "Deep" -> Deep(n)
    [] f = "DeepMixed" -> DeepMixed(n)
    [] f = "Unclosed" -> Unclosed(n)
    [] f = "Mismatch" -> Mismatch(n)
    [] f = "ManyEntities" -> ManyEntities(n)
    [] f = "ManyAttlists" -> ManyAttlists(n)
    [] f = "ManyChildren" -> ManyChildren(n)
    [] f = "ManyAttrs" -> ManyAttrs(n)
    [] f = "LongText" -> LongText(n)
    [] f = "LongComment" -> LongComment(n)
    [] f = "LongAttr" -> LongAttr(n)
    [] f = "LongCData" -> LongCData(n)
    [] f = "ManyRefs" -> ManyRefs(n)
    [] f = "GroupsL" -> GroupsL(n)
    [] f = "GroupsR" -> GroupsR(n)
    [] f = "SeqGroupsL" -> SeqGroupsL(n)
    [] f = "SeqGroupsR" -> SeqGroupsR(n)
    [] f = "MixGroupsL" -> MixGroupsL(n)
    [] f = "Parens" -> Parens(n)
    [] f = "CycleContent" -> CycleContent(n)
    [] f = "CycleAttr" -> CycleAttr(n)
    [] f = "ChainContent" -> ChainContent(n)
    [] f = "ChainAttr" -> ChainAttr(n)
    [] f = "Ladders" -> Ladders(n)
    [] f = "Laughs" -> Laughs(n)
    [] f = "LaughsUnused" -> LaughsUnused(n)
    [] f = "Odd" -> Odd(n)

\* The bound N of each family.  Exponential re-parsing / re-expansion cannot meet the bounds of the
\* group and entity families (2^40 steps); the linear families are bounded by what a caller may
\* hand to a parser and for which a quadratic algorithm still finishes well within the limit (the
\* property forbids exponential time, not quadratic): 20 000 nested elements or parentheses, 50 000
\* characters, 10 000 children, 1 000 attributes / references, a chain of 9 000 entities (like nested elements: each
\* level is one declaration of some 25 characters).
MaxN(f) ==
  CASE f \in {"Deep", "DeepMixed", "Parens", "Unclosed", "Mismatch"} -> 20000
    [] f \in {"ManyEntities", "ManyAttlists"} -> 500
    [] f \in {"LongText", "LongComment", "LongAttr", "LongCData"} -> 50000
    [] f = "ManyChildren" -> 10000
    [] f = "ManyAttrs" -> 1000
    [] f = "ManyRefs" -> 1000
    [] f \in {"GroupsL", "GroupsR", "SeqGroupsL", "SeqGroupsR", "MixGroupsL"} -> 40
    [] f \in {"CycleContent", "CycleAttr"} -> 40
    [] f \in {"ChainContent", "ChainAttr"} -> 9000
    [] f = "Ladders" -> 90
    [] f = "Laughs" -> 12
    [] f = "LaughsUnused" -> 40
    [] f = "Odd" -> Len(OddDocs)

\* Every family is linear in n:  Len(Render(f, n)) <= A(f) * n + B(f)
LenA(f) ==
  CASE f = "Deep" -> 7
    [] f = "DeepMixed" -> 22
    [] f = "Unclosed" -> 3
    [] f = "Mismatch" -> 7
    [] f = "ManyEntities" -> 27
    [] f = "ManyAttlists" -> 28
    [] f = "ManyChildren" -> 4
    [] f = "ManyAttrs" -> 10
    [] f \in {"LongText", "LongComment"} -> 1
    [] f \in {"LongAttr", "LongCData"} -> 2
    [] f = "ManyRefs" -> 20
    [] f \in {"GroupsL", "GroupsR", "SeqGroupsL", "SeqGroupsR"} -> 4
    [] f = "MixGroupsL" -> 10
    [] f = "Parens" -> 2
    [] f \in {"CycleContent", "CycleAttr", "ChainContent", "ChainAttr"} -> 26
    [] f = "Ladders" -> 2700
    [] f \in {"Laughs", "LaughsUnused"} -> 33
    [] f = "Odd" -> 0
MaxLen(f, n) == LenA(f) * n + 120

\* "the input is hostile by shape, not by size": what the renderer must satisfy (checked by TLC)
\* markup brackets and parentheses are balanced in every family member except the Odd ones
Balanced(t) == Count(t, Lt) = Count(t, Gt) /\ Count(t, LParen) = Count(t, RParen)

\* Members of a family that a run exercises.  Exponential families: every n.  Linear families:
\* every n up to 12, powers of two and their neighbours, multiples of Step, and the bound itself.
Pow2 == { 16, 32, 64, 128, 256, 512, 1024, 2048, 4096, 8192, 16384, 32768 }
SmallBound(f) == MaxN(f) <= 64
Sample(f, dense) ==
  IF SmallBound(f) /\ (dense \/ f = "Odd") THEN 1..MaxN(f)
  ELSE LET N == MaxN(f)
           step == IF dense THEN (IF N > 1000 THEN N \div 40 ELSE 25) ELSE (IF N > 64 THEN N \div 4 ELSE 8)
           base == IF dense THEN 1..12 ELSE {1, 2, 3, 5}
       IN  { n \in base \cup (IF dense THEN Pow2 \cup { p - 1 : p \in Pow2 } \cup { p + 1 : p \in Pow2 }
                                        ELSE { 16, 256, 4096 })
                        \* around the limits an implementation is likely to have (nesting 128; indentation, buffers): members
                        \* that are still ACCEPTED - and therefore printed, in both forms - as well as the first refused ones
                        \cup { 31, 32, 33, 64, 100, 127, 128, 129 }
                        \cup { k * step : k \in 1..(N \div step) } \cup {N - 1, N} : n >= 1 /\ n <= N }

Member(f, n) == [family |-> f, n |-> n]
MembersOf(dense) == UNION { { Member(f, n) : n \in Sample(f, dense) } : f \in Families }

-----------------------------------------------------------------------------
(* the call                                                                *)

VARIABLES pc,     \* "idle" | "called" | "returned" | "errored"
          inp     \* what the call was made on: [family, n] (a family member or a numbered input)

NoInput == [family |-> "none", n |-> 0]

Init == pc = "idle" /\ inp = NoInput

Call(i) == /\ pc = "idle"
           /\ pc' = "called"
           /\ inp' = i
Return  == /\ pc = "called"
           /\ pc' = "returned"
           /\ UNCHANGED inp
Error   == /\ pc = "called"
           /\ pc' = "errored"
           /\ UNCHANGED inp
\* deliberately absent: Panic, Abort, Timeout.

\* what an observer sees of the way a call ended, per terminal control state
Observable(p) == CASE p = "returned" -> "ok" [] p = "errored" -> "err" [] OTHER -> "none"
Terminal == {"returned", "errored"}
\* the observations that some behaviour of the machine produces
Producible == { Observable(p) : p \in Terminal }

TypeOK == /\ pc \in {"idle", "called", "returned", "errored"}
          /\ inp.family \in Families \cup {"none", "garbage", "mc"}
=============================================================================
