SPECIFICATION Spec
CONSTANT MaxLen = 3
INVARIANT Inv
CHECK_DEADLOCK FALSE
