------------------------------- MODULE MC_Dom -------------------------------
(***************************************************************************)
(* Model-checking instance of Dom.tla: a bounded node pool, every call of  *)
(* Calls(P) enabled in every state, failing calls included (they are       *)
(* stuttering steps with an exception).  TLC checks TreeInv on all         *)
(* reachable states (= all edit histories of any length over the pool)     *)
(* and dumps the labelled transition relation, one NODE line per state,    *)
(* which the harness replays edge by edge into the real DOM.               *)
(***************************************************************************)
EXTENDS Dom, TLC, Json, SequencesExt

CONSTANT PoolName

\* how   : "doc" (parse `text`), "parsed" (reach through child indices `path` from its document,
\*         a negative index -k meaning the k-th attribute), "create" (factory call on its document)
N(kind, owner, aname, how, path, text) ==
  [kind |-> kind, owner |-> owner, aname |-> aname, how |-> how, path |-> path, text |-> text]

PoolQ == <<
  N("doc",     1, "",  "doc",    <<>>,     "<r><a/>t</r>"),
  N("elem",    1, "",  "parsed", <<1>>,    ""),      \* 2  r
  N("elem",    1, "",  "parsed", <<1, 1>>, ""),      \* 3  a
  N("text",    1, "",  "parsed", <<1, 2>>, ""),      \* 4  "t"
  N("elem",    1, "",  "create", <<>>,     "e"),     \* 5
  N("comment", 1, "",  "create", <<>>,     "c"),     \* 6
  N("attr",    1, "x", "create", <<>>,     "x"),     \* 7
  N("attr",    1, "x", "create", <<>>,     "x"),     \* 8
  N("doc",     9, "",  "doc",    <<>>,     "<r><a/>t</r>"),   \* 9  a structurally equal document
  N("elem",    9, "",  "create", <<>>,     "e")      \* 10 foreign element
>>

PoolS == <<                      \* small: exhaustive edge replay on every change
  N("doc",     1, "",  "doc",    <<>>,     "<r><a/>t</r>"),
  N("elem",    1, "",  "parsed", <<1>>,    ""),      \* 2  r
  N("elem",    1, "",  "parsed", <<1, 1>>, ""),      \* 3  a
  N("text",    1, "",  "parsed", <<1, 2>>, ""),      \* 4  "t"
  N("elem",    1, "",  "create", <<>>,     "e"),     \* 5
  N("attr",    1, "x", "create", <<>>,     "x"),     \* 6
  N("doc",     7, "",  "doc",    <<>>,     "<r><a/>t</r>"),   \* 7  a structurally equal document
  N("elem",    7, "",  "create", <<>>,     "e")      \* 8  foreign element
>>

PoolT == <<
  N("doc",     1, "",  "doc",    <<>>,     "<!DOCTYPE r><?p d?><r y=\"1\"><a><b/>u</a>t</r>"),
  N("doctype", 1, "",  "parsed", <<1>>,    ""),      \* 2
  N("pi",      1, "",  "parsed", <<2>>,    ""),      \* 3
  N("elem",    1, "",  "parsed", <<3>>,    ""),      \* 4  r
  N("attr",    1, "y", "parsed", <<3, -1>>, ""),     \* 5  y="1"
  N("elem",    1, "",  "parsed", <<3, 1>>, ""),      \* 6  a
  N("elem",    1, "",  "parsed", <<3, 1, 1>>, ""),   \* 7  b
  N("text",    1, "",  "parsed", <<3, 1, 2>>, ""),   \* 8  "u"
  N("text",    1, "",  "parsed", <<3, 2>>, ""),      \* 9  "t"
  N("elem",    1, "",  "create", <<>>,     "e"),     \* 10
  N("text",    1, "",  "create", <<>>,     "v"),     \* 11
  N("attr",    1, "y", "create", <<>>,     "y"),     \* 12
  N("attr",    1, "x", "create", <<>>,     "x"),     \* 13
  N("text",    1, "",  "parsed", <<3, -1, 1>>, ""),  \* 14 the value "1" of y
  N("doc",     15, "", "doc",    <<>>,     "<!DOCTYPE r><?p d?><r y=\"1\"><a><b/>u</a>t</r>"),
  N("elem",    15, "", "create", <<>>,     "e")      \* 16
>>

PoolM == <<                      \* mid-size: subtree moves and attribute churn, no foreign document
  N("doc",     1, "",  "doc",    <<>>,     "<r><a><b/></a>t</r>"),
  N("elem",    1, "",  "parsed", <<1>>,    ""),      \* 2 r
  N("elem",    1, "",  "parsed", <<1, 1>>, ""),      \* 3 a
  N("elem",    1, "",  "parsed", <<1, 1, 1>>, ""),   \* 4 b
  N("text",    1, "",  "parsed", <<1, 2>>, ""),      \* 5 t
  N("elem",    1, "",  "create", <<>>,     "e"),     \* 6
  N("pi",      1, "",  "create", <<>>,     "p"),     \* 7
  N("attr",    1, "x", "create", <<>>,     "x")      \* 8
>>

PoolN == <<                      \* subtree moves (a > b), attribute churn, a factory-made element; no foreign document
  N("doc",     1, "",  "doc",    <<>>,     "<r><a><b/></a>t</r>"),
  N("elem",    1, "",  "parsed", <<1>>,    ""),      \* 2 r
  N("elem",    1, "",  "parsed", <<1, 1>>, ""),      \* 3 a
  N("elem",    1, "",  "parsed", <<1, 1, 1>>, ""),   \* 4 b
  N("text",    1, "",  "parsed", <<1, 2>>, ""),      \* 5 t
  N("elem",    1, "",  "create", <<>>,     "e"),     \* 6
  N("attr",    1, "x", "create", <<>>,     "x")      \* 7
>>

Pool == CASE PoolName = "n" -> PoolN [] PoolName = "s" -> PoolS [] PoolName = "q" -> PoolQ [] PoolName = "m" -> PoolM [] PoolName = "t" -> PoolT

P == [kind  |-> [i \in DOMAIN Pool |-> Pool[i].kind],
      owner |-> [i \in DOMAIN Pool |-> Pool[i].owner],
      aname |-> [i \in DOMAIN Pool |-> Pool[i].aname]]

\* initial child / attribute lists, read off the `path`s of the parsed nodes
ParsedKidsOf(p) ==
  LET pp == IF Pool[p].how = "doc" THEN <<>> ELSE Pool[p].path
      cs == { c \in DOMAIN Pool : /\ Pool[c].how = "parsed" /\ Pool[c].owner = DocOf(P, p)
                                  /\ Len(Pool[c].path) = Len(pp) + 1
                                  /\ SubSeq(Pool[c].path, 1, Len(pp)) = pp
                                  /\ Pool[c].path[Len(pp) + 1] > 0
                                  /\ (Pool[p].how = "doc" \/ Pool[p].how = "parsed") }
  IN  SortSeq(SetToSeq(cs), LAMBDA x, y : Pool[x].path[Len(pp) + 1] < Pool[y].path[Len(pp) + 1])
ParsedAttrsOf(p) ==
  LET pp == Pool[p].path
      cs == { c \in DOMAIN Pool : /\ Pool[c].how = "parsed" /\ Pool[c].owner = DocOf(P, p)
                                  /\ Pool[p].how = "parsed"
                                  /\ Len(Pool[c].path) = Len(pp) + 1
                                  /\ SubSeq(Pool[c].path, 1, Len(pp)) = pp
                                  /\ Pool[c].path[Len(pp) + 1] < 0 }
  IN  SortSeq(SetToSeq(cs), LAMBDA x, y : Pool[x].path[Len(pp) + 1] > Pool[y].path[Len(pp) + 1])

S0 == [kids  |-> [p \in DOMAIN Pool |-> ParsedKidsOf(p)],
       attrs |-> [p \in DOMAIN Pool |-> ParsedAttrsOf(p)]]

CallSeq == SetToSeq(Calls(P))

VARIABLES S, last

Init == S = S0 /\ last = [call |-> 0, ok |-> TRUE]

\* one step = one public call.  A call that may only fail is a stuttering step on S.
Step(par, own, i) ==
  LET c == CallSeq[i]
      o == OutcomeX(P, S, par, own, c)
  IN  /\ ~o.any
      /\ \/ (o.ok /\ S' = Apply(P, S, c) /\ last' = [call |-> i, ok |-> TRUE])
         \/ (o.errs # {} /\ S' = S /\ last' = [call |-> i, ok |-> FALSE])

Next == LET par == ParentFn(P, S)
            own == OwnerFn(P, S)
        IN  \E i \in DOMAIN CallSeq : Step(par, own, i)

Spec == Init /\ [][Next]_<<S, last>>

View == S                     \* the observation variable `last` does not distinguish states

\* ---------------------------------------------------------------------------------------------
\* properties of the design

InvTree == TreeInv(P, S)

\* C13 (design level): a failing call leaves the document unchanged - by construction of Step;
\* stated as an action property so that TLC checks it on every transition
AtomicFailure == [][~last'.ok => S' = S]_<<S, last>>

\* C14 (design level): the pre-order of the main document lists every attached node exactly once
InvOrder == NoDup(DocOrder(P, S, 1))

\* foreign nodes never enter the main document, whatever is tried
InvNoForeign == \A n \in Range(DocOrder(P, S, 1)) : DocOf(P, n) = 1

\* ---------------------------------------------------------------------------------------------
\* dump of the labelled transition relation (one line per distinct state)

\* compact encoding: a call that must fail -> bit mask of the acceptable exception classes;
\* a call without a prescribed answer -> -1; a call that may succeed -> [t: post state, r: returned
\* node, e: mask of the exceptions that are acceptable as well]
Mask(errs) == (IF HIER \in errs THEN 1 ELSE 0) + (IF WRONGDOC \in errs THEN 2 ELSE 0)
              + (IF NOTFOUND \in errs THEN 4 ELSE 0) + (IF INUSE \in errs THEN 8 ELSE 0)
EdgesOf(s) ==
  LET par == ParentFn(P, s)
      own == OwnerFn(P, s)
  IN
  [i \in DOMAIN CallSeq |->
     LET c == CallSeq[i]
         o == OutcomeX(P, s, par, own, c)
     IN IF o.any THEN -1
        ELSE IF o.ok THEN [t |-> Apply(P, s, c), r |-> Returned(P, s, c), e |-> Mask(o.errs)]
        ELSE Mask(o.errs)]

EmitPool == PrintT(<<"POOL", ToJson([pool |-> Pool, calls |-> CallSeq, init |-> S0])>>)
EmitNode == PrintT(<<"NODE", ToJson([s |-> S, edges |-> EdgesOf(S)])>>)

ASSUME EmitPool

InvEmit == EmitNode
=============================================================================
