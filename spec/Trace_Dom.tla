------------------------------ MODULE Trace_Dom ------------------------------
(***************************************************************************)
(* Trace validation of DOM histories against Dom.tla (C12, C13, C14).      *)
(*                                                                         *)
(* Line 1 of the trace:  {"event":"pool","pool":[{kind,owner,aname,...}]}  *)
(* Every other line:     {"event":"call","call":{op,r,...},"out":{...},    *)
(*                        "pre":ABS,"post":ABS}                            *)
(* where ABS is the projection of the real objects through the public API: *)
(*   kids, attrs            child / attribute lists (pool indices)         *)
(*   par first last prev next has   the navigational views, per node       *)
(*   ord                    XmlNode::order() per node                      *)
(* (-1 = a node that is not in the pool, -2 = the accessor panicked).      *)
(* Each event is judged from ITS OWN logged pre-state (per-step             *)
(* refinement), so one deviation does not hide the rest of a history.      *)
(* The trace spec never blocks; it prints a VERDICT line for every event   *)
(* that is not ideal for some property.                                    *)
(***************************************************************************)
EXTENDS Dom, TLC, Json, IOUtils

CONSTANT Open        \* names of catalogued deviations that are listed as open findings

Rec == ndJsonDeserialize(IOEnv.TRACE)

PoolRec == Rec[1].pool
P == [kind  |-> [i \in DOMAIN PoolRec |-> PoolRec[i].kind],
      owner |-> [i \in DOMAIN PoolRec |-> PoolRec[i].owner],
      aname |-> [i \in DOMAIN PoolRec |-> PoolRec[i].aname]]

VARIABLE l

St(abs) == [kids |-> abs.kids, attrs |-> abs.attrs]

\* a logged state mentions only pool nodes and no accessor panicked
Sane(abs) ==
  /\ \A i \in DOMAIN abs.kids : \A k \in DOMAIN abs.kids[i] : abs.kids[i][k] \in Nodes(P)
  /\ \A i \in DOMAIN abs.attrs : \A k \in DOMAIN abs.attrs[i] : abs.attrs[i][k] \in Nodes(P)

\* attribute lists are sets as far as DOM L1 and the infoset are concerned
SameState(a, b) ==
  /\ a.kids = b.kids
  /\ \A i \in DOMAIN a.attrs : Range(a.attrs[i]) = Range(b.attrs[i]) /\ Len(a.attrs[i]) = Len(b.attrs[i])

\* ---------------------------------------------------------------------------------------------
\* C12: the navigational views agree with the child lists

MainDoc(i) == DocOf(P, i) = DocOf(P, 1)

ViewsAgreeAt(abs, i) ==
  LET S  == St(abs)
      p  == Parent(P, S, i)
      ks == abs.kids[i]
  IN /\ (P.kind[i] = "attr" => abs.par[i] = None)            \* DOM L1: attributes have no parent
     /\ (P.kind[i] # "attr" => abs.par[i] = p)
     /\ abs.first[i] = (IF ks = <<>> THEN None ELSE ks[1])
     /\ abs.last[i]  = (IF ks = <<>> THEN None ELSE ks[Len(ks)])
     /\ abs.has[i] = (IF ks # <<>> THEN 1 ELSE 0)
     /\ IF p = None \/ P.kind[i] = "attr"
        THEN abs.prev[i] = None /\ abs.next[i] = None
        ELSE LET sib == abs.kids[p]
                 k   == IndexOf(sib, i)
             IN /\ abs.prev[i] = (IF k = 1 THEN None ELSE sib[k - 1])
                /\ abs.next[i] = (IF k = Len(sib) THEN None ELSE sib[k + 1])

BadViews(abs) == { i \in Nodes(P) : MainDoc(i) /\ ~ViewsAgreeAt(abs, i) }

C12Verdict(e) ==
  IF ~Sane(e.post) THEN [v |-> "VIOLATION", why |-> "a child list mentions a node outside the pool or an accessor panicked"]
  ELSE IF ~TreeInv(P, St(e.post)) THEN [v |-> "VIOLATION", why |-> "child lists do not form a tree"]
  ELSE IF BadViews(e.post) # {} THEN
       [v |-> "VIOLATION", why |-> "navigation views disagree with child_nodes", nodes |-> BadViews(e.post)]
  ELSE [v |-> "ok"]

\* ---------------------------------------------------------------------------------------------
\* C14: order keys of attached nodes are non-zero, distinct, increasing along the pre-order walk;
\* the relative order of one element's attributes is free

RECURSIVE OrderOkFrom(_, _, _)
\* returns the largest key seen in the subtree of n if keys are valid and all > lo, else -1
OrderOkSeq(abs, s, lo) ==
  LET F[k \in 0..Len(s)] ==
        IF k = 0 THEN lo
        ELSE IF F[k - 1] = -1 THEN -1 ELSE OrderOkFrom(abs, s[k], F[k - 1])
  IN F[Len(s)]
OrderOkFrom(abs, n, lo) ==
  IF ~(abs.ord[n] > lo /\ abs.ord[n] > 0) THEN -1
  ELSE LET as   == abs.attrs[n]
           \* keys of the attributes and of the (text) children of the attributes
           akeys(a) == {abs.ord[a]} \cup { abs.ord[abs.kids[a][k]] : k \in DOMAIN abs.kids[a] }
           all  == UNION { akeys(as[k]) : k \in DOMAIN as }
           amax == IF as = <<>> THEN abs.ord[n] ELSE CHOOSE m \in all : \A x \in all : x <= m
           aok  == /\ \A k \in DOMAIN as : abs.ord[as[k]] > abs.ord[n]
                   /\ Cardinality({ abs.ord[as[k]] : k \in DOMAIN as }) = Len(as)
                   /\ \A k \in DOMAIN as : \A j \in DOMAIN abs.kids[as[k]] :
                          abs.ord[abs.kids[as[k]][j]] > abs.ord[as[k]]
       IN IF ~aok THEN -1 ELSE OrderOkSeq(abs, abs.kids[n], amax)

C14Verdict(e) ==
  IF ~Sane(e.post) \/ ~TreeInv(P, St(e.post)) THEN [v |-> "skip"]
  ELSE IF OrderOkFrom(e.post, 1, 0) = -1
       THEN [v |-> "VIOLATION", why |-> "order keys not strictly increasing along the pre-order walk",
             ord |-> e.post.ord, preorder |-> DocOrder(P, St(e.post), 1)]
  ELSE [v |-> "ok"]

\* ---------------------------------------------------------------------------------------------
\* C13: outcome within the allowed set, exact effect, atomic failure

ErrClass(out) == out.err

C13Verdict(e) ==
  LET c   == e.call
      out == e.out
  IN
  IF "panic" \in DOMAIN out THEN [v |-> "VIOLATION", why |-> "panic", msg |-> out.panic]
  ELSE IF ~Sane(e.pre) \/ ~TreeInv(P, St(e.pre)) THEN [v |-> "skip"]
  ELSE
    LET S == St(e.pre)
        o == Outcome(P, S, c)
    IN
    IF "err" \in DOMAIN out THEN
         IF e.post # e.pre
         THEN [v |-> "VIOLATION", why |-> "a failing call changed the observable state", err |-> out.err]
         ELSE IF o.any \/ out.err \in o.errs THEN [v |-> "ok"]
         ELSE [v |-> "VIOLATION", why |-> "exception class not among the specified ones",
               err |-> out.err, allowed |-> o.errs, mayok |-> o.ok]
    ELSE \* ok
         IF o.any THEN (IF Sane(e.post) /\ TreeInv(P, St(e.post)) THEN [v |-> "ok"]
                        ELSE [v |-> "VIOLATION", why |-> "unspecified call broke the tree"])
         ELSE IF ~o.ok THEN [v |-> "VIOLATION", why |-> "call must fail", allowed |-> o.errs]
         ELSE IF ~Sane(e.post) \/ ~SameState(St(e.post), Apply(P, S, c))
              THEN [v |-> "VIOLATION", why |-> "effect differs from DOM Level 1",
                    expected |-> Apply(P, S, c)]
         ELSE IF out.ok # Returned(P, S, c)
              THEN [v |-> "VIOLATION", why |-> "returned node", expected |-> Returned(P, S, c)]
         ELSE [v |-> "ok"]

\* ---------------------------------------------------------------------------------------------

Verdict(e) == [c12 |-> C12Verdict(e), c13 |-> C13Verdict(e), c14 |-> C14Verdict(e)]

AllOk(v) == v.c12.v \in {"ok", "skip"} /\ v.c13.v \in {"ok", "skip"} /\ v.c14.v \in {"ok", "skip"}

Init == l = 2
Next == /\ l <= Len(Rec)
        /\ LET v == Verdict(Rec[l])
           IN  IF AllOk(v) THEN TRUE ELSE PrintT(<<"VERDICT", ToJson([i |-> l] @@ v)>>)
        /\ l' = l + 1
Spec == Init /\ [][Next]_l

Done == TLCGet("stats").diameter = Len(Rec) \/
        PrintT(<<"TRUNCATED", TLCGet("stats").diameter, Len(Rec)>>)
=============================================================================
