------------------------------ MODULE Trace_Dom ------------------------------
(***************************************************************************)
(* Trace validation of DOM histories against Dom.tla (C12, C13, C14).      *)
(*                                                                         *)
(* Line 1 of the trace:  {"event":"pool","pool":[{kind,owner,aname,...}]}  *)
(* Every other line:     {"event":"call","call":{op,r,...},"out":{...},    *)
(*                        "pre":ABS,"post":ABS}                            *)
(* where ABS is the projection of the real objects through the public API: *)
(*   kids, attrs            child / attribute lists (pool indices)         *)
(*   par first last prev next has   the navigational views, per node       *)
(*   ord                    XmlNode::order() per node                      *)
(* (-1 = a node that is not in the pool, -2 = the accessor panicked).      *)
(* Each event is judged from ITS OWN logged pre-state (per-step             *)
(* refinement), so one deviation does not hide the rest of a history.      *)
(* The trace spec never blocks; it prints a VERDICT line for every event   *)
(* that is not ideal for some property.                                    *)
(***************************************************************************)
EXTENDS Dom, TLC, Json, IOUtils

CONSTANT Open        \* names of catalogued deviations that are listed as open findings

Rec == ndJsonDeserialize(IOEnv.TRACE)

PoolRec == Rec[1].pool
P == [kind  |-> [i \in DOMAIN PoolRec |-> PoolRec[i].kind],
      owner |-> [i \in DOMAIN PoolRec |-> PoolRec[i].owner],
      aname |-> [i \in DOMAIN PoolRec |-> PoolRec[i].aname]]

VARIABLE l

St(abs) == [kids |-> abs.kids, attrs |-> abs.attrs]

\* a logged state mentions only pool nodes and no accessor panicked
Sane(abs) ==
  /\ \A i \in DOMAIN abs.kids : \A k \in DOMAIN abs.kids[i] : abs.kids[i][k] \in Nodes(P)
  /\ \A i \in DOMAIN abs.attrs : \A k \in DOMAIN abs.attrs[i] : abs.attrs[i][k] \in Nodes(P)

\* attribute lists are sets as far as DOM L1 and the infoset are concerned
SameState(a, b) ==
  /\ a.kids = b.kids
  /\ \A i \in DOMAIN a.attrs : Range(a.attrs[i]) = Range(b.attrs[i]) /\ Len(a.attrs[i]) = Len(b.attrs[i])

\* ---------------------------------------------------------------------------------------------
\* C12: the navigational views agree with the child lists

MainDoc(i) == DocOf(P, i) = DocOf(P, 1)

ViewsAgreeAt(abs, par, i) ==
  LET p  == par[i]
      ks == abs.kids[i]
  IN /\ (P.kind[i] = "attr" => abs.par[i] = None)            \* DOM L1: attributes have no parent
     /\ (P.kind[i] # "attr" => abs.par[i] = p)
     /\ abs.first[i] = (IF ks = <<>> THEN None ELSE ks[1])
     /\ abs.last[i]  = (IF ks = <<>> THEN None ELSE ks[Len(ks)])
     /\ abs.has[i] = (IF ks # <<>> THEN 1 ELSE 0)
     /\ IF p = None \/ P.kind[i] = "attr"
        THEN abs.prev[i] = None /\ abs.next[i] = None
        ELSE LET sib == abs.kids[p]
                 k   == IndexOf(sib, i)
             IN /\ abs.prev[i] = (IF k = 1 THEN None ELSE sib[k - 1])
                /\ abs.next[i] = (IF k = Len(sib) THEN None ELSE sib[k + 1])

BadViews(abs, par) == { i \in Nodes(P) : MainDoc(i) /\ ~ViewsAgreeAt(abs, par, i) }

\* The merged-text view (Context::from_text_expanded(true), the view xq / xe / XPath use): a maximal run of character
\* data is ONE child, so the pieces of a run other than its first are not listed anywhere; for every node that IS listed,
\* and for every container, the views must agree exactly as in the raw view.
ViewsAgreeMerged(abs, par, i) ==
  LET ks == abs.kids[i]
  IN /\ abs.first[i] = (IF ks = <<>> THEN None ELSE ks[1])
     /\ abs.last[i]  = (IF ks = <<>> THEN None ELSE ks[Len(ks)])
     /\ abs.has[i] = (IF ks # <<>> THEN 1 ELSE 0)
     /\ (par[i] # None /\ P.kind[i] # "attr") =>
           LET sib == abs.kids[par[i]]
               k   == IndexOf(sib, i)
           IN /\ abs.par[i] = par[i]
              /\ abs.prev[i] = (IF k = 1 THEN None ELSE sib[k - 1])
              /\ abs.next[i] = (IF k = Len(sib) THEN None ELSE sib[k + 1])
C12Merged(e) ==
  IF ~Sane(e.post) THEN [v |-> "VIOLATION", why |-> "merged view: a child list mentions a node outside the pool or an accessor panicked"]
  ELSE LET cp  == ChildPairs(P, St(e.post))
           par == PairFn(P, cp)
           bad == { i \in Nodes(P) : MainDoc(i) /\ ~ViewsAgreeMerged(e.post, par, i) }
       IN  IF Cardinality({ pr[1] : pr \in cp }) # TotalLen(P, St(e.post).kids)
           THEN [v |-> "VIOLATION", why |-> "merged view: a node is listed twice"]
           ELSE IF bad # {} THEN [v |-> "VIOLATION", why |-> "merged view: navigation views disagree with child_nodes", nodes |-> bad]
           ELSE [v |-> "ok"]

C12Verdict(e, postTree, parPost) ==
  IF ~Sane(e.post) THEN [v |-> "VIOLATION", why |-> "a child list mentions a node outside the pool or an accessor panicked"]
  ELSE IF ~postTree THEN [v |-> "VIOLATION", why |-> "child lists do not form a tree"]
  ELSE IF BadViews(e.post, parPost) # {} THEN
       [v |-> "VIOLATION", why |-> "navigation views disagree with child_nodes", nodes |-> BadViews(e.post, parPost)]
  ELSE [v |-> "ok"]

\* ---------------------------------------------------------------------------------------------
\* C14: order keys of attached nodes are non-zero, distinct, increasing along the pre-order walk;
\* the relative order of one element's attributes is free

RECURSIVE OrderOkFrom(_, _, _)
\* returns the largest key seen in the subtree of n if keys are valid and all > lo, else -1
OrderOkSeq(abs, s, lo) ==
  LET F[k \in 0..Len(s)] ==
        IF k = 0 THEN lo
        ELSE IF F[k - 1] = -1 THEN -1 ELSE OrderOkFrom(abs, s[k], F[k - 1])
  IN F[Len(s)]
OrderOkFrom(abs, n, lo) ==
  IF ~(abs.ord[n] > lo /\ abs.ord[n] > 0) THEN -1
  ELSE LET as   == abs.attrs[n]
           \* keys of the attributes and of the (text) children of the attributes
           akeys(a) == {abs.ord[a]} \cup { abs.ord[abs.kids[a][k]] : k \in DOMAIN abs.kids[a] }
           all  == UNION { akeys(as[k]) : k \in DOMAIN as }
           amax == IF as = <<>> THEN abs.ord[n] ELSE CHOOSE m \in all : \A x \in all : x <= m
           aok  == /\ \A k \in DOMAIN as : abs.ord[as[k]] > abs.ord[n]
                   /\ Cardinality({ abs.ord[as[k]] : k \in DOMAIN as }) = Len(as)
                   /\ \A k \in DOMAIN as : \A j \in DOMAIN abs.kids[as[k]] :
                          abs.ord[abs.kids[as[k]][j]] > abs.ord[as[k]]
       IN IF ~aok THEN -1 ELSE OrderOkSeq(abs, abs.kids[n], amax)

C14Verdict(e, postTree) ==
  IF ~postTree THEN [v |-> "skip"]
  ELSE IF OrderOkFrom(e.post, 1, 0) = -1
       THEN [v |-> "VIOLATION", why |-> "order keys not strictly increasing along the pre-order walk",
             ord |-> e.post.ord, preorder |-> DocOrder(P, St(e.post), 1)]
  ELSE [v |-> "ok"]

\* ---------------------------------------------------------------------------------------------
\* C13: outcome within the allowed set, exact effect, atomic failure

ErrClass(out) == out.err

C13Verdict(e, preTree, postTree, parPre, ownPre) ==
  LET c   == e.call
      out == e.out
  IN
  IF "panic" \in DOMAIN out THEN [v |-> "VIOLATION", why |-> "panic", msg |-> out.panic]
  ELSE IF ~preTree THEN [v |-> "skip"]
  ELSE
    LET S == St(e.pre)
        o == OutcomeX(P, S, parPre, ownPre, c)
    IN
    IF "err" \in DOMAIN out THEN
         IF e.post # e.pre
         THEN [v |-> "VIOLATION", why |-> "a failing call changed the observable state", err |-> out.err]
         ELSE IF o.any \/ out.err \in o.errs THEN [v |-> "ok"]
         ELSE [v |-> "VIOLATION", why |-> "exception class not among the specified ones",
               err |-> out.err, allowed |-> o.errs, mayok |-> o.ok]
    ELSE \* ok
         IF o.any THEN (IF postTree THEN [v |-> "ok"]
                        ELSE [v |-> "VIOLATION", why |-> "unspecified call broke the tree"])
         ELSE IF ~o.ok THEN [v |-> "VIOLATION", why |-> "call must fail", allowed |-> o.errs]
         ELSE IF ~Sane(e.post) \/ ~SameState(St(e.post), Apply(P, S, c))
              THEN [v |-> "VIOLATION", why |-> "effect differs from DOM Level 1",
                    expected |-> Apply(P, S, c)]
         ELSE IF /\ out.ok # Returned(P, S, c)
                 \* setting an attribute node that the element already owns: DOM L1 does not say whether it
                 \* "replaces itself" (returned) or nothing is replaced (null)
                 /\ ~(c.op \in {"set_attribute_node", "set_named_item"} /\ c.a \in Range(S.attrs[c.r]) /\ out.ok = c.a)
              THEN [v |-> "VIOLATION", why |-> "returned node", expected |-> Returned(P, S, c)]
         ELSE [v |-> "ok"]

\* ---------------------------------------------------------------------------------------------

\* ---------------------------------------------------------------------------------------------
\* C14, second half: a query on the edited document selects, orders and de-duplicates exactly as on a fresh
\* parse of its serialization.  The harness logs, per battery expression, the result on the live document and
\* on the re-parsed copy as structural paths (computed by its own walk through child_nodes/attributes), and
\* the pre-order index of every live result node.
StrictlyIncreasing(s) == \A i \in 1..(Len(s) - 1) : s[i] < s[i + 1]

QueryVerdict(e) ==
  IF e.live # e.re
  THEN [v |-> "VIOLATION", why |-> "query on the edited document differs from the query on its re-parsed serialization",
        expr |-> e.expr]
  ELSE [v |-> "ok"]

\* C07 on EDITED documents: a node-set is duplicate-free and in document order (the pre-order index comes from
\* the harness's own walk of child_nodes / attributes; the attributes of one element share an index because their
\* relative order is implementation-dependent)
NonDecreasing(s) == \A i \in 1..(Len(s) - 1) : s[i] <= s[i + 1]
C07Query(e) ==
  IF Len(e.idx) = 0 THEN [v |-> "ok"]
  ELSE IF \E i \in 1..Len(e.idx) : e.idx[i] = 0
       THEN [v |-> "VIOLATION", why |-> "a query on an edited document returned a node that is not in the document", expr |-> e.expr]
  ELSE IF ~NonDecreasing(e.idx)
       THEN [v |-> "VIOLATION", why |-> "node-set of an edited document is not in document order", expr |-> e.expr, idx |-> e.idx]
  ELSE IF \E i, j \in 1..Len(e.idx) : i # j /\ e.live[i] = e.live[j]
       THEN [v |-> "VIOLATION", why |-> "node-set of an edited document contains a node twice", expr |-> e.expr]
  ELSE [v |-> "ok"]

\* C15 over structural histories: after a call that reported success the document prints, the print parses, and the
\* parse denotes what the DOM reports (content signatures with maximal runs of character data merged)
HasSub3(d, x) == \E i \in 1..(Len(d) - 2) : d[i] = x[1] /\ d[i + 1] = x[2] /\ d[i + 2] = x[3]
C15Reprint(e) ==
  IF ~e.printed THEN [v |-> "VIOLATION", why |-> "after a successful edit the document cannot be printed (panic)", call |-> e.call]
  ELSE IF ~e.live_ok THEN [v |-> "VIOLATION", why |-> "after a successful edit the DOM cannot be read (error or panic in an accessor)", call |-> e.call]
  \* Catalogued deviation "cdata-end-across-text-nodes" (as-is model): Text nodes are validated one by one and printed
  \* back to back, so "]]>" completed across the boundary of adjacent Text nodes ("]]" then ">") is printed as it is
  \* and the parser rejects it.  Exactly that: some run of adjacent Text nodes holds "]]>".
  ELSE IF ~e.reparsed /\ "cdata-end-across-text-nodes" \in Open
          /\ \E k \in 1..Len(e.text_runs) : HasSub3(e.text_runs[k], <<93, 93, 62>>)
       THEN [v |-> "cdata-end-across-text-nodes", call |-> e.call, text |-> e.text]
  ELSE IF ~e.reparsed THEN [v |-> "VIOLATION", why |-> "after a successful edit the serialization is rejected by the parser", call |-> e.call, text |-> e.text]
  ELSE IF ~e.re_ok \/ e.re # e.live
       THEN [v |-> "VIOLATION", why |-> "after a successful edit the serialization denotes other content than the DOM reports", call |-> e.call, text |-> e.text]
  ELSE [v |-> "ok"]
OkV == [v |-> "ok"]

Verdict(e) ==
  IF e.event = "reprint" THEN [c12 |-> OkV, c13 |-> OkV, c14 |-> OkV, c07 |-> OkV, c15 |-> C15Reprint(e)]
  ELSE IF e.event = "call" /\ "merged" \in DOMAIN e
  THEN [c12 |-> C12Merged(e), c13 |-> OkV, c14 |-> OkV, c07 |-> OkV]
  \* a BURST: a call that was made without looking at the document in between, then the recorded call - whatever the
  \* implementation left pending after the first (a renumbering, say) is still pending when the second runs.  Only the
  \* state after both is judged: tree invariants and views (C12), order keys (C14).
  ELSE IF e.event = "call" /\ "burst" \in DOMAIN e
  THEN LET sanePost == Sane(e.post)
           cpPost   == IF sanePost THEN ChildPairs(P, St(e.post)) ELSE {}
           apPost   == IF sanePost THEN AttrPairs(P, St(e.post)) ELSE {}
           parPost  == PairFn(P, cpPost)
           postTree == sanePost /\ TreeInvX(P, St(e.post), cpPost, apPost, parPost)
       IN  [c12 |-> C12Verdict(e, postTree, parPost), c13 |-> OkV, c14 |-> C14Verdict(e, postTree), c07 |-> OkV]
  ELSE IF e.event = "call"
  THEN LET same     == e.pre = e.post
           sanePost == Sane(e.post)
           sanePre  == IF same THEN sanePost ELSE Sane(e.pre)
           cpPost   == IF sanePost THEN ChildPairs(P, St(e.post)) ELSE {}
           apPost   == IF sanePost THEN AttrPairs(P, St(e.post)) ELSE {}
           parPost  == PairFn(P, cpPost)
           cpPre    == IF same THEN cpPost ELSE IF sanePre THEN ChildPairs(P, St(e.pre)) ELSE {}
           apPre    == IF same THEN apPost ELSE IF sanePre THEN AttrPairs(P, St(e.pre)) ELSE {}
           parPre   == IF same THEN parPost ELSE PairFn(P, cpPre)
           ownPre   == PairFn(P, apPre)
           postTree == sanePost /\ TreeInvX(P, St(e.post), cpPost, apPost, parPost)
           preTree  == IF same THEN postTree ELSE sanePre /\ TreeInvX(P, St(e.pre), cpPre, apPre, parPre)
       IN  [c12 |-> C12Verdict(e, postTree, parPost), c13 |-> C13Verdict(e, preTree, postTree, parPre, ownPre),
            c14 |-> C14Verdict(e, postTree), c07 |-> [v |-> "ok"]]
  ELSE IF e.event = "query" THEN [c12 |-> [v |-> "ok"], c13 |-> [v |-> "ok"], c14 |-> QueryVerdict(e), c07 |-> C07Query(e)]
  ELSE IF e.event = "crash"
  THEN \* the call (or the observation of the state it left) never returned, or took the process down: a call
       \* must return a value or an exception, and no history may leave a structure that cannot be walked
       LET x == [v |-> "VIOLATION", why |-> "a DOM call or the traversal of the state it left did not return", how |-> e.how, call |-> e.call]
       IN  [c12 |-> x, c13 |-> x, c14 |-> x, c07 |-> x]
  ELSE [c12 |-> [v |-> "ok"], c13 |-> [v |-> "ok"], c14 |-> [v |-> "ok"], c07 |-> [v |-> "ok"]]        \* "reset"

AllOk(v) == /\ v.c12.v \in {"ok", "skip"} /\ v.c13.v \in {"ok", "skip"} /\ v.c14.v \in {"ok", "skip"} /\ v.c07.v = "ok"
            /\ ("c15" \in DOMAIN v => v.c15.v = "ok")

Init == l = 2
Next == /\ l <= Len(Rec)
        /\ LET v == Verdict(Rec[l])
           IN  IF AllOk(v) THEN TRUE ELSE PrintT(<<"VERDICT", ToJson([i |-> l] @@ v)>>)
        /\ l' = l + 1
Spec == Init /\ [][Next]_l

Done == TLCGet("stats").diameter = Len(Rec) \/
        PrintT(<<"TRUNCATED", TLCGet("stats").diameter, Len(Rec)>>)
=============================================================================
