SPECIFICATION McSpec
CONSTANT Dev = {}
CONSTANT SDoc <- McDoc
CONSTANT SQueries <- McQueries
CONSTANT SBinds <- McBinds
CONSTANT MaxLen = 3
CONSTANT Leaky = FALSE
CONSTANT SortedSeq <- FastSortedSeq
CONSTANT Cp <- FastCp
CONSTANT OutcomeAt <- FastOutcomeAt
INVARIANT Inv
CHECK_DEADLOCK FALSE
