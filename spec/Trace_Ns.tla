------------------------------- MODULE Trace_Ns -------------------------------
(***************************************************************************)
(* Trace validation for C10 against Namespaces.tla / XPathSem.tla.         *)
(* Event: {"event":"ns","t":NSTREE,"parsed":b,"bound":b,"parsed2":b,       *)
(*   "elems":[{idx,loc,pre,uri,named,scope:[[prefix,uri]..],scoped}],      *)
(*   "queries":[{"obs":[VALUE..]}] per caller binding, "queries2": the same *)
(*   on the consistently renamed document}                                 *)
(* Everything expected is re-computed here from the ns tree `t`.           *)
(***************************************************************************)
EXTENDS Namespaces, XPathSyntax, TLC, Json, IOUtils

CONSTANT Open

Rec == ndJsonDeserialize(IOEnv.TRACE)
VARIABLE l

U1 == Cp("u1")  U2 == <<117, 38, 50>>
PP == Cp("p")   QQ == Cp("q")   II == Cp("e")
Order == <<XmlPre, <<>>, PP, QQ>>
NameT(pre, n) == [k |-> "name", pre |-> pre, loc |-> Cp(n)]
Dos  == [axis |-> "descendant-or-self", test |-> [k |-> "type", ty |-> "node"], preds |-> <<>>]
AbsP(steps) == [t |-> "path", abs |-> TRUE, steps |-> steps]
St(ax, test) == [axis |-> ax, test |-> test, preds |-> <<>>]
Tests(pre) ==
  << AbsP(<<Dos, St("child", NameT(<<>>, "a"))>>), AbsP(<<Dos, St("child", NameT(pre, "a"))>>),
     AbsP(<<Dos, St("child", [k |-> "nsany", pre |-> pre])>>), AbsP(<<Dos, St("child", [k |-> "any"])>>),
     AbsP(<<Dos, St("attribute", NameT(<<>>, "x"))>>), AbsP(<<Dos, St("attribute", NameT(pre, "x"))>>),
     AbsP(<<Dos, St("attribute", [k |-> "any"])>>), AbsP(<<St("child", [k |-> "any"]), St("namespace", [k |-> "any"])>>),                          \* /*/namespace::*
     [t |-> "filt", e |-> AbsP(<<Dos, St("child", [k |-> "any"])>>), preds |-> <<[t |-> "fn", name |-> "last", args |-> <<>>]>>,
      steps |-> <<St("namespace", [k |-> "any"])>>] >>                                             \* (//*)[last()]/namespace::*
TestNames == <<"//a", "//e:a", "//e:*", "//*", "//@x", "//@e:x", "//@*", "/*/namespace::*", "(//*)[last()]/namespace::*">>
Bindings == << <<<<II, U1>>>>, <<<<II, U2>>>>, <<<<II, XmlUri>>>> >>

OKV == [verdict |-> "ok"]
Viol(why, extra) == [verdict |-> "VIOLATION", why |-> why] @@ extra

\* a node-set as observed: indices; namespace nodes have no usable identity in this crate and are logged as -1,
\* so a result made of namespace nodes is compared by size
SameNodes(o, exp) ==
  /\ o.t = "nodes"
  /\ IF \E k \in 1..Len(o.v) : o.v[k] = -1
     THEN Len(o.v) = Len(exp.v) /\ \A k \in 1..Len(o.v) : o.v[k] = -1
     ELSE o.v = exp.v

ElemProblems(e, t, P) ==
  { k \in 1..NE(t) :
      LET o == e.elems[k]
          sc == { <<x, Scope(t, P, k)[x]>> : x \in InScope(t, P, k) }
      IN  ~( /\ o.named /\ o.scoped
             /\ o.idx = ElemIndex(t, P, Order, k)
             /\ o.uri = ElemUri(t, P, k) /\ o.loc = t[k].loc /\ o.pre = t[k].pre
             /\ { <<o.scope[j][1], o.scope[j][2]>> : j \in 1..Len(o.scope) } = sc
             /\ Len(o.scope) = Cardinality(sc) ) }

QueryProblems(e, d, field) ==
  { <<b, q>> \in (1..Len(Bindings)) \X (1..Len(Tests(II))) :
      ~SameNodes(e[field][b].obs[q], EvalTop(d, Tests(II)[q], Bindings[b])) }

\* the specification's image of the edits the harness performs (by name)
U2Lit == <<117, 50>>                                  \* the literal "u2" the harness writes
\* the trees an edit may leave behind.  remove_attribute("xmlns:p") has two allowed outcomes: the declaration is gone, or -
\* this crate addresses attributes by their local part, so the qualified name of a declaration names nothing - nothing
\* happened (whether it SHOULD remove is C13's business; C10 is about resolving whatever declarations there are)
EditTrees(t0, name) ==
  LET t == Canon(t0, Order) IN          \* the declarations as the text of the case writes them
  CASE name = "root.set_attribute(xmlns:p, u2)" -> {SetDecl(t, 1, PP, U2Lit)}
    [] name = "root.remove_attribute(xmlns:p)"  -> {RemoveDecl(t, 1, PP), t}
    [] name = "root.set_attribute(xmlns, u2)"   -> {SetDecl(t, 1, <<>>, U2Lit)}
    [] name = "root.remove_attribute(xmlns)"    -> {RemoveDecl(t, 1, <<>>), t}
    [] name = "root.append_child(last element)" -> {MoveLastUnder(t, 1)}
    [] OTHER -> {t}
Matches(t2, live) ==
  LET P2 == PrefixesOf(t2) IN
  /\ Len(live) = NE(t2)
  /\ \A k \in 1..NE(t2) :
       LET o == live[k]
           sc == { <<x, Scope(t2, P2, k)[x]>> : x \in InScope(t2, P2, k) }
       IN  /\ o.named /\ o.scoped
           /\ o.uri = ElemUri(t2, P2, k) /\ o.loc = t2[k].loc /\ o.pre = t2[k].pre
           /\ { <<o.scope[j][1], o.scope[j][2]>> : j \in 1..Len(o.scope) } = sc
           /\ Len(o.scope) = Cardinality(sc)
EditProblem(t, ed) ==
  LET ok == { t2 \in EditTrees(t, ed.edit) : NsWf(t2) }
  IN  ok # {} /\ \A t2 \in ok : ~Matches(t2, ed.live)
EditTree(t, name) == CHOOSE t2 \in EditTrees(t, name) : NsWf(t2)

Verdict(e) ==
  LET t == e.t
      P == PrefixesOf(t)
      d == Resolve(t, Order)
  IN
  IF ~NsWf(t) THEN Viol("the harness logged an ns tree outside the model", <<>>)
  ELSE IF ~e.parsed \/ ~e.parsed2 THEN Viol("a namespace-well-formed document was rejected", [text |-> e.text])
  ELSE IF ~e.bound \/ Len(e.elems) # NE(t) THEN Viol("the parsed document does not have the specified element structure", [text |-> e.text])
  ELSE LET ep == ElemProblems(e, t, P) IN
  IF ep # {} THEN
       LET k == CHOOSE k \in ep : \A j \in ep : k <= j IN
       Viol("expanded name or in-scope namespaces of an element", [text |-> e.text, elem |-> k, observed |-> e.elems[k],
            expected |-> [uri |-> ElemUri(t, P, k), scope |-> { <<x, Scope(t, P, k)[x]>> : x \in InScope(t, P, k) }]])
  ELSE LET qp == QueryProblems(e, d, "queries") IN
  IF qp # {} THEN
       LET x == CHOOSE x \in qp : TRUE IN
       Viol("name test selects other nodes than the expanded names prescribe",
           [text |-> e.text, test |-> TestNames[x[2]], binding |-> Bindings[x[1]][1][2], observed |-> e.queries[x[1]].obs[x[2]],
            expected |-> EvalTop(d, Tests(II)[x[2]], Bindings[x[1]]), all |-> { TestNames[y[2]] : y \in qp }])
  ELSE LET qp2 == QueryProblems(e, d, "queries2") IN
  IF qp2 # {} THEN
       LET x == CHOOSE x \in qp2 : TRUE IN
       Viol("renaming the document's prefixes consistently changed a selection", [text |-> e.text, test |-> TestNames[x[2]]])
  ELSE \* binding the caller's prefix again replaces its binding: after add_ns(e, other) ; add_ns(e, u1) the name
       \* tests see u1
       LET rb == { q \in 1..Len(e.rebind) : ~SameNodes(e.rebind[q], EvalTop(d, Tests(II)[q], Bindings[1])) } IN
       IF rb # {} THEN Viol("a prefix bound a second time keeps its first binding", [text |-> e.text, test |-> TestNames[CHOOSE q \in rb : TRUE]])
  ELSE \* a binding that was removed again is gone: after add_ns(e, u1) ; query ; remove_ns(e) the tests answer as with no
       \* binding at all (an error for the tests that use the prefix)
       LET ub == { q \in 1..Len(e.unbind) :
                     LET x == EvalTop(d, Tests(II)[q], <<>>) IN
                     ~(IF x.t = "err" THEN e.unbind[q].t = "err" ELSE SameNodes(e.unbind[q], x)) } IN
       IF ub # {} THEN Viol("a prefix binding removed from the context is still in force (or took others with it)",
                            [text |-> e.text, test |-> TestNames[CHOOSE q \in ub : TRUE], observed |-> e.unbind[CHOOSE q \in ub : TRUE]])
  ELSE \* after an edit through the DOM (a namespace declaration set or removed on an ancestor, a subtree moved)
       \* every element resolves as it does in a fresh parse of the document's serialization
       \* ... and as the specification's edit actions (Namespaces!SetDecl / RemoveDecl / MoveLastUnder) prescribe,
       \* whenever the edited tree is namespace-well-formed
       LET em == { k \in 1..Len(e.edits) : EditProblem(t, e.edits[k]) } IN
       IF em # {} THEN
            LET k == CHOOSE k \in em : \A j \in em : k <= j
                t2 == EditTree(t, e.edits[k].edit)
            IN
            Viol("after a DOM edit of a namespace declaration (or a move) an element's expanded name / in-scope namespaces are not those of the edited tree",
                 [text |-> e.text, edit |-> e.edits[k].edit, observed |-> e.edits[k].live,
                  expected |-> [j \in 1..NE(t2) |-> [uri |-> ElemUri(t2, PrefixesOf(t2), j),
                                                      scope |-> { <<x, Scope(t2, PrefixesOf(t2), j)[x]>> : x \in InScope(t2, PrefixesOf(t2), j) }]]])
       ELSE
       LET eb == { k \in 1..Len(e.edits) : e.edits[k].reparsed /\ e.edits[k].live # e.edits[k].re } IN
       IF eb # {} THEN
            LET k == CHOOSE k \in eb : \A j \in eb : k <= j IN
            Viol("after a DOM edit an element's expanded name / in-scope namespaces differ from a fresh parse of the serialization",
                 [text |-> e.text, edit |-> e.edits[k].edit, serialization |-> e.edits[k].text])
  ELSE \* xq --setns xmlns:e=<uri>: prints exactly the nodes the specification selects under that binding
       LET bad == { k \in 1..Len(e.xq) :
                      LET r == e.xq[k] IN
                      ~( /\ r.code = 0 /\ r.renderable
                         /\ r.sel = EvalTop(d, Tests(II)[r.q], Bindings[r.b]).v
                         /\ r.stdout = r.sel_out ) }
       IN IF bad # {} THEN
               LET k == CHOOSE k \in bad : TRUE IN
               Viol("xq --setns does not print the nodes selected under the caller's binding",
                    [text |-> e.text, test |-> TestNames[e.xq[k].q], binding |-> Bindings[e.xq[k].b][1][2], code |-> e.xq[k].code])
          ELSE OKV

Init == l = 1
Next == /\ l <= Len(Rec)
        /\ LET v == Verdict(Rec[l])
           IN  IF v.verdict = "ok" THEN TRUE ELSE PrintT(<<"VERDICT", ToJson([i |-> l] @@ v)>>)
        /\ l' = l + 1
Spec == Init /\ [][Next]_l
Done == TLCGet("stats").diameter = Len(Rec) + 1 \/ PrintT(<<"TRUNCATED", TLCGet("stats").diameter, Len(Rec)>>)
=============================================================================
