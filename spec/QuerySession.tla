----------------------------- MODULE QuerySession -----------------------------
(***************************************************************************)
(* C19: "evaluating a query changes neither the document nor the result of *)
(* any later query; and re-using one evaluation context for a series of    *)
(* queries - including ones that ended in an error - gives each query the  *)
(* same answer it gets with a fresh context."                              *)
(*                                                                         *)
(* One document is parsed once and one evaluation context is created; a    *)
(* session is a series of Query(q) calls on them.  The abstract state of   *)
(* the system is the document alone - the context has none at rest - so    *)
(* the answer to the k-th call is the answer the query gets on a fresh     *)
(* parse of the same text with a fresh context, and the serialization of   *)
(* the document after the call is the serialization before it.             *)
(* An implementation has hidden state all the same: position stacks in the *)
(* context, per-document memo tables (declared attribute definitions,      *)
(* order keys, namespace scopes), lazily computed values.  This module is  *)
(* what binds them to "no state".                                          *)
(***************************************************************************)
EXTENDS Integers, Sequences

CONSTANTS MaxLen

VARIABLE log              \* the queries asked so far (indices)

Init == log = <<>>
Query(q) == Len(log) < MaxLen /\ log' = Append(log, q)
\* n: the number of queries in the pool of the session's document
Next(n) == \E q \in 1..n : Query(q)
Spec(n) == Init /\ [][Next(n)]_log

\* the ideal answer of the k-th call: the fresh answer of its query; the ideal serialization: the fresh one
IdealAnswer(fresh, session, k) == fresh.answers[session[k]]
IdealSer(fresh) == fresh.ser
=============================================================================
