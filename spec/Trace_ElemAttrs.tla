--------------------------- MODULE Trace_ElemAttrs ---------------------------
(***************************************************************************)
(* Trace validation of attribute set/remove calls on a real element        *)
(* against ElemAttrs.tla.  Event: {"event":"attrs","hist":[calls],          *)
(*  "pre":OBS,"call":{op,n,v},"out":{ok,ret}|{err}|{panic},"post":OBS,      *)
(*  "live_sig","re"} with OBS = {"am":{name:{present,v,spec,nodev}},        *)
(*  "listed":[names],"len":n}.                                              *)
(***************************************************************************)
EXTENDS ElemAttrs, TLC, Json, IOUtils

CONSTANT Open
NamesM == {"x", "y", "z"}
ValuesM == {"", "a", "b"}
DefM == [n \in NamesM |-> IF n = "y" THEN "dv" ELSE NoDef]
Rec == ndJsonDeserialize(IOEnv.TRACE)
VARIABLE l

OKV == [v |-> "ok"]
Abs(obs) == [n \in Names |-> [present |-> obs.am[n].present, v |-> obs.am[n].v, spec |-> obs.am[n].spec]]
NamesOf(am) == { n \in Names : am[n].present }
SeqToSet(s) == { s[i] : i \in 1..Len(s) }

\* the observation is self-consistent: listing, length, node value and get_attribute agree
Consistent(obs) ==
  /\ "panic" \notin DOMAIN obs
  /\ SeqToSet(obs.listed) = NamesOf(Abs(obs)) /\ Len(obs.listed) = obs.len
  /\ \A n \in Names : obs.am[n].present => obs.am[n].nodev = obs.am[n].v
  /\ \A n \in Names : ~obs.am[n].present => obs.am[n].v = ""

C13Verdict(e) ==
  IF "panic" \in DOMAIN e.out THEN [v |-> "VIOLATION", why |-> "panic", msg |-> e.out.panic]
  ELSE IF ~Consistent(e.pre) THEN [v |-> "VIOLATION", why |-> "attribute views disagree before the call (left by the history)", hist |-> e.hist]
  ELSE IF ~Consistent(e.post) THEN [v |-> "VIOLATION", why |-> "attribute views disagree: listing / length / node value / get_attribute"]
  ELSE IF e.call.op = "parse" THEN
       (IF \A n \in Names : Abs(e.post)[n] = (IF n = "x" THEN [present |-> TRUE, v |-> "a", spec |-> TRUE] ELSE Defaulted(n))
        THEN OKV ELSE [v |-> "VIOLATION", why |-> "the parsed element does not have the declared defaults"])
  ELSE
  LET pre == Abs(e.pre)
      r == Apply(pre, e.call)
  IN  IF "err" \in DOMAIN r THEN
           IF "err" \notin DOMAIN e.out THEN [v |-> "VIOLATION", why |-> "call must fail", expected |-> r.err]
           ELSE IF e.out.err # r.err THEN [v |-> "VIOLATION", why |-> "exception class", expected |-> r.err, err |-> e.out.err]
           ELSE IF e.post # e.pre THEN [v |-> "VIOLATION", why |-> "a failing call changed the attributes"]
           ELSE OKV
      ELSE IF "err" \in DOMAIN e.out THEN
           (IF e.post # e.pre THEN [v |-> "VIOLATION", why |-> "a failing call changed the attributes", err |-> e.out.err]
            ELSE [v |-> "VIOLATION", why |-> "call must succeed", err |-> e.out.err])
      ELSE IF e.out.ret # r.ret THEN [v |-> "VIOLATION", why |-> "returned value", expected |-> r.ret]
      \* Catalogued deviation "set-value-on-defaulted-attribute-lost": the Attr node of an attribute that is
      \* present only through its DTD default is synthesized on every access; as-is model: set_value on it reports
      \* success and changes nothing.  Only this call on such an attribute, with exactly this outcome, matches.
      ELSE IF /\ Abs(e.post) # r.am /\ "set-value-on-defaulted-attribute-lost" \in Open
              /\ e.call.op = "set_value" /\ pre[e.call.n].present /\ ~pre[e.call.n].spec /\ e.post = e.pre
           THEN [v |-> "set-value-on-defaulted-attribute-lost", call |-> e.call]
      ELSE IF Abs(e.post) # r.am THEN [v |-> "VIOLATION", why |-> "attributes after the call differ from DOM Level 1", expected |-> r.am]
      ELSE OKV

C15Verdict(e) ==
  IF "re" \notin DOMAIN e THEN OKV
  ELSE IF ~e.re.ok THEN [v |-> "VIOLATION", why |-> "after a successful edit the serialization is rejected by the parser", text |-> e.re.text]
  ELSE IF e.re.sig # e.live_sig THEN [v |-> "VIOLATION", why |-> "after a successful edit the serialization denotes other content than the DOM reports", text |-> e.re.text]
  ELSE OKV

Verdict(e) == [c13 |-> C13Verdict(e), c15 |-> C15Verdict(e), c16 |-> OKV]
AllOk(v) == v.c13.v = "ok" /\ v.c15.v = "ok"

Init == l = 1
Next == /\ l <= Len(Rec)
        /\ LET v == Verdict(Rec[l])
           IN  IF AllOk(v) THEN TRUE ELSE PrintT(<<"VERDICT", ToJson([i |-> l] @@ v)>>)
        /\ l' = l + 1
Spec == Init /\ [][Next]_l
Done == TLCGet("stats").diameter = Len(Rec) + 1 \/ PrintT(<<"TRUNCATED", TLCGet("stats").diameter, Len(Rec)>>)
=============================================================================
