------------------------------ MODULE Trace_Char ------------------------------
(***************************************************************************)
(* Trace validation for C18.  The harness records                          *)
(*   {"event":"class","cls":c,"ivs":[[lo,hi]...]}  - the maximal intervals *)
(*        on which the implementation's predicate is true, computed by     *)
(*        calling it on all 1 114 112 code points;                         *)
(*   {"event":"name","s":[cp...],"elem":b,"elem2":b,"attr":b,"pi":b,       *)
(*        "ent":b,"doctype":b}  - whether the parser accepted s *as that   *)
(*        name* in each syntactic role.                                    *)
(* Every event is judged against XmlChar.tla; the trace spec never blocks: *)
(* it prints one VERDICT line per event that is not ideal.                 *)
(***************************************************************************)
EXTENDS XmlChar, TLC, Json, IOUtils

CONSTANT Exhaustive,     \* TRUE: compare classes at every code point, not only at interval bounds
         Open            \* names of the catalogued deviations (known_findings.jsonl, status open)

Rec == ndJsonDeserialize(IOEnv.TRACE)

VARIABLE l

ImplIn(ivs, c) == \E k \in 1..Len(ivs) : ivs[k][1] <= c /\ c <= ivs[k][2]

\* Two unions of closed intervals differ somewhere iff they differ at the start of some interval or
\* right after the end of one (of either union); lo-1 and hi are added for good measure.
CheckPoints(cls, ivs) ==
  LET B == { ivs[k][1] : k \in 1..Len(ivs) } \cup { ivs[k][2] : k \in 1..Len(ivs) }
            \cup { r[1] : r \in RangesOf(cls) } \cup { r[2] : r \in RangesOf(cls) }
  IN  { c \in B \cup { b + 1 : b \in B } \cup { b - 1 : b \in B } \cup {0, MaxCp} : IsScalar(c) }

Disagree(cls, ivs, P) == { c \in P : InClass(cls, c) # ImplIn(ivs, c) }

\* exhaustive comparison, in blocks of 4096 code points (TLC refuses to build sets > 10^6 elements)
BlockSize == 4096
Blocks == 0..(MaxCp \div BlockSize)
BadIn(cls, ivs, b) ==
  { c \in (b * BlockSize)..((b + 1) * BlockSize - 1) :
       c <= MaxCp /\ IsScalar(c) /\ InClass(cls, c) # ImplIn(ivs, c) }
BadBlocks(cls, ivs) == { b \in Blocks : BadIn(cls, ivs, b) # {} }

ClassVerdict(e) ==
  LET bb  == IF Exhaustive THEN BadBlocks(e.cls, e.ivs) ELSE {}
      bad == IF Exhaustive
             THEN IF bb = {} THEN {}
                  ELSE BadIn(e.cls, e.ivs, CHOOSE b \in bb : \A d \in bb : b <= d)
             ELSE Disagree(e.cls, e.ivs, CheckPoints(e.cls, e.ivs))
  IN IF "panic" \in DOMAIN e THEN [verdict |-> "VIOLATION", why |-> "panic", cls |-> e.cls]
     ELSE IF bad = {} THEN [verdict |-> "ok"]
     ELSE [verdict |-> "VIOLATION", why |-> "class differs from XML 1.0 5th ed.", cls |-> e.cls,
           first |-> CHOOSE c \in bad : \A d \in bad : c <= d,
           last  |-> CHOOSE c \in bad : \A d \in bad : c >= d,
           count |-> Cardinality(bad), badblocks |-> Cardinality(bb)]

HasColon(s) == \E i \in 1..Len(s) : s[i] = Colon

\* roles: elements, attributes and the DOCTYPE name are QNames; PI targets and entity names are
\* Names (Namespaces in XML additionally asks for NCNames there, so with a colon either answer is
\* accepted).
RoleOk(e, role) ==
  LET got == e[role]
      s   == e.s
  IN  IF got \notin BOOLEAN THEN FALSE
      ELSE CASE role \in {"elem", "elem2", "attr", "doctype"} -> got = IsQName(s)
             [] role = "pi"  -> IF HasColon(s) /\ IsPITarget(s) THEN TRUE ELSE got = IsPITarget(s)
             [] role = "ent" -> IF HasColon(s) /\ IsName(s) THEN TRUE ELSE got = IsName(s)

Roles == {"elem", "elem2", "attr", "pi", "ent", "doctype"}

(***************************************************************************)
(* Catalogued deviation "name-start-unchecked": production Name of the     *)
(* parser is (NameChar)+, i.e. the first character of a PI target or of an *)
(* entity name is not required to be a NameStartChar.  As-is model: in the *)
(* roles pi and ent a string is accepted iff it is an Nmtoken (and, for a  *)
(* PI target, not the reserved word).  Every other role must be ideal.     *)
(***************************************************************************)
AsIsNameStart(e, role) ==
  /\ role \in {"pi", "ent"}
  /\ e[role] \in BOOLEAN
  /\ ~IsName(e.s) /\ IsNmtoken(e.s)
  /\ e[role] = (IF role = "pi" THEN ~IsXmlReserved(e.s) ELSE TRUE)

NameVerdict(e) ==
  LET bad == { r \in Roles : ~RoleOk(e, r) }
  IN IF bad = {} THEN [verdict |-> "ok"]
     ELSE IF "name-start-unchecked" \in Open /\ \A r \in bad : AsIsNameStart(e, r)
          THEN [verdict |-> "name-start-unchecked", s |-> e.s, roles |-> bad]
     ELSE [verdict |-> "VIOLATION", why |-> "name accepted/rejected against Name/QName", s |-> e.s,
           roles |-> bad, name |-> IsName(e.s), qname |-> IsQName(e.s)]

Verdict(e) == IF e.event = "class" THEN ClassVerdict(e) ELSE NameVerdict(e)

Init == l = 1
Next == /\ l <= Len(Rec)
        /\ LET v == Verdict(Rec[l])
           IN  IF v.verdict = "ok" THEN TRUE ELSE PrintT(<<"VERDICT", ToJson([i |-> l] @@ v)>>)
        /\ l' = l + 1
Spec == Init /\ [][Next]_l

Done == TLCGet("stats").diameter = Len(Rec) + 1 \/
        PrintT(<<"TRUNCATED", TLCGet("stats").diameter, Len(Rec)>>)
=============================================================================
