---------------------------- MODULE Trace_AttrMove ----------------------------
(***************************************************************************)
(* Event: {"event":"attrmove","hist":[{op,to}..],"obs":[{"node":[cp..],     *)
(*   "a":[cp..],"b":[cp..],"c":[cp..],"ok":bool}..]} - after every action   *)
(* the value of the attribute node and get_attribute("x") of a, b, c.      *)
(***************************************************************************)
EXTENDS AttrMove, TLC, Json, IOUtils
CONSTANT Open
Rec == ndJsonDeserialize(IOEnv.TRACE)
VARIABLE l

Verdict(e) ==
  LET bad == { k \in 1..Len(e.hist) :
                 LET o == OwnerAfter(e.hist, k)
                     x == e.obs[k]
                 IN ~( /\ x.ok
                       /\ x.node = Value(o)
                       /\ \A el \in {"a", "b", "c"} : x[el] = (IF el = o THEN Value(o) ELSE <<>>) ) }
  IN  IF bad = {} THEN [verdict |-> "ok"]
      ELSE LET k == CHOOSE k \in bad : \A j \in bad : k <= j
           IN  [verdict |-> "VIOLATION",
                why |-> "the value of a moved attribute does not follow the type declared for its current owner element",
                hist |-> e.hist, position |-> k, owner |-> OwnerAfter(e.hist, k), expected |-> Value(OwnerAfter(e.hist, k)),
                observed |-> e.obs[k]]

TInit == l = 1 /\ owner = "a" /\ hist = <<>>
TNext == /\ l <= Len(Rec)
         /\ LET v == Verdict(Rec[l]) IN IF v.verdict = "ok" THEN TRUE ELSE PrintT(<<"VERDICT", ToJson([i |-> l] @@ v)>>)
         /\ l' = l + 1 /\ UNCHANGED <<owner, hist>>
TSpec == TInit /\ [][TNext]_<<l, owner, hist>>
Done == TLCGet("stats").diameter = Len(Rec) + 1 \/ PrintT(<<"TRUNCATED", TLCGet("stats").diameter, Len(Rec)>>)
=============================================================================
