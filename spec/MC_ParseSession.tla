---------------------------- MODULE MC_ParseSession ----------------------------
EXTENDS ParseSession, TLC, Json
\* every complete session of length MaxLen over the pool is emitted for replay
InvEmit == Len(log) = MaxLen => PrintT(<<"REPLAY", ToJson([session |-> log])>>)
=============================================================================
