"""XPath engine: C05 C07 C08 (MC_XPath / Trace_XPath), C09 (MC_Scalar / Trace_Scalar), C19 (MC_Session /
Trace_Session), C06 (XPathCost / Trace_XPathCost).

spec -> impl: TLC enumerates (document, expression) pairs of a layered grammar, checks the specification's
              theorems and prints REPLAY lines {doc, ast, spellings, expected}; harness `xp-replay` evaluates
              every spelling with xml_xpath::query.
impl -> spec: harness `xp-record` generates larger random documents/expressions; every event that is not
              trivially ok (and a sample of those that are) is judged by the Trace_*.tla module, which
              re-computes text, spellings and value from the recorded tree and abstract expression.
"""
import json
import os

import common as C

TIERS = {
    # MC cfg, sample (every n-th fast-path-ok case is re-validated by TLC anyway), random events, tlc timeout
    "quick": dict(cfg="MC_XPath_quick.cfg", sample=50, rnd=2000, groups=500, timeout=900),
    "thorough": dict(cfg="MC_XPath_thorough.cfg", sample=300, rnd=120000, groups=25000, timeout=3000),
}


def cps(a):
    try:
        return "".join(chr(c) for c in a)
    except (TypeError, ValueError):
        return repr(a)


def _trace_cfg(path, module_consts, open_names):
    lines = ["SPECIFICATION Spec"]
    for k, v in module_consts.items():
        lines.append("CONSTANT %s = %s" % (k, v))
    lines += ["CONSTANT Open = %s" % C.tla_set(open_names),
              "CONSTANT SortedSeq <- FastSortedSeq",
              "CONSTANT Cp <- FastCp",
              "POSTCONDITION Done",
              "CHECK_DEADLOCK FALSE"]
    C.write_cfg(path, lines)


def validate(out, module, consts, trace, tag, timeout=3000):
    """Run a Trace_* module over an ndjson trace; feed the verdicts into `out`."""
    cfgname = "%s.%d.cfg" % (module, os.getpid())
    cfg = os.path.join(C.SPEC, cfgname)
    _trace_cfg(cfg, consts, out.open.keys())
    try:
        res = C.run_tlc(module, cfgname, tag, env={"TRACE": trace}, workers=1, deque=True, timeout=timeout)
    finally:
        os.unlink(cfg)
    C.tlc_must_pass(res, module)
    n = C.count_lines(trace)
    for tag_, v in res.lines:
        if tag_ == "TRUNCATED":
            raise C.ToolError("trace validation consumed only part of the trace: %s" % (v,))
    if res.distinct != n + 1:
        raise C.ToolError("trace validation visited %d states for %d events" % (res.distinct, n))
    events = C.read_ndjson(trace)
    for tag_, v in res.lines:
        if tag_ == "VERDICT":
            ev = events[v["i"] - 1]
            for k in ("spelling", "spelling1"):
                if isinstance(v.get(k), list):
                    v[k + "_text"] = cps(v[k])
            if "text" in ev:
                v["document"] = cps(ev["text"])
            out.verdict(v, ev)
    return res, events


def _summary(out):
    """development aid: VERIF_DEBUG=1 prints the violations grouped by reason"""
    if not os.environ.get("VERIF_DEBUG"):
        return
    groups = {}
    for v in out.violations:
        key = v.get("why", "?")
        groups.setdefault(key, []).append(v)
    for k, vs in groups.items():
        C.log("== %s: %d" % (k, len(vs)))
        seen = set()
        for v in vs:
            s = v.get("spelling_text")
            if s in seen:
                continue
            seen.add(s)
            if len(seen) > int(os.environ.get("VERIF_DEBUG", "1")):
                break
            C.log("   ", v.get("document"), "|", v.get("spelling1_text", ""), "|", v.get("spelling_text"),
                  "| exp", json.dumps(v.get("expected")), "| got", json.dumps(v.get("observed")),
                  json.dumps(v.get("observed1", "")), v.get("detail", ""))


# ------------------------------------------------------------------------------------------------
# C05 C07 C08

def run_paths(prop, tier):
    t = dict(TIERS[tier])
    if os.environ.get("VERIF_XP_FAST"):      # development aid (mutant runs): smallest model
        t.update(cfg="MC_XPath_tiny.cfg", sample=20, rnd=400, groups=150)
    out = C.Outcome(prop, tier)
    wd = C.workdir("xp" + prop)
    try:
        replay = os.path.join(wd, "xp.replay")
        mc = C.run_tlc("MC_XPath", t["cfg"], "xpmc" + prop, to_file=replay, workers=8, timeout=t["timeout"],
                       keep_tags=["REPLAY", "DOC"])
        C.tlc_must_pass(mc, "MC_XPath")
        out.add_tlc(mc)
        trace = os.path.join(wd, "xp.trace")
        stats_p = os.path.join(wd, "xp.stats")
        _, crashed = C.run_harness_watched(["xp-replay", "--in", replay, "--trace", trace, "--stats", stats_p,
                                             "--sample", str(t["sample"])], trace)
        if crashed:     # the crash event is in the trace and will be judged; statistics are not available
            stats = {"cases": 1, "evaluations": 0, "fast_ok": 0, "nontrivial": 1, "samples": [], "families": {}, "crashed": True}
        else:
            stats = json.load(open(stats_p))
        if stats["cases"] == 0:
            raise C.ToolError("no REPLAY cases")
        # vacuity guard: every family of the grammar must have produced cases, and a fair share of the
        # expected values must be non-trivial (non-empty node-sets or scalars)
        want = set() if stats.get("crashed") else {"p1", "un", "fl"} if "tiny" in t["cfg"] else {"p1", "p2", "un", "fl", "cmp", "fn", "ctx", "ns", "kw", "ar", "ar3"}
        if tier == "thorough" and want:
            want = want | {"g1"}
        missing = sorted(f for f in want if stats["families"].get(f, 0) == 0)
        if missing:
            raise C.ToolError("families without cases: %s" % missing)
        if stats["nontrivial"] * 5 < stats["cases"]:
            raise C.ToolError("only %d of %d cases are non-trivial" % (stats["nontrivial"], stats["cases"]))
        if stats.get("bad_docs", 0):
            C.log("note: %d documents of the model were rejected by the parser" % stats["bad_docs"])
        # random driver: larger documents and expressions, metamorphic union groups
        rnd = os.path.join(wd, "xp.rnd")
        C.run_harness_watched(["xp-record", "--seed", str(C.seed()), "--n", str(t["rnd"]), "--groups", str(t["groups"]),
                               "--struct", str(t["groups"] if prop == "C07" else 0), "--out", rnd], rnd)
        with open(trace, "a") as f, open(rnd) as g:
            for line in g:
                f.write(line)
        res, events = validate(out, "Trace_XPath", {"Prop": '"%s"' % prop, "Dev": "{}"}, trace, "xptv" + prop,
                               timeout=t["timeout"])
        n_rnd = C.count_lines(rnd)
        edited = 0
        if prop == "C07":
            # node-sets on documents that were EDITED through the DOM (ids no longer follow document order)
            import dom
            edited = dom.edited_queries(out, prop, tier, wd)
            out.extra["query_events_on_edited_documents"] = edited
        out.traces = len(events) + edited
        out.evaluations = stats["evaluations"] + sum(len(e.get("obs", [])) for e in events[-n_rnd:] if n_rnd)
        out.nontrivial_count = stats["nontrivial"]
        for s in stats["samples"]:
            out.sample(s)
        out.extra["replayed_cases"] = stats["cases"]
        out.extra["replayed_ok_fast_path"] = stats["fast_ok"]
        out.extra["events_judged_by_tlc"] = len(events)
        out.extra["random_events"] = n_rnd
        out.extra["families"] = stats["families"]
        out.rule = ("a replayed case is non-trivial if its expected value is a non-empty node-set or a scalar; "
                    "every case evaluates each of its spellings (6 quick / 12 thorough) on the real crates")
        out.assumptions = [
            "documents: the pool of MC_XPath.tla (9 documents, <= 22 nodes: comments, PIs, attributes, mixed content, "
            "DOCTYPE with entity, CDATA/char-ref/entity-ref inside merged text runs, xml:lang, prefixed element and "
            "attribute names with namespace nodes, names that are axis/node-type/operator names; thorough: also every "
            "<a> with <= 3 children of 7 shapes) plus seeded random documents (<= 30 nodes) from xp-record; merged-text "
            "view (the view xq/xe use) and, for documents without CDATA/references in text, the raw view",
            "expressions: the layered grammar of MC_XPath.tla (families p1 p2 un fl cmp fn ctx ns kw ar ar3, thorough g1) plus seeded "
            "random expressions of depth <= 4; no variables, no id(); caller bindings: 4 prefix maps incl. swapped "
            "prefixes and unbound prefixes (error expected)",
            "the namespace axis: per element (as predicate, through count/string/name..., with further steps and parent) "
            "and over whole documents (count(//namespace::*), unions of the namespace axes of two elements): inherited "
            "namespace nodes share one identity/order key in xml_dom, which is the catalogued finding "
            "namespace-nodes-shared with an exact as-is model in XPathSem.tla (NsShared); not exercised: default "
            "namespaces (xmlns=...: unprefixed attributes inherit it in xml_dom::AsExpandedName, a C10 matter outside "
            "/repo/xpath), DTD-defaulted attributes (all share id 0), position()/last() at the top level of a query",
            "numbers: exact dyadic values only (ScalarFns.tla); a value depending on an inexact result is not judged",
        ]
        _summary(out)
        return out.finish()
    finally:
        C.cleanup(wd)


def replay_paths(prop, path):
    out = C.Outcome(prop, "quick")
    out.no_evidence = True
    wd = C.workdir("xpr" + prop)
    try:
        v = json.load(open(path))
        case = v.get("case", v)
        inp = os.path.join(wd, "r.in")
        trace = os.path.join(wd, "r.trace")
        if case.get("k") in ("grp", "struct", "tab", "crash"):
            with open(inp, "w") as f:
                f.write(json.dumps(case) + "\n")
            C.run_harness(["xp-record", "--regroup", inp, "--out", trace])
        else:
            with open(inp, "w") as f:
                f.write(json.dumps({"k": "doc", "doc": 1, "tree": case["tree"], "text": case["text"]}) + "\n")
                c = {"k": "xp", "fam": case.get("fam", "replay"), "doc": 1, "ast": case["ast"], "sp": case["sp"],
                     "binds": case.get("binds", []), "exp": {"t": "replay"}}
                if "styles" in case:
                    c["styles"] = case["styles"]
                f.write(json.dumps(c) + "\n")
            C.run_harness(["xp-replay", "--in", inp, "--trace", trace, "--stats", os.path.join(wd, "s"),
                           "--sample", "1"])
        validate(out, "Trace_XPath", {"Prop": '"%s"' % prop, "Dev": "{}"}, trace, "xprv" + prop)
        out.traces = 1
        out.evaluations = len(case.get("sp", case.get("exprs", [])))
        out.nontrivial_count = 1
        out.sample({"document": cps(case.get("text", [])), "spellings": [cps(s) for s in case.get("sp", [])][:2]})
        out.rule = "replay of one stored case"
        return out.finish()
    finally:
        C.cleanup(wd)


# ------------------------------------------------------------------------------------------------

def run(prop, tier):
    if prop in ("C05", "C07", "C08"):
        return run_paths(prop, tier)
    if prop == "C09":
        import xp_scalar
        return xp_scalar.run(prop, tier)
    if prop == "C19":
        import xp_session
        return xp_session.run(prop, tier)
    if prop == "C06":
        import xp_total
        return xp_total.run(prop, tier)
    raise C.ToolError("unknown property " + prop)


def replay(prop, path):
    if prop in ("C05", "C07", "C08"):
        return replay_paths(prop, path)
    if prop == "C09":
        import xp_scalar
        return xp_scalar.replay(prop, path)
    if prop == "C19":
        import xp_session
        return xp_session.replay(prop, path)
    if prop == "C06":
        import xp_total
        return xp_total.replay(prop, path)
    raise C.ToolError("unknown property " + prop)
