"""Shared machinery of the /verif checks: TLC runner, harness builder, verdict handling,
known-findings matching, evidence and replay files."""
import fcntl
import hashlib
import json
import os
import re
import shutil
import subprocess
import sys
import time

VERIF = os.path.dirname(os.path.dirname(os.path.abspath(__file__)))
SPEC = os.path.join(VERIF, "spec")
WORK = os.path.join(VERIF, "work")
HARNESS_DIR = os.path.join(VERIF, "harness")
HARNESS = os.path.join(HARNESS_DIR, "target", "release", "xmlrs-verif-harness")
EVIDENCE = os.path.join(VERIF, "evidence")
REPLAYS = os.path.join(VERIF, "replays")
FINDINGS = os.path.join(VERIF, "known_findings.jsonl")
REPO = os.environ.get("VERIF_REPO", "/repo")   # development aid: tools/mutcheck.sh points it at a scratch copy


class ToolError(Exception):
    pass


def log(*a):
    print(*a, file=sys.stderr, flush=True)


def seed():
    try:
        return int(os.environ.get("VERIF_SEED", "1"))
    except ValueError:
        return 1


def workdir(tag):
    d = os.path.join(WORK, "%s.%d" % (tag, os.getpid()))
    shutil.rmtree(d, ignore_errors=True)
    os.makedirs(d, exist_ok=True)
    return d


def cleanup(d):
    if os.environ.get("VERIF_KEEP"):
        return
    shutil.rmtree(d, ignore_errors=True)


# --------------------------------------------------------------------------------------------
# harness

def build_harness():
    """(Re)build the harness against /repo's current working tree. Serialised by a file lock so
    that checks started in parallel do not fight over the target directory."""
    os.makedirs(WORK, exist_ok=True)
    lock = open(os.path.join(WORK, ".build.lock"), "w")
    fcntl.flock(lock, fcntl.LOCK_EX)
    try:
        env = dict(os.environ)
        env["CARGO_NET_OFFLINE"] = "true"
        # the lock file of the harness is derived from the repository's (nothing can be fetched)
        lockfile = os.path.join(HARNESS_DIR, "Cargo.lock")
        if not os.path.exists(lockfile):
            shutil.copy(os.path.join(REPO, "Cargo.lock"), lockfile)
        t0 = time.time()
        p = subprocess.run(["cargo", "build", "--release", "--offline", "--quiet"],
                           cwd=HARNESS_DIR, env=env, stdout=subprocess.PIPE,
                           stderr=subprocess.STDOUT, text=True)
        if p.returncode != 0:
            log(p.stdout[-4000:])
            raise ToolError("harness build failed (does /repo still compile?)")
        log("harness built in %.1fs" % (time.time() - t0))
    finally:
        fcntl.flock(lock, fcntl.LOCK_UN)
        lock.close()


HARNESS_DEBUG = os.path.join(HARNESS_DIR, "target", "debug", os.path.basename(HARNESS))


def build_harness_debug():
    """The same harness in the dev profile (unoptimized: stack frames several times larger) - what a user of the
    library runs under `cargo test` / `cargo run`.  Used by C03 for the families whose recursion depth grows with n."""
    os.makedirs(WORK, exist_ok=True)
    lock = open(os.path.join(WORK, ".build.lock"), "w")
    fcntl.flock(lock, fcntl.LOCK_EX)
    try:
        env = dict(os.environ)
        env["CARGO_NET_OFFLINE"] = "true"
        t0 = time.time()
        p = subprocess.run(["cargo", "build", "--offline", "--quiet"], cwd=HARNESS_DIR, env=env,
                           stdout=subprocess.PIPE, stderr=subprocess.STDOUT, text=True)
        if p.returncode != 0:
            log(p.stdout[-4000:])
            raise ToolError("harness build (dev profile) failed")
        log("harness (dev profile) built in %.1fs" % (time.time() - t0))
    finally:
        fcntl.flock(lock, fcntl.LOCK_UN)
        lock.close()
    return HARNESS_DEBUG


def run_harness(args, timeout=3600, stdin=None):
    p = subprocess.run([HARNESS] + args, stdout=subprocess.PIPE, stderr=subprocess.PIPE,
                       text=True, timeout=timeout, input=stdin)
    if p.returncode != 0:
        log(p.stderr[-2000:])
        raise ToolError("harness %s exited %d" % (args[0], p.returncode))
    return p.stdout


# --------------------------------------------------------------------------------------------
# TLC

STATS_RE = re.compile(r"(\d+) states generated, (\d+) distinct states found")


class TlcResult:
    def __init__(self):
        self.lines = []        # unwrapped payloads: (tag, json or raw)
        self.states = 0
        self.distinct = 0
        self.ok = False
        self.raw_tail = []
        self.wall = 0.0
        self.coverage = {}


def _unwrap(line):
    """<<"TAG", "json">> -> (TAG, obj)"""
    if not line.startswith('<<"'):
        return None
    m = re.match(r'<<"([A-Z]+)", (.*)>>\s*$', line)
    if not m:
        return None
    tag, rest = m.group(1), m.group(2)
    if rest.startswith('"'):
        try:
            inner = json.loads(rest)
            try:
                return tag, json.loads(inner)
            except ValueError:
                return tag, inner
        except ValueError:
            return tag, rest
    return tag, rest


_FLIPS = [(': true', ': false'), (':true', ':false'), ('"ok"', '"err"'), ('"t": "nodes"', '"t": "str"'), ('"t":"nodes"', '"t":"str"')]
# what a recording says about the property itself (tried first for that property; generic flips otherwise)
_PROP_FLIPS = {
    "C02": [('"parse":"err"', '"parse":"ok"'), ('"parse": "err"', '"parse": "ok"')],       # an ill-formed text "accepted"
    "C04": [('"eq":true', '"eq":false'), ('"eq": true', '"eq": false')],                       # re-parsed document "differs"
}
_PROP_BUMP = {"C12": r'"par":\[\d+,(\d+)'}     # the parent the second pool node reports, in the post state


def corrupt_trace(path, every):
    """Copy of an ndjson trace in which every `every`-th line (from the 2nd on) has one recorded value falsified:
    the first boolean `true` becomes `false`, else a recorded outcome changes class, else the LAST number grows."""
    out = path + ".corrupt"
    n = 0
    with open(path) as f, open(out, "w") as g:
        for i, line in enumerate(f):
            if i >= 1 and (i - 1) % every == 0:
                new = None
                prop = os.environ.get("VERIF_SELFTEST_PROP", "")
                for a, b in _PROP_FLIPS.get(prop, []):
                    if a in line:
                        new = line.replace(a, b, 1)
                        break
                if new is None and prop in _PROP_BUMP:
                    m = list(re.finditer(_PROP_BUMP[prop], line))
                    if m:
                        k = m[0]          # keys are sorted: "post" comes before "pre"
                        new = line[:k.start(1)] + str(int(k.group(1)) + 1) + line[k.end(1):]
                if new is not None:
                    line = new
                    n += 1
                    g.write(line)
                    continue
                for a, b in _FLIPS:
                    if a in line:
                        new = line.replace(a, b, 1)
                        break
                if new is None:
                    m = list(re.finditer(r"(?<![\w.\"])(\d+)(?=[\],}])", line))
                    if m:
                        k = m[-1]
                        new = line[:k.start()] + str(int(k.group(1)) + 1) + line[k.end():]
                if new is not None:
                    line = new
                    n += 1
            g.write(line)
    log("selftest: falsified %d recorded events of %s" % (n, os.path.basename(path)))
    return out


def run_tlc(module, cfg, tag, env=None, workers=8, timeout=1800, simulate=None, depth=None,
            to_file=None, deque=False, xmx=None, keep_tags=None, extra=None):
    """Run TLC on spec/<module>.tla with spec/<cfg>. PrintT payload lines `<<"TAG", ...>>` are
    collected (or streamed verbatim to `to_file`, which the harness can read directly)."""
    meta = workdir("tlc." + tag)
    e = dict(os.environ)
    jopts = "-Xss1g"
    if deque:
        jopts += " -Dtlc2.tool.queue.IStateQueue=StateDeque"
    if xmx:
        jopts += " -Xmx%s" % xmx
    e["JAVA_TOOL_OPTIONS"] = jopts
    if env:
        e.update(env)
    corrupted = None
    if os.environ.get("VERIF_CORRUPT") and env and env.get("TRACE") and os.path.exists(env["TRACE"]):
        # binding self-test (./check <ID> --selftest): what the harness recorded is falsified before the
        # specification sees it; the check must then report violations (or refuse the trace)
        corrupted = corrupt_trace(env["TRACE"], int(os.environ["VERIF_CORRUPT"]))
        e["TRACE"] = corrupted
    cmd = ["timeout", str(timeout), "tlc", "-workers", str(workers), "-metadir", meta, "-cleanup",
           "-noGenerateSpecTE", "-config", cfg]
    if simulate:
        cmd += ["-simulate", "num=%d" % simulate]
        cmd += ["-seed", str(seed())]
        if depth:
            cmd += ["-depth", str(depth)]
    if extra:
        cmd += extra
    cmd += [module + ".tla"]
    res = TlcResult()
    t0 = time.time()
    out = open(to_file, "w") if to_file else None
    p = subprocess.Popen(cmd, cwd=SPEC, env=e, stdout=subprocess.PIPE, stderr=subprocess.STDOUT,
                         text=True, errors="replace")
    tail = []
    for line in p.stdout:
        line = line.rstrip("\n")
        if line.startswith('<<"'):
            if out is not None and (keep_tags is None or any(line.startswith('<<"%s"' % t) for t in keep_tags)):
                out.write(line + "\n")
                continue
            u = _unwrap(line)
            if u:
                res.lines.append(u)
                continue
        m = STATS_RE.search(line)
        if m:
            res.states = int(m.group(1))
            res.distinct = int(m.group(2))
        if "Model checking completed. No error has been found." in line or \
           "Finished in" in line and simulate:
            res.ok = True
        tail.append(line)
        if len(tail) > 60:
            tail.pop(0)
    p.wait()
    if corrupted:
        os.unlink(corrupted)
    if out:
        out.close()
    res.wall = time.time() - t0
    res.raw_tail = tail
    res.returncode = p.returncode
    cleanup(meta)
    if p.returncode == 124:
        raise ToolError("TLC timed out after %ss on %s" % (timeout, module))
    return res


def tlc_must_pass(res, what):
    if not res.ok or res.returncode != 0:
        log("\n".join(res.raw_tail[-40:]))
        raise ToolError("TLC did not complete cleanly: " + what)


# --------------------------------------------------------------------------------------------
# known findings

def load_findings(prop):
    """-> {name: record} of OPEN findings for the property"""
    out = {}
    if not os.path.exists(FINDINGS):
        return out
    for line in open(FINDINGS):
        line = line.strip()
        if not line or line.startswith("#"):
            continue
        if line.startswith("fixed:"):
            continue
        try:
            r = json.loads(line)
        except ValueError:
            continue
        if r.get("property") == prop and r.get("status", "open") == "open":
            out[r["name"]] = r
    return out


def tla_set(names):
    return "{" + ", ".join('"%s"' % n for n in sorted(names)) + "}"


def write_cfg(path, lines):
    with open(path, "w") as f:
        f.write("\n".join(lines) + "\n")


# --------------------------------------------------------------------------------------------
# outcome of one check run

class Outcome:
    def __init__(self, prop, tier):
        self.prop = prop
        self.tier = tier
        self.t0 = time.time()
        self.violations = []        # list of dict
        self.known = {}             # name -> count
        self.known_example = {}
        self.states = 0
        self.transitions = 0
        self.traces = 0
        self.evaluations = 0
        self.nontrivial = set()
        self.nontrivial_count = 0
        self.samples = []
        self.assumptions = []
        self.rule = ""
        self.extra = {}
        self.exhaustive = False
        self.level = "model_checking"
        self.open = load_findings(prop)
        self.no_evidence = False    # set by replay(): re-running a stored case must not overwrite the evidence

    def add_tlc(self, res):
        self.states += res.distinct
        self.transitions += res.states

    def sample(self, s, limit=5):
        if len(self.samples) < limit:
            self.samples.append(s)

    def nontriv(self, key):
        h = hashlib.blake2b(json.dumps(key, sort_keys=True).encode(), digest_size=8).digest()
        self.nontrivial.add(h)

    def verdict(self, v, case=None):
        """v: verdict record from a Trace_* module (verdict != ok)."""
        name = v.get("verdict")
        if name == "ok":
            return
        if name != "VIOLATION" and name in self.open:
            self.known[name] = self.known.get(name, 0) + 1
            self.known_example.setdefault(name, v)
            return
        rec = dict(v)
        if case is not None:
            rec["case"] = case
        self.violations.append(rec)

    def finish(self):
        wall = time.time() - self.t0
        os.makedirs(EVIDENCE, exist_ok=True)
        # replay files
        replay_paths = []
        if self.violations:
            d = os.path.join(REPLAYS, self.prop)
            os.makedirs(d, exist_ok=True)
            for i, v in enumerate(self.violations[:8]):
                p = os.path.join(d, "%s-%d-%d.json" % (self.tier, seed(), i))
                with open(p, "w") as f:
                    json.dump(v, f, indent=1, sort_keys=True)
                replay_paths.append(p)
        for name in sorted(self.known):
            r = self.open[name]
            print("KNOWN-FINDING: property=%s %s: %s (observed %d times)" %
                  (self.prop, name, r.get("witness", ""), self.known[name]))
        for p in replay_paths:
            print("VIOLATION property=%s replay=%s" % (self.prop, p))
        if len(self.violations) > len(replay_paths):
            print("... and %d more violations" % (len(self.violations) - len(replay_paths)))
        nontriv = self.nontrivial_count + len(self.nontrivial)
        cov = {
            "states": self.states,
            "transitions": self.transitions,
            "traces_validated_against_impl": self.traces,
            "evaluations": self.evaluations,
            "distinct_nontrivial": nontriv,
            "rule": self.rule,
            "samples": self.samples if self.samples else ["(none)"],
            "exhaustive": self.exhaustive,
            "known_findings_observed": {k: self.known[k] for k in sorted(self.known)},
        }
        cov.update(self.extra)
        ev = {
            "property_id": self.prop,
            "tier": self.tier,
            "seed": seed(),
            "level": self.level,
            "coverage": cov,
            "assumptions": self.assumptions,
            "wall_s": round(wall, 2),
            "violations": len(self.violations),
        }
        if not self.no_evidence and not os.environ.get("VERIF_CORRUPT"):
            with open(os.path.join(EVIDENCE, self.prop + ".json"), "w") as f:
                json.dump(ev, f, indent=1, sort_keys=True)
        log("%s %s: %d evaluations, %d states, %d known-finding hits, %d violations, %.1fs" %
            (self.prop, self.tier, self.evaluations, self.states, sum(self.known.values()),
             len(self.violations), wall))
        return 1 if self.violations else 0


def read_ndjson(path):
    out = []
    with open(path) as f:
        for line in f:
            line = line.strip()
            if line.startswith("{"):
                out.append(json.loads(line))
    return out


def count_lines(path):
    n = 0
    with open(path, "rb") as f:
        for _ in f:
            n += 1
    return n


def run_harness_watched(args, out_trace, timeout=3000):
    """Run a harness driver that supports --watch/--sync.  If the code under test hangs (harness exits 3) or
    takes the whole process down (signal), the call that was running is appended to the trace as a "crash" event
    (for the latter the driver is re-run in --sync mode to learn which call it was) and judged by the trace
    specification like any other event.  Returns (stdout, crashed)."""
    wf = out_trace + ".watch"
    p = subprocess.run([HARNESS] + args + ["--watch", wf], stdout=subprocess.PIPE, stderr=subprocess.PIPE,
                       text=True, timeout=timeout)
    if p.returncode == 0:
        return p.stdout, False
    how = "hang" if p.returncode == 3 else "abort (exit status %d)" % p.returncode
    if p.returncode > 0 and p.returncode != 3 or p.returncode in (-9, -15):
        # a harness error, or killed from outside (out of memory, timeout): not the code under test
        log(p.stderr[-2000:])
        raise ToolError("harness %s exited %d" % (args[0], p.returncode))
    # the normal mode does not say which call was running: run again, writing every call down before it starts
    keep = out_trace + ".partial"
    if os.path.exists(out_trace):
        os.replace(out_trace, keep)
    p2 = subprocess.run([HARNESS] + args + ["--watch", wf, "--sync"], stdout=subprocess.PIPE,
                        stderr=subprocess.PIPE, text=True, timeout=timeout * 4)
    if p2.returncode == 0:
        raise ToolError("harness %s stopped once (%d) but not when re-run" % (args[0], p.returncode))
    if not os.path.exists(wf):
        raise ToolError("harness %s: %s without a watch record" % (args[0], how))
    line = open(wf).read().strip()
    try:
        ev = json.loads(line)
    except ValueError:
        raise ToolError("harness %s: %s with an unreadable watch record" % (args[0], how))
    ev["how"] = how
    # keep the complete lines of the partial trace, then the crash event
    good = []
    if os.path.exists(out_trace):
        with open(out_trace, errors="replace") as f:
            for l in f:
                if l.endswith("\n"):
                    try:
                        json.loads(l)
                        good.append(l)
                    except ValueError:
                        break
    with open(out_trace, "w") as f:
        f.writelines(good)
        f.write(json.dumps(ev) + "\n")
    return "", True
