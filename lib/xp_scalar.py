"""C09 - core functions and operators on scalars: MC_Scalar.tla (value pool x functions/operators at every
arity, expected value from ScalarFns/XPathSem) -> xp-replay; xp-record --scalar (random nested applications
over a richer pool) -> Trace_Scalar.tla."""
import json
import os

import common as C
import xp

TIERS = {
    "quick": dict(cfg="MC_Scalar_quick.cfg", sample=10, rnd=3000, timeout=900),
    "thorough": dict(cfg="MC_Scalar_thorough.cfg", sample=25, rnd=150000, timeout=3000),
}


def run(prop, tier):
    t = TIERS[tier]
    out = C.Outcome(prop, tier)
    wd = C.workdir("xpsc")
    try:
        replay = os.path.join(wd, "sc.replay")
        mc = C.run_tlc("MC_Scalar", t["cfg"], "xpscmc", to_file=replay, workers=8, timeout=t["timeout"],
                       keep_tags=["REPLAY", "DOC"])
        C.tlc_must_pass(mc, "MC_Scalar")
        out.add_tlc(mc)
        trace = os.path.join(wd, "sc.trace")
        stats_p = os.path.join(wd, "sc.stats")
        C.run_harness(["xp-replay", "--in", replay, "--trace", trace, "--stats", stats_p, "--sample", str(t["sample"])])
        stats = json.load(open(stats_p))
        if stats["cases"] == 0:
            raise C.ToolError("no REPLAY cases")
        rnd = os.path.join(wd, "sc.rnd")
        C.run_harness_watched(["xp-record", "--scalar", "--seed", str(C.seed()), "--n", str(t["rnd"]), "--out", rnd], rnd)
        with open(trace, "a") as f, open(rnd) as g:
            for line in g:
                f.write(line)
        res, events = xp.validate(out, "Trace_Scalar", {"Prop": '"C09"', "Dev": "{}"}, trace, "xpsctv", timeout=t["timeout"])
        out.traces = len(events)
        out.evaluations = stats["evaluations"] + 2 * t["rnd"]
        out.nontrivial_count = stats["nontrivial"]
        for s in stats["samples"]:
            out.sample(s)
        out.extra["replayed_cases"] = stats["cases"]
        out.extra["replayed_ok_fast_path"] = stats["fast_ok"]
        out.extra["events_judged_by_tlc"] = len(events)
        out.extra["random_events"] = t["rnd"]
        out.extra["families"] = stats["families"]
        out.rule = ("one case = one application of a core function or operator to pool values, evaluated in two "
                    "spellings; every case is non-trivial (a scalar result is expected)")
        out.assumptions = [
            "pool: strings {empty, white space, ASCII, CJK, astral, padded/signed/exponent/hex numerals, Infinity, NaN} "
            "and all strings of length <= 3 (thorough 4) over the lexical classes of number(); numbers NaN, +-Infinity, "
            "+-0, +-0.5, +-1, +-1.5, +-2.5, 3, 10, 1048575, 2^-10",
            "numbers are exact dyadic rationals (|x| < 2^20, 10 fractional bits): an application whose exact result is "
            "not representable (1 div 3, 1048575*3, number('0.1')) is only required to yield a number; accuracy of "
            "inexact IEEE-754 results and the digits of string(number) for such values are not decided here",
            "number -> string outside the exact range: an example table of 14 expressions (ScalarFns!NumStringTable: 10^12, "
            "10^21, 2^53, 2^-20, 10^-7, 0.1+0.2, 1 div 3, literal forms .5 5. 007 1.50), not an enumeration",
            "lang(), id() and the node-set functions are exercised by C05, not here",
        ]
        xp._summary(out)
        return out.finish()
    finally:
        C.cleanup(wd)


def replay(prop, path):
    out = C.Outcome(prop, "quick")
    out.no_evidence = True
    wd = C.workdir("xpscr")
    try:
        v = json.load(open(path))
        case = v.get("case", v)
        inp = os.path.join(wd, "r.in")
        trace = os.path.join(wd, "r.trace")
        if case.get("k") in ("tab", "crash"):
            with open(inp, "w") as f:
                f.write(json.dumps(case) + "\n")
            C.run_harness(["xp-record", "--regroup", inp, "--out", trace])
            xp.validate(out, "Trace_Scalar", {"Prop": '"C09"', "Dev": "{}"}, trace, "xpscrv")
            out.traces = 1
            out.evaluations = 1
            out.nontrivial_count = 1
            out.sample({"expr": xp.cps(case.get("expr", []))})
            out.rule = "replay of one stored case"
            return out.finish()
        with open(inp, "w") as f:
            f.write(json.dumps({"k": "doc", "doc": 1, "tree": case["tree"], "text": case["text"]}) + "\n")
            c = {"k": "xp", "fam": case.get("fam", "replay"), "doc": 1, "ast": case["ast"], "sp": case["sp"],
                 "binds": case.get("binds", []), "exp": {"t": "replay"}}
            if "styles" in case:
                c["styles"] = case["styles"]
            f.write(json.dumps(c) + "\n")
        C.run_harness(["xp-replay", "--in", inp, "--trace", trace, "--stats", os.path.join(wd, "s"), "--sample", "1"])
        xp.validate(out, "Trace_Scalar", {"Prop": '"C09"', "Dev": "{}"}, trace, "xpscrv")
        out.traces = 1
        out.evaluations = len(case.get("sp", []))
        out.nontrivial_count = 1
        out.sample({"spellings": [xp.cps(s) for s in case.get("sp", [])][:2]})
        out.rule = "replay of one stored case"
        return out.finish()
    finally:
        C.cleanup(wd)
