"""C16 (character-data operations) and C15 (successful edits keep the document serializable and faithful).

spec -> impl: MC_CharData.tla - one character-data node as a state machine (state = its data, one action per
              CharacterData/Text call).  TLC explores every string up to MaxLen over the alphabet, checks the
              algebra of the operations and the Serializable invariant of the ideal machine, and dumps the
              labelled transition relation.  harness `dom-chardata` fires every edge on real nodes of every
              kind/variant and walks the graph (several calls on one node); after every successful mutating call
              the document is printed, re-parsed and compared with what the DOM reports.
              MC_Name.tla's strings are replayed through the name-taking factories (`dom-factory`).
impl -> spec: every event that is not trivially ideal, a seeded sample of the ideal ones and all walk events are
              judged by Trace_CharData.tla, which re-computes the DOM result with CharData.tla.
"""
import json
import os

import common as C

CFGS = {
    # property -> tier -> list of MC_CharData cfg suffixes
    "C16": {"quick": ["c16q"], "thorough": ["c16t"]},
    "C15": {"quick": ["c15_text_q", "c15_attr_q", "c15_comment_q", "c15_cdata_q", "c15_pi_q"],
            "thorough": ["c15_text_t", "c15_attr_t", "c15_comment_t", "c15_cdata_t", "c15_pi_t"]},
    # the data-setter / factory part of C13 rides on the C15 alphabets (markup characters)
    # ... and on the multi-byte alphabet of C16 (INDEX_SIZE_ERR is one of C13's exception classes: offsets are characters)
    "C13": {"quick": ["c15_text_q", "c15_attr_q", "c15_comment_q", "c15_cdata_q", "c16q"],
            "thorough": ["c15_text_q", "c15_comment_q", "c15_cdata_q", "c15_attr_q", "c15_pi_q", "c16q"]},
}
KEY = {"C13": "c13", "C15": "c15", "C16": "c16"}


def validate(out, prop, trace, tag, hist_of=None):
    n = C.count_lines(trace)
    if n == 0:
        return 0
    cfgname = "Trace_CharData.%d.cfg" % os.getpid()
    cfg = os.path.join(C.SPEC, cfgname)
    C.write_cfg(cfg, ["SPECIFICATION Spec", "CONSTANT Open = %s" % C.tla_set(out.open.keys()),
                      "POSTCONDITION Done", "CHECK_DEADLOCK FALSE"])
    try:
        res = C.run_tlc("Trace_CharData", cfgname, tag, env={"TRACE": trace}, workers=1, deque=True,
                        timeout=3000, xmx="8g")
    finally:
        os.unlink(cfg)
    C.tlc_must_pass(res, "Trace_CharData")
    for t, v in res.lines:
        if t == "TRUNCATED":
            raise C.ToolError("trace validation consumed only part of the trace: %s" % (v,))
    if res.distinct != n + 1:
        raise C.ToolError("trace validation visited %d states for %d events" % (res.distinct, n))
    events = None
    k = KEY[prop]
    for t, v in res.lines:
        if t != "VERDICT":
            continue
        pv = v.get(k, {})
        if pv.get("v") in ("ok", None):
            continue
        if events is None:
            events = C.read_ndjson(trace)
        rec = dict(pv)
        rec["verdict"] = rec.pop("v")
        rec["i"] = v["i"]
        out.verdict(rec, events[v["i"] - 1])
    return n


def run_chardata(out, prop, tier, wd):
    """MC_CharData for every cfg of the property -> dom-chardata -> Trace_CharData.  Returns stats."""
    tot = {"edges": 0, "events": 0, "walk_steps": 0, "reparses": 0, "graph_states": 0}
    for cfgname in CFGS[prop][tier]:
        dump = os.path.join(wd, cfgname + ".out")
        mc = C.run_tlc("MC_CharData", "MC_CharData_%s.cfg" % cfgname, "cdmc" + cfgname, to_file=dump, workers=4,
                       timeout=3000, keep_tags=["NODE"])
        C.tlc_must_pass(mc, "MC_CharData " + cfgname)
        out.add_tlc(mc)
        trace = os.path.join(wd, cfgname + ".trace")
        walks = 300 if tier == "quick" else 3000
        so = C.run_harness(["dom-chardata", "--in", dump, "--out", trace, "--walks", str(walks), "--len", "6",
                            "--seed", str(C.seed()), "--sample", "40" if tier == "quick" else "400"], timeout=3000)
        st = json.loads(so.strip().splitlines()[-1])
        os.unlink(dump)
        for a, b in (("edges", "edges"), ("events", "events"), ("walk_steps", "walk_steps"), ("reparses", "reparses"),
                     ("graph_states", "states")):
            tot[a] += st[b]
        out.traces += validate(out, prop, trace, "cdtv" + cfgname)
        if len(out.samples) < 4:
            for e in C.read_ndjson(trace)[:2]:
                out.sample({k: e.get(k) for k in ("kind", "variant", "pre", "call", "out", "post")}, limit=4)
        os.unlink(trace)
        out.extra.setdefault("graphs", {})[cfgname] = {"states": mc.distinct, "transitions": mc.states,
                                                       "edges_replayed": st["edges"], "variants": st["variants"]}
    return tot


def run_attrs(out, prop, tier, wd):
    """the attributes of one element as a state machine (ElemAttrs.tla): every edge + walks"""
    dump = os.path.join(wd, "ea.out")
    mc = C.run_tlc("MC_ElemAttrs", "MC_ElemAttrs.cfg", "eamc", to_file=dump, workers=4, timeout=1500, keep_tags=["NODE"])
    C.tlc_must_pass(mc, "MC_ElemAttrs")
    out.add_tlc(mc)
    trace = os.path.join(wd, "ea.trace")
    so = C.run_harness(["dom-attrs", "--in", dump, "--out", trace, "--walks", "60" if tier == "quick" else "600",
                        "--seed", str(C.seed())], timeout=3000)
    st = json.loads(so.strip().splitlines()[-1])
    os.unlink(dump)
    n = C.count_lines(trace)
    cfgname = "Trace_ElemAttrs.%d.cfg" % os.getpid()
    cfg = os.path.join(C.SPEC, cfgname)
    C.write_cfg(cfg, ["SPECIFICATION Spec", "CONSTANT Names <- NamesM", "CONSTANT Values <- ValuesM", "CONSTANT Def <- DefM",
                      "CONSTANT Open = %s" % C.tla_set(out.open.keys()), "POSTCONDITION Done", "CHECK_DEADLOCK FALSE"])
    try:
        res = C.run_tlc("Trace_ElemAttrs", cfgname, "eatv", env={"TRACE": trace}, workers=1, deque=True, timeout=3000,
                        xmx="4g")
    finally:
        os.unlink(cfg)
    C.tlc_must_pass(res, "Trace_ElemAttrs")
    if res.distinct != n + 1:
        raise C.ToolError("trace validation visited %d states for %d events" % (res.distinct, n))
    events = None
    k = KEY[prop]
    for t, v in res.lines:
        if t == "TRUNCATED":
            raise C.ToolError("trace validation consumed only part of the trace")
        if t != "VERDICT":
            continue
        pv = v.get(k, {})
        if pv.get("v") in ("ok", None):
            continue
        if events is None:
            events = C.read_ndjson(trace)
        rec = dict(pv)
        rec["verdict"] = rec.pop("v")
        rec["i"] = v["i"]
        out.verdict(rec, events[v["i"] - 1])
    out.traces += n
    os.unlink(trace)
    return st["events"]


def run_factory(out, prop, tier, wd):
    """names of MC_Name.tla through create_element / create_attribute / create_processing_instruction /
    set_attribute"""
    replay = os.path.join(wd, "names.replay")
    mc = C.run_tlc("MC_Name", "MC_Name_%s.cfg" % tier, "facmc", to_file=replay, workers=8, timeout=1500,
                   keep_tags=["REPLAY"])
    C.tlc_must_pass(mc, "MC_Name")
    out.add_tlc(mc)
    trace = os.path.join(wd, "factory.trace")
    so = C.run_harness(["dom-factory", "--in", replay, "--out", trace], timeout=3000)
    st = json.loads(so.strip().splitlines()[-1])
    os.unlink(replay)
    out.traces += validate(out, prop, trace, "factv")
    os.unlink(trace)
    return st["names"]


def run(prop, tier):
    out = C.Outcome(prop, tier)
    wd = C.workdir("domtext" + prop)
    try:
        tot = run_chardata(out, prop, tier, wd)
        names = 0
        attr_events = 0
        hist_steps = hist_prints = 0
        if prop == "C15":
            names = run_factory(out, prop, tier, wd)
            attr_events = run_attrs(out, prop, tier, wd)
            import dom
            hist_steps, hist_prints = dom.c15_histories(out, prop, tier, wd)
            out.extra["structural_history_steps"] = hist_steps
            out.extra["prints_reparsed_in_histories"] = hist_prints
        out.evaluations = tot["events"] + names * 4 + attr_events + hist_steps
        out.nontrivial_count = tot["edges"] + names
        out.extra.update(tot)
        out.extra["factory_names"] = names
        if prop == "C16":
            out.exhaustive = True
            out.rule = ("every (data string, call) edge of the TLC state graph - all strings up to MaxLen over "
                        "{a, e-acute, CJK, astral, combining}, every operation, every offset/count in 0..len+1 and "
                        "usize::MAX, 4 argument strings - fired on 8 node variants (text/comment/CDATA, parsed and "
                        "factory-made, text under an attribute, merged text); each applicable (variant, edge) pair "
                        "is one distinct case; plus random multi-call walks")
            out.assumptions = ["strings up to length %d as initial data" % (2 if tier == "quick" else 3),
                               "exhaustive for the stated lattice only",
                               "merged (expanded) text nodes are read-only in this crate: only length/data/substring"]
        else:
            out.rule = ("every (data, call) edge of the ideal machine per node kind over the characters that are "
                        "dangerous for that kind (text: a < & ] >, attribute: a < & ' \", comment: a - >, CDATA: a ] >, "
                        "PI: a ? > space), arguments up to 2 characters, so that ']]>' / '--' / '?>' / mixed quotes only "
                        "arise by combining edits; after every call that reports success the document is printed, "
                        "re-parsed and compared with the DOM's view; plus multi-call walks and every name of MC_Name "
                        "through the name-taking factories; plus random STRUCTURAL histories (insertions, removals, attribute "
                        "edits, split_text) over a pool whose character data is dangerous only in combination (']]' next "
                        "to '>', quotes, an entity with markup next to an attribute), printed and re-parsed after every "
                        "successful state-changing call")
            out.assumptions = ["data strings up to length %d per kind" % (2 if tier == "quick" else 3),
                               "an implementation may refuse data that can only be held by escaping (C15 allows "
                               "refusal); it must refuse or faithfully store everything else"]
        return out.finish()
    finally:
        C.cleanup(wd)


def replay(prop, path):
    out = C.Outcome(prop, "quick")
    out.no_evidence = True
    wd = C.workdir("domtextr")
    try:
        v = json.load(open(path))
        case = v.get("case", v)
        tr = os.path.join(wd, "r.trace")
        inp = os.path.join(wd, "case.json")
        with open(inp, "w") as f:
            json.dump(case, f)
        C.run_harness(["dom-chardata-rerun", "--in", inp, "--out", tr])
        out.traces = validate(out, prop, tr, "cdrr")
        out.evaluations = 1
        out.nontrivial_count = 2
        out.sample({k: case.get(k) for k in ("kind", "variant", "pre", "call", "s")})
        out.rule = "replay of one stored case"
        return out.finish()
    finally:
        C.cleanup(wd)
