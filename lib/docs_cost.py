"""C03 - parsing and printing are total (level: exploration, trace validation against Cost.tla).

spec -> impl: MC_Cost.tla enumerates the hostile families F(n) of Cost.tla (rendered to code points in the
              specification), checks the design-level invariants and emits one REPLAY line per member;
              `doc-cost-run` executes the pipeline on each of them in a worker PROCESS (2 MiB stack, hard
              wall-clock limit) and records ok / err / panic / abort(signal) / timeout.
impl -> spec: seeded garbage (`doc-cost-garbage`) and, when available, every input of the C01/C02 model
              (docs.mc_cases) go through the same workers; Trace_Cost.tla judges every event against the
              call machine (only Return and Error exist) and the catalogue of open findings.
"""
import json
import os
import time

import common as C

LIMIT_MS = 5000
STACK_MIB = 2
JOBS = 8

GARBAGE = {"quick": 15000, "thorough": 1000000}
# families whose recursion depth (parser, checks, printer) grows with n
DEBUG_FAMILIES = {"Deep", "DeepMixed", "Unclosed", "Mismatch", "Parens", "GroupsL", "GroupsR", "SeqGroupsL", "SeqGroupsR",
                  "MixGroupsL", "ChainContent", "ChainAttr", "CycleContent", "CycleAttr", "Ladders"}
# Trace_Cost handles a few thousand events per second; every family event, every event that is not
# ok/err and this many of the others go through it per TLC run (the remainder is validated in further
# TLC runs of the same size in the thorough tier, see _validate_all)
TRACE_SLICE = 60000


def _cfg(path, dense, open_names, require):
    C.write_cfg(path, [
        "SPECIFICATION Spec",
        "CONSTANT Dense = %s" % ("TRUE" if dense else "FALSE"),
        "CONSTANT Open = %s" % C.tla_set(open_names),
        "CONSTANT RequireFamilies = %s" % ("TRUE" if require else "FALSE"),
        "POSTCONDITION Done",
        "CHECK_DEADLOCK FALSE",
    ])


def _validate(out, trace, dense, require, tag):
    """One TLC run of Trace_Cost over the ndjson file `trace`."""
    cfgname = "Trace_Cost.%d.cfg" % os.getpid()
    cfg = os.path.join(C.SPEC, cfgname)
    _cfg(cfg, dense, out.open.keys(), require)
    try:
        res = C.run_tlc("Trace_Cost", cfgname, tag, env={"TRACE": trace}, workers=1, deque=True,
                        timeout=3000, xmx="8g")
    finally:
        os.unlink(cfg)
    C.tlc_must_pass(res, "Trace_Cost")
    n = C.count_lines(trace)
    for tag_, v in res.lines:
        if tag_ == "TRUNCATED":
            raise C.ToolError("trace validation consumed only part of the trace: %s" % (v,))
        if tag_ == "MISSING":
            raise C.ToolError("family members missing from the trace: %s" % (str(v)[:400],))
    if res.distinct != n + 1:
        raise C.ToolError("trace validation visited %d states for %d events" % (res.distinct, n))
    events = C.read_ndjson(trace)
    for tag_, v in res.lines:
        if tag_ == "VERDICT":
            e = events[v["i"] - 1]
            if str(v.get("verdict", "")).startswith("TOOL-"):
                raise C.ToolError("%s: %s" % (v["verdict"], json.dumps(v)[:300]))
            out.verdict(v, _case_of(e))
    return res, events


def _case_of(e):
    """What a replay file needs to re-run the event: the text itself, or (family, n)."""
    c = {k: e[k] for k in ("family", "n", "len", "outcome", "signal", "ms", "gen", "msg") if k in e}
    if not e.get("text_omitted"):
        c["text"] = e["text"]
        c["as_string"] = "".join(chr(x) for x in e["text"])[:400]
    return c


_EXE = [None]


def _private_harness(wd):
    """Other checks rebuild harness/target/release/... while this one runs; a worker that re-executes
    itself must not lose its binary, so this run uses a private copy."""
    import shutil
    dst = os.path.join(wd, "harness-bin")
    for _ in range(60):
        try:
            shutil.copy2(C.HARNESS, dst)
            os.chmod(dst, 0o755)
            _EXE[0] = dst
            return
        except OSError:
            time.sleep(1)
    raise C.ToolError("harness binary not available")


def _harness(args, timeout=3000):
    import subprocess
    p = subprocess.run([_EXE[0]] + args, stdout=subprocess.PIPE, stderr=subprocess.PIPE, text=True,
                       timeout=timeout)
    if p.returncode != 0:
        C.log(p.stderr[-2000:])
        raise C.ToolError("harness %s exited %d" % (args[0], p.returncode))
    if p.stderr.strip():
        C.log("C03: harness: " + p.stderr.strip()[-300:])
    return p.stdout


def _run_inputs(inp, outp, chunk, family_default="garbage"):
    _harness(["doc-cost-run", "--in", inp, "--out", outp, "--limit-ms", str(LIMIT_MS),
                   "--jobs", str(JOBS), "--chunk", str(chunk), "--family-default", family_default],
                  timeout=3000)


def run(prop, tier):
    out = C.Outcome(prop, tier)
    out.level = "exploration"
    wd = C.workdir("c03")
    dense = tier == "thorough"
    try:
        _private_harness(wd)
        # 1. model check Cost.tla, emit the family members
        replay = os.path.join(wd, "families.replay")
        mc = C.run_tlc("MC_Cost", "MC_Cost_%s.cfg" % tier, "c03mc", to_file=replay, workers=8,
                       timeout=1700, keep_tags=["REPLAY"])
        C.tlc_must_pass(mc, "MC_Cost")
        out.add_tlc(mc)
        n_members = C.count_lines(replay)
        C.log("C03: MC_Cost %d members, %d states, %.1fs" % (n_members, mc.distinct, mc.wall))
        t1 = time.time()
        # 2. families through the workers (one process per member: a crash or a time-out of one
        #    member cannot delay or hide another)
        fam_ev = os.path.join(wd, "families.ev")
        _run_inputs(replay, fam_ev, 1)
        C.log("C03: families run in %.1fs" % (time.time() - t1))
        # 2b. the families whose RECURSION DEPTH grows with n, up to n = 300, once more through a worker built in the
        #     dev profile (unoptimized frames are several times larger: a limit that is safe in a release build need
        #     not be in the build a user tests with); same 2 MiB stack, same judge
        t1 = time.time()
        import shutil
        import subprocess
        dbg_src = C.build_harness_debug()
        dbg = os.path.join(wd, "harness-bin-debug")
        shutil.copy2(dbg_src, dbg)
        dbg_in = os.path.join(wd, "families.debug.replay")
        n_dbg = 0
        with open(replay) as f, open(dbg_in, "w") as g:
            for ln in f:
                u = C._unwrap(ln.rstrip("\n"))
                if u and u[1].get("family") in DEBUG_FAMILIES and u[1].get("n", 0) <= 300:
                    g.write(ln)
                    n_dbg += 1
        if n_dbg == 0:
            raise C.ToolError("no family member for the dev-profile pass")
        dbg_ev = os.path.join(wd, "families.debug.ev")
        p = subprocess.run([dbg, "doc-cost-run", "--in", dbg_in, "--out", dbg_ev, "--limit-ms", str(4 * LIMIT_MS),
                            "--jobs", str(JOBS), "--chunk", "1", "--family-default", "garbage"],
                           stdout=subprocess.PIPE, stderr=subprocess.PIPE, text=True, timeout=3000)
        if p.returncode != 0:
            C.log(p.stderr[-2000:])
            raise C.ToolError("dev-profile doc-cost-run exited %d" % p.returncode)
        with open(fam_ev, "a") as f, open(dbg_ev) as g:
            for ln in g:
                f.write(ln)
        out.extra["family_members_also_run_in_dev_profile"] = n_dbg
        C.log("C03: %d members run in the dev profile in %.1fs" % (n_dbg, time.time() - t1))
        t1 = time.time()
        # 3. garbage
        garbage = os.path.join(wd, "garbage.ndjson")
        n_garbage = int(os.environ.get("VERIF_C03_GARBAGE", GARBAGE[tier]))   # development aid
        _harness(["doc-cost-garbage", "--seed", str(C.seed()), "--count", str(n_garbage),
                  "--out", garbage])
        gar_ev = os.path.join(wd, "garbage.ev")
        _run_inputs(garbage, gar_ev, 256)
        C.log("C03: %d garbage inputs run in %.1fs" % (n_garbage, time.time() - t1))
        # 4. the inputs of the C01/C02 model, if that engine provides them
        mc_ev = None
        import docs
        mc_cases = getattr(docs, "mc_cases", None)
        if mc_cases is not None and not os.environ.get("VERIF_C03_NOMC"):
            t1 = time.time()
            try:
                path = mc_cases(wd, tier, light=(tier == "quick"))
            except Exception as e:      # that engine is under construction; its inputs are a bonus here
                C.log("C03: docs.mc_cases not usable (%s); skipped" % e)
                path = None
            if path and os.path.exists(path):
                mc_ev = os.path.join(wd, "mc.ev")
                _run_inputs(path, mc_ev, 256, family_default="mc")
                C.log("C03: %d inputs of MC_Doc generated and run in %.1fs"
                      % (C.count_lines(mc_ev), time.time() - t1))
        # 5. trace validation.  First slice: every family event, every event whose outcome is not
        #    ok/err, and as many of the other events as fit; further slices: the rest.
        #    Streamed: the event files of the thorough tier do not fit comfortably in memory.
        counts = {}
        total = 0
        n_fam = 0
        n_hot = 0
        max_slices = 1 if tier == "quick" else 60
        slice0 = os.path.join(wd, "c03.0.trace")
        hot_path = os.path.join(wd, "c03.hot")
        cold_paths = []
        cold_f = None
        cold_n = 0
        dropped = 0

        def outcome_of(ln):
            k = ln.find('"outcome":"')
            return ln[k + 11:ln.find('"', k + 11)] if k >= 0 else "?"

        with open(slice0, "w") as f0, open(hot_path, "w") as fh:
            for ln in open(fam_ev):
                if ln.strip():
                    f0.write(ln)
                    n_fam += 1
                    total += 1
                    o = outcome_of(ln)
                    counts[o] = counts.get(o, 0) + 1
            for p in (gar_ev, mc_ev):
                if not p:
                    continue
                for ln in open(p):
                    if not ln.strip():
                        continue
                    total += 1
                    o = outcome_of(ln)
                    counts[o] = counts.get(o, 0) + 1
                    if o not in ("ok", "err"):
                        fh.write(ln)
                        n_hot += 1
                        continue
                    if cold_f is None or cold_n >= TRACE_SLICE:
                        if cold_f is not None:
                            cold_f.close()
                            cold_f = None
                        if len(cold_paths) >= max_slices:
                            dropped += 1
                            continue
                        cold_paths.append(os.path.join(wd, "c03.cold%d" % len(cold_paths)))
                        cold_f = open(cold_paths[-1], "w")
                        cold_n = 0
                    cold_f.write(ln)
                    cold_n += 1
        if cold_f is not None:
            cold_f.close()
        # slice 0 = families + every event that is not ok/err + the first cold chunk
        with open(slice0, "a") as f0:
            for p in [hot_path] + cold_paths[:1]:
                with open(p) as g:
                    for ln in g:
                        f0.write(ln)
        slices = [slice0] + cold_paths[1:]
        validated = 0
        all_events = []
        for k, trace in enumerate(slices):
            res, events = _validate(out, trace, dense, k == 0, "c03tv%d" % k)
            validated += len(events)
            C.log("C03: Trace_Cost slice %d: %d events in %.1fs" % (k, len(events), res.wall))
            for e in events:
                # non-trivial: a family member, an input of the C01/C02 model, an accepted input (the
                # whole pipeline ran), a crash, or a mutated seed / structured document (rejected
                # late); random alphabet strings that are rejected do not count
                if e["outcome"] != "err" or e["family"] != "garbage" or \
                        e.get("gen") in ("splice", "token", "seed", "structured"):
                    out.nontriv([e["family"], e["n"], e["len"], e.get("text", [])[:64]])
            if k == 0:
                all_events = events
            os.unlink(trace)
        out.traces = validated
        out.evaluations = total
        for e in all_events[:3]:
            out.sample({"family": e["family"], "n": e["n"], "len": e["len"], "outcome": e["outcome"],
                        "ms": e["ms"]})
        for e in all_events[n_fam + n_hot:n_fam + n_hot + 3]:
            out.sample({"family": e["family"], "gen": e.get("gen"), "outcome": e["outcome"],
                        "text": "".join(chr(x) for x in e.get("text", []))[:120]}, limit=6)
        out.rule = ("one evaluation = one run of the pipeline from_raw -> Display -> pretty -> DOM walk forcing "
                    "every attribute value / reference value / text data (raw and text-expanded context) in a "
                    "worker process; judged by Trace_Cost.tla against the call machine of Cost.tla (only Return "
                    "and Error exist). Non-trivial = family member, input of the C01/C02 model, accepted input, crash, or "
                    "mutated seed document; rejected random-alphabet strings are not counted; distinct by "
                    "(family, n, length, first 64 code points); counted over every event put through TLC")
        out.assumptions = [
            "wall-clock limit per call %d ms (the only time-related verdict; a time-out is re-run once with "
            "nothing else running and must reproduce), worker stack %d MiB, %d workers"
            % (LIMIT_MS, STACK_MIB, JOBS),
            "families and bounds N as in spec/Cost.tla (MaxN); exponential families (content-model groups, "
            "entity cycles, doubling chain) run for every n <= N in the thorough tier and for ~10 values "
            "incl. N in the quick tier; linear families are sampled (Cost!Sample)",
            "garbage inputs: %d seeded (seed %d) strings <= ~600 code points: markup alphabet, char-level "
            "splices and token-level mutations of 12 seed documents, structured documents with random entity "
            "graphs (cycles, undeclared, external, unparsed, parameter entities), ATTLIST defaults and nesting" % (n_garbage, C.seed()),
            "events validated by TLC: %d of %d (every family event and every event that is not ok/err in the "
            "first TLC run; the ok/err events in TLC runs of %d events each; %d ok/err events beyond %d runs "
            "not put through TLC)" % (validated, total, TRACE_SLICE, dropped, max_slices),
            "inputs of the C01/C02 model: %s" % ("included" if mc_ev else "not available in this run"),
            "memory exhaustion is not observed separately (it would surface as abort)",
        ]
        out.extra["family_members"] = n_members
        out.extra["garbage_inputs"] = n_garbage
        out.extra["outcomes"] = counts
        return out.finish()
    finally:
        C.cleanup(wd)


def replay(prop, path):
    """Re-run the stored case (its text, or the family member) against the current tree."""
    out = C.Outcome(prop, "quick")
    out.level = "exploration"
    wd = C.workdir("c03r")
    try:
        _private_harness(wd)
        v = json.load(open(path))
        case = v.get("case", v)
        inp = os.path.join(wd, "r.in")
        if "text" in case:
            with open(inp, "w") as f:
                f.write(json.dumps({"family": case.get("family", "garbage")
                                    if case.get("family") in ("garbage", "mc") else "garbage",
                                    "n": case.get("n", 1), "text": case["text"],
                                    "gen": case.get("gen", "")}) + "\n")
        else:
            # regenerate the member from the specification
            fam, n = case["family"], case["n"]
            cfgname = "MC_Cost.%d.cfg" % os.getpid()
            tlaname = "MC_CostOne_%d" % os.getpid()
            try:
                # variables of Cost are unused here; TLC evaluates the ASSUME only
                with open(os.path.join(C.SPEC, tlaname + ".tla"), "w") as f:
                    f.write("---- MODULE %s ----\nEXTENDS TLC, Json\nVARIABLES pc, inp\n"
                            "INSTANCE Cost\n"
                            "ASSUME PrintT(<<\"REPLAY\", ToJson([family |-> \"%s\", n |-> %d, "
                            "text |-> Render(\"%s\", %d)])>>)\n"
                            "Spec == pc = \"idle\" /\\ inp = NoInput /\\ [][FALSE]_<<pc, inp>>\n====\n"
                            % (tlaname, fam, n, fam, n))
                C.write_cfg(os.path.join(C.SPEC, cfgname), ["SPECIFICATION Spec", "CHECK_DEADLOCK FALSE"])
                res = C.run_tlc(tlaname, cfgname, "c03one", to_file=inp, workers=1, timeout=600,
                                keep_tags=["REPLAY"])
                C.tlc_must_pass(res, "rendering the family member")
            finally:
                for p in (cfgname, tlaname + ".tla"):
                    try:
                        os.unlink(os.path.join(C.SPEC, p))
                    except OSError:
                        pass
        trace = os.path.join(wd, "r.trace")
        _run_inputs(inp, trace, 1)
        _validate(out, trace, False, False, "c03rv")
        ev = C.read_ndjson(trace)
        out.traces = len(ev)
        out.evaluations = len(ev)
        out.nontrivial_count = len(ev)
        for e in ev:
            out.sample({k: e[k] for k in ("family", "n", "len", "outcome", "signal", "ms")})
        out.rule = "replay of one stored case"
        out.assumptions = ["wall-clock limit %d ms, worker stack %d MiB" % (LIMIT_MS, STACK_MIB)]
        return out.finish()
    finally:
        C.cleanup(wd)
