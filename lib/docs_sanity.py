#!/usr/bin/env python3
"""Development aid (never part of a registered command, decides no property): feed the documents of a
REPLAY file to python's expat and list disagreements between the SPECIFICATION's verdict / character
data / attributes and expat's.  Disagreements are leads for reviewing the spec against the W3C text."""
import json
import re
import sys
import xml.parsers.expat as X


def unwrap(line):
    m = re.match(r'<<"REPLAY", (.*)>>\s*$', line)
    if not m:
        return None
    return json.loads(json.loads(m.group(1)))


def s(cps):
    return "".join(chr(c) for c in cps)


def expat_view(text):
    p = X.ParserCreate()          # namespace-unaware
    p.buffer_text = True
    nodes = []
    stack = [0]
    p.ordered_attributes = False

    def start(name, attrs):
        nodes.append({"k": "elem", "p": stack[-1], "n": name, "a": dict(attrs)})
        stack.append(len(nodes))

    def end(name):
        stack.pop()

    def chars(d):
        if nodes and nodes[-1]["k"] == "chars" and nodes[-1]["p"] == stack[-1]:
            nodes[-1]["v"] += d
        else:
            nodes.append({"k": "chars", "p": stack[-1], "v": d})

    def comment(d):
        nodes.append({"k": "comment", "p": stack[-1], "v": d})

    def pi(t, d):
        nodes.append({"k": "pi", "p": stack[-1], "n": t, "v": d})
    p.StartElementHandler = start
    p.EndElementHandler = end
    p.CharacterDataHandler = chars
    p.CommentHandler = comment
    p.ProcessingInstructionHandler = pi
    indtd = [False]

    def sd(*a):
        indtd[0] = True

    def ed():
        indtd[0] = False
    p.StartDoctypeDeclHandler = sd
    p.EndDoctypeDeclHandler = ed
    p.SetParamEntityParsing(X.XML_PARAM_ENTITY_PARSING_NEVER)
    try:
        p.Parse(text.encode("utf-8"), True)
    except X.ExpatError as e:
        return None, str(e)
    except Exception as e:          # e.g. an encoding name expat does not know
        return "skip", str(e)
    return nodes, None


def spec_view(tree):
    out = []
    for nd in tree["nodes"]:
        if nd["k"] == "elem":
            out.append({"k": "elem", "p": nd["p"], "n": s(nd["n"]),
                        "a": {s(a["n"]): s(a["v"]) for a in nd["a"]}})
        elif nd["k"] == "chars":
            out.append({"k": "chars", "p": nd["p"], "v": s(nd["v"])})
        elif nd["k"] == "comment":
            out.append({"k": "comment", "p": nd["p"], "v": s(nd["v"])})
        else:
            out.append({"k": "pi", "p": nd["p"], "n": s(nd["n"]), "v": s(nd["v"])})
    return out


def main(path, limit=20):
    n = bad = 0
    for line in open(path):
        c = unwrap(line)
        if c is None:
            continue
        n += 1
        text = s(c["text"])
        nodes, err = expat_view(text)
        if nodes == "skip":
            continue
        if "ParameterEntity" in c["viol"]:
            continue
        issue = None
        if c["wf"] and nodes is None:
            issue = "spec wf, expat rejects: " + err
        elif not c["wf"] and nodes is not None:
            issue = "spec ill-formed %s, expat accepts" % c["viol"]
        elif c["wf"] and c.get("inprofile", True):
            # expat reports DTD-internal PIs/comments through the same handlers; drop them
            sv = spec_view(c["tree"])
            ev = nodes
            # expat: comments / PIs inside the DTD arrive as top-level items: filter by count
            if c["tree"]["doctype"]["present"]:
                # remove items that the spec attributes to the DTD: compare only from the root element on
                def from_root(v):
                    i = next(i for i, x in enumerate(v) if x["k"] == "elem")
                    return v[i:]
                sv2, ev2 = from_root(sv), from_root(ev)
                # parent indices shift: renumber
                def renum(v):
                    base = None
                    out = []
                    for x in v:
                        out.append({k: val for k, val in x.items() if k != "p"})
                    return out
                if renum(sv2) != renum(ev2):
                    issue = "tree differs (from root): spec %r expat %r" % (sv2, ev2)
            elif sv != ev:
                issue = "tree differs: spec %r expat %r" % (sv, ev)
        if issue:
            bad += 1
            if bad <= limit:
                print(repr(text))
                print("   ", issue)
    print("%d cases, %d disagreements" % (n, bad))


if __name__ == "__main__":
    main(sys.argv[1], int(sys.argv[2]) if len(sys.argv) > 2 else 20)
