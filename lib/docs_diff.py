#!/usr/bin/env python3
"""Development aid: first difference between the observed projection and the REPLAY expectation."""
import collections, json, re, sys

def s(c): return "".join(chr(x) for x in c)

def canon(t):
    t = json.loads(json.dumps(t))
    for n in t["nodes"]:
        n["a"].sort(key=json.dumps)
    t["doctype"]["uents"] = sorted({json.dumps(x, sort_keys=True) for x in t["doctype"]["uents"]})
    t["doctype"]["nots"] = sorted({json.dumps(x, sort_keys=True) for x in t["doctype"]["nots"]})
    t.pop("errs", None)
    return t

def show(x):
    if isinstance(x, dict):
        return {k: (s(v) if isinstance(v, list) and v and isinstance(v[0], int) else show(v)) for k, v in x.items()}
    if isinstance(x, list):
        return [show(v) for v in x]
    return x

def main(replay, obs, limit=12):
    exp = []
    for l in open(replay):
        m = re.match(r'<<"REPLAY", (.*)>>\s*$', l)
        exp.append(json.loads(json.loads(m.group(1))))
    ev = [json.loads(l) for l in open(obs)]
    assert len(exp) == len(ev)
    cat = collections.Counter()
    shown = 0
    for e, x in zip(ev, exp):
        if e["fast"] or not (x["wf"] and x["inprofile"]):
            continue
        for view in ("raw", "merged"):
            v = e[view]
            if v["parse"] != "ok" or v["rest"] != 0:
                key = (view, "not accepted", v["parse"], v["rest"])
                d = None
            else:
                a, b = canon(v["proj"]), canon(x["tree"])
                key = None
                for part in ("xmldecl", "doctype"):
                    if a[part] != b[part]:
                        key = (view, part); d = (show(a[part]), show(b[part])); break
                if key is None:
                    if len(a["nodes"]) != len(b["nodes"]):
                        key = (view, "node count"); d = (len(a["nodes"]), len(b["nodes"]))
                    for m, n in zip(a["nodes"], b["nodes"]):
                        if m != n:
                            fields = tuple(k for k in n if m.get(k) != n[k])
                            key = (view, "node", n["k"], fields); d = (show(m), show(n)); break
                if key is None:
                    if "errs" in v["proj"]:
                        key = (view, "errs", tuple(v["proj"]["errs"][:1])); d = None
                    else:
                        continue
            cat[key] += 1
            if cat[key] <= 2 and shown < limit:
                shown += 1
                print("==", key, repr(s(e["text"]))[:300])
                if d: print("   OBS", d[0]); print("   EXP", d[1])
    for k, v in cat.most_common():
        print(v, k)

if __name__ == "__main__":
    main(sys.argv[1], sys.argv[2], int(sys.argv[3]) if len(sys.argv) > 3 else 12)
